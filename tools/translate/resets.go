package main

func genResets(byDir map[string]*parsed) []*genFile { return nil }
