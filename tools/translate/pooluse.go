package main

import (
	"go/ast"
	"go/token"
	"go/types"
	"sort"
	"strings"
)

// genPoolUse checks the discipline every user of the pooled RuntimeContext must
// follow, syntactically and conservatively, and records what it finds:
//   - nothing that may alias a context (the context, slices cut from its
//     buffers, results of calls that received one) is mentioned after the
//     context has been released on that path;
//   - nothing that may alias a context is returned to the caller;
//   - Unmarshal* work on a fresh copy of the input (make + copy).
// "May alias": variables of slice, pointer, map, chan, func, struct or
// non-error interface type assigned from an expression that mentions an
// aliasing variable outside len(), cap() and make().

type poolFn struct {
	dir  string
	file string
	fd   *ast.FuncDecl
	p    *parsed
}

func isTakeCall(e ast.Expr, fset *token.FileSet) bool {
	ce, ok := e.(*ast.CallExpr)
	if !ok {
		return false
	}
	t := nodeText(fset, ce.Fun)
	return strings.HasSuffix(t, "TakeRuntimeContext") || t == "takeIndentSrcRuntimeContext"
}

func releaseArg(s ast.Stmt, fset *token.FileSet) string {
	es, ok := s.(*ast.ExprStmt)
	if !ok {
		return ""
	}
	ce, ok := es.X.(*ast.CallExpr)
	if !ok || len(ce.Args) != 1 {
		return ""
	}
	if !strings.HasSuffix(nodeText(fset, ce.Fun), "ReleaseRuntimeContext") {
		return ""
	}
	if id, ok := ce.Args[0].(*ast.Ident); ok {
		return id.Name
	}
	return "?"
}

func canAlias(t types.Type) bool {
	if t == nil {
		return true
	}
	if t.String() == "error" {
		return false
	}
	switch u := t.Underlying().(type) {
	case *types.Basic:
		// a type the lenient checker could not resolve may be anything
		if u.Kind() == types.Invalid {
			unresolvedTypes++
		}
		return u.Kind() == types.UnsafePointer || u.Kind() == types.Invalid
	case *types.Slice, *types.Pointer, *types.Map, *types.Chan, *types.Signature, *types.Struct, *types.Interface, *types.Array:
		return true
	}
	return false
}

var unresolvedTypes int

type poolAn struct {
	p       *parsed
	taint   map[string]map[string]bool // variable -> roots it may alias
	dead    map[string]bool            // released roots on the current path
	fresh   map[string]bool            // variables defined by make(...) in this function
	onlyBuf map[string]bool            // roots whose type owns no byte memory besides Buf
	ownBuf  map[string]bool            // roots whose Buf field was replaced by such a fresh slice: byte memory reached through them is the function's own
	uar     []string                   // use after release
	ret     []string                   // returns pooled memory
	fnName  string
}

// mentions returns the roots of aliasing variables mentioned in e outside len/cap/make
func (a *poolAn) mentions(e ast.Node) map[string]bool {
	res := map[string]bool{}
	if e == nil {
		return res
	}
	ast.Inspect(e, func(n ast.Node) bool {
		switch x := n.(type) {
		case *ast.CallExpr:
			f := nodeText(a.p.fset, x.Fun)
			if f == "len" || f == "cap" || f == "make" {
				return false
			}
		case *ast.FuncLit:
			return true
		case *ast.Ident:
			for r := range a.taint[x.Name] {
				res[r] = true
			}
		}
		return true
	})
	return res
}

func isByteMemory(t types.Type) bool {
	if t == nil {
		return false
	}
	switch t.String() {
	case "[]byte", "[][]byte", "string", "[]uint8", "[][]uint8":
		return true
	}
	return false
}

// typeOnlyOwnsBuf: the context type has exactly one field that can hold byte memory, named Buf
func (a *poolAn) typeOnlyOwnsBuf(id *ast.Ident) bool {
	t := a.typeOf(id)
	if t == nil {
		return false
	}
	if p, ok := t.Underlying().(*types.Pointer); ok {
		t = p.Elem()
	}
	st, ok := t.Underlying().(*types.Struct)
	if !ok {
		return false
	}
	for i := 0; i < st.NumFields(); i++ {
		f := st.Field(i)
		if f.Name() == "Buf" && f.Type().String() == "[]byte" {
			continue
		}
		if f.Name() == "Option" {
			// options hold no byte buffers: checked field by field
			if p, ok := f.Type().Underlying().(*types.Pointer); ok {
				if os, ok := p.Elem().Underlying().(*types.Struct); ok {
					okAll := true
					for j := 0; j < os.NumFields(); j++ {
						if isByteMemory(os.Field(j).Type()) {
							okAll = false
						}
					}
					if okAll {
						continue
					}
				}
			}
		}
		return false
	}
	return true
}

func (a *poolAn) typeOf(id *ast.Ident) types.Type {
	if a.p.info == nil {
		return nil
	}
	if o := a.p.info.Defs[id]; o != nil {
		return o.Type()
	}
	if o := a.p.info.Uses[id]; o != nil {
		return o.Type()
	}
	return nil
}

func (a *poolAn) checkDead(n ast.Node, what string) {
	for r := range a.mentions(n) {
		if a.dead[r] {
			a.uar = append(a.uar, a.fnName+": "+what+" `"+clipText(nodeText(a.p.fset, n))+"` after "+r+" was released")
			return
		}
	}
}

func clipText(s string) string {
	if len(s) > 90 {
		return s[:90] + "..."
	}
	return s
}

func copyBoolMap(m map[string]bool) map[string]bool {
	r := map[string]bool{}
	for k, v := range m {
		r[k] = v
	}
	return r
}

// block walks statements; returns true if the block always leaves the function
func (a *poolAn) block(list []ast.Stmt) bool {
	for _, s := range list {
		if a.stmt(s) {
			return true
		}
	}
	return false
}

func (a *poolAn) assign(lhs []ast.Expr, rhs []ast.Expr, define bool) {
	var roots map[string]bool
	takes := false
	for _, r := range rhs {
		if isTakeCall(r, a.p.fset) {
			takes = true
		}
	}
	if !takes {
		roots = map[string]bool{}
		for _, r := range rhs {
			for k := range a.mentions(r) {
				roots[k] = true
			}
		}
	}
	for i, l := range lhs {
		id, ok := l.(*ast.Ident)
		if !ok {
			// store through a selector or index: a use of the left-hand side's base
			a.checkDead(l, "store to")
			if se, ok := l.(*ast.SelectorExpr); ok && se.Sel.Name == "Buf" && i < len(rhs) {
				if base, ok := se.X.(*ast.Ident); ok {
					if rid, ok := rhs[i].(*ast.Ident); ok && a.fresh[rid.Name] {
						for root := range a.taint[base.Name] {
							a.ownBuf[root] = true
						}
					} else {
						for root := range a.taint[base.Name] {
							delete(a.ownBuf, root)
						}
					}
				}
			}
			continue
		}
		if i < len(rhs) && len(lhs) == len(rhs) {
			if ce, ok := rhs[i].(*ast.CallExpr); ok && nodeText(a.p.fset, ce.Fun) == "make" {
				a.fresh[id.Name] = true
			} else {
				delete(a.fresh, id.Name)
			}
		}
		if id.Name == "_" {
			continue
		}
		if takes {
			// a fresh root; the first result is the context itself
			root := id.Name
			if i > 0 {
				if first, ok := lhs[0].(*ast.Ident); ok {
					root = first.Name
				}
			}
			a.taint[id.Name] = map[string]bool{root: true}
			delete(a.dead, root)
			if i == 0 {
				a.onlyBuf[root] = a.typeOnlyOwnsBuf(id)
			}
			continue
		}
		if len(roots) > 0 && isByteMemory(a.typeOf(id)) {
			// byte memory reached through a context whose only byte buffer is the function's own fresh slice
			own := true
			for r := range roots {
				if !a.ownBuf[r] || !a.onlyBuf[r] {
					own = false
				}
			}
			if own {
				delete(a.taint, id.Name)
				continue
			}
		}
		if len(roots) > 0 && canAlias(a.typeOf(id)) {
			a.taint[id.Name] = copyBoolMap(roots)
		} else {
			delete(a.taint, id.Name)
		}
	}
}

func (a *poolAn) stmt(s ast.Stmt) bool {
	switch x := s.(type) {
	case *ast.ExprStmt:
		if r := releaseArg(x, a.p.fset); r != "" {
			for root := range a.taint[r] {
				if a.dead[root] {
					a.uar = append(a.uar, a.fnName+": "+r+" released twice")
				}
				a.dead[root] = true
			}
			return false
		}
		a.checkDead(x.X, "use")
	case *ast.AssignStmt:
		for _, r := range x.Rhs {
			a.checkDead(r, "use")
		}
		a.assign(x.Lhs, x.Rhs, x.Tok == token.DEFINE)
	case *ast.DeclStmt:
		a.checkDead(x, "use")
	case *ast.ReturnStmt:
		for _, r := range x.Results {
			a.checkDead(r, "use")
			if m := a.mentions(r); len(m) > 0 {
				// a returned expression of a type that can alias
				alias := true
				if a.p.info != nil {
					if tv, ok := a.p.info.Types[r]; ok {
						alias = canAlias(tv.Type)
					}
				}
				if alias {
					a.ret = append(a.ret, a.fnName+": returns `"+clipText(nodeText(a.p.fset, r))+"` which may alias a pooled context")
				}
			}
		}
		return true
	case *ast.IfStmt:
		if x.Init != nil {
			a.stmt(x.Init)
		}
		a.checkDead(x.Cond, "use")
		saveT, saveD := a.taint, a.dead
		a.taint, a.dead = copyTaint(saveT), copyBoolMap(saveD)
		exitsThen := a.block(x.Body.List)
		thenT, thenD := a.taint, a.dead
		a.taint, a.dead = copyTaint(saveT), copyBoolMap(saveD)
		exitsElse := false
		if x.Else != nil {
			switch e := x.Else.(type) {
			case *ast.BlockStmt:
				exitsElse = a.block(e.List)
			case *ast.IfStmt:
				exitsElse = a.stmt(e)
			}
		}
		elseT, elseD := a.taint, a.dead
		switch {
		case exitsThen && exitsElse:
			return true
		case exitsThen:
			a.taint, a.dead = elseT, elseD
		case exitsElse:
			a.taint, a.dead = thenT, thenD
		default:
			a.taint, a.dead = mergeTaint(thenT, elseT), mergeBool(thenD, elseD)
		}
	case *ast.ForStmt:
		if x.Init != nil {
			a.stmt(x.Init)
		}
		a.checkDead(x.Cond, "use")
		a.block(x.Body.List)
		if x.Post != nil {
			a.stmt(x.Post)
		}
	case *ast.RangeStmt:
		a.checkDead(x.X, "use")
		a.block(x.Body.List)
	case *ast.BlockStmt:
		return a.block(x.List)
	case *ast.SwitchStmt:
		if x.Init != nil {
			a.stmt(x.Init)
		}
		a.checkDead(x.Tag, "use")
		for _, c := range x.Body.List {
			a.block(c.(*ast.CaseClause).Body)
		}
	case *ast.DeferStmt:
		// a deferred release runs after everything else: nothing to do; any other deferred use is checked as a use
		if !strings.HasSuffix(nodeText(a.p.fset, x.Call.Fun), "ReleaseRuntimeContext") {
			a.checkDead(x.Call, "use")
		}
	default:
		a.checkDead(s, "use")
	}
	return false
}

func copyTaint(m map[string]map[string]bool) map[string]map[string]bool {
	r := map[string]map[string]bool{}
	for k, v := range m {
		r[k] = copyBoolMap(v)
	}
	return r
}

func mergeTaint(a, b map[string]map[string]bool) map[string]map[string]bool {
	r := copyTaint(a)
	for k, v := range b {
		if r[k] == nil {
			r[k] = map[string]bool{}
		}
		for x := range v {
			r[k][x] = true
		}
	}
	return r
}

func mergeBool(a, b map[string]bool) map[string]bool {
	r := copyBoolMap(a)
	for k, v := range b {
		if v {
			r[k] = true
		}
	}
	return r
}

func genPoolUse(byDir map[string]*parsed) []*genFile {
	g := &genFile{name: "PoolUse.v"}
	g.pf("(* GENERATED by tools/translate (pooluse.go): discipline of the pooled RuntimeContext and of the input copy - do not edit. *)\nFrom Coq Require Import List String.\nImport ListNotations.\nOpen Scope string_scope.\n\n")
	var fns []poolFn
	for _, dir := range []string{".", "internal/encoder", "internal/decoder"} {
		p := byDir[dir]
		var names []string
		for n := range p.files {
			names = append(names, n)
		}
		sort.Strings(names)
		for _, fn := range names {
			if strings.HasPrefix(fn, "verif_") {
				continue
			}
			for _, d := range p.files[fn].Decls {
				fd, ok := d.(*ast.FuncDecl)
				if !ok || fd.Body == nil {
					continue
				}
				uses := false
				ast.Inspect(fd.Body, func(n ast.Node) bool {
					if ce, ok := n.(*ast.CallExpr); ok && isTakeCall(ce, p.fset) {
						uses = true
					}
					return true
				})
				if uses {
					fns = append(fns, poolFn{dir, fn, fd, p})
				}
			}
		}
	}
	var uar, ret, names []string
	for _, f := range fns {
		name := f.dir + "/" + f.file + ":" + f.fd.Name.Name
		if f.fd.Name.Name == "takeIndentSrcRuntimeContext" || f.fd.Name.Name == "TakeRuntimeContext" {
			continue // hands the context to its caller by design; callers are analysed with it as a root
		}
		names = append(names, name)
		a := &poolAn{p: f.p, taint: map[string]map[string]bool{}, dead: map[string]bool{}, fnName: name,
			fresh: map[string]bool{}, ownBuf: map[string]bool{}, onlyBuf: map[string]bool{}}
		a.block(f.fd.Body.List)
		uar = append(uar, a.uar...)
		ret = append(ret, a.ret...)
	}
	emit := func(def string, l []string) {
		g.pf("Definition %s : list string := [", def)
		for i, s := range l {
			if i > 0 {
				g.pf(";")
			}
			g.pf("\n  \"%s\"", strings.ReplaceAll(s, "\"", "'"))
		}
		g.pf("].\n\n")
	}
	g.pf("(* functions that take a context from the pool *)\n")
	emit("pool_functions", names)
	g.pf("(* something that may alias a released context is mentioned afterwards *)\n")
	emit("pool_use_after_release", uar)
	g.pf("(* something that may alias a pooled context is returned to the caller *)\n")
	emit("pool_returns_pooled", ret)

	// Unmarshal*: the private copy of the input
	root := byDir["."]
	var notFresh []string
	nUn := 0
	if f := root.files["decode.go"]; f != nil {
		for _, d := range f.Decls {
			fd, ok := d.(*ast.FuncDecl)
			if !ok || fd.Body == nil || !strings.HasPrefix(fd.Name.Name, "unmarshal") {
				continue
			}
			nUn++
			mk, cp := false, false
			for _, s := range fd.Body.List {
				t := nodeText(root.fset, s)
				if t == "src := make([]byte, len(data)+1)" {
					mk = true
				}
				if t == "copy(src, data)" && mk {
					cp = true
				}
				// any other definition of src defeats the copy
				if as, ok := s.(*ast.AssignStmt); ok && len(as.Lhs) == 1 && nodeText(root.fset, as.Lhs[0]) == "src" && t != "src := make([]byte, len(data)+1)" {
					mk, cp = false, false
					notFresh = append(notFresh, "./decode.go:"+fd.Name.Name+": src is defined by `"+clipText(t)+"`")
				}
			}
			if !(mk && cp) {
				notFresh = append(notFresh, "./decode.go:"+fd.Name.Name+": no `src := make([]byte, len(data)+1); copy(src, data)`")
			}
		}
	}
	g.pf("(* decode.go unmarshal*: functions that do not decode from a fresh make+copy of the caller's bytes *)\n")
	g.pf("Definition unmarshal_functions : nat := %d.\n", nUn)
	emit("unmarshal_input_not_copied", notFresh)
	// bytes handed to user callbacks (UnmarshalJSON / UnmarshalText): a fresh copy or a slice of the call's private buffer, never the stream window
	dec := byDir["internal/decoder"]
	nsites := 0
	var streamAlias []string
	var dnames []string
	for n := range dec.files {
		dnames = append(dnames, n)
	}
	sort.Strings(dnames)
	for _, fn := range dnames {
		if strings.HasPrefix(fn, "verif_") {
			continue
		}
		for _, d := range dec.files[fn].Decls {
			fd, ok := d.(*ast.FuncDecl)
			if !ok || fd.Body == nil {
				continue
			}
			// all assignments in the function: name -> right-hand sides
			defs := map[string][]ast.Expr{}
			copied := map[string]bool{}
			ast.Inspect(fd.Body, func(n ast.Node) bool {
				switch x := n.(type) {
				case *ast.AssignStmt:
					for i, l := range x.Lhs {
						id, ok := l.(*ast.Ident)
						if !ok {
							continue
						}
						if len(x.Rhs) == len(x.Lhs) {
							defs[id.Name] = append(defs[id.Name], x.Rhs[i])
						} else if len(x.Rhs) == 1 {
							defs[id.Name] = append(defs[id.Name], x.Rhs[0])
						}
					}
				case *ast.CallExpr:
					if nodeText(dec.fset, x.Fun) == "copy" && len(x.Args) == 2 {
						if id, ok := x.Args[0].(*ast.Ident); ok {
							copied[id.Name] = true
						}
					}
				}
				return true
			})
			var resolve func(e ast.Expr, depth int) string
			resolve = func(e ast.Expr, depth int) string {
				if depth > 8 {
					return "unknown"
				}
				switch x := e.(type) {
				case *ast.Ident:
					rs, ok := defs[x.Name]
					if !ok {
						return "param:" + x.Name
					}
					worst := "fresh"
					for _, r := range rs {
						k := resolve(r, depth+1)
						if k == "fresh" && !copied[x.Name] {
							k = "fresh"
						}
						if k != "fresh" {
							worst = k
						}
						if k == "stream" {
							return "stream"
						}
					}
					return worst
				case *ast.SliceExpr:
					t := nodeText(dec.fset, x.X)
					if t == "s.buf" {
						return "stream"
					}
					return resolve(x.X, depth+1)
				case *ast.CallExpr:
					f := nodeText(dec.fset, x.Fun)
					if f == "make" {
						return "fresh"
					}
					if f == "unquoteBytes" && len(x.Args) == 1 {
						return resolve(x.Args[0], depth+1)
					}
					return "call:" + f
				case *ast.SelectorExpr:
					if nodeText(dec.fset, x) == "s.buf" {
						return "stream"
					}
					return "field:" + nodeText(dec.fset, x)
				}
				return "unknown"
			}
			ast.Inspect(fd.Body, func(n ast.Node) bool {
				ce, ok := n.(*ast.CallExpr)
				if !ok {
					return true
				}
				se, ok := ce.Fun.(*ast.SelectorExpr)
				if !ok || (se.Sel.Name != "UnmarshalJSON" && se.Sel.Name != "UnmarshalText") || len(ce.Args) == 0 {
					return true
				}
				nsites++
				arg := ce.Args[len(ce.Args)-1]
				if k := resolve(arg, 0); k == "stream" {
					streamAlias = append(streamAlias, "internal/decoder/"+fn+":"+fd.Name.Name+": "+se.Sel.Name+" receives `"+nodeText(dec.fset, arg)+"`, a slice of the stream window")
				}
				return true
			})
		}
	}
	g.pf("(* internal/decoder: calls of UnmarshalJSON / UnmarshalText, and those that are handed a slice of the stream window (s.buf) without a copy *)\n")
	g.pf("Definition callback_sites : nat := %d.\n", nsites)
	emit("callback_gets_stream_window", streamAlias)
	// encoder side: what MarshalJSON / MarshalText return is only read
	cbw, cbsites := callbackResultWrites(byDir["internal/encoder"])
	g.pf("(* internal/encoder: calls of MarshalJSON / MarshalText, and the places that write through the slice such a call\n   returned (append to it, assign an element, copy into it), followed through assignments and calls *)\n")
	g.pf("Definition marshaler_call_sites : nat := %d.\n", cbsites)
	emit("marshaler_result_written", cbw)
	facts["marshaler_call_sites"] = cbsites
	facts["marshaler_result_written"] = cbw
	facts["callback_sites"] = nsites
	facts["callback_gets_stream_window"] = streamAlias
	facts["pool_unresolved_types"] = unresolvedTypes
	facts["pool_functions"] = names
	facts["pool_use_after_release"] = uar
	facts["pool_returns_pooled"] = ret
	facts["unmarshal_input_not_copied"] = notFresh
	return []*genFile{g}
}
