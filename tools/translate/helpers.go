package main

func genHelpers(byDir map[string]*parsed) []*genFile { return nil }
