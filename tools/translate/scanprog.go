package main

import (
	"fmt"
	"go/ast"
	"go/token"
	"strconv"
	"strings"
)

// genScanProgs translates the byte scanners that walk a slice with one index
//
//	func f(s []byte) bool { i, n := 0, len(s); if ... { i++ } ...; for cond { i++ }; return i == n }
//
// into programs of coq/Base/ScanProg.v, statement by statement and condition by condition.  Chains of && and of
// || are written right-nested (Go evaluates them left to right and stops early either way).  Anything outside
// the language becomes `Unknown`, on which the interpreter is stuck, so that no theorem about the program holds.
type scanTr struct {
	p   *parsed
	bad []string
}

func (t *scanTr) lit(e ast.Expr) (string, bool) {
	switch x := e.(type) {
	case *ast.BasicLit:
		switch x.Kind {
		case token.CHAR:
			r, _, _, err := strconv.UnquoteChar(x.Value[1:len(x.Value)-1], '\'')
			if err == nil && r < 256 {
				return strconv.Itoa(int(r)), true
			}
		case token.INT:
			if n, err := strconv.ParseInt(x.Value, 0, 64); err == nil && n >= 0 && n < 256 {
				return strconv.FormatInt(n, 10), true
			}
		}
	case *ast.ParenExpr:
		return t.lit(x.X)
	}
	return "", false
}

func isIdent(e ast.Expr, name string) bool {
	id, ok := e.(*ast.Ident)
	return ok && id.Name == name
}

func isAt(e ast.Expr) bool { // s[i]
	ix, ok := e.(*ast.IndexExpr)
	return ok && isIdent(ix.X, "s") && isIdent(ix.Index, "i")
}

func (t *scanTr) flatten(e ast.Expr, op token.Token, out *[]ast.Expr) {
	if p, ok := e.(*ast.ParenExpr); ok {
		if b, ok := p.X.(*ast.BinaryExpr); ok && b.Op == op {
			t.flatten(p.X, op, out)
			return
		}
	}
	if b, ok := e.(*ast.BinaryExpr); ok && b.Op == op {
		t.flatten(b.X, op, out)
		t.flatten(b.Y, op, out)
		return
	}
	*out = append(*out, e)
}

func (t *scanTr) cond(e ast.Expr) (string, bool) {
	switch x := e.(type) {
	case *ast.ParenExpr:
		return t.cond(x.X)
	case *ast.BinaryExpr:
		switch x.Op {
		case token.LAND, token.LOR:
			var parts []ast.Expr
			t.flatten(x, x.Op, &parts)
			name := "And"
			if x.Op == token.LOR {
				name = "Or"
			}
			res := ""
			for k := len(parts) - 1; k >= 0; k-- {
				c, ok := t.cond(parts[k])
				if !ok {
					return "", false
				}
				if res == "" {
					res = c
				} else {
					res = "(" + name + " " + c + " " + res + ")"
				}
			}
			return res, true
		case token.LSS:
			if isIdent(x.X, "i") && isIdent(x.Y, "n") {
				return "InRange", true
			}
			if c, ok := t.lit(x.Y); ok && isAt(x.X) {
				return "(AtLt " + c + ")", true
			}
			if c, ok := t.lit(x.X); ok && isAt(x.Y) {
				return "(AtGt " + c + ")", true
			}
		case token.GTR:
			if c, ok := t.lit(x.Y); ok && isAt(x.X) {
				return "(AtGt " + c + ")", true
			}
			if c, ok := t.lit(x.X); ok && isAt(x.Y) {
				return "(AtLt " + c + ")", true
			}
		case token.LEQ:
			if c, ok := t.lit(x.Y); ok && isAt(x.X) {
				return "(AtLe " + c + ")", true
			}
			if c, ok := t.lit(x.X); ok && isAt(x.Y) {
				return "(AtGe " + c + ")", true
			}
		case token.GEQ:
			if c, ok := t.lit(x.Y); ok && isAt(x.X) {
				return "(AtGe " + c + ")", true
			}
			if c, ok := t.lit(x.X); ok && isAt(x.Y) {
				return "(AtLe " + c + ")", true
			}
		case token.EQL:
			if isIdent(x.X, "i") && isIdent(x.Y, "n") || isIdent(x.X, "n") && isIdent(x.Y, "i") {
				return "AtEnd", true
			}
			if c, ok := t.lit(x.Y); ok && isAt(x.X) {
				return "(AtEq " + c + ")", true
			}
			if c, ok := t.lit(x.X); ok && isAt(x.Y) {
				return "(AtEq " + c + ")", true
			}
		}
	}
	t.bad = append(t.bad, "condition "+nodeText(t.p.fset, e))
	return "", false
}

func (t *scanTr) block(list []ast.Stmt) string {
	res := "Done"
	for k := len(list) - 1; k >= 0; k-- {
		res = "(Seq " + t.stmt(list[k]) + " " + res + ")"
	}
	return res
}

func (t *scanTr) stmt(s ast.Stmt) string {
	switch x := s.(type) {
	case *ast.IncDecStmt:
		if x.Tok == token.INC && isIdent(x.X, "i") {
			return "Inc"
		}
	case *ast.IfStmt:
		if x.Init == nil {
			if c, ok := t.cond(x.Cond); ok {
				els := "Done"
				switch e := x.Else.(type) {
				case nil:
				case *ast.BlockStmt:
					els = t.block(e.List)
				case *ast.IfStmt:
					els = "(Seq " + t.stmt(e) + " Done)"
				default:
					els = "(Seq Unknown Done)"
				}
				return "(If " + c + " " + t.block(x.Body.List) + " " + els + ")"
			}
		}
	case *ast.ForStmt:
		if x.Init == nil && x.Post == nil && x.Cond != nil {
			if c, ok := t.cond(x.Cond); ok {
				return "(While " + c + " " + t.block(x.Body.List) + ")"
			}
		}
	case *ast.ReturnStmt:
		if len(x.Results) == 1 {
			if isIdent(x.Results[0], "true") {
				return "(RetB true)"
			}
			if isIdent(x.Results[0], "false") {
				return "(RetB false)"
			}
			if c, ok := t.cond(x.Results[0]); ok {
				return "(Ret " + c + ")"
			}
		}
	}
	t.bad = append(t.bad, "statement "+clipText(nodeText(t.p.fset, s)))
	return "Unknown"
}

// a function of the shape  func name(s []byte) bool { i, n := 0, len(s); ... }
func (t *scanTr) fn(fd *ast.FuncDecl) string {
	if fd == nil || fd.Body == nil || len(fd.Body.List) == 0 {
		t.bad = append(t.bad, "function not found")
		return "(Seq Unknown Done)"
	}
	first := nodeText(t.p.fset, fd.Body.List[0])
	sig := nodeText(t.p.fset, fd.Type)
	if first != "i, n := 0, len(s)" || sig != "func(s []byte) bool" {
		t.bad = append(t.bad, "signature or first statement: "+sig+" / "+first)
		return "(Seq Unknown Done)"
	}
	return t.block(fd.Body.List[1:])
}

func genScanProgs(byDir map[string]*parsed) []*genFile {
	g := &genFile{name: "ScanProgs.v"}
	g.pf("(* GENERATED by tools/translate (scanprog.go): byte scanners of the source as programs of Base/ScanProg.v - do not edit. *)\nFrom Coq Require Import NArith.\nFrom GJ Require Import Base.ScanProg.\nOpen Scope N_scope.\n\n")
	report := map[string]interface{}{}
	for _, it := range []struct{ dir, file, fn, name string }{
		{"internal/encoder", "compact.go", "validNumber", "enc_validNumber_prog"},
		{"internal/decoder", "number.go", "validNumber", "dec_validNumber_prog"},
	} {
		p := byDir[it.dir]
		t := &scanTr{p: p}
		var fd *ast.FuncDecl
		if f := p.files[it.file]; f != nil {
			fd = findFunc(f, it.fn)
		}
		body := t.fn(fd)
		g.pf("(* %s/%s: func %s(s []byte) bool *)\nDefinition %s : stms :=\n  %s.\n\n", it.dir, it.file, it.fn, it.name, body)
		report[it.name] = map[string]interface{}{"untranslated": t.bad}
		if len(t.bad) > 0 {
			g.pf("(* not translated: %s *)\n\n", strings.ReplaceAll(fmt.Sprint(t.bad), "*)", "* )"))
		}
	}
	facts["scan_progs"] = report
	return []*genFile{g}
}
