package main

func genVmShape(repo string, byDir map[string]*parsed) []*genFile { return genVmShapeImpl(repo, byDir) }
