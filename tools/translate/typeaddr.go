package main

import (
	"fmt"
	"go/ast"
	"go/token"
	"sort"
	"strings"
)

// genTypeAddr translates internal/runtime/type.go:AnalyzeTypeAddr (loop body
// and the code after the loop) and the guard / index / allocation expressions
// of the four CompileToGet* functions into Gallina.  uintptr is N with
// subtraction modulo 2^64 (subw); everything else cannot wrap in this code.
// Anything outside the small statement language below is reported and makes
// the generated file fail to compile, which the check reports as a broken tie.

type taTr struct {
	p    *parsed
	errs []string
	// how identifiers are spelled in the output
	ren map[string]string
}

func (t *taTr) fail(n ast.Node, why string) string {
	t.errs = append(t.errs, why+": "+nodeText(t.p.fset, n))
	return "UNTRANSLATED"
}

func (t *taTr) id(name string) string {
	if r, ok := t.ren[name]; ok {
		return r
	}
	return "v_" + name
}

func (t *taTr) expr(e ast.Expr) string {
	// constants first
	if tv, ok := t.p.info.Types[e]; ok && tv.Value != nil {
		s := tv.Value.ExactString()
		if s == "true" || s == "false" {
			return s
		}
		if strings.HasPrefix(s, "-") {
			return t.fail(e, "negative constant")
		}
		return s
	}
	switch x := e.(type) {
	case *ast.ParenExpr:
		return t.expr(x.X)
	case *ast.Ident:
		if x.Name == "true" || x.Name == "false" {
			return x.Name
		}
		return t.id(x.Name)
	case *ast.BasicLit:
		if x.Kind == token.INT {
			return x.Value
		}
	case *ast.SelectorExpr:
		txt := nodeText(t.p.fset, x)
		if r, ok := t.ren[txt]; ok {
			return r
		}
	case *ast.CallExpr:
		txt := nodeText(t.p.fset, x)
		if r, ok := t.ren[txt]; ok {
			return r
		}
		if txt == "uintptr(^uint(0))" {
			return "18446744073709551615"
		}
	case *ast.BinaryExpr:
		txt := nodeText(t.p.fset, x)
		if r, ok := t.ren[txt]; ok {
			return r
		}
		a, b := t.expr(x.X), t.expr(x.Y)
		switch x.Op {
		case token.SUB:
			return "(subw " + a + " " + b + ")"
		case token.ADD:
			return "(" + a + " + " + b + ")"
		case token.AND:
			return "(N.land " + a + " " + b + ")"
		case token.SHR:
			return "(N.shiftr " + a + " " + b + ")"
		case token.EQL:
			return "(" + a + " =? " + b + ")"
		case token.GTR:
			return "(" + b + " <? " + a + ")"
		case token.LSS:
			return "(" + a + " <? " + b + ")"
		case token.GEQ:
			return "(" + b + " <=? " + a + ")"
		case token.LEQ:
			return "(" + a + " <=? " + b + ")"
		case token.LAND:
			return "(" + a + " && " + b + ")"
		case token.LOR:
			return "(" + a + " || " + b + ")"
		}
	}
	return t.fail(e, "expression outside the translated language")
}

func assignedIn(stmts []ast.Stmt, out map[string]bool) {
	for _, s := range stmts {
		switch x := s.(type) {
		case *ast.AssignStmt:
			for _, l := range x.Lhs {
				if id, ok := l.(*ast.Ident); ok && x.Tok == token.ASSIGN {
					out[id.Name] = true
				}
			}
		case *ast.IfStmt:
			assignedIn(x.Body.List, out)
			if x.Else != nil {
				switch e := x.Else.(type) {
				case *ast.BlockStmt:
					assignedIn(e.List, out)
				case *ast.IfStmt:
					assignedIn([]ast.Stmt{e}, out)
				}
			}
		}
	}
}

func hasReturn(stmts []ast.Stmt) bool {
	for _, s := range stmts {
		if _, ok := s.(*ast.ReturnStmt); ok {
			return true
		}
	}
	return false
}

// stmts translates a statement list followed by the continuation text k.
// onReturn is what a bare return means here ("" = not allowed).
func (t *taTr) stmts(list []ast.Stmt, k string, onReturn string, ind string) string {
	if len(list) == 0 {
		return ind + k
	}
	s, rest := list[0], list[1:]
	switch x := s.(type) {
	case *ast.AssignStmt:
		if len(x.Lhs) == 1 && len(x.Rhs) == 1 {
			_, isFinal := t.ren["FINAL:"+nodeText(t.p.fset, x.Lhs[0])]
			if id, ok := x.Lhs[0].(*ast.Ident); ok && !isFinal {
				txt := nodeText(t.p.fset, x.Rhs[0])
				if _, skip := t.ren["SKIP:"+txt]; skip {
					return t.stmts(rest, k, onReturn, ind)
				}
				return ind + "let " + t.id(id.Name) + " := " + t.expr(x.Rhs[0]) + " in\n" + t.stmts(rest, k, onReturn, ind)
			}
			if _, final := t.ren["FINAL:"+nodeText(t.p.fset, x.Lhs[0])]; final {
				// typeAddr = &TypeAddr{...}
				if ue, ok := x.Rhs[0].(*ast.UnaryExpr); ok {
					if cl, ok := ue.X.(*ast.CompositeLit); ok {
						f := map[string]string{}
						for _, el := range cl.Elts {
							kv := el.(*ast.KeyValueExpr)
							f[kv.Key.(*ast.Ident).Name] = t.expr(kv.Value)
						}
						for _, need := range []string{"BaseTypeAddr", "MaxTypeAddr", "AddrRange", "AddrShift"} {
							if f[need] == "" {
								t.fail(x, "TypeAddr literal lacks "+need)
							}
						}
						if len(rest) != 0 {
							t.fail(x, "statements after the final assignment")
						}
						return ind + fmt.Sprintf("Some {| ta_base := %s; ta_max := %s; ta_range := %s; ta_shift := %s |}",
							f["BaseTypeAddr"], f["MaxTypeAddr"], f["AddrRange"], f["AddrShift"])
					}
				}
			}
		}
		return ind + t.fail(s, "assignment outside the translated language")
	case *ast.DeclStmt:
		gd := x.Decl.(*ast.GenDecl)
		out := ""
		for _, sp := range gd.Specs {
			vs, ok := sp.(*ast.ValueSpec)
			if !ok {
				return ind + t.fail(s, "declaration")
			}
			for i, nm := range vs.Names {
				val := "0"
				if i < len(vs.Values) {
					val = t.expr(vs.Values[i])
				} else if id, ok := vs.Type.(*ast.Ident); ok && id.Name == "bool" {
					val = "false"
				}
				out += ind + "let " + t.id(nm.Name) + " := " + val + " in\n"
			}
		}
		return out + t.stmts(rest, k, onReturn, ind)
	case *ast.ReturnStmt:
		if onReturn == "" || len(x.Results) != 0 {
			return ind + t.fail(s, "return")
		}
		return ind + onReturn
	case *ast.IfStmt:
		if x.Init != nil {
			return ind + t.fail(s, "if with init")
		}
		// early exit: if c { return }
		if x.Else == nil && len(x.Body.List) == 1 && hasReturn(x.Body.List) {
			if onReturn == "" {
				return ind + t.fail(s, "return")
			}
			return ind + "if " + t.expr(x.Cond) + " then " + onReturn + " else\n" + t.stmts(rest, k, onReturn, ind)
		}
		set := map[string]bool{}
		assignedIn([]ast.Stmt{x}, set)
		var vars []string
		for v := range set {
			vars = append(vars, v)
		}
		sort.Strings(vars)
		if len(vars) == 0 {
			return ind + t.fail(s, "if without assignments")
		}
		tuple := ""
		pat := ""
		for i, v := range vars {
			if i > 0 {
				tuple += ", "
				pat += ", "
			}
			tuple += t.id(v)
			pat += t.id(v)
		}
		if len(vars) > 1 {
			tuple = "(" + tuple + ")"
			pat = "'(" + pat + ")"
		}
		var branch func(is *ast.IfStmt, ind string) string
		branch = func(is *ast.IfStmt, ind string) string {
			r := ind + "if " + t.expr(is.Cond) + " then (\n" + t.stmts(is.Body.List, tuple, "", ind+"  ") + ")\n" + ind + "else "
			switch e := is.Else.(type) {
			case nil:
				r += tuple
			case *ast.BlockStmt:
				r += "(\n" + t.stmts(e.List, tuple, "", ind+"  ") + ")"
			case *ast.IfStmt:
				r += "(\n" + branch(e, ind+"  ") + ")"
			}
			return r
		}
		return ind + "let " + pat + " :=\n" + branch(x, ind+"  ") + " in\n" + t.stmts(rest, k, onReturn, ind)
	}
	return ind + t.fail(s, "statement outside the translated language")
}

func findFunc(f *ast.File, name string) *ast.FuncDecl {
	if f == nil {
		return nil
	}
	for _, d := range f.Decls {
		if fd, ok := d.(*ast.FuncDecl); ok && fd.Name.Name == name {
			return fd
		}
	}
	return nil
}

func genTypeAddr(byDir map[string]*parsed) []*genFile {
	g := &genFile{name: "TypeAddr.v"}
	g.pf("(* GENERATED by tools/translate from internal/runtime/type.go, internal/encoder/compiler*.go, internal/decoder/compile*.go - do not edit. *)\n")
	g.pf("From Coq Require Import NArith List Bool.\nFrom GJ Require Import Base.TypeAddrBase.\nImport ListNotations.\nOpen Scope N_scope.\nOpen Scope bool_scope.\n\n")
	rt := byDir["internal/runtime"]
	t := &taTr{p: rt, ren: map[string]string{
		"typ.Kind() == reflect.Ptr":              "(s_ptr s)",
		"uintptr(unsafe.Pointer(typ))":           "(s_addr s)",
		"uintptr(unsafe.Pointer(typ.Elem()))":    "(s_elem s)",
		"SKIP:(*Type)(rtypeOff(section, offset[i]))": "",
		"FINAL:typeAddr":                         "",
	}}
	fd := findFunc(rt.files["type.go"], "AnalyzeTypeAddr")
	var body []ast.Stmt
	if fd != nil {
		// once.Do(func() { ... })
		ast.Inspect(fd, func(n ast.Node) bool {
			if fl, ok := n.(*ast.FuncLit); ok && body == nil {
				body = fl.Body.List
				return false
			}
			return true
		})
	}
	var pre, loop, post []ast.Stmt
	seenLoop := false
	for _, s := range body {
		if fs, ok := s.(*ast.ForStmt); ok && !seenLoop {
			seenLoop = true
			loop = fs.Body.List
			hdr := nodeText(rt.fset, fs.Init) + "; " + nodeText(rt.fset, fs.Cond) + "; " + nodeText(rt.fset, fs.Post)
			if hdr != "i := 0; i < len(offset); i++" {
				t.fail(fs, "loop header is not a plain index loop over offset")
			}
			continue
		}
		if seenLoop {
			post = append(post, s)
		} else {
			pre = append(pre, s)
		}
	}
	if !seenLoop {
		t.errs = append(t.errs, "AnalyzeTypeAddr: loop not found")
	}
	// pre: typelinks call, the two len checks, section/offset bindings, the var block
	var decl *ast.DeclStmt
	for _, s := range pre {
		if d, ok := s.(*ast.DeclStmt); ok {
			decl = d
		}
	}
	state := []string{}
	if decl != nil {
		for _, sp := range decl.Decl.(*ast.GenDecl).Specs {
			for _, nm := range sp.(*ast.ValueSpec).Names {
				state = append(state, nm.Name)
			}
		}
	}
	if strings.Join(state, ",") != "min,max,isAligned64,isAligned32" {
		t.errs = append(t.errs, "AnalyzeTypeAddr: loop state is not (min,max,isAligned64,isAligned32): "+strings.Join(state, ","))
	}
	tup := "(v_min, v_max, v_isAligned64, v_isAligned32)"
	g.pf("(* the var block before the loop *)\nDefinition analyze_init : astate :=\n%s.\n\n", t.stmts([]ast.Stmt{decl}, tup, "", "  "))
	g.pf("(* one iteration of `for i := 0; i < len(offset); i++`; s is the type at offset[i] *)\n")
	g.pf("Definition analyze_step (st : astate) (s : sample) : astate :=\n  let '%s := st in\n%s.\n\n", tup, t.stmts(loop, tup, "", "  "))
	g.pf("(* the code after the loop; None = typeAddr stays nil *)\n")
	g.pf("Definition analyze_finish (st : astate) : option typeaddr :=\n  let '%s := st in\n%s.\n\n", tup, t.stmts(post, "None", "None", "  "))

	// cache lookups
	look := func(dir, file, fn, prefix string) {
		p := byDir[dir]
		tt := &taTr{p: p, ren: map[string]string{
			"typeAddr.MaxTypeAddr":  "(ta_max ta)",
			"typeAddr.BaseTypeAddr": "(ta_base ta)",
			"typeAddr.AddrShift":    "(ta_shift ta)",
			"typeAddr.AddrRange":    "(ta_range ta)",
			"typeptr":               "typeptr",
		}}
		fd := findFunc(p.files[file], fn)
		guard, index := "", ""
		if fd != nil {
			for _, s := range fd.Body.List {
				if is, ok := s.(*ast.IfStmt); ok && guard == "" && strings.Contains(nodeText(p.fset, is.Body), "SlowPath") {
					guard = tt.exprUntyped(is.Cond)
				}
				if as, ok := s.(*ast.AssignStmt); ok && len(as.Lhs) == 1 && nodeText(p.fset, as.Lhs[0]) == "index" {
					index = tt.exprUntyped(as.Rhs[0])
				}
			}
		}
		if guard == "" || index == "" {
			tt.errs = append(tt.errs, dir+"/"+file+":"+fn+": guard or index expression not found")
			guard, index = "UNTRANSLATED", "UNTRANSLATED"
		}
		g.pf("(* %s/%s:%s *)\nDefinition %s_slow (ta : typeaddr) (typeptr : N) : bool := %s.\nDefinition %s_index (ta : typeaddr) (typeptr : N) : N := %s.\n\n",
			dir, file, fn, prefix, guard, prefix, index)
		t.errs = append(t.errs, tt.errs...)
	}
	look("internal/encoder", "compiler_norace.go", "compileToGetCodeSet", "enc_norace")
	look("internal/encoder", "compiler_race.go", "compileToGetCodeSet", "enc_race")
	look("internal/decoder", "compile_norace.go", "CompileToGetDecoder", "dec_norace")
	look("internal/decoder", "compile_race.go", "CompileToGetDecoder", "dec_race")
	alloc := func(dir, file, fn, slice, name string) {
		p := byDir[dir]
		tt := &taTr{p: p, ren: map[string]string{
			"typeAddr.AddrShift": "(ta_shift ta)", "typeAddr.AddrRange": "(ta_range ta)"}}
		res := ""
		if fd := findFunc(p.files[file], fn); fd != nil {
			ast.Inspect(fd, func(n ast.Node) bool {
				if as, ok := n.(*ast.AssignStmt); ok && len(as.Lhs) == 1 && nodeText(p.fset, as.Lhs[0]) == slice {
					if ce, ok := as.Rhs[0].(*ast.CallExpr); ok && len(ce.Args) == 2 && nodeText(p.fset, ce.Fun) == "make" {
						res = tt.exprUntyped(ce.Args[1])
					}
				}
				return true
			})
		}
		if res == "" {
			tt.errs = append(tt.errs, dir+"/"+file+": allocation of "+slice+" not found")
			res = "UNTRANSLATED"
		}
		g.pf("(* %s/%s: len(%s) *)\nDefinition %s (ta : typeaddr) : N := %s.\n\n", dir, file, slice, name, res)
		t.errs = append(t.errs, tt.errs...)
	}
	alloc("internal/encoder", "compiler.go", "initEncoder", "cachedOpcodeSets", "enc_cache_len")
	alloc("internal/decoder", "compile.go", "initDecoder", "cachedDecoder", "dec_cache_len")
	// how the init functions are written (Model/InitOnce.v): the whole body is one <once>.Do(func() { ... }) whose
	// last statement allocates the cache slice; anything else (a test in front of the Once, an allocation outside it)
	// lets a goroutine past the function while another is still inside the body
	onceOnly := func(dir, file, fn, slice, name string) {
		ok := false
		if f := byDir[dir].files[file]; f != nil {
			if fd := findFunc(f, fn); fd != nil && fd.Body != nil && len(fd.Body.List) == 1 {
				if es, isE := fd.Body.List[0].(*ast.ExprStmt); isE {
					if call, isC := es.X.(*ast.CallExpr); isC && len(call.Args) == 1 {
						if sel, isS := call.Fun.(*ast.SelectorExpr); isS && sel.Sel.Name == "Do" {
							if lit, isL := call.Args[0].(*ast.FuncLit); isL && len(lit.Body.List) > 0 {
								last := nodeText(byDir[dir].fset, lit.Body.List[len(lit.Body.List)-1])
								ok = strings.HasPrefix(last, slice+" = make(")
							}
						}
					}
				}
			}
		}
		v := "false"
		if ok {
			v = "true"
		}
		g.pf("(* %s/%s: %s is `once.Do(func() { ...; %s = make(...) })` and nothing else *)\nDefinition %s : bool := %s.\n\n", dir, file, fn, slice, name, v)
		facts[name] = ok
	}
	onceOnly("internal/encoder", "compiler.go", "initEncoder", "cachedOpcodeSets", "enc_init_through_once_only")
	onceOnly("internal/decoder", "compile.go", "initDecoder", "cachedDecoder", "dec_init_through_once_only")
	if len(t.errs) > 0 {
		g.pf("(* translation problems:\n")
		for _, e := range t.errs {
			g.pf("   %s\n", strings.ReplaceAll(strings.ReplaceAll(e, "*)", "* )"), "\"", "'"))
		}
		g.pf("*)\nDefinition typeaddr_translation_failed : False := UNTRANSLATED.\n")
	}
	facts["typeaddr_translation_problems"] = t.errs
	return []*genFile{g}
}

// exprUntyped: expressions in files that may not have been type-checked (race variants): no constant folding
func (t *taTr) exprUntyped(e ast.Expr) string {
	switch x := e.(type) {
	case *ast.ParenExpr:
		return t.exprUntyped(x.X)
	case *ast.Ident:
		return t.id(x.Name)
	case *ast.BasicLit:
		if x.Kind == token.INT {
			return x.Value
		}
	case *ast.SelectorExpr:
		if r, ok := t.ren[nodeText(t.p.fset, x)]; ok {
			return r
		}
	case *ast.BinaryExpr:
		a, b := t.exprUntyped(x.X), t.exprUntyped(x.Y)
		switch x.Op {
		case token.SUB:
			return "(subw " + a + " " + b + ")"
		case token.ADD:
			return "(" + a + " + " + b + ")"
		case token.SHR:
			return "(N.shiftr " + a + " " + b + ")"
		case token.GTR:
			return "(" + b + " <? " + a + ")"
		case token.LSS:
			return "(" + a + " <? " + b + ")"
		case token.GEQ:
			return "(" + b + " <=? " + a + ")"
		case token.LEQ:
			return "(" + a + " <=? " + b + ")"
		case token.LOR:
			return "(" + a + " || " + b + ")"
		case token.LAND:
			return "(" + a + " && " + b + ")"
		}
	}
	return t.fail(e, "expression outside the translated language")
}
