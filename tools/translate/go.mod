module translate

go 1.19
