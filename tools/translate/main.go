// translate regenerates coq/Gen/*.v from the working tree of goccy/go-json.
//
// It uses only go/parser, go/types (lenient, fake importer) and go/printer.
// Facts translated:
//   - every package-level integer constant            -> Definition <pkg>_<name> : Z
//   - every package-level array/slice composite literal
//     whose elements are constants (tables)           -> Definition <pkg>_<name> : list N (or list Z)
//   - package-level string vars (e.g. hex)            -> list N
//   - the SWAR `mask :=` expressions of string.go     -> Gen/Swar.v (expression AST)
//   - straight-line buffer helpers of the vm*/util.go -> Gen/Helpers.v (small statement AST)
//   - context resets / copy sites of entry points     -> Gen/Resets.v
//   - facts about vm.go (identical bodies, float guards)-> Gen/VmShape.v
//   - fingerprints of all functions                   -> build/fingerprints.json
//
// A file is rewritten only if its content changed, so make rebuilds only what
// depends on changed facts.
package main

import (
	"bytes"
	"crypto/sha256"
	"encoding/hex"
	"encoding/json"
	"fmt"
	"go/ast"
	"go/constant"
	"go/importer"
	"go/parser"
	"go/printer"
	"go/token"
	"go/types"
	"os"
	"path/filepath"
	"sort"
	"strings"
)

type pkgSpec struct {
	dir    string // relative to repo
	prefix string // Coq name prefix
}

var pkgs = []pkgSpec{
	{"internal/errors", "errs"},
	{"internal/runtime", "rt"},
	{"internal/encoder", "enc"},
	{"internal/decoder", "dec"},
	{"internal/encoder/vm", "vm"},
	{"internal/encoder/vm_indent", "vmi"},
	{"internal/encoder/vm_color", "vmc"},
	{"internal/encoder/vm_color_indent", "vmci"},
	{".", "json"},
}

type fakeImporter struct{ def types.Importer }

// packages of the module that have been checked already (imports resolve to them)
var checkedPkgs = map[string]*types.Package{}

func (f fakeImporter) Import(path string) (*types.Package, error) {
	if p, ok := checkedPkgs[path]; ok {
		return p, nil
	}
	if !strings.Contains(path, ".") { // stdlib
		if p, err := f.def.Import(path); err == nil {
			return p, nil
		}
	}
	name := path[strings.LastIndex(path, "/")+1:]
	p := types.NewPackage(path, name)
	p.MarkComplete()
	return p, nil
}

type parsed struct {
	spec  pkgSpec
	fset  *token.FileSet
	files map[string]*ast.File
	info  *types.Info
}

func loadPkg(repo string, sp pkgSpec) (*parsed, error) {
	fset := token.NewFileSet()
	dir := filepath.Join(repo, sp.dir)
	ents, err := os.ReadDir(dir)
	if err != nil {
		return nil, err
	}
	files := map[string]*ast.File{}
	var list []*ast.File
	for _, e := range ents {
		n := e.Name()
		if e.IsDir() || !strings.HasSuffix(n, ".go") || strings.HasSuffix(n, "_test.go") {
			continue
		}
		if strings.HasPrefix(n, "verif_") { // our own hook files
			continue
		}
		src, err := os.ReadFile(filepath.Join(dir, n))
		if err != nil {
			return nil, err
		}
		// honour the two build tags that select alternative files
		head := string(src)
		if i := strings.Index(head, "package "); i >= 0 {
			head = head[:i]
		}
		if strings.Contains(head, "go:build race") || strings.Contains(head, "go:build verif") ||
			strings.Contains(head, "+build race") || strings.Contains(head, "go:build !go1.13") ||
			strings.Contains(head, "go:build !go1.12") {
			if !strings.Contains(head, "!race") && !strings.Contains(head, "!verif") {
				// still record it under a distinct name for fingerprints, but do not type-check
				f, err := parser.ParseFile(fset, filepath.Join(dir, n), src, parser.ParseComments)
				if err == nil {
					files[n] = f
				}
				continue
			}
		}
		f, err := parser.ParseFile(fset, filepath.Join(dir, n), src, parser.ParseComments)
		if err != nil {
			return nil, fmt.Errorf("parse %s: %v", n, err)
		}
		files[n] = f
		list = append(list, f)
	}
	info := &types.Info{Types: map[ast.Expr]types.TypeAndValue{}, Defs: map[*ast.Ident]types.Object{}, Uses: map[*ast.Ident]types.Object{}}
	conf := types.Config{Importer: fakeImporter{importer.Default()}, Error: func(error) {}, FakeImportC: true, DisableUnusedImportCheck: true}
	ipath := "github.com/goccy/go-json"
	if sp.dir != "." {
		ipath += "/" + sp.dir
	}
	if pkg, _ := conf.Check(ipath, fset, list, info); pkg != nil {
		checkedPkgs[ipath] = pkg
	}
	return &parsed{sp, fset, files, info}, nil
}

func coqIdent(s string) string {
	return strings.ReplaceAll(s, ".", "_")
}

func constInt(v constant.Value) (string, bool) {
	if v == nil {
		return "", false
	}
	switch v.Kind() {
	case constant.Int:
		return v.ExactString(), true
	case constant.Float:
		iv := constant.ToInt(v)
		if iv.Kind() == constant.Int {
			return iv.ExactString(), true
		}
	case constant.Bool:
		if constant.BoolVal(v) {
			return "1", true
		}
		return "0", true
	}
	return "", false
}

func zlit(s string) string {
	if strings.HasPrefix(s, "-") {
		return "(" + s + ")"
	}
	return s
}

// evalTable evaluates an array/slice composite literal with constant
// elements (optionally keyed). n is the array length (-1 for slices / [...]).
func (p *parsed) evalTable(cl *ast.CompositeLit) ([]string, bool) {
	n := -1
	if at, ok := cl.Type.(*ast.ArrayType); ok && at.Len != nil {
		if _, isEll := at.Len.(*ast.Ellipsis); !isEll {
			if tv, ok := p.info.Types[at.Len]; ok && tv.Value != nil {
				if s, ok := constInt(tv.Value); ok {
					fmt.Sscan(s, &n)
				}
			}
		}
	} else if !ok {
		return nil, false
	}
	vals := map[int]string{}
	idx := 0
	maxIdx := -1
	for _, el := range cl.Elts {
		var ve ast.Expr = el
		if kv, ok := el.(*ast.KeyValueExpr); ok {
			tv, ok := p.info.Types[kv.Key]
			if !ok || tv.Value == nil {
				return nil, false
			}
			s, ok := constInt(tv.Value)
			if !ok {
				return nil, false
			}
			fmt.Sscan(s, &idx)
			ve = kv.Value
		}
		tv, ok := p.info.Types[ve]
		if !ok || tv.Value == nil {
			return nil, false
		}
		s, ok := constInt(tv.Value)
		if !ok {
			return nil, false
		}
		vals[idx] = s
		if idx > maxIdx {
			maxIdx = idx
		}
		idx++
	}
	if n < 0 {
		n = maxIdx + 1
	}
	out := make([]string, n)
	for i := range out {
		if v, ok := vals[i]; ok {
			out[i] = v
		} else {
			out[i] = "0"
		}
	}
	return out, true
}

// applyInitAssignments applies `name[k] = v` statements found in init()
// functions of the package (tables filled at start-up, e.g. isWhiteSpace).
func (p *parsed) applyInitAssignments(name string, vals []string) {
	for _, fn := range sortedFiles(p.files) {
		for _, d := range p.files[fn].Decls {
			fd, ok := d.(*ast.FuncDecl)
			if !ok || fd.Name.Name != "init" || fd.Recv != nil || fd.Body == nil {
				continue
			}
			for _, st := range fd.Body.List {
				as, ok := st.(*ast.AssignStmt)
				if !ok || len(as.Lhs) != 1 || len(as.Rhs) != 1 {
					continue
				}
				ix, ok := as.Lhs[0].(*ast.IndexExpr)
				if !ok {
					continue
				}
				id, ok := ix.X.(*ast.Ident)
				if !ok || id.Name != name {
					continue
				}
				ktv, ok1 := p.info.Types[ix.Index]
				vtv, ok2 := p.info.Types[as.Rhs[0]]
				if !ok1 || !ok2 || ktv.Value == nil || vtv.Value == nil {
					continue
				}
				ks, _ := constInt(ktv.Value)
				vs, ok := constInt(vtv.Value)
				var k int
				fmt.Sscan(ks, &k)
				if ok && k >= 0 && k < len(vals) {
					vals[k] = vs
				}
			}
		}
	}
}

type genFile struct {
	name string
	buf  bytes.Buffer
}

func (g *genFile) pf(format string, a ...interface{}) { fmt.Fprintf(&g.buf, format, a...) }

func writeIfChanged(path string, content []byte) (bool, error) {
	old, err := os.ReadFile(path)
	if err == nil && bytes.Equal(old, content) {
		return false, nil
	}
	return true, os.WriteFile(path, content, 0o644)
}

func sortedFiles(m map[string]*ast.File) []string {
	var ks []string
	for k := range m {
		ks = append(ks, k)
	}
	sort.Strings(ks)
	return ks
}

func emitList(g *genFile, name string, vals []string) {
	neg := false
	for _, v := range vals {
		if strings.HasPrefix(v, "-") {
			neg = true
		}
	}
	ty, sc := "N", "%N"
	if neg {
		ty, sc = "Z", "%Z"
	}
	g.pf("Definition %s : list %s := [", name, ty)
	for i, v := range vals {
		if i > 0 {
			g.pf("; ")
		}
		if i%16 == 0 {
			g.pf("\n  ")
		}
		g.pf("%s", zlit(v))
	}
	g.pf("]%s.\n", sc)
}

var facts = map[string]interface{}{}

func genTables(ps []*parsed) *genFile {
	g := &genFile{name: "Tables.v"}
	g.pf("(* GENERATED by tools/translate from /repo — do not edit. *)\nFrom Coq Require Import NArith ZArith List.\nImport ListNotations.\n\n")
	nconst, ntab := 0, 0
	for _, p := range ps {
		seen := map[string]bool{}
		for _, fn := range sortedFiles(p.files) {
			f := p.files[fn]
			for _, d := range f.Decls {
				gd, ok := d.(*ast.GenDecl)
				if !ok {
					continue
				}
				for _, sp := range gd.Specs {
					vs, ok := sp.(*ast.ValueSpec)
					if !ok {
						continue
					}
					for i, id := range vs.Names {
						if id.Name == "_" {
							continue
						}
						cname := p.spec.prefix + "_" + coqIdent(id.Name)
						if seen[cname] {
							continue
						}
						if gd.Tok == token.CONST {
							obj, _ := p.info.Defs[id].(*types.Const)
							if obj == nil {
								continue
							}
							if s, ok := constInt(obj.Val()); ok && obj.Val().Kind() != constant.Bool {
								if obj.Val().Kind() == constant.Float {
									continue
								}
								g.pf("Definition %s : Z := %s%%Z.\n", cname, zlit(s))
								seen[cname] = true
								nconst++
							} else if obj.Val().Kind() == constant.String {
								str := constant.StringVal(obj.Val())
								if len(str) <= 64 {
									var vals []string
									for _, c := range []byte(str) {
										vals = append(vals, fmt.Sprint(c))
									}
									emitList(g, cname, vals)
									seen[cname] = true
								}
							}
							continue
						}
						if i >= len(vs.Values) {
							continue
						}
						switch v := vs.Values[i].(type) {
						case *ast.CompositeLit:
							if vals, ok := p.evalTable(v); ok && len(vals) > 0 {
								p.applyInitAssignments(id.Name, vals)
								emitList(g, cname, vals)
								seen[cname] = true
								ntab++
							}
						case *ast.BasicLit:
							if v.Kind == token.STRING {
								if tv, ok := p.info.Types[v]; ok && tv.Value != nil {
									str := constant.StringVal(tv.Value)
									var vals []string
									for _, c := range []byte(str) {
										vals = append(vals, fmt.Sprint(c))
									}
									emitList(g, cname, vals)
									seen[cname] = true
									ntab++
								}
							}
						case *ast.CallExpr: // []byte("true")
							if len(v.Args) == 1 {
								if tv, ok := p.info.Types[v.Args[0]]; ok && tv.Value != nil && tv.Value.Kind() == constant.String {
									if at, ok := v.Fun.(*ast.ArrayType); ok && at.Len == nil {
										str := constant.StringVal(tv.Value)
										var vals []string
										for _, c := range []byte(str) {
											vals = append(vals, fmt.Sprint(c))
										}
										emitList(g, cname, vals)
										seen[cname] = true
										ntab++
									}
								}
							}
						}
					}
				}
			}
		}
	}
	facts["constants"] = nconst
	facts["tables"] = ntab
	return g
}

// ---- fingerprints -----------------------------------------------------

func funcName(fd *ast.FuncDecl) string {
	if fd.Recv != nil && len(fd.Recv.List) > 0 {
		var b bytes.Buffer
		printer.Fprint(&b, token.NewFileSet(), fd.Recv.List[0].Type)
		return strings.TrimPrefix(b.String(), "*") + "." + fd.Name.Name
	}
	return fd.Name.Name
}

func fingerprints(ps []*parsed) map[string]string {
	out := map[string]string{}
	for _, p := range ps {
		for _, fn := range sortedFiles(p.files) {
			f := p.files[fn]
			for _, d := range f.Decls {
				fd, ok := d.(*ast.FuncDecl)
				if !ok || fd.Body == nil {
					continue
				}
				var b bytes.Buffer
				// print without comments and positions: use a fresh fileset and
				// a config that drops comments (comments are attached to File, not Decl).
				cfg := printer.Config{Mode: printer.RawFormat}
				cfg.Fprint(&b, p.fset, &ast.FuncDecl{Recv: fd.Recv, Name: fd.Name, Type: fd.Type, Body: fd.Body})
				norm := strings.Join(strings.Fields(b.String()), " ")
				h := sha256.Sum256([]byte(norm))
				out[p.spec.dir+"/"+fn+":"+funcName(fd)] = hex.EncodeToString(h[:8])
			}
		}
	}
	return out
}

func main() {
	repo := "/repo"
	out := "/verif/coq/Gen"
	build := "/verif/build"
	if len(os.Args) > 1 {
		repo = os.Args[1]
	}
	if len(os.Args) > 2 {
		out = os.Args[2]
	}
	if len(os.Args) > 3 {
		build = os.Args[3]
	}
	os.MkdirAll(out, 0o755)
	os.MkdirAll(build, 0o755)
	var ps []*parsed
	for _, sp := range pkgs {
		p, err := loadPkg(repo, sp)
		if err != nil {
			fmt.Fprintln(os.Stderr, "translate: cannot load", sp.dir, err)
			os.Exit(2)
		}
		ps = append(ps, p)
	}
	byDir := map[string]*parsed{}
	for _, p := range ps {
		byDir[p.spec.dir] = p
	}
	files := []*genFile{genTables(ps)}
	files = append(files, genSwar(byDir)...)
	files = append(files, genHelpers(byDir)...)
	files = append(files, genResets(byDir)...)
	files = append(files, genTypeAddr(byDir)...)
	files = append(files, genPoolUse(byDir)...)
	files = append(files, genOptState(byDir)...)
	files = append(files, genStreamPattern(byDir)...)
	files = append(files, genFrames(byDir)...)
	files = append(files, genQuery(byDir)...)
	files = append(files, genDecodeShapes(byDir)...)
	files = append(files, genPathShape(byDir)...)
	files = append(files, genSliceShape(byDir)...)
	files = append(files, genFieldShape(byDir)...)
	files = append(files, genScanProgs(byDir)...)
	files = append(files, genCurProgs(byDir)...)
	files = append(files, genTwins(byDir)...)
	files = append(files, genFilterPure(byDir)...)
	files = append(files, genColorShape(byDir)...)
	files = append(files, genSkipShape(byDir)...)
	files = append(files, genUtilShape(byDir)...)
	files = append(files, genVmShape(repo, byDir)...)
	changed := []string{}
	for _, g := range files {
		ch, err := writeIfChanged(filepath.Join(out, g.name), g.buf.Bytes())
		if err != nil {
			fmt.Fprintln(os.Stderr, "translate:", err)
			os.Exit(2)
		}
		if ch {
			changed = append(changed, g.name)
		}
	}
	fp := fingerprints(ps)
	fpb, _ := json.MarshalIndent(fp, "", " ")
	os.WriteFile(filepath.Join(build, "fingerprints.json"), fpb, 0o644)
	facts["rewritten"] = changed
	facts["functions_fingerprinted"] = len(fp)
	fb, _ := json.MarshalIndent(facts, "", " ")
	os.WriteFile(filepath.Join(build, "translate_facts.json"), fb, 0o644)
	fmt.Printf("translate: %d files, rewritten=%v\n", len(files), changed)
}
