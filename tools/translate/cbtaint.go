package main

import (
	"fmt"
	"go/ast"
	"go/token"
	"go/types"
	"sort"
	"strings"
)

// Bytes that a user's MarshalJSON / MarshalText returns belong to the user: the encoder may read them, never
// write through them (append to them, assign an element, use them as the destination of copy).  The analysis
// follows the returned slice through plain assignments, re-slicing and calls of functions of the same package
// (the corresponding parameter becomes tainted there), and lists every write it finds.
type cbTaint struct {
	p     *parsed
	funcs map[string]*ast.FuncDecl
	found []string
	seen  map[string]bool
}

func (t *cbTaint) pos(n ast.Node) string {
	ps := t.p.fset.Position(n.Pos())
	f := ps.Filename
	if i := strings.LastIndex(f, "/internal/"); i >= 0 {
		f = f[i+1:]
	}
	return f + ":" + itoa(ps.Line)
}

func itoa(n int) string {
	if n == 0 {
		return "0"
	}
	s := ""
	for n > 0 {
		s = string(rune('0'+n%10)) + s
		n /= 10
	}
	return s
}

// base identifier of x, x[a:b], (x)
func baseIdentNode(e ast.Expr) *ast.Ident {
	for {
		switch x := e.(type) {
		case *ast.Ident:
			return x
		case *ast.SliceExpr:
			e = x.X
		case *ast.ParenExpr:
			e = x.X
		default:
			return nil
		}
	}
}

// the object an identifier stands for (so that a shadowing `b, err := m.MarshalJSON()` is not the parameter b)
func (t *cbTaint) obj(id *ast.Ident) types.Object {
	if id == nil {
		return nil
	}
	if o := t.p.info.Defs[id]; o != nil {
		return o
	}
	return t.p.info.Uses[id]
}

func (t *cbTaint) taintedBase(e ast.Expr, tainted map[types.Object]bool) string {
	id := baseIdentNode(e)
	if o := t.obj(id); o != nil && tainted[o] {
		return id.Name
	}
	return ""
}

func isMarshalCall(e ast.Expr) bool {
	c, ok := e.(*ast.CallExpr)
	if !ok {
		return false
	}
	s, ok := c.Fun.(*ast.SelectorExpr)
	return ok && (s.Sel.Name == "MarshalJSON" || s.Sel.Name == "MarshalText")
}

func (t *cbTaint) analyze(fd *ast.FuncDecl, tainted map[types.Object]bool, depth int) {
	if fd == nil || fd.Body == nil || depth > 4 {
		return
	}
	key := fd.Name.Name + ":"
	var ks []string
	for k := range tainted {
		ks = append(ks, fmt.Sprint(k.Name(), "@", k.Pos()))
	}
	sort.Strings(ks)
	key += strings.Join(ks, ",")
	if t.seen[key] {
		return
	}
	t.seen[key] = true
	// two passes so that assignments later in the text than a use inside a loop are still seen
	for pass := 0; pass < 2; pass++ {
		ast.Inspect(fd.Body, func(n ast.Node) bool {
			switch s := n.(type) {
			case *ast.AssignStmt:
				if len(s.Rhs) == 1 && isMarshalCall(s.Rhs[0]) && len(s.Lhs) >= 1 {
					if id, ok := s.Lhs[0].(*ast.Ident); ok {
						if o := t.obj(id); o != nil {
							tainted[o] = true
						}
					}
				}
				for i, r := range s.Rhs {
					if i < len(s.Lhs) {
						if b := t.taintedBase(r, tainted); b != "" {
							if id, ok := s.Lhs[i].(*ast.Ident); ok {
								if o := t.obj(id); o != nil {
									tainted[o] = true
								}
							}
						}
					}
				}
				if pass == 1 {
					for _, l := range s.Lhs {
						if ix, ok := l.(*ast.IndexExpr); ok {
							if b := t.taintedBase(ix.X, tainted); b != "" {
								t.found = append(t.found, t.pos(s)+" "+fd.Name.Name+": element of "+b+" assigned")
							}
						}
					}
				}
			case *ast.CallExpr:
				if pass == 0 {
					return true
				}
				if id, ok := s.Fun.(*ast.Ident); ok {
					switch id.Name {
					case "append":
						if len(s.Args) > 0 {
							if b := t.taintedBase(s.Args[0], tainted); b != "" {
								t.found = append(t.found, t.pos(s)+" "+fd.Name.Name+": append("+b+", ...)")
							}
						}
						return true
					case "copy":
						if len(s.Args) > 0 {
							if b := t.taintedBase(s.Args[0], tainted); b != "" {
								t.found = append(t.found, t.pos(s)+" "+fd.Name.Name+": copy("+b+", ...)")
							}
						}
						return true
					}
					if callee := t.funcs[id.Name]; callee != nil && callee.Type.Params != nil {
						sub := map[types.Object]bool{}
						idx := 0
						for _, f := range callee.Type.Params.List {
							names := f.Names
							if len(names) == 0 {
								idx++
								continue
							}
							for _, nm := range names {
								if idx < len(s.Args) {
									if b := t.taintedBase(s.Args[idx], tainted); b != "" && s.Ellipsis == token.NoPos {
										if o := t.obj(nm); o != nil {
											sub[o] = true
										}
									}
								}
								idx++
							}
						}
						if len(sub) > 0 {
							t.analyze(callee, sub, depth+1)
						}
					}
				}
			}
			return true
		})
	}
}

func callbackResultWrites(p *parsed) ([]string, int) {
	t := &cbTaint{p: p, funcs: map[string]*ast.FuncDecl{}, seen: map[string]bool{}}
	for _, name := range sortedFiles(p.files) {
		for _, d := range p.files[name].Decls {
			if fd, ok := d.(*ast.FuncDecl); ok && fd.Recv == nil {
				t.funcs[fd.Name.Name] = fd
			}
		}
	}
	sites := 0
	for _, name := range sortedFiles(p.files) {
		for _, d := range p.files[name].Decls {
			fd, ok := d.(*ast.FuncDecl)
			if !ok || fd.Body == nil {
				continue
			}
			has := false
			ast.Inspect(fd.Body, func(n ast.Node) bool {
				if a, ok := n.(*ast.AssignStmt); ok && len(a.Rhs) == 1 && isMarshalCall(a.Rhs[0]) {
					has = true
					sites++
				}
				return true
			})
			if has {
				t.analyze(fd, map[types.Object]bool{}, 0)
			}
		}
	}
	sort.Strings(t.found)
	return t.found, sites
}
