package main

import (
	"fmt"
	"go/ast"
	"go/token"
	"strconv"
	"strings"
)

// genCurProgs translates scanners of the decoder that walk the buffer with a cursor
//
//	func f(buf []byte, cursor int64) (int64, error)
//
// into programs of coq/Base/CurProg.v, statement by statement: cursor++ / cursor += k, for { }, if, both kinds of
// switch (as chains of if / else in the order of the cases, default last), the counted loop `for i := int64(1); i <= 4;
// i++` unrolled, return cursor+k, nil and return 0, err.  Conditions read buf[cursor+k] for constant k (the variable a
// tagless switch binds to buf[cursor] included).  Anything else becomes CUnknown, on which the interpreter is stuck.
type curTr struct {
	p     *parsed
	bad   []string
	bound string // the variable a `switch c := buf[cursor]; {` binds
	ivar  string // the variable of an unrolled counted loop
	ival  int    // its value in this copy of the body
}

func (t *curTr) byteLit(e ast.Expr) (string, bool) {
	if id, ok := e.(*ast.Ident); ok && id.Name == "nul" {
		return "0", true
	}
	switch x := e.(type) {
	case *ast.BasicLit:
		switch x.Kind {
		case token.CHAR:
			r, _, _, err := strconv.UnquoteChar(x.Value[1:len(x.Value)-1], '\'')
			if err == nil && r < 256 {
				return strconv.Itoa(int(r)), true
			}
		case token.INT:
			if n, err := strconv.ParseInt(x.Value, 0, 64); err == nil && n >= 0 && n < 256 {
				return strconv.FormatInt(n, 10), true
			}
		}
	case *ast.ParenExpr:
		return t.byteLit(x.X)
	}
	return "", false
}

// offset of an index expression relative to the cursor: cursor -> 0, cursor+3 -> 3, cursor+i -> the unrolled value
func (t *curTr) offset(e ast.Expr) (int, bool) {
	switch x := e.(type) {
	case *ast.Ident:
		if x.Name == "cursor" {
			return 0, true
		}
	case *ast.BinaryExpr:
		if x.Op == token.ADD && isIdent(x.X, "cursor") {
			if lit, ok := x.Y.(*ast.BasicLit); ok && lit.Kind == token.INT {
				n, err := strconv.Atoi(lit.Value)
				return n, err == nil && n >= 0
			}
			if id, ok := x.Y.(*ast.Ident); ok && t.ivar != "" && id.Name == t.ivar {
				return t.ival, true
			}
		}
	case *ast.ParenExpr:
		return t.offset(x.X)
	}
	return 0, false
}

// the byte an expression reads: buf[cursor+k], or the variable bound by the enclosing tagless switch
func (t *curTr) at(e ast.Expr) (int, bool) {
	if id, ok := e.(*ast.Ident); ok && t.bound != "" && id.Name == t.bound {
		return 0, true
	}
	if ix, ok := e.(*ast.IndexExpr); ok && isIdent(ix.X, "buf") {
		return t.offset(ix.Index)
	}
	return 0, false
}

func (t *curTr) cond(e ast.Expr) (string, bool) {
	switch x := e.(type) {
	case *ast.ParenExpr:
		return t.cond(x.X)
	case *ast.UnaryExpr:
		if x.Op == token.NOT {
			if call, ok := x.X.(*ast.CallExpr); ok && isIdent(call.Fun, "isHexDigit") && len(call.Args) == 1 {
				if k, ok := t.at(call.Args[0]); ok {
					return fmt.Sprintf("(CAt %d PNotHex)", k), true
				}
			}
		}
	case *ast.CallExpr:
		if isIdent(x.Fun, "isHexDigit") && len(x.Args) == 1 {
			if k, ok := t.at(x.Args[0]); ok {
				return fmt.Sprintf("(CAt %d PHex)", k), true
			}
		}
	case *ast.BinaryExpr:
		switch x.Op {
		case token.LAND, token.LOR:
			a, ok1 := t.cond(x.X)
			b, ok2 := t.cond(x.Y)
			if ok1 && ok2 {
				if x.Op == token.LAND {
					return "(CAnd " + a + " " + b + ")", true
				}
				return "(COr " + a + " " + b + ")", true
			}
			return "", false
		case token.EQL, token.NEQ, token.LSS:
			if k, ok := t.at(x.X); ok {
				if c, ok := t.byteLit(x.Y); ok {
					p := map[token.Token]string{token.EQL: "PEq", token.NEQ: "PNe", token.LSS: "PLt"}[x.Op]
					return fmt.Sprintf("(CAt %d (%s %s))", k, p, c), true
				}
			}
		case token.GEQ:
			// cursor+k >= int64(len(buf))
			if k, ok := t.offset(x.X); ok && nodeText(t.p.fset, x.Y) == "int64(len(buf))" {
				return fmt.Sprintf("(CRemainLe %d)", k), true
			}
		}
	}
	t.bad = append(t.bad, "condition "+nodeText(t.p.fset, e))
	return "", false
}

func (t *curTr) block(list []ast.Stmt) string {
	res := "CDone"
	for k := len(list) - 1; k >= 0; k-- {
		for _, s := range reverse(t.stmt(list[k])) {
			res = "(CSeq " + s + " " + res + ")"
		}
	}
	return res
}

func reverse(l []string) []string {
	out := make([]string, len(l))
	for i, s := range l {
		out[len(l)-1-i] = s
	}
	return out
}

// a chain of if / else over the clauses of a switch; conds[i] == "" marks the default clause (taken last)
func (t *curTr) chain(conds []string, bodies []string) string {
	res := "CDone"
	for i := range conds {
		if conds[i] == "" {
			res = bodies[i]
		}
	}
	for i := len(conds) - 1; i >= 0; i-- {
		if conds[i] == "" {
			continue
		}
		res = "(CSeq (CIf " + conds[i] + " " + bodies[i] + " " + res + ") CDone)"
	}
	return res
}

func (t *curTr) stmt(s ast.Stmt) []string {
	switch x := s.(type) {
	case *ast.IncDecStmt:
		if x.Tok == token.INC && isIdent(x.X, "cursor") {
			return []string{"(Adv 1)"}
		}
	case *ast.AssignStmt:
		if x.Tok == token.ADD_ASSIGN && len(x.Lhs) == 1 && isIdent(x.Lhs[0], "cursor") {
			if lit, ok := x.Rhs[0].(*ast.BasicLit); ok && lit.Kind == token.INT {
				return []string{"(Adv " + lit.Value + ")"}
			}
		}
	case *ast.IfStmt:
		if x.Init == nil {
			if c, ok := t.cond(x.Cond); ok {
				els := "CDone"
				switch e := x.Else.(type) {
				case nil:
				case *ast.BlockStmt:
					els = t.block(e.List)
				default:
					els = "(CSeq CUnknown CDone)"
				}
				return []string{"(CIf " + c + " " + t.block(x.Body.List) + " " + els + ")"}
			}
		}
	case *ast.ForStmt:
		if x.Init == nil && x.Post == nil && x.Cond == nil {
			return []string{"(Loop " + t.block(x.Body.List) + ")"}
		}
		// for i := int64(1); i <= 4; i++ { ... }: unrolled
		if as, ok := x.Init.(*ast.AssignStmt); ok && as.Tok == token.DEFINE && len(as.Lhs) == 1 && nodeText(t.p.fset, as.Rhs[0]) == "int64(1)" {
			if id, ok := as.Lhs[0].(*ast.Ident); ok && nodeText(t.p.fset, x.Cond) == id.Name+" <= 4" && nodeText(t.p.fset, x.Post) == id.Name+"++" && t.ivar == "" {
				var out []string
				for v := 1; v <= 4; v++ {
					t.ivar, t.ival = id.Name, v
					for _, st := range x.Body.List {
						out = append(out, t.stmt(st)...)
					}
				}
				t.ivar = ""
				return out
			}
		}
	case *ast.SwitchStmt:
		var conds, bodies []string
		if x.Tag == nil {
			// switch c := buf[cursor]; { case <condition on c>: ... }
			as, ok := x.Init.(*ast.AssignStmt)
			if !ok || as.Tok != token.DEFINE || len(as.Lhs) != 1 || nodeText(t.p.fset, as.Rhs[0]) != "buf[cursor]" {
				break
			}
			t.bound = as.Lhs[0].(*ast.Ident).Name
			for _, cl := range x.Body.List {
				cc := cl.(*ast.CaseClause)
				if len(cc.List) == 0 {
					conds = append(conds, "")
				} else if len(cc.List) == 1 {
					c, ok := t.cond(cc.List[0])
					if !ok {
						c = "CTrue"
						bodies = append(bodies, "(CSeq CUnknown CDone)")
						conds = append(conds, c)
						continue
					}
					conds = append(conds, c)
				} else {
					conds = append(conds, "CTrue")
					bodies = append(bodies, "(CSeq CUnknown CDone)")
					continue
				}
				// the bound variable keeps the byte it was given: a body that moves the cursor must not use it
				saved := t.bound
				t.bound = ""
				bodies = append(bodies, t.block(cc.Body))
				t.bound = saved
			}
			t.bound = ""
			return []string{strings.TrimSuffix(strings.TrimPrefix(t.chain(conds, bodies), "(CSeq "), " CDone)")}
		}
		if k, ok := t.at(x.Tag); ok && x.Init == nil {
			for _, cl := range x.Body.List {
				cc := cl.(*ast.CaseClause)
				if len(cc.List) == 0 {
					conds = append(conds, "")
				} else {
					var vals []string
					good := true
					for _, v := range cc.List {
						c, ok := t.byteLit(v)
						good = good && ok
						vals = append(vals, c)
					}
					switch {
					case !good:
						t.bad = append(t.bad, "case list "+nodeText(t.p.fset, cc))
						conds = append(conds, "CTrue")
						bodies = append(bodies, "(CSeq CUnknown CDone)")
						continue
					case len(vals) == 1:
						conds = append(conds, fmt.Sprintf("(CAt %d (PEq %s))", k, vals[0]))
					default:
						conds = append(conds, fmt.Sprintf("(CAt %d (PIn [%s]))", k, strings.Join(vals, "; ")))
					}
				}
				bodies = append(bodies, t.block(cc.Body))
			}
			return []string{strings.TrimSuffix(strings.TrimPrefix(t.chain(conds, bodies), "(CSeq "), " CDone)")}
		}
	case *ast.ReturnStmt:
		if len(x.Results) == 1 {
			// func(...) error
			if isIdent(x.Results[0], "nil") {
				return []string{"RetNil"}
			}
			if _, isCall := x.Results[0].(*ast.CallExpr); isCall {
				return []string{"RetErr"}
			}
		}
		if len(x.Results) == 2 {
			if isIdent(x.Results[1], "nil") {
				if k, ok := t.offset(x.Results[0]); ok {
					return []string{fmt.Sprintf("(RetAt %d)", k)}
				}
			} else if lit, ok := x.Results[0].(*ast.BasicLit); ok && lit.Value == "0" {
				if _, isCall := x.Results[1].(*ast.CallExpr); isCall {
					return []string{"RetErr"}
				}
			}
		}
	}
	t.bad = append(t.bad, "statement "+clipText(nodeText(t.p.fset, s)))
	return []string{"CUnknown"}
}

func genCurProgs(byDir map[string]*parsed) []*genFile {
	g := &genFile{name: "CurProgs.v"}
	g.pf("(* GENERATED by tools/translate (curprog.go): cursor scanners of the decoder as programs of Base/CurProg.v - do not edit. *)\nFrom Coq Require Import NArith List.\nFrom GJ Require Import Base.CurProg.\nImport ListNotations.\nOpen Scope N_scope.\n\n")
	report := map[string]interface{}{}
	for _, it := range []struct{ dir, file, fn, name, sig string }{
		{"internal/decoder", "context.go", "skipString", "dec_skipString_prog", "func(buf []byte, cursor int64) (int64, error)"},
		{"internal/decoder", "context.go", "validateTrue", "dec_validateTrue_prog", "func(buf []byte, cursor int64) error"},
		{"internal/decoder", "context.go", "validateFalse", "dec_validateFalse_prog", "func(buf []byte, cursor int64) error"},
		{"internal/decoder", "context.go", "validateNull", "dec_validateNull_prog", "func(buf []byte, cursor int64) error"},
	} {
		p := byDir[it.dir]
		t := &curTr{p: p}
		body := "(CSeq CUnknown CDone)"
		if f := p.files[it.file]; f != nil {
			if fd := findFunc(f, it.fn); fd != nil && fd.Body != nil && nodeText(p.fset, fd.Type) == it.sig {
				body = t.block(fd.Body.List)
			} else {
				t.bad = append(t.bad, "function or signature not found")
			}
		}
		g.pf("(* %s/%s: %s %s *)\nDefinition %s : cstms :=\n  %s.\n\n", it.dir, it.file, it.fn, it.sig, it.name, body)
		report[it.name] = map[string]interface{}{"untranslated": t.bad}
		if len(t.bad) > 0 {
			g.pf("(* not translated: %s *)\n\n", strings.ReplaceAll(fmt.Sprint(t.bad), "*)", "* )"))
		}
	}
	// isHexDigit, which the conditions name: its text is what Base/CurProg.v is_hex_digit says
	hexOK := false
	if f := byDir["internal/decoder"].files["context.go"]; f != nil {
		_ = f
	}
	for _, dir := range []string{"internal/decoder"} {
		for _, f := range byDir[dir].files {
			if fd := findFunc(f, "isHexDigit"); fd != nil && fd.Body != nil {
				hexOK = nodeText(byDir[dir].fset, fd.Body) == "{ return ('0' <= c && c <= '9') || ('a' <= c && c <= 'f') || ('A' <= c && c <= 'F') }"
			}
		}
	}
	v := "false"
	if hexOK {
		v = "true"
	}
	g.pf("(* internal/decoder: isHexDigit is the test of Base/CurProg.v is_hex_digit *)\nDefinition dec_isHexDigit_as_modelled : bool := %s.\n", v)
	facts["cur_progs"] = report
	return []*genFile{g}
}
