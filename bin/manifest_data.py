NOTES = ("All checks share one engine (bin/check). Fix commits in /repo are listed in hooks.source_commits and in "
         "KNOWN_FINDINGS.txt (fixed:). Findings recorded but not repaired are open: lines there.")
NOT_APPLICABLE = {}
TB = ("Trusted: Coq 8.16.1 kernel incl. vm_compute; tools/translate; ExtrOcamlBasic extraction + runner/driver.ml; "
      "the Go harness and Go's encoding/json/strconv as oracles; the hand-written control flow of coq/Model tied to the code only by the correspondence run. "
      "No axioms (Print Assumptions: Closed under the global context for every theorem, copied into the evidence).")
CHECKS = {
 'C16': {
  'text': ("Proof (Coq): for all 64-bit patterns and widths 8/16/32/64 AppendInt/AppendUint's model prints the canonical decimal text "
           "(table read from int.go); for ALL byte strings the integer-decoder model stores only the exact value of the fitting JSON integer "
           "literal at the start of the input, succeeds iff only whitespace follows, and never reads outside the NUL-terminated buffer; "
           "every fitting literal with any surrounding whitespace is accepted. Tied to the code by translated tables/constants and ~10^5 "
           "model-vs-implementation cases per run (all 8-bit, 16-bit strata, boundaries of every power of two and ten, malformed literals), "
           "plus implementation-vs-encoding/json in pointer, map-key, ,string, slice and struct positions. Partial: stream-mode scanning and "
           "non-plain positions are compared with the oracle, not modelled."
           " The 30 width-specific constructors of both compilers ((u)int<N>[String]Code, compile(U)int<N>) carry the width of their name (translated fact)."),
  'note': TB,
  'technique': 'Coq proof over translated model + extracted-model correspondence + differential search',
 },
 'C17': {
  'text': ("Proof (Coq): for every byte string and all four escape-flag combinations, (1) the 8-byte SWAR fast path of append*String gives exactly "
           "the result of the byte-at-a-time loop (proved at word level for any OR of n, n-rep(c), (n^rep(c))-lsb terms, instantiated on the mask "
           "expressions and tables translated from string.go), (2) the emitted literal is a well-formed JSON string body with no raw control, quote, "
           "backslash and (HTML on) no raw <,>,&, (3) the buffer-mode scanner + in-place unescape model decodes it back to the original "
           "(bytes the rune decoder rejects become U+FFFD when normalising), (4) with HTML escaping or normalisation on the literal holds neither U+2028 "
           "nor U+2029 as raw bytes (proved for the non-normalising HTML variant after the fix that added the case; the former refutation is gone). Tied by ~10^5 model-vs-implementation cases per run (all strings <=2 bytes, "
           "byte classes x offsets 0..17 x lengths 4..40, literals of <=3 items), plus implementation-vs-encoding/json as value, key, interface, "
           "UnmarshalText, Token, buffer and stream (whole and 1-byte readers). Partial: stream-mode and key unescapers are compared, not modelled; "
           "the rune decoder is proved against itself (sanitize), not yet against a declarative UTF-8 definition."),
  'note': TB,
  'technique': 'Coq proof over translated tables/mask expressions + extracted-model correspondence + differential search',
 },
 'C18': {
  'text': ("Proof (Coq): for EVERY byte string the model of compact.go / indent.go (one walk, parametrised by the mode) appends exactly what "
           "encoding/json appends: Compact the raw token stream of the RFC 8259 parse (Spec/Json.v), Indent that stream laid out by the reference of "
           "encoding/json.Indent for every prefix and indent string, followed by the white space that followed the value; an error when the input is not a "
           "JSON text (nesting limit read from the source); never a read outside src++[NUL], never out of fuel; acceptance is equivalent to rfc_json; the number "
           "recogniser equals the RFC number grammar. Proved on top: Compact(Compact(x)) = Compact(x), Indent(Indent(x)) = Indent(x) for white-space prefix and "
           "indent, Compact(Indent(x)) = Compact(x), Indent(Compact(x)) = Indent(x) less its trailing white space (parser soundness into value trees, "
           "completeness on laid-out trees, nesting scan). The Coq specification itself (parse + Compact/Indent renderers) is compared with the real "
           "encoding/json on every run. Pre-filled destinations, idempotence on the implementation and HTMLEscape (which decodes and marshals again, so it is "
           "compared by value) are checked by correspondence/differential runs (all strings <=4 over the 27-byte alphabet, generated texts with every "
           "white-space placement and single-byte edits, 7 prefix/indent pairs). "
           "The number recogniser is TRANSLATED on every run from internal/encoder/compact.go and internal/decoder/number.go into a small scanner language (Base/ScanProg.v) and the translated program is proved, by symbolic execution, to return for EVERY byte string whether it is an RFC 8259 number (never a read beyond the slice, never a loop without progress)."),
  'note': TB,
  'technique': 'Coq proof (Compact and Indent models = encoding/json reference on all inputs; idempotence) + extracted-model and extracted-spec correspondence + differential search',
 },
 'C05': {
  'text': ("Proof (Coq): for EVERY byte string, Unmarshal(b,&v) with v interface{} (buffer mode: decodeEmptyInterface, map/slice/float/string decoders, "
           "literal validators, validateEndBuf) accepts exactly the RFC 8259 texts whose nesting is <= maxDecodeNestingDepth and whose numbers fit float64 "
           "(the language encoding/json accepts into interface{}); nothing outside RFC 8259 is accepted whatever the range oracle; never a read outside "
           "src++[NUL], never out of fuel. Tied by ~6*10^5 model-vs-implementation verdicts per run. Valid, Decoder.Decode (whole and 1-byte readers) and six "
           "typed destinations that skip, ignore or delegate are compared with encoding/json on all strings <=4 over the 27-byte alphabet, generated texts "
           "and their single-byte edits. The buffer-mode skip functions of the typed decoders (skipValue, skipObject, skipArray: one byte-at-a-time machine) are "
           "modelled and tied by ~6*10^5 cases through RawMessage: proved complete (every value of that language is stepped over exactly, so a valid "
           "document is never refused or read differently because a part is skipped) and proved unsound by a witness (finding SkipUnvalidated as a "
           "theorem). Partial: the stream decoder and the other typed decoders are not modelled; their recorded leniencies are open findings. "
           "The number recogniser is TRANSLATED on every run from internal/encoder/compact.go and internal/decoder/number.go into a small scanner language (Base/ScanProg.v) and the translated program is proved, by symbolic execution, to return for EVERY byte string whether it is an RFC 8259 number (never a read beyond the slice, never a loop without progress)."
           " skipString and validateTrue / validateFalse / validateNull of internal/decoder/context.go are TRANSLATED statement by statement into a cursor language (Base/CurProg.v: "
           "cursor += k, if, both kinds of switch, for { }, the counted hex loop unrolled, return cursor+k / error; reading past the buffer = Stuck) and proved, by symbolic "
           "execution of its interpreter, to return for EVERY buffer exactly where the model's string recogniser ends / whether the whole literal stands there -- no hand-written link between "
           "these functions and the model."),
  'note': TB + " Oracle parameter: float_in_range (strconv.ParseFloat's range verdict) is a function parameter of the model, not an axiom.",
  'technique': 'Coq proof (acceptor model = limited RFC 8259 grammar on all inputs) + correspondence + exhaustive small-scope differential search',
 },
 'C20': {
  'text': ("Proof (Coq): for EVERY rune string the model of PathBuilder (offset arithmetic as written, every buf[k] a checked read) neither indexes "
           "out of range nor exhausts its fuel, i.e. CreatePath cannot panic; accepted paths start with the root selector. Tied by ~4*10^4 model-vs-"
           "implementation cases per run (all strings <=5 over 13 path symbols: verdict, PathString, quote flags). Extract is compared with a reference "
           "evaluator on every accepted path x 11 documents; reuse after failing calls, histories against a fresh Path per call, Path.Unmarshal and 4 "
           "goroutines sharing one Path are checked differentially. Evaluation is modelled too (Model/PathEval.v): the document walk of DecodePath with the cursor "
           "Path.node, with the answers of Field/Index per node kind, the two loops and the per-call copy of the Path TRANSLATED from path.go, map.go, slice.go, decode.go; "
           "theorems: one Path value answers EVERY document as a fresh Path would after EVERY history of earlier documents (refuted without the copy); for every path "
           "without recursive descent and every document whose values have the kinds the selectors expect, Extract = the reference evaluation in document order; the three "
           "open deviations each have a witness outside that class. ~5*10^4 model-vs-implementation evaluations and histories per run (recursive descent and errors "
           "included), the reference evaluation as oracle. The TEXT side (Model/PathText.v): the parts Extract hands out are windows of its private copy of the document and the walk "
           "goes on reading (recursive descent reads below a part already handed out); with keys unescaped in a copy and scalars stepped over -- both TRANSLATED facts -- every part is "
           "the document's own text whatever the walk reads and however often; unescaping where the key stands is refuted by the witness of the defect repaired in this round "
           "(`$..a` on {\"a\":{\"k\\ny\":1}}); generated documents now spell keys and strings with escapes. Partial: invalid documents, the nesting limit, Path.Get and Path.Unmarshal are compared, not modelled."),
  'note': TB,
  'technique': 'Coq proofs (parser totality; evaluation pure for every history and equal to the reference on fitting documents, over translated node semantics) + extracted-model correspondence + differential history/concurrency search',
 },
 'C15': {
  'text': ("Proof (Coq): for every set of at most 8/16 names and EVERY key, the bitmap matcher model (table construction of tryOptimize, the "
           "AND-walk, TrailingZeros, the decoded-length test) never indexes its tables out of range, selects a field only if the lower-cased key equals "
           "that field's name (no prefix, no extension), and with the names in sort.Strings order always finds the field whose name is the lower-cased key. "
           "Tied by ~10^4 model-vs-implementation cases per run on eligible name sets. Raw, partly and fully \\u-escaped keys, buffer and stream (whole "
           "and 1-byte readers), 1..17 names from an 8-symbol alphabet, embedded structs to depth 3 with conflicts and Marshal member order are compared "
           "with encoding/json. Field resolution through embedded structs is modelled (Model/FieldRes.v; the flattening and filtering statements of compile.go and "
           "compiler.go are checked by the translator): for EVERY struct shape and name the selected field is the one Go's rule selects (alone at the smallest depth, "
           "or alone among the tagged there; iff), candidates are pairwise distinct, and the level-by-level resolution the code used before two repairs is refuted; "
           "generated embedding trees (value and pointer embedding, depth 3, tags, ignored fields) run through the model and encoding/json in both directions. "
           "Partial: escape decoding inside keys and the map-based fallback are compared, not modelled."
           " The 8-bit and the 16-bit key matcher are one text up to the width of their bit sets, in buffer and in stream mode (translated twin fact), so the matcher theorems speak about both; generators after an audit: names up to 65 bytes, 8/9 and 16/17 names, exact keys judged without the finding classifier, multi-member documents with duplicates, every escape spelling of a key, the member moved byte by byte across the stream window boundary, every ASCII character in tag names, first-win."),
  'note': TB + " lower (largeToSmallTable) is written by hand in the model: the table is filled by a loop in init(), which the translator does not evaluate.",
  'technique': 'Coq proofs (bitmap matcher; field resolution = Go rule for every embedding shape) + extracted-model correspondence + differential search over name sets, keys and embedding trees',
 },
 'C06': {
  'text': ("Proof (Coq): in the models a read outside an array is the value Stuck and an exhausted loop bound is the value Fuel; for EVERY input neither is "
           "produced by the integer decoder, the interface{} decoder (objects, arrays, strings with in-place unescape, numbers, literals, trailing check), "
           "Compact, the JSON Path parser and the bitmap key matcher; an opener beyond the nesting limit is always refused. The runtime remainder is observed: "
           "16 entry points x (corpus, every truncation, single-byte mutations, 256-byte x 27-context sweep, failing and piecewise readers) under recover, "
           "nesting-limit verdicts at 9999..20001 levels against encoding/json, and 10^5/10^6-level (thorough: 10^7) documents in child processes under a "
           "timeout. Partial: stream scanners, skip functions, typed decoders and the raw struct-key scanner are not modelled; real stack limits and hangs "
           "are exit statuses of child processes, not theorems."),
  'note': TB,
  'technique': 'Coq totality theorems (no Stuck, no Fuel) + panic/crash/hang search in-process and in child processes',
 },
 'C07': {
  'text': ("Proof (Coq): the array decoder's write set -- element stores plus the stores that clear elements a short JSON array does not supply, with the "
           "width of the clearing store read by the translator from internal/decoder/array.go at every fill site -- lies inside the array's own n*size bytes for "
           "EVERY base offset, element size, length and number of supplied elements (the one-word store the code used before the recorded fix is refuted with a witness); "
           "the in-place unescape never produces more bytes than it has consumed, so its write index cannot pass its read index. The rest is observed: "
           "reflect.StructOf destinations of the C02 grammar with adjacent byte canaries before, between and after every field, element sizes 1..64 in arrays "
           "and slices, guard elements behind slice capacity, valid/truncated/mutated documents addressing subsets, buffer and piecewise stream modes; after each "
           "decode every canary and guard byte, every unaddressed field, the caller's input bytes, every string/slice header and a full traversal before and after a "
           "forced GC are checked, the array write set is compared with the model, and the same cases run in a child built with -d=checkptr. Also proved: for every "
           "pointer-free destination layout (nested structs and arrays with reflect's sizes, strides and offsets) in which elements fit their stride and fields fit their "
           "struct, every document and every address, every store the decoders may make lies inside the destination, and a field no key selects is in no store "
           "(Model/Layout.v); pattern-filled allocations with guards are decoded into and every changed byte must lie in a store of the model (op c07.stores); the "
           "slice decoder's slots lie inside its working array for every capacity. Partial: stores through pointers, slice/map/string headers and the runtime helpers "
           "are covered by canaries only."
           " Slice destinations that hold elements and have spare capacity are decoded after an earlier, longer result that the caller keeps: the earlier result must stay as it is and the "
           "new one must equal encoding/json's; ,string fields meet null (nothing is stored whatever the width of the field); the translated newSlice / clearing statements are restated here."),
  'note': TB,
  'technique': 'Coq write-set bounds theorems over translated fill statement + canary/guard/header/GC/checkptr differential harness',
 },
 'C14': {
  'text': ("Proof (Coq): AnalyzeTypeAddr (loop body and epilogue) and the guard, index and allocation expressions of the four CompileToGetCodeSet / "
           "CompileToGetDecoder variants are TRANSLATED from the source on every run (tools/translate/typeaddr.go -> Gen/TypeAddr.v, uintptr subtraction modulo 2^64). "
           "Theorems: for EVERY typelinks sample, every set of live type descriptors laid out as Go lays them out (>=48 bytes each, not overlapping; congruent to "
           "base modulo 64 if the analysis chose shift 6), every number of goroutines and EVERY schedule of the load/compile/publish protocol (address-indexed slice "
           "and copy-on-write map), in both builds: a goroutine that obtained a program obtained the one compiled for its own type and no lookup indexes outside "
           "the cache (decoder: for descriptors not below base; the missing lower bound and the order dependence of the alignment inference are proved as refutation "
           "witnesses and the corresponding hypotheses are checked on the running binary). Tie: the verif hook reports the real typelinks sample, TypeAddr and the slot "
           "used for every type; harness compares them with the extracted model (c14.analyze, c14.slot), asserts first-owner uniqueness of every slot and program.Type == "
           "requested type, and encodes/decodes 3500 compiled-in + run-time reflect types in shuffled order on cold caches against encoding/json, in the !race and the race build. "
           "Partial: sequentially consistent steps only (weak-memory effects of the unsynchronised publish belong to C10); descriptor size 48 is a fact of the Go runtime."),
  'note': TB,
  'technique': 'Coq theorems over translated address analysis + cache protocol under any schedule; hook-based slot/owner correspondence in race and !race builds',
 },
 'C10': {
  'text': ("Proof (Coq): (1) the load/compile/publish protocol of the per-type caches (address-indexed slice and copy-on-write map; lookups TRANSLATED from the "
           "source) for any number of goroutines and EVERY schedule, cold start included: each call runs exactly the program a call made alone would run, in the "
           "race and the !race variant; (2) the pooled RuntimeContext: a translator analysis of every function that takes a context (12 today) shows nothing that "
           "may alias the context is used after its release or returned, and under that discipline every call reads back its own data under EVERY schedule "
           "(a release before the last use is refuted with a concrete schedule). Observed: G in 2..64 goroutines x GOMAXPROCS 1..16 run Marshal, MarshalIndent, "
           "Encoder, Unmarshal, Decoder, Compact, Indent, Valid, MarshalContext with shared and goroutine-local FieldQueries and a shared Path over batches of types no "
           "goroutine has used before the start barrier; every result is compared with the single-threaded oracle; the same program runs in the race build where every "
           "race-detector report with a frame inside the library is a violation; a watchdog reports deadlocks with the blocked stacks. (3) First use of field queries: "
           "no Filter method writes its receiver (translated from code.go), hence under EVERY schedule each goroutine compiles the program of its own query (refuted when "
           "Filter writes the query into the shared node); rounds of goroutines released together, each with a query nobody has used, restricting one interface-typed "
           "field by different sub queries. Partial: steps are sequentially "
           "consistent (the unsynchronised publish of the !race build relies on the hardware memory model, which is not modelled); real interleavings are sampled."
           " FIRST USE (Model/InitOnce.v): initEncoder / initDecoder are, as TRANSLATED, one Once.Do whose body ends with the allocation of the cache slice; for any number of "
           "goroutines and EVERY schedule a lookup that gets past the init function finds the slice allocated (a test of typeAddr in front of the Once is refuted by a 4-step schedule); "
           "observed in fresh child processes whose first calls are made by 64 goroutines at once, staggered by 0..8 microseconds, encoder first and decoder first."),
  'note': TB,
  'technique': 'Coq any-schedule theorems (cache publish protocol, pooled-context discipline from translator analysis) + concurrent differential harness in race and !race builds',
 },
 'C12': {
  'text': ("Proof (Coq): memory as regions (caller input buffers, pooled encoder buffers, slices handed to the caller); for EVERY history of Marshal*/Unmarshal* "
           "calls of any sizes interleaved with the caller overwriting its inputs and the slices it holds, everything the caller holds reads as the caller last saw or "
           "wrote it, and each Marshal result is what that call produced. The two premises -- no Marshal path returns memory that may alias a pooled context, and every "
           "unmarshal* decodes from a fresh make+copy of the input -- are read from encode.go/decode.go by the translator on every run (conservative alias analysis); "
           "each premise is shown necessary by a refutation witness. The translator also checks that no UnmarshalJSON/UnmarshalText call site is handed a slice of the "
           "stream window. Observed: 5 decode entry points on documents with strings, []byte, RawMessage, Number, retaining Unmarshaler/TextUnmarshaler, interface{}, maps; "
           "input slices with 0..5000 bytes of spare capacity (sentinel-filled) must be bit-identical afterwards; values are snapshotted, the input is overwritten, "
           "pooled buffers are churned with other sizes, snapshots compared; Decoder streams of 2..13 documents in pieces of 1..2^20 bytes keep every earlier value; "
           "6 Marshal entry points over sizes 0..70000 with all earlier results re-checked after every call, Encoder/Compact/Indent churn and caller overwrites "
           "(including spare capacity). Encoder side of the callbacks: bytes a MarshalJSON/MarshalText returns are only read -- a translator taint analysis (go/types objects) "
           "follows such a slice through assignments, re-slicing and calls and lists every append/element store/copy into it; histories with marshalers that return "
           "windows into what the caller holds keep every view intact (refuted when the sentinel is appended to the returned slice); RawMessage / marshaler windows into a "
           "canaried buffer are encoded through six entry points. Partial: the region model abstracts the decoders' sub-slicing; the Decoder's window arithmetic is observed."
           " Decoded values hold slices of pointers, maps, nested slices and structs; results of every decode entry point are held and re-read after each later decode into another value "
           "of the same type (what the slice decoder's pooled working array could share)."),
  'note': TB,
  'technique': 'Coq history theorem over a region memory model with premises from translator alias analysis + snapshot/overwrite/churn harness',
 },
 'C11': {
  'text': ("Proof (Coq): the options and scratch fields of the pooled encoder context as a state machine whose ingredients are read from the source on every run "
           "(what initOption, each entry point, each option function, RuntimeContext.Init and the indent entry assign; which functions read the fields that survive "
           "between calls). Theorem: for EVERY call (entry point, context or none, indent strings or none, any list of options) and ANY two states earlier histories "
           "may have left in the pooled context, the interpreter observes the same flag word and the same value of every field it reads; the two leaks the unrepaired "
           "code had (stale DOT/debug writer, stale indent prefix as in a conditional assignment) are refutation witnesses. Decoder entry points are shown to assign "
           "flags and buffer before use. Observed: a table of ~530 distinct calls over the whole public API (13 values incl. failing/panicking/invalid marshalers, "
           "16 documents incl. syntax and type errors, all option sets, shared Path/FieldQuery/Encoder/Decoder handles); the cold oracle of each call is its result as "
           "the first call of a fresh process (one child process per call); histories of 300 (thorough 400) random calls, each started in its own fresh process so that "
           "first-use orders differ, compare every result with the cold one; a mismatch is minimised to a two-call history replayed in a fresh process. Decoder side: "
           "the pooled working array of every slice decoder is modelled (Model/SlicePool.v; the clearing of new slots read from slice.go): for EVERY content an earlier "
           "call -- longer, shorter, failed between two elements -- may have left in it, every element type and element decoder, the call stores exactly `spec`; without "
           "the clearing, or with it for the first slots only, the statement is refuted; sequences through one slice decoder (13 element types) are compared with "
           "encoding/json and []int sequences with the model. Partial: type-cache state (C14/C10) and the remaining decoder-side pooled state are observed."
           " A long-lived Decoder (Model/DecOpts.v): the Option value saved before a call's option functions run is put back by a deferred statement (TRANSLATED: on every way out of the "
           "call); for every history of calls -- decoded, failed or left by a panic -- a call sees its own options applied to what the Decoder was set up with (restoring on success only is "
           "refuted). Two-step histories with their own oracle (a failing call, then a call that must equal the same call made first): deep list encoded after a failed encoding of it, "
           "plain Decode after a failing DecodeWithOption / DecodeContext on the same Decoder."),
  'note': TB,
  'technique': 'Coq leftover-independence theorem over translated option/context assignments + cold-process oracle vs random call histories',
 },
 'C09': {
  'text': ("Proof (Coq): the refill-and-retry pattern of internal/decoder's stream scanners as a lifting of ANY sentinel-terminated scanner (arbitrary state type and "
           "step function) to a refillable window with Stream.read (the EOF call that returns true once, empty pieces, the remembered reader error). Theorems: for every "
           "scanner, every document without NUL bytes and EVERY chunking, the stream run returns the buffer run's result and consumed length (hence any two chunkings "
           "agree); with a failing reader the outcome is the reader's error unless the scanner had stopped by itself inside the delivered bytes. Tie: the translator "
           "checks every NUL branch of every *Stream function (27) against the pattern's two syntactic rules; an instance of the lifted scanner (white space + "
           "true/false/null for *bool) is extracted and compared with Decoder.Decode on ~10^4 (document, cuts) pairs including offsets. Observed: ~740 valid and "
           "invalid documents x up to 11 destination types x (one piece, piece sizes 1..17, every single cut, pairs of cuts, cuts around 511..2048) for verdict, value "
           "and InputOffset; stream vs Unmarshal; concatenated documents with More/InputOffset/EOF; Token sequences vs encoding/json; reader failure injected at "
           "every byte position vs encoding/json. Partial: the in-place unescape (window shifting), readAtLeast and statForRetry arithmetic are observed, not modelled; "
           "embedded NUL bytes are excluded from the theorems."
           " After an audit of the generators: Token under a failing reader at every byte position (oracle: the tokens before the first error are a prefix of the document's tokens, the final error is the reader's), 30 destination families of C02 (both key matchers, the map-lookup key decoder, ,string fields, embedded structs, Unmarshaler / TextUnmarshaler values and keys behind interfaces, Number, RawMessage, []byte, arrays, every integer width, integer-keyed maps) with stream = buffer and chunking invariance across the 512/1024 refills, decoder options, the Token/More/Decode loop with InputOffset and Buffered, typed document streams around the refill boundaries, reader protocol corners (data with EOF, (0,nil) reads, data with error), documents of 8 KB .. 6 MB. Two defects found this way were repaired (8798920, 51bcef6)."),
  'note': TB,
  'technique': 'Coq parametric simulation theorem (stream scanner = buffer scanner under any chunking / failing reader) + translator pattern rules + extracted instance + exhaustive-cut differential harness',
 },
 'C01': {
  'text': ("Proof (Coq): the interpreter's emission discipline (vm/util.go helper algebra: value text + comma, closers overwrite the last comma, appendStructEndSkipLast "
           "after omitted members, final trim in encode.go) writes, for EVERY value of any nesting with any subset of members omitted and any buffer prefix, exactly the "
           "compact text of the token sequence the value denotes; extracted and compared with Marshal on abstract values realised as Go structs/slices with omitempty "
           "members. Observed: types generated from all supported kinds (all int/uint/float widths, bool, string, []byte, Number, RawMessage, time.Time, slices, arrays, "
           "maps with string/int/TextMarshaler keys, pointers to depth 3, interfaces, structs with every tag combination, embedded value/pointer structs with conflicts, "
           "recursive types, value/pointer-receiver marshalers) x boundary and random values with nil at every nilable position x reached directly / through a pointer / "
           "through interface{} x Marshal, MarshalIndent, Encoder with escapeHTML on/off and indent, compared with encoding/json up to the tolerated token spellings; a "
           "crash of the encoder is attributed to the case being run. Ten recorded findings with frozen syntactic classes (see KNOWN_FINDINGS.txt); four of them crash "
           "the process and are excluded from generation and probed by witnesses in child processes. "
           "Also proved: omitempty on a member whose type implements a marshaler interface is left out exactly when encoding/json leaves it out, for every value of every kind in both member positions, but for one named case (Model/Emptiness.v over the rules and interpreter cases the translator reads from the source; op c01.omits); the interpreter's MarshalText cases are its MarshalJSON cases renamed (Gen/Twins.v). "
           "Partial: the compile step from Go types to opcodes is not modelled."),
  'note': TB,
  'technique': 'Coq emission-discipline theorem (enc = compact text of tokens) with extracted-model correspondence + generated type/value differential against encoding/json',
 },
 'C13': {
  'text': ("Proof (Coq): the compact interpreter writes exactly the compact text of the token sequence a value denotes, the same text at top level and in any position "
           "inside a buffer, and permuting an object's members permutes the member texts and nothing else; the INDENTING interpreter is modelled as well (the helper "
           "algebra of vm_indent/util.go, bodies copied by the translator on every run): for EVERY prefix, indent string and value it writes the text whose tokens are "
           "separated by newline + prefix + depth x indent, and with white space as prefix and indent the RFC 8259 recogniser reads from it the same token sequence as from "
           "the compact text, with nothing left over -- Marshal and MarshalIndent describe the same document (parser completeness for white-space-separated renderings). "
           "The model is run byte for byte against MarshalIndent (op c13.indent, 8 prefix/indent pairs incl. non-white-space ones). Observed for values of the C01 "
           "type grammar: MarshalIndent(v,p,i) = encoding/json.Indent(Marshal(v),p,i) for 7 prefix/indent pairs incl. multi-byte and empty, Encoder.SetIndent, "
           "Colorize with the empty scheme = Marshal, with a scheme of unique markers = Marshal once the markers are removed (compact and indent), UnorderedMap = same "
           "document up to member order and same length, DisableHTMLEscape = Marshal with the three HTML escapes spelled out, Encoder.Encode / MarshalNoEscape / "
           "MarshalContext / Debug = Marshal, and Marshal(&v), [v] and {i:v} contain Marshal(v) wherever encoding/json itself does not distinguish the positions. "
           "The colouring interpreter is modelled too (Model/EncColor.v; helper shapes of vm_color and vm_color_indent checked by the translator): for EVERY scheme, "
           "markers of any bytes, and every value the coloured output is Marshal's bytes with markers inserted (removing exactly the markers gives Marshal's bytes), and "
           "with the empty scheme it is Marshal's bytes; run byte for byte against Colorize (op c13.color, markers made of control bytes and of JSON punctuation). "
           "Partial: UnorderedMap, DisableHTMLEscape and the entry points are compared, not modelled; the interpreter clauses are tied by the helper bodies and output correspondence."
           " TWINS read from the source on every run (Gen/Twins.v): the slot readers of the four vm*/util.go (ptrToUint64 ... store) have one text in all four interpreters, the append* helpers are the ones that differ; the head / field opcode tables of opcode.go answer OpStructHead<X>[String] / OpStructField<X>[String] for every case Op<X> but six named ones."),
  'note': TB,
  'technique': 'Coq emission theorems for the compact and the indenting interpreter (same token sequence read back from both texts) over translated helper bodies + extracted-model correspondence + cross-variant differential harness over the generated type grammar',
 },
 'C03': {
  'text': ("Proof (Coq): the output of the emission discipline is the compact text of a token sequence generated by the grammar scalar | [ values ] | { members } "
           "(no dangling comma by construction), and that sequence is bracket-balanced at every prefix for EVERY value whose leaves are scalar tokens; every float "
           "operation of the four interpreters (25 float64 + 25 float32 clauses, bodies byte-identical across the interpreters) carries the NaN/Inf guard (translator "
           "fact, re-read on every run; the float32 guard is a recorded fix). Leaf well-formedness is C16 (integers) and C17 (string literals). Observed: C01 type grammar "
           "extended with non-finite floats of both widths in every position, arbitrary json.Number strings, RawMessage / MarshalJSON / MarshalText returning arbitrary "
           "bytes; 11 entry point / option combinations; a successful result must be exactly one RFC 8259 value (encoding/json.Valid, nothing around it but the Encoder's "
           "newline), valid UTF-8 while normalisation is on, and what encoding/json refuses as unrepresentable must be refused. Partial: the parser-completeness theorem "
           "(parse_json (marshal v) = tokens) is not proved; validity of composed output is observed with encoding/json.Valid. "
           "The number recogniser is TRANSLATED on every run from internal/encoder/compact.go and internal/decoder/number.go into a small scanner language (Base/ScanProg.v) and the translated program is proved, by symbolic execution, to return for EVERY byte string whether it is an RFC 8259 number (never a read beyond the slice, never a loop without progress)."),
  'note': TB,
  'technique': 'Coq grammar/balance theorems over the emission model + translator float-guard facts + validity harness over generated types with unrepresentable values',
 },
 'C08': {
  'text': ("Proof (Coq): the frame arithmetic of the interpreters with the constants TRANSLATED from linkRecursiveCode, copyToInterfaceOpcode, setTotalLengthToInterfaceOp "
           "and the OpInterface/OpRecursive cases of vm.go on every run: for EVERY sequence of nested recursive calls and interface values and all code lengths, each frame's "
           "code (including the three slots of its end opcode) stays inside the slots reserved for it and each nested frame starts behind its parent's; the two repaired "
           "defects (saved base indent outside the frame; interface frame inside a recursive frame) are proved as refutation witnesses for the old constants. Observed: "
           "recursive, mutually recursive and interface-bearing shapes with every field kind before and after the recursive member, nesting depth 0..2000, DAG-shaped values, "
           "cycles through pointers, maps, slices, arrays and interfaces (must give an error), generated types, marshal callbacks that allocate, force GC and grow the stack, "
           "the four interpreters, each compared with encoding/json, in a child process (crash/hang attributed to the case) and again in a child built with -d=checkptr. "
           "Instead of the hook named in the property (bounds assertions in load/store) the frame theorem plus the checkptr build are used. Cycle detection is modelled "
           "(Model/Cycle.v, threshold read from the source): on EVERY finite graph of values the recursion ends within threshold + nodes + 1 levels (a cycle gives the "
           "error, never unbounded recursion) and a value without a cycle, shared parts included, is never refused; generated graphs with straight parts of up to 1100 "
           "nodes, DAG tails and back edges run through the model with encoding/json as oracle. Partial: GC interaction is observed; CurLen is modelled as the full "
           "length of the enclosing code."),
  'note': TB,
  'technique': 'Coq frame-separation theorem over translated interpreter constants and cycle-detection theorems (termination on every graph, no false cycle) + extracted-model correspondence + deep/recursive/cyclic/GC-callback harness in normal and checkptr child processes',
 },
 'C19': {
  'text': ("Proof (Coq): model of the stored Code tree, the Filter methods, the run of a filtered program on a value, the query cache and FieldQuery.MarshalJSON / "
           "FieldQueryString.Build. Theorems: for EVERY code tree, value (any nesting of pointers, lists, maps, structs, interfaces and context-aware marshalers holding "
           "values of any code) and query, the text written under the query is the text of the document restricted to the selected fields (filtering the program commutes "
           "with restricting the document); selected keys are exactly the named keys of the whole document in order; a field selected without a sub query is written whole; "
           "for EVERY history of encodings of one type with different queries and with none each gets the program of its own query (cache keyed by the query's text, which "
           "determines the query); Build(QueryString(q)) = q for every query BuildFieldQuery can make; the threshold of MarshalJSON matters (refutation for any other). "
           "The shapes of the Filter methods, of the interface operation, of the cache, of the marshaler call and the threshold are TRANSLATED from the source on every run. "
           "Observed: generated struct types of the C01 grammar and a fixed family with interfaces, non-empty interfaces and context-aware marshalers inside pointers, "
           "slices and maps; queries = random subsets of keys at every level to depth 3 plus names that do not exist; several queries and the unfiltered encoding on the "
           "same type in random orders, twice; oracle = encoding/json's document projected along the Go value; every triple is also run through the extracted model. "
           "Three defects found and repaired (BuildFieldQuery panic on an empty sub query; sub queries ignored on slices, arrays and maps; values in interfaces selected "
           "by the document's query instead of the field's). Partial: embedded (promoted) fields and struct types with two fields of one name are not generated; the text "
           "rendering of a query name relies on C01/C17; MarshalIndent with a query is observed only through the shared program."),
  'note': TB,
  'technique': 'Coq filter/projection commutation, cache-history and QueryString round-trip theorems over translated Filter shapes + extracted-model correspondence and projected encoding/json oracle on generated types, values, queries and orders',
 },
 'C04': {
  'text': ("Proof (Coq): (1) parser completeness on the image of the encoder: for EVERY value tree (any nesting, any members left out by omitempty) whose leaves are well formed, "
           "the text Marshal writes is accepted by the strict RFC 8259 recogniser with nothing left over, its token sequence is the value's, and a recursive-descent reader "
           "builds from it exactly the tree that was written minus the members left out; every string AppendString writes and every integer AppendInt/AppendUint writes is "
           "such a leaf (from the C17 / C16 theorems over the translated tables). (2) for every width and every integer, the integer decoder reads AppendInt's / AppendUint's "
           "text back as the same integer. (3) for every byte string, the string decoder reads AppendString's literal back as the same string. (4) TYPED round trip: for "
           "every type of the modelled fragment (bool, integers, strings, pointers, slices, arrays, string- and integer-keyed maps (keys printed by the integer printer, parsed as ParseInt / ParseUint do), structs, []byte; Model/EncTyped.v = what Marshal writes, "
           "Model/Decode.v = what Unmarshal does, both run beside the implementation: ops c01.typed, c02.dec) and every round-trippable value, the text Marshal writes is one "
           "RFC 8259 text, reading it gives the tree that was written, and decoding that tree into a fresh value gives the value back. Observed: generated "
           "round-trippable values of the lossless C01 grammar (extreme integers of every width, 17-digit floats, every escape class, nil/empty containers, nesting; "
           "round-trippable = encoding/json's own round trip gives the value back) through Marshal->Unmarshal, Marshal(&v), MarshalIndent, Encoder->Decoder, "
           "indenting Encoder -> Decoder fed one byte at a time, encoding/json's text -> Unmarshal, and streams of several values through one Encoder and one Decoder. "
           "(5) BYTE SLICES: base64 as both sides use it (Model/Base64.v: padded standard alphabet; a decoder that steps over CR/LF, wants whole quanta, accepts padding only in the "
           "last one and ignores the unused bits of the last sextet) -- for EVERY byte string decode(encode bs) = bs, the text consists of alphabet characters none of which the string "
           "scanner changes, so the literal reads back as the bytes, its length is EncodedLen, and whatever the decoder accepts it stores bytes; the model runs beside encoding/base64 "
           "and beside Marshal / Unmarshal / Decoder (ops c04.b64enc, c04.b64dec: every length class, CR/LF anywhere, cut, foreign characters, misplaced / missing padding, set "
           "spare bits, URL alphabet). One defect found and repaired (escaped struct key across a stream buffer refill, recorded under C09). Partial: floats are strconv on "
           "both sides (not modelled); how the typed decoders store leaves into Go memory is observed, not modelled; values whose shape is one of C01's open encoder findings "
           "are left to C01."),
  'note': TB,
  'technique': 'Coq parser-completeness / tree-read-back theorem over the emission model plus integer and string round-trip theorems over translated tables + generated-value round trips through every encode/decode route against encoding/json\'s own round trip',
 },
 'C02': {
  'text': ("Proof (Coq): the arithmetic / grammar part of the agreement -- for every integer width and EVERY text the integer decoder stores z exactly when the text is "
           "the JSON integer literal of a z in range (both directions), never a wrapped value, and in stream mode refuses a fraction or exponent before storing (C16 "
           "theorems, restated for C02); interface{} acceptance = RFC 8259 + float64 range (C05), exact string unescaping (C17); the expressions of the source on which "
           "agreement hangs (float width, integer map key parsing, the kinds ,string applies to, null for TextUnmarshaler / []byte / json.Number, stream float-tail "
           "test) are TRANSLATED facts on every run. Observed against encoding/json itself: (a) a deterministic sweep of 47 small destination types (every basic kind, "
           "named kinds, Unmarshaler / TextUnmarshaler implementers, pointers, slices, arrays, maps with string / integer / TextUnmarshaler keys, interface{}, a struct "
           "with ,string fields) x ~150 boundary documents (integers at and beyond every range boundary in several spellings, floats at the float32/float64 edges, every "
           "escape class, base64 shapes, null/true/objects/arrays, duplicate and case-variant keys) x zero / pre-populated x Unmarshal / Decoder / UseNumber / "
           "DisallowUnknownFields with a frozen (currently empty) expectation list; (b) generated types of the C01 grammar plus implementers and embedded structs, with "
           "documents generated FOR the type (null and wrong kinds in every position, unknown / duplicate / escaped / case-variant keys, short and long arrays, white "
           "space), zero and pre-populated destinations, all entry points, in a child process (a decoder that writes the wrong shape can make the comparison fault). "
           "Ten defects found and repaired (null into a TextUnmarshaler value wrote one nil word into the value; stream integers took a prefix of 1.5 / 1e2; float32 "
           "overflow stored Inf; null into json.Number an error; null kept a []byte; integer map keys \"01\" / \"+1\" refused and \"null\" accepted; bool passed as "
           "text to TextUnmarshaler; ,string demanded on pointers to aggregates; ...); two recorded as open findings. Partial: merged maps, reused pointers and slices, "
           "nil versus empty are observed, not modelled; letters outside ASCII in keys keep their case in generated documents (their folding is C15's open finding)."
           " After an audit of the generators: ,string fields with quoted values of every kind, interfaces with methods (nil and set), 23 map key types, string and number spellings at any position, "
           "struct key matchers at 8/9 and 16/17 fields and 63/64/65-byte names, documents written along the initial value, 32 destination forms, nesting 9998..10004 through 12 routes, implementer shapes "
           "(methods on slices, maps, byte kinds, both methods, value receivers, promotion), integer-keyed maps and []byte through the typed model. Eight divergences found this way are recorded findings "
           "with witnesses (KNOWN_FINDINGS.txt), their inputs produced under the predicate of the finding and reported under its tag."),
  'note': TB,
  'technique': 'Coq integer-range iff theorem and translated decoder-shape facts + deterministic destination x boundary-document sweep with frozen expectations and generated (type, document-for-type, initial value) triples against encoding/json in a crash-attributing child process',
 },
}
