(* 64-bit word arithmetic written out with explicit wrap-around, and the
   expression AST the translator emits for the SWAR masks. *)
From Coq Require Import NArith ZArith List Bool Lia.
Import ListNotations.
Open Scope N_scope.

Definition W : N := 18446744073709551616. (* 2^64 *)
Definition wrap (x : N) : N := x mod W.
Definition wadd (a b : N) : N := (a + b) mod W.
Definition wsub (a b : N) : N := (a + W - b mod W) mod W.
Definition wmul (a b : N) : N := (a * b) mod W.
Definition wneg (a : N) : N := (W - a mod W) mod W.

Inductive wexpr :=
| WVar
| WBad
| WConst (c : N)
| WOr (a b : wexpr)
| WXor (a b : wexpr)
| WAnd (a b : wexpr)
| WSub (a b : wexpr)
| WAdd (a b : wexpr)
| WMul (a b : wexpr).

Fixpoint weval (e : wexpr) (n : N) : N :=
  match e with
  | WVar => n
  | WBad => 0
  | WConst c => c mod W
  | WOr a b => N.lor (weval a n) (weval b n)
  | WXor a b => N.lxor (weval a n) (weval b n)
  | WAnd a b => N.land (weval a n) (weval b n)
  | WSub a b => wsub (weval a n) (weval b n)
  | WAdd a b => wadd (weval a n) (weval b n)
  | WMul a b => wmul (weval a n) (weval b n)
  end.

(* little-endian word of a byte list *)
Fixpoint to_word (bs : list N) : N :=
  match bs with [] => 0 | b :: r => b + 256 * to_word r end.

(* index of the least significant set bit, by bounded search *)
Fixpoint tz_fuel (fuel : nat) (i : N) (x : N) : N :=
  match fuel with
  | O => i
  | S f => if N.testbit x i then i else tz_fuel f (i + 1) x
  end.
Definition tz64 (x : N) : N := if x =? 0 then 64 else tz_fuel 64 0 x.
