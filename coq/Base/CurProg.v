(* A small imperative language for the scanners of the decoder that walk the input with a cursor:
       func f(buf []byte, cursor int64) (int64, error)
   Statements: cursor += k, if / else (switch statements are written as chains of them), for { ... }, return cursor+k, nil,
   return 0, err.  Conditions look at buf[cursor+k] for constant k: equal to / different from / below a constant, one of a
   list of constants, a hexadecimal digit; `cursor+k >= len(buf)`; &&, || and ! as in Go.
   The translator (tools/translate/curprog.go) turns such a function into a term of this language (coq/Gen/CurProgs.v);
   the interpreter below gives it its meaning.  The state is the part of the buffer from the cursor on: buf[cursor+k] is
   its k-th byte -- reading it when there is none is Go's index-out-of-range panic (Stuck); cursor += k drops k bytes
   (Stuck when there are fewer: the program would go on with the cursor beyond the buffer, which none of the translated
   functions does before returning). *)
From Coq Require Import NArith List Bool.
Import ListNotations.
Open Scope N_scope.

Inductive bpred :=
| PEq (c : N) | PNe (c : N) | PLt (c : N) | PIn (cs : list N) | PHex | PNotHex.

Definition is_hex_digit (c : N) : bool :=
  ((48 <=? c) && (c <=? 57)) || ((97 <=? c) && (c <=? 102)) || ((65 <=? c) && (c <=? 70)).

Definition holds (p : bpred) (x : N) : bool :=
  match p with
  | PEq c => x =? c
  | PNe c => negb (x =? c)
  | PLt c => x <? c
  | PIn cs => existsb (N.eqb x) cs
  | PHex => is_hex_digit x
  | PNotHex => negb (is_hex_digit x)
  end.

Inductive ccnd :=
| CAt (k : nat) (p : bpred)          (* p (buf[cursor+k]) *)
| CRemainLe (k : nat)                (* cursor+k >= len(buf) *)
| CAnd (a b : ccnd)
| COr (a b : ccnd)
| CTrue.

Inductive cstm :=
| Adv (k : nat)
| CIf (c : ccnd) (t e : cstms)
| Loop (body : cstms)                (* for { body } *)
| RetAt (k : nat)                    (* return cursor+k, nil *)
| RetErr                             (* return 0, err  /  return err *)
| RetNil                             (* return nil *)
| CUnknown
with cstms :=
| CDone
| CSeq (s : cstm) (r : cstms).

Inductive cres := CRStuck | CROutOfFuel | CRAt (rest : list N) | CRErr | CRNil | CRFell (rest : list N).

Fixpoint ceval (c : ccnd) (rest : list N) : option bool :=
  match c with
  | CAt k p => match nth_error rest k with Some x => Some (holds p x) | None => None end
  | CRemainLe k => Some (Nat.leb (length rest) k)
  | CAnd a b => match ceval a rest with Some true => ceval b rest | r => r end
  | COr a b => match ceval a rest with Some false => ceval b rest | r => r end
  | CTrue => Some true
  end.

Definition drop (k : nat) (rest : list N) : option (list N) :=
  if Nat.leb k (length rest) then Some (skipn k rest) else None.

Section Exec.
  Variable fuel : nat.           (* bound on the iterations of each loop *)

  Fixpoint cexec1 (s : cstm) (rest : list N) {struct s} : cres :=
    match s with
    | Adv k => match drop k rest with Some r => CRFell r | None => CRStuck end
    | CIf c t e =>
        match ceval c rest with
        | None => CRStuck
        | Some true => cexec t rest
        | Some false => cexec e rest
        end
    | Loop body =>
        (fix loop (n : nat) (rest : list N) {struct n} : cres :=
           match n with
           | O => CROutOfFuel
           | S n' => match cexec body rest with CRFell rest' => loop n' rest' | y => y end
           end) fuel rest
    | RetAt k => match drop k rest with Some r => CRAt r | None => CRStuck end
    | RetErr => CRErr
    | RetNil => CRNil
    | CUnknown => CRStuck
    end
  with cexec (l : cstms) (rest : list N) {struct l} : cres :=
    match l with
    | CDone => CRFell rest
    | CSeq x r => match cexec1 x rest with CRFell rest' => cexec r rest' | y => y end
    end.
End Exec.

(* a function entered with the cursor at the beginning of `rest`: enough fuel for any loop that advances *)
Definition run_cursor (p : cstms) (rest : list N) : cres := cexec (S (length rest)) p rest.

Declare Scope cprog_scope.
Delimit Scope cprog_scope with cprog.
Notation "{{ }}" := CDone : cprog_scope.
Notation "{{ x }}" := (CSeq x CDone) : cprog_scope.
Notation "{{ x ; y ; .. ; z }}" := (CSeq x (CSeq y .. (CSeq z CDone) ..)) : cprog_scope.
