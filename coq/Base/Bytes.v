(* Bytes as N, byte strings as lists; finite-sweep lifting. *)
From Coq Require Import NArith ZArith List Bool Lia String Ascii.
From Coq Require Import ZifyN ZifyNat ZifyBool.
Import ListNotations.
Open Scope N_scope.

Definition byte := N.
Definition bytes := list N.
Definition byte_ok (b : N) : Prop := b < 256.
Definition bytes_ok (s : bytes) : Prop := Forall byte_ok s.

Fixpoint bytes_okb (s : bytes) : bool :=
  match s with [] => true | b :: r => (b <? 256) && bytes_okb r end.

Lemma bytes_okb_spec s : bytes_okb s = true <-> bytes_ok s.
Proof.
  induction s as [|b r IH]; cbn [bytes_okb]; split; intro H.
  - constructor.
  - reflexivity.
  - apply andb_true_iff in H. destruct H as [H1 H2]. constructor.
    + unfold byte_ok. apply N.ltb_lt. exact H1.
    + apply IH. exact H2.
  - inversion H as [|? ? Hb Hr]; subst. apply andb_true_iff. split.
    + apply N.ltb_lt. exact Hb.
    + apply IH. exact Hr.
Qed.

(* the list 0..n-1 *)
Fixpoint upto_nat (n : nat) : list N :=
  match n with O => [] | S k => upto_nat k ++ [N.of_nat k] end.
Definition all_bytes : list N := upto_nat 256.

Lemma upto_nat_in n b : b < N.of_nat n -> In b (upto_nat n).
Proof.
  induction n as [|n IH]; intro H.
  - lia.
  - cbn [upto_nat]. apply in_or_app.
    destruct (N.eq_dec b (N.of_nat n)) as [E|E].
    + right. left. symmetry. exact E.
    + left. apply IH. lia.
Qed.

Lemma forall_bytes (P : N -> bool) :
  forallb P all_bytes = true -> forall b, b < 256 -> P b = true.
Proof.
  intros H b Hb. rewrite forallb_forall in H. apply H.
  apply upto_nat_in. exact Hb.
Qed.

Lemma forall_upto (P : N -> bool) n :
  forallb P (upto_nat n) = true -> forall b, b < N.of_nat n -> P b = true.
Proof.
  intros H b Hb. rewrite forallb_forall in H. apply H. apply upto_nat_in. exact Hb.
Qed.

(* table lookup; out of range is None (never a default) *)
Definition tbl (t : list N) (i : N) : option N := nth_error t (N.to_nat i).
Definition tblb (t : list N) (i : N) : bool :=
  match tbl t i with Some 0 => false | Some _ => true | None => false end.
Definition tbl0 (t : list N) (i : N) : N :=
  match tbl t i with Some v => v | None => 0 end.

Fixpoint list_eqb (a b : list N) : bool :=
  match a, b with
  | [], [] => true
  | x :: a', y :: b' => (x =? y) && list_eqb a' b'
  | _, _ => false
  end.

Lemma list_eqb_eq a : forall b, list_eqb a b = true <-> a = b.
Proof.
  induction a as [|x a IH]; intros [|y b]; cbn [list_eqb]; split; intro H;
    try reflexivity; try discriminate.
  - apply andb_true_iff in H. destruct H as [H1 H2].
    apply N.eqb_eq in H1. apply IH in H2. subst. reflexivity.
  - inversion H; subst. apply andb_true_iff. split.
    + apply N.eqb_refl.
    + apply IH. reflexivity.
Qed.

(* ASCII text literals as byte lists *)
Fixpoint str (s : string) : list N :=
  match s with
  | EmptyString => []
  | String c r => N_of_ascii c :: str r
  end.

Fixpoint rep {A} (c : A) (n : nat) : list A :=
  match n with O => [] | S k => c :: rep c k end.

Lemma rep_length {A} (c : A) n : List.length (rep c n) = n.
Proof. induction n as [|n IH]; cbn; [reflexivity|]. rewrite IH. reflexivity. Qed.
