(* Parsing/printing helpers used only by the runner's dispatch (not by theorems). *)
From Coq Require Import NArith ZArith List Bool String.
From GJ Require Import Base.Bytes.
Import ListNotations.
Open Scope N_scope.

Fixpoint dec_N_acc (s : list N) (acc : N) : N :=
  match s with [] => acc | c :: r => dec_N_acc r (10 * acc + (c - 48)) end.
Definition dec_N (s : list N) : N := dec_N_acc s 0.
Definition dec_Z (s : list N) : Z :=
  match s with 45 :: r => (- Z.of_N (dec_N r))%Z | _ => Z.of_N (dec_N s) end.

Fixpoint show_N_fuel (fuel : nat) (n : N) (acc : list N) : list N :=
  match fuel with
  | O => acc
  | S f => if n <? 10 then (48 + n) :: acc else show_N_fuel f (n / 10) ((48 + n mod 10) :: acc)
  end.
Definition show_N (n : N) : list N := show_N_fuel (S (N.to_nat (N.size n))) n [].
Definition show_Z (z : Z) : list N :=
  match z with
  | Z0 => [48]
  | Zpos p => show_N (Npos p)
  | Zneg p => 45 :: show_N (Npos p)
  end.
Definition show_bool (x : bool) : list N := if x then [49] else [48].

Fixpoint join (sep : list N) (l : list (list N)) : list N :=
  match l with
  | [] => []
  | [x] => x
  | x :: r => x ++ sep ++ join sep r
  end.

Definition hexd (n : N) : N := if n <? 10 then 48 + n else 87 + n.
Fixpoint show_hex (s : list N) : list N :=
  match s with [] => [] | c :: r => hexd (c / 16) :: hexd (c mod 16) :: show_hex r end.
