(* Vocabulary of the translated type-address analysis (Gen/TypeAddr.v). *)
From Coq Require Import NArith List Bool.
Open Scope N_scope.

(* one type descriptor reachable through typelinks: its address, whether it is
   a pointer type and, if so, the address of its element type *)
Record sample := { s_addr : N; s_ptr : bool; s_elem : N }.

(* min, max, isAligned64, isAligned32 *)
Definition astate := (N * N * bool * bool)%type.

Record typeaddr := { ta_base : N; ta_max : N; ta_range : N; ta_shift : N }.

Definition two64 : N := 18446744073709551616.
(* uintptr subtraction *)
Definition subw (a b : N) : N := (a + two64 - b) mod two64.
