(* A small imperative language for the byte scanners of the library that walk a slice with one index:
       i, n := 0, len(s)      if / else      for cond { ... }      i++      return cond
   Conditions compare i with n and s[i] with byte constants; && and || evaluate their right side only when needed,
   as in Go.  The translator (tools/translate/scanprog.go) turns such a function into a term of this language
   (coq/Gen/ScanProgs.v); the interpreter below gives it its meaning.  The state is the part of the slice from
   index i on: `i < n` is "not empty", `i == n` is "empty", `s[i]` its first byte -- reading it when there is none
   is Go's index-out-of-range panic (Stuck); `i++` drops one byte (Stuck when there is none: the program would go
   on with i > n, which none of the translated functions does). *)
From Coq Require Import NArith List Bool.
Import ListNotations.
Open Scope N_scope.

Inductive cnd :=
| InRange                      (* i < n *)
| AtEnd                        (* i == n *)
| AtEq (c : N)                 (* s[i] == c *)
| AtLt (c : N)                 (* s[i] < c *)
| AtGt (c : N)                 (* c < s[i]   (s[i] > c) *)
| AtGe (c : N)                 (* c <= s[i] *)
| AtLe (c : N)                 (* s[i] <= c *)
| And (a b : cnd)
| Or (a b : cnd).

Inductive stm :=
| Inc
| If (c : cnd) (t e : stms)
| While (c : cnd) (body : stms)
| Ret (c : cnd)
| RetB (b : bool)
| Unknown                      (* a statement the translator does not understand *)
with stms :=
| Done
| Seq (s : stm) (r : stms).

Inductive res := Stuck | OutOfFuel | Returned (b : bool) | Fell (rest : list N).

Fixpoint eval (c : cnd) (rest : list N) : option bool :=
  match c with
  | InRange => Some (match rest with [] => false | _ => true end)
  | AtEnd => Some (match rest with [] => true | _ => false end)
  | AtEq k => match rest with x :: _ => Some (x =? k) | [] => None end
  | AtLt k => match rest with x :: _ => Some (x <? k) | [] => None end
  | AtGt k => match rest with x :: _ => Some (k <? x) | [] => None end
  | AtGe k => match rest with x :: _ => Some (k <=? x) | [] => None end
  | AtLe k => match rest with x :: _ => Some (x <=? k) | [] => None end
  | And a b => match eval a rest with Some true => eval b rest | r => r end
  | Or a b => match eval a rest with Some false => eval b rest | r => r end
  end.

Section Exec.
  Variable fuel : nat.           (* bound on the iterations of each loop *)

  Fixpoint exec1 (s : stm) (rest : list N) {struct s} : res :=
    match s with
    | Inc => match rest with _ :: r => Fell r | [] => Stuck end
    | If c t e =>
        match eval c rest with
        | None => Stuck
        | Some true => exec t rest
        | Some false => exec e rest
        end
    | While c body =>
        (fix loop (k : nat) (rest : list N) {struct k} : res :=
           match k with
           | O => OutOfFuel
           | S k' =>
               match eval c rest with
               | None => Stuck
               | Some false => Fell rest
               | Some true => match exec body rest with Fell rest' => loop k' rest' | y => y end
               end
           end) fuel rest
    | Ret c => match eval c rest with Some b => Returned b | None => Stuck end
    | RetB b => Returned b
    | Unknown => Stuck
    end
  with exec (l : stms) (rest : list N) {struct l} : res :=
    match l with
    | Done => Fell rest
    | Seq x r => match exec1 x rest with Fell rest' => exec r rest' | y => y end
    end.
End Exec.

(* a function `func f(s []byte) bool`: run on s with enough fuel for any loop that advances *)
Definition run_scanner (p : stms) (s : list N) : res := exec (S (length s)) p s.

(* program text as the translator writes it *)
Declare Scope prog_scope.
Delimit Scope prog_scope with prog.
Notation "{{ }}" := Done : prog_scope.
Notation "{{ x }}" := (Seq x Done) : prog_scope.
Notation "{{ x ; y ; .. ; z }}" := (Seq x (Seq y .. (Seq z Done) ..)) : prog_scope.
