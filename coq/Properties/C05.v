(* C05 — Decoding accepts exactly the RFC 8259 language.
   Proved here: the buffer-mode decoder for interface{} (Unmarshal(b, &v)).
   The stream decoder (Decoder.Decode, Valid) and typed destinations are
   compared with the oracle on every run, not modelled. *)
From Coq Require Import NArith ZArith List Bool.
From GJ Require Import Base.Bytes Gen.Tables Model.Int Model.Compact Model.Iface Spec.Json
  Proofs.JsonSpecP Proofs.IfaceP.
Import ListNotations.
Open Scope N_scope.

(* the language encoding/json accepts into interface{}: RFC 8259 with nesting
   <= maxDecodeNestingDepth and every number inside float64's range
   (range = strconv.ParseFloat succeeds: an oracle, see the trusted base) *)
Definition std_iface_language (range : list N -> bool) (data : list N) : bool :=
  match parse_g (Some Iface.max_depth) range data with Some _ => true | None => false end.

(* 1. for EVERY byte string: accepted iff in that language; never a read
      outside src ++ [NUL]; never out of fuel *)
Theorem C05_iface_accepts_exactly : forall range data,
  iface_unmarshal range data = if std_iface_language range data then COk tt else CErr.
Proof.
  intros range data. rewrite iface_unmarshal_spec. unfold std_iface_language.
  destruct (parse_g (Some Iface.max_depth) range data); reflexivity.
Qed.
Print Assumptions C05_iface_accepts_exactly.

(* 2. whatever the range oracle: nothing outside RFC 8259 is accepted *)
Theorem C05_iface_accepts_only_rfc : forall range data,
  iface_unmarshal range data = COk tt -> rfc_json data = true.
Proof.
  intros range data H. rewrite iface_unmarshal_spec in H. unfold rfc_json.
  destruct (parse_g (Some Iface.max_depth) range data) as [r|] eqn:E; [|discriminate].
  rewrite (parse_g_relax _ _ _ _ E). reflexivity.
Qed.
Print Assumptions C05_iface_accepts_only_rfc.

(* the nesting limit is the one in the source *)
Example C05_limit : Iface.max_depth = 10000%nat.
Proof. reflexivity. Qed.

(* non-vacuity and boundary cases *)
Example C05_ex_accept : iface_unmarshal (fun _ => true) [32; 123; 34; 97; 34; 58; 91; 49; 44; 110; 117; 108; 108; 93; 125; 10] = COk tt.
Proof. vm_compute. reflexivity. Qed.
Example C05_ex_leading_zero : iface_unmarshal (fun _ => true) [48; 49] = CErr.
Proof. vm_compute. reflexivity. Qed.
Example C05_ex_nul : iface_unmarshal (fun _ => true) [49; 0; 50] = CErr.
Proof. vm_compute. reflexivity. Qed.
Example C05_ex_null_key : iface_unmarshal (fun _ => true) [123; 110; 117; 108; 108; 58; 49; 125] = CErr.
Proof. vm_compute. reflexivity. Qed.
