(* C05 — Decoding accepts exactly the RFC 8259 language.
   Proved here: the buffer-mode decoder for interface{} (Unmarshal(b, &v)).
   The skip functions the typed decoders use for the parts of a document the
   destination has no place for (skipValue, skipObject, skipArray, buffer mode)
   are modelled too (Model/Skip.v): since their repair they step over exactly
   the RFC 8259 values (the finding SkipUnvalidated is gone for buffer mode).
   The stream decoder (Decoder.Decode, Valid) and the other typed destinations
   are compared with the oracle on every run, not modelled. *)
From Coq Require Import NArith ZArith List Bool.
From GJ Require Import Base.Bytes Gen.Tables Model.Int Model.Compact Model.Iface Model.Skip Spec.Json
  Proofs.JsonSpecP Proofs.IfaceP Proofs.CompactP Proofs.SkipP Gen.SkipShape.
Import ListNotations.
Open Scope N_scope.

(* the language encoding/json accepts into interface{}: RFC 8259 with nesting
   <= maxDecodeNestingDepth and every number inside float64's range
   (range = strconv.ParseFloat succeeds: an oracle, see the trusted base) *)
Definition std_iface_language (range : list N -> bool) (data : list N) : bool :=
  match parse_g (Some Iface.max_depth) range data with Some _ => true | None => false end.

(* 1. for EVERY byte string: accepted iff in that language; never a read
      outside src ++ [NUL]; never out of fuel *)
Theorem C05_iface_accepts_exactly : forall range data,
  iface_unmarshal range data = if std_iface_language range data then COk tt else CErr.
Proof.
  intros range data. rewrite iface_unmarshal_spec. unfold std_iface_language.
  destruct (parse_g (Some Iface.max_depth) range data); reflexivity.
Qed.
Print Assumptions C05_iface_accepts_exactly.

(* 2. whatever the range oracle: nothing outside RFC 8259 is accepted *)
Theorem C05_iface_accepts_only_rfc : forall range data,
  iface_unmarshal range data = COk tt -> rfc_json data = true.
Proof.
  intros range data H. rewrite iface_unmarshal_spec in H. unfold rfc_json.
  destruct (parse_g (Some Iface.max_depth) range data) as [r|] eqn:E; [|discriminate].
  rewrite (parse_g_relax _ _ _ _ E). reflexivity.
Qed.
Print Assumptions C05_iface_accepts_only_rfc.

(* 3. the skip functions (buffer mode; repaired in d699780, before that they only counted brackets) accept EXACTLY the
      values of the grammar: at every nesting depth d and whatever follows, a value is stepped over with the cursor
      right behind it, and nothing that is not a value is stepped over -- no destination makes decoding succeed because
      it ignores a part of the text that is not JSON *)
Theorem C05_skip_steps_over_exactly_the_values : forall d ls,
  sk_value d (ls ++ [0]) =
  match pg_value clim allnum (2 * length (ls ++ [0]) + 2) d ls with
  | Some (_, rest) => SOk (rest ++ [0])
  | None => SErr
  end.
Proof. exact skip_value_spec. Qed.
Print Assumptions C05_skip_steps_over_exactly_the_values.
Theorem C05_skip_sound : forall d ls r, sk_value d (ls ++ [0]) = SOk r ->
  exists ts rest, pg_value clim allnum (2 * length (ls ++ [0]) + 2) d ls = Some (ts, rest) /\ r = rest ++ [0].
Proof. exact skip_value_sound. Qed.
(* the limits of the two packages are one number, and the source is the validating one (translator) *)
Theorem C05_skip_source : Z.to_nat dec_maxDecodeNestingDepth = c_max_depth /\ skip_validates = true.
Proof. split; reflexivity. Qed.
Example C05_skip_refuses_non_json : skip_run [91; 49; 32; 50; 32; 125; 125; 93] = SErr.
Proof. exact skip_refuses_non_json. Qed.

(* the nesting limit is the one in the source *)
Example C05_limit : Iface.max_depth = 10000%nat.
Proof. reflexivity. Qed.

(* non-vacuity and boundary cases *)
Example C05_ex_accept : iface_unmarshal (fun _ => true) [32; 123; 34; 97; 34; 58; 91; 49; 44; 110; 117; 108; 108; 93; 125; 10] = COk tt.
Proof. vm_compute. reflexivity. Qed.
Example C05_ex_leading_zero : iface_unmarshal (fun _ => true) [48; 49] = CErr.
Proof. vm_compute. reflexivity. Qed.
Example C05_ex_nul : iface_unmarshal (fun _ => true) [49; 0; 50] = CErr.
Proof. vm_compute. reflexivity. Qed.
Example C05_ex_null_key : iface_unmarshal (fun _ => true) [123; 110; 117; 108; 108; 58; 49; 125] = CErr.
Proof. vm_compute. reflexivity. Qed.

(* ---- the number recogniser of the source, translated on every run (Base/ScanProg.v, Gen/ScanProgs.v) ---- *)
From GJ Require Import Base.ScanProg Gen.ScanProgs Model.Compact Proofs.ScanProgP Proofs.CompactLeafP.
(* number texts are accepted by the decoders only if internal/decoder/number.go validNumber accepts them;
   that function, as translated, returns for EVERY byte string whether it is an RFC 8259 number *)
Theorem C05_number_recogniser_is_rfc : forall s, run_scanner dec_validNumber_prog s = Returned (json_number s).
Proof.
  intro s. assert (E : dec_validNumber_prog = vn_prog) by reflexivity. rewrite E, vn_prog_is_valid_number, valid_number_spec. reflexivity.
Qed.
Print Assumptions C05_number_recogniser_is_rfc.

(* ---- the string scanner of the skip functions, translated on every run (Base/CurProg.v, Gen/CurProgs.v) ---- *)
From GJ Require Import Base.CurProg Gen.CurProgs Proofs.CurProgP.
(* internal/decoder/context.go skipString, statement by statement, is the program the proof below is about; the
   isHexDigit it calls is the test the interpreter uses *)
Theorem C05_skip_string_source : dec_skipString_prog = skip_string_prog /\ dec_isHexDigit_as_modelled = true.
Proof. split; reflexivity. Qed.
(* entered on an opening quote, that function returns -- for EVERY continuation of the buffer -- where the string
   recogniser of the model (the one Compact, Indent and the skip walk share, related to RFC 8259 in Proofs/CompactP.v)
   ends, an error where it refuses, and reads past the buffer only where the model does (never, in front of a sentinel) *)
Theorem C05_skip_string_translated_is_the_model : forall l,
  run_cursor dec_skipString_prog (34 :: l) = conv (c_string_body false l).
Proof. rewrite (proj1 C05_skip_string_source). exact skip_string_is_the_model. Qed.
Print Assumptions C05_skip_string_translated_is_the_model.
Example C05_skip_string_ex :
  run_cursor dec_skipString_prog [34; 97; 92; 117; 48; 48; 101; 57; 92; 110; 34; 44; 0] = CRAt [44; 0] /\
  run_cursor dec_skipString_prog [34; 97; 92; 117; 48; 48; 101; 103; 34; 0] = CRErr /\
  run_cursor dec_skipString_prog [34; 97; 10; 34; 0] = CRErr /\ run_cursor dec_skipString_prog [34; 97; 0] = CRErr.
Proof. vm_compute. repeat split; reflexivity. Qed.

(* the three literal checks of the skip walk and of the typed decoders (validateTrue / validateFalse / validateNull),
   translated the same way: entered on the first letter they accept exactly when the whole word stands there *)
Theorem C05_literal_checks_source :
  dec_validateTrue_prog = validate_true_prog /\ dec_validateFalse_prog = validate_false_prog /\ dec_validateNull_prog = validate_null_prog.
Proof. repeat split; reflexivity. Qed.
Theorem C05_literal_checks_are_the_model : forall l,
  run_cursor dec_validateTrue_prog (116 :: l) = lit_verdict [116; 114; 117; 101] (116 :: l) /\
  run_cursor dec_validateFalse_prog (102 :: l) = lit_verdict [102; 97; 108; 115; 101] (102 :: l) /\
  run_cursor dec_validateNull_prog (110 :: l) = lit_verdict [110; 117; 108; 108] (110 :: l).
Proof.
  intro l. destruct C05_literal_checks_source as (E1 & E2 & E3). rewrite E1, E2, E3.
  repeat split; [apply validate_true_is_the_model|apply validate_false_is_the_model|apply validate_null_is_the_model].
Qed.
