(* C20 — JSON Path extraction is a pure, correct function of path and document.
   CreatePath: the parser model (Model/Path.v) carries the offset arithmetic of
   PathBuilder as written and turns every buf[k] into a checked read; it is
   total.  Extract: the evaluation model (Model/PathEval.v) walks a document
   tree with the cursor Path.node as the decoders do, with the answers of
   Field / Index per node kind read from path.go by the translator
   (Gen/PathShape.v).  Proved: one Path value answers every document as a fresh
   Path would, whatever documents it met before (extractFromPath evaluates on a
   copy; without the copy the statement is false); the answer is the reference
   evaluation, in document order, for EVERY path, recursive descent included, on
   EVERY document (four deviations found on the way were repaired).
   Path.Unmarshal / Path.Get and concurrent use are compared by the harness. *)
From Coq Require Import NArith ZArith List Bool.
From GJ Require Import Base.Bytes Spec.Json Model.Enc Model.Path Proofs.PathP Gen.PathShape Model.PathEval Proofs.PathEvalP Model.PathText Proofs.PathTextP.
Import ListNotations.
Open Scope N_scope.

(* for EVERY rune string: no index out of range (no panic), and the fuel the
   model gives the mutually recursive builder always suffices *)
Theorem C20_create_path_total : forall s, build s <> BStuck /\ build s <> BFuel.
Proof. exact build_total. Qed.
Print Assumptions C20_create_path_total.

(* a path is rejected unless it starts with the root selector *)
Theorem C20_root_required : forall s nodes sq dq, build s = BOk nodes sq dq -> exists r, s = 36 :: r.
Proof.
  intros s nodes sq dq H. unfold build in H. destruct s as [|c r]; [discriminate|].
  destruct (N.eqb_spec c 36) as [E|E]; [subst; eexists; reflexivity|discriminate].
Qed.
Print Assumptions C20_root_required.

(* non-vacuity: accepted and rejected paths, including the ones that end at a quote *)
Example C20_ex1 : build [36; 46; 97; 91; 49; 93; 91; 42; 93] = BOk [NSel [97]; NIdx 1; NAll] false false.
Proof. vm_compute. reflexivity. Qed.
Example C20_ex2 : build [36; 91; 39; 97; 39] = BErr.   (* $['a'  : ends at the closing quote *)
Proof. vm_compute. reflexivity. Qed.
Example C20_ex3 : build [36; 46; 46; 97] = BOk [NRec [97]] false false.
Proof. vm_compute. reflexivity. Qed.
Example C20_ex4 : print_path [NRec [97]] = [46; 46; 97].
Proof. vm_compute. reflexivity. Qed.

(* ---- evaluation ---- *)
(* what the translator read from path.go, map.go, slice.go, interface.go and decode.go is what the model evaluates with *)
Theorem C20_source_shapes : path_node_sems = std_sems /\ extract_on_copy = true /\ path_loops_as_modelled = true /\ scalar_selects_nothing = true.
Proof. repeat split; reflexivity. Qed.

(* purity: for every Path, every sequence of earlier documents (answered or failed) and every next document *)
Theorem C20_extract_pure : forall nodes before doc,
  last (run path_node_sems scalar_selects_nothing extract_on_copy (is_root nodes) (expand nodes) (before ++ [doc])) None
  = fst (extract_call path_node_sems scalar_selects_nothing extract_on_copy (is_root nodes) (expand nodes) doc).
Proof. intros. rewrite (proj1 (proj2 C20_source_shapes)). apply extract_pure. Qed.
Print Assumptions C20_extract_pure.

(* the repaired defect: evaluated on the caller's Path, a failed descent leaves the cursor moved *)
Theorem C20_shared_cursor_refuted :
  exists nodes before doc,
    last (run old_sems false false (is_root nodes) (expand nodes) (before ++ [doc])) None
    <> fst (extract_call old_sems false false (is_root nodes) (expand nodes) doc).
Proof. exists w_path, [w_bad], w_good. exact extract_shared_cursor_refuted. Qed.

(* correctness: for EVERY path (child, index, wildcard and recursive-descent selectors, quoted or not) and EVERY
   document, Extract is the reference evaluation, in document order *)
Theorem C20_extract_is_reference : forall nodes doc,
  fst (extract_call path_node_sems scalar_selects_nothing extract_on_copy (is_root nodes) (expand nodes) doc)
  = Some (map RTree (ref_eval nodes doc)).
Proof.
  intros nodes doc. rewrite (proj1 C20_source_shapes), (proj2 (proj2 (proj2 C20_source_shapes))). apply extract_ref.
Qed.
Print Assumptions C20_extract_is_reference.

(* four deviations were found and repaired; two of them as they were, refuted for the old code: a selector applied to a
   scalar gave the scalar itself, a selector applied to an array or object of the other kind was an error (the other
   two: recursive descent did not search the members it skipped, and gave x.n instead of x for a member x called n) *)
Theorem C20_selector_on_scalar_refuted :
  fst (ev std_sems false (JLeaf (TNum [49])) (expand [NSel [120]])) <> Some (map RTree (ref_eval [NSel [120]] (JLeaf (TNum [49])))).
Proof. exact selector_on_scalar_refuted. Qed.
Theorem C20_kind_mismatch_was_an_error_refuted :
  let d := JArr [JObj [([97], false, JLeaf (TNum [49]))]; JArr [JLeaf (TNum [50])]] in
  fst (ev old_sems false d (expand [NAll; NSel [97]])) = None /\ ref_eval [NAll; NSel [97]] d = [JLeaf (TNum [49])].
Proof. exact wildcard_then_selector_refuted. Qed.
Example C20_recursive_descent_ex :
  let d := JObj [([98], false, JObj [([97], false, JObj [([97], false, JLeaf (TNum [49]))])]); ([97], false, JLeaf TTrue)] in
  extract_text [36; 46; 46; 97] d = [79; 123; 34; 97; 34; 58; 49; 125; 10; 49; 10; 116; 114; 117; 101; 10].
Proof. vm_compute. reflexivity. Qed.

(* non-vacuity: $.b.c[*].a on {"a":1,"b":{"a":2,"c":[{"a":3},{"a":4,"b":[5,6]}]}} fits and selects 3 and 4;
   $['b'].c[1].b[0] selects 5 *)
Definition C20_doc : jv :=
  JObj [([97], false, JLeaf (TNum [49]));
        ([98], false, JObj [([97], false, JLeaf (TNum [50]));
                            ([99], false, JArr [JObj [([97], false, JLeaf (TNum [51]))];
                                                JObj [([97], false, JLeaf (TNum [52])); ([98], false, JArr [JLeaf (TNum [53]); JLeaf (TNum [54])])]])])].
Example C20_ex5 :
  extract_text [36; 46; 98; 46; 99; 91; 42; 93; 46; 97] C20_doc = [79; 51; 10; 52; 10] /\
  extract_text [36; 91; 39; 98; 39; 93; 46; 99; 91; 49; 93; 46; 98; 91; 48; 93] C20_doc = [79; 53; 10].
Proof. vm_compute. repeat split; reflexivity. Qed.

(* ---- the text side (Model/PathText.v): the parts Extract hands out are windows of its copy of the document ---- *)
(* map.go, as the translator read it: a key with an escape is unescaped in a copy, and none of the three walkers
   decodes a string where it stands *)
Theorem C20_walk_source_facts : path_keys_unescaped_in_a_copy = true.
Proof. reflexivity. Qed.
(* whatever the walk reads, however often (recursive descent passes over a part again after handing it out): when
   Extract returns, every part is the text of the document in that window *)
Theorem C20_parts_are_document_text : forall buf evs,
  results (negb path_keys_unescaped_in_a_copy) buf evs = expected buf evs.
Proof. rewrite C20_walk_source_facts. exact results_are_document_text. Qed.
Print Assumptions C20_parts_are_document_text.
(* the repaired defect: the key below a part already handed out, unescaped where it stands ($..a on {"a":{"k\ny":1}}) *)
Theorem C20_unescaping_in_place_refuted : results true doc_ex walk_ex <> expected doc_ex walk_ex.
Proof. exact in_place_refuted. Qed.
