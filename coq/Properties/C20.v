(* C20 — JSON Path: CreatePath is total.  The parser model (Model/Path.v)
   carries the offset arithmetic of PathBuilder as written and turns every
   buf[k] into a checked read.  Evaluation (Extract/Unmarshal/Get), purity
   under reuse and concurrent use are checked by the differential harness
   against a reference evaluator and against a fresh Path per call. *)
From Coq Require Import NArith ZArith List Bool.
From GJ Require Import Base.Bytes Model.Path Proofs.PathP.
Import ListNotations.
Open Scope N_scope.

(* for EVERY rune string: no index out of range (no panic), and the fuel the
   model gives the mutually recursive builder always suffices *)
Theorem C20_create_path_total : forall s, build s <> BStuck /\ build s <> BFuel.
Proof. exact build_total. Qed.
Print Assumptions C20_create_path_total.

(* a path is rejected unless it starts with the root selector *)
Theorem C20_root_required : forall s nodes sq dq, build s = BOk nodes sq dq -> exists r, s = 36 :: r.
Proof.
  intros s nodes sq dq H. unfold build in H. destruct s as [|c r]; [discriminate|].
  destruct (N.eqb_spec c 36) as [E|E]; [subst; eexists; reflexivity|discriminate].
Qed.
Print Assumptions C20_root_required.

(* non-vacuity: accepted and rejected paths, including the ones that end at a quote *)
Example C20_ex1 : build [36; 46; 97; 91; 49; 93; 91; 42; 93] = BOk [NSel [97]; NIdx 1; NAll] false false.
Proof. vm_compute. reflexivity. Qed.
Example C20_ex2 : build [36; 91; 39; 97; 39] = BErr.   (* $['a'  : ends at the closing quote *)
Proof. vm_compute. reflexivity. Qed.
Example C20_ex3 : build [36; 46; 46; 97] = BOk [NRec [97]] false false.
Proof. vm_compute. reflexivity. Qed.
Example C20_ex4 : print_path [NRec [97]] = [46; 46; 97; 46; 97].
Proof. vm_compute. reflexivity. Qed.
