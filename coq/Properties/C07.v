(* C07 — Decoding touches only the destination.
   Proved here: the address arithmetic of the array decoder (every store
   inside the array, for all element sizes and lengths) given the fill
   statement the translator reads from array.go, and the in-place unescape
   (writes never pass reads).  Everything else is watched by the canary
   harness; GC and checkptr are runtime observers. *)
From Coq Require Import NArith List Bool.
From GJ Require Import Base.Bytes Gen.Resets Model.Mem Model.StrDec Proofs.MemP.
Import ListNotations.
Open Scope N_scope.

(* the source clears missing elements with a typed move of the element, at all sites *)
Theorem C07_source_fill_is_typed : dec_array_fill_typed = true /\ (0 < dec_array_fill_sites)%nat.
Proof. split; [reflexivity|vm_compute; repeat constructor]. Qed.

(* for every base offset, element size, array length and number of supplied
   elements: every store lies inside the array's own n*sz bytes *)
Theorem C07_array_writes_inside : forall base sz n m,
  Forall (inside base (N.of_nat n * sz)) (array_writes dec_array_fill_typed base sz n m).
Proof. intros. rewrite (proj1 C07_source_fill_is_typed). apply array_writes_inside. Qed.
Print Assumptions C07_array_writes_inside.

(* what the repaired defect was: a one-word store overruns narrow elements *)
Theorem C07_word_fill_refuted :
  exists base sz n m, ~ Forall (inside base (N.of_nat n * sz)) (array_writes false base sz n m).
Proof. exact array_word_fill_overruns. Qed.

(* in-place unescape: output never longer than the consumed text (dst <= src) *)
Theorem C07_unescape_in_place_safe : forall F l o, unescape F l = Some o -> (length o <= length l)%nat.
Proof. exact unescape_not_longer. Qed.
Print Assumptions C07_unescape_in_place_safe.

Example C07_ex : array_writes true 16 3 4 1 = [(16, 3); (19, 3); (22, 3); (25, 3)].
Proof. vm_compute. reflexivity. Qed.
