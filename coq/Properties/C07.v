(* C07 — Decoding touches only the destination.
   Proved here: the address arithmetic of the array decoder (every store
   inside the array, for all element sizes and lengths) given the fill
   statement the translator reads from array.go, and the in-place unescape
   (writes never pass reads).  Everything else is watched by the canary
   harness; GC and checkptr are runtime observers. *)
From Coq Require Import NArith List Bool.
From GJ Require Import Base.Bytes Gen.Resets Model.Mem Model.StrDec Proofs.MemP Gen.SliceShape Model.SlicePool Proofs.SlicePoolP.
Import ListNotations.
Open Scope N_scope.

(* the source clears missing elements with a typed move of the element, at all sites *)
Theorem C07_source_fill_is_typed : dec_array_fill_typed = true /\ (0 < dec_array_fill_sites)%nat.
Proof. split; [reflexivity|vm_compute; repeat constructor]. Qed.

(* for every base offset, element size, array length and number of supplied
   elements: every store lies inside the array's own n*sz bytes *)
Theorem C07_array_writes_inside : forall base sz n m,
  Forall (inside base (N.of_nat n * sz)) (array_writes dec_array_fill_typed base sz n m).
Proof. intros. rewrite (proj1 C07_source_fill_is_typed). apply array_writes_inside. Qed.
Print Assumptions C07_array_writes_inside.

(* what the repaired defect was: a one-word store overruns narrow elements *)
Theorem C07_word_fill_refuted :
  exists base sz n m, ~ Forall (inside base (N.of_nat n * sz)) (array_writes false base sz n m).
Proof. exact array_word_fill_overruns. Qed.

(* in-place unescape: output never longer than the consumed text (dst <= src) *)
Theorem C07_unescape_in_place_safe : forall F l o, unescape F l = Some o -> (length o <= length l)%nat.
Proof. exact unescape_not_longer. Qed.
Print Assumptions C07_unescape_in_place_safe.

Example C07_ex : array_writes true 16 3 4 1 = [(16, 3); (19, 3); (22, 3); (25, 3)].
Proof. vm_compute. reflexivity. Qed.

(* slice decoder: with the doubling read from slice.go, the slot of every element lies inside the working array
   (for every starting capacity > 0, starting index within it, and number of elements) *)
Theorem C07_slice_slots_inside_working_array : forall n cap idx, (0 < cap)%nat -> (idx <= cap)%nat ->
  Forall (fun w => (fst w < snd w)%nat) (caps cap idx n).
Proof. exact caps_in_bounds. Qed.
Print Assumptions C07_slice_slots_inside_working_array.

(* slice.go as the translator read it: the slot of every element beyond the destination's own is cleared before the
   element decoder runs, and newSlice copies exactly the destination's len elements over the pooled array (Model/SlicePool.v
   is a reading of these statements) *)
Theorem C07_slice_source_facts : (forall i, slice_clears i = true) /\ slice_pool_as_modelled = true.
Proof. split; [intro i|]; reflexivity. Qed.

(* and no element of the result comes from anywhere but the document and the destination's own elements *)
Theorem C07_slice_reads_only_destination_and_document : forall (A E : Type) (zero : A) (decE : E -> A -> option A) pool dst dcap es,
  (length dst <= dcap)%nat ->
  match decode A E zero decE slice_clears pool dst dcap es with Some (out, _) => Some out | None => None end
  = spec A E zero decE dst es.
Proof. intros. apply decode_is_spec; [intro i; reflexivity|assumption]. Qed.

(* ---- raw stores into pointer-free destinations (Model/Layout.v) ---- *)
From GJ Require Import Spec.Json Model.Enc Model.Layout Proofs.LayoutP.
(* for every layout in which elements fit their stride and fields fit their struct, every document and every
   address: each store lies inside the destination *)
Theorem C07_stores_inside_destination : forall t, wf t = true -> forall d base, Forall (inside base (lsize t)) (stores t d base).
Proof. exact stores_inside. Qed.
Print Assumptions C07_stores_inside_destination.
(* and a field that no key of the object selects (exactly or up to letter case) is in no store, when no other
   field overlaps it: sibling fields keep their contents *)
Theorem C07_unselected_field_untouched : forall s fs ms base name off ft,
  wf (LStruct s fs) = true -> In (name, off, ft) fs ->
  (forall k b v, In (k, b, v) ms -> key_selects k name = false) ->
  (forall name' off' ft', In (name', off', ft') fs -> (name', off', ft') = (name, off, ft) \/ disjoint off' (lsize ft') off (lsize ft)) ->
  Forall (fun w => disjoint (fst w) (snd w) (base + off) (lsize ft)) (stores (LStruct s fs) (JObj ms) base).
Proof. exact unselected_field_untouched. Qed.
Example C07_short_array_ex :
  stores (LStruct 16 [([65], 0, LArr 4 1 (LScalar 1)); ([66], 4, LArr 4 1 (LScalar 1)); ([67], 8, LScalar 8)])
         (JObj [([65], false, JArr [JLeaf (TNum [57])])]) 1000
  = [(1000, 1); (1001, 1); (1002, 1); (1003, 1)].
Proof. exact short_array_stores. Qed.
