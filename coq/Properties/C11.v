(* C11 — Results depend only on the arguments, never on earlier calls.
   Encoder side: the pooled context's options and scratch fields.  What each
   entry point, option function, Init and the indent entry assign, and which
   functions read the fields that survive between calls, is read from the source
   by the translator (Gen/OptState.v, Gen/Resets.v). *)
From Coq Require Import NArith List Bool String.
From GJ Require Import Gen.OptState Gen.Resets Model.OptState Proofs.OptStateP Gen.SliceShape Model.SlicePool Proofs.SlicePoolP Model.DecOpts Proofs.DecOptsP.
Import ListNotations.
Open Scope string_scope.

(* every entry point of encode.go starts with initOption, which resets the flag word and both debug writers;
   Colorize assigns the scheme together with its flag; the only function that runs the indenting interpreters
   assigns prefix and indent string unconditionally; Init resets the three scratch fields *)
Theorem C11_source_facts : all_true the_source = true /\ indent_vm_callers = ["encodeRunIndentCode"].
Proof. split; [exact the_source_all_true|reflexivity]. Qed.

(* the guard table of the model: the fields that survive between calls are read only here
   (Context: both readers test ContextOption first; ColorScheme: the colour interpreters, entered under ColorizeOption;
   DebugOut/DebugDOTOut: DebugRun, entered under DebugOption; Prefix/IndentStr: the helpers of the indenting interpreters) *)
Definition readers (f : string) : list string :=
  match find (fun p => String.eqb (fst p) f) field_readers with Some p => snd p | None => [] end.
Definition only_in (prefixes : list string) (l : list string) : bool :=
  forallb (fun s => existsb (fun p => String.prefix p s) prefixes) l.
Theorem C11_guard_table :
  only_in ["internal/encoder/"] (readers "Option.Context") = true /\ context_readers_test_the_flag_first = true /\
  only_in ["internal/encoder/vm_color/"; "internal/encoder/vm_color_indent/"] (readers "Option.ColorScheme") = true /\
  only_in ["internal/encoder/vm/debug_vm.go:DebugRun"; "internal/encoder/vm_color/debug_vm.go:DebugRun";
           "internal/encoder/vm_indent/debug_vm.go:DebugRun"; "internal/encoder/vm_color_indent/debug_vm.go:DebugRun"] (readers "Option.DebugOut" ++ readers "Option.DebugDOTOut") = true /\
  only_in ["internal/encoder/encoder.go:AppendIndent"; "internal/encoder/encoder.go:AppendMarshalJSONIndent"; "internal/encoder/encoder.go:AppendStructEndIndent"]
          (readers "ctx.Prefix" ++ readers "ctx.IndentStr") = true.
Proof. repeat split; vm_compute; reflexivity. Qed.

(* For every call (entry point, caller context or none, indent strings or none, any list of options) and any two
   states an earlier history may have left in the pooled context: the interpreter observes the same flag word and
   the same value of every field it reads. *)
Theorem C11_result_independent_of_earlier_calls : forall c left1 left2,
  result_inputs the_source c left1 = result_inputs the_source c left2.
Proof. intros. apply result_independent_of_leftovers. exact the_source_all_true. Qed.
Print Assumptions C11_result_independent_of_earlier_calls.

(* the facts are needed: the two leaks the unrepaired code had, as witnesses *)
Theorem C11_stale_dot_writer_refuted : exists c l1 l2, result_inputs sf_no_dot_reset c l1 <> result_inputs sf_no_dot_reset c l2.
Proof. exact stale_dot_writer_refuted. Qed.
Theorem C11_stale_prefix_refuted : exists c l1 l2, result_inputs sf_no_prefix_assign c l1 <> result_inputs sf_no_prefix_assign c l2.
Proof. exact stale_prefix_refuted. Qed.

(* decoder side: every unmarshal entry point assigns the flag word and the buffer before use *)
Definition assigns_of (fn : string) : list string :=
  match find (fun p => String.eqb (fst p) fn) entry_assigns with Some p => snd p | None => [] end.
Theorem C11_decoder_entries_reset :
  forallb (fun fn => existsb (fun s => String.eqb s "ctx.Option.Flags =" || String.eqb s "rctx.Option.Flags =") (assigns_of fn) &&
                     existsb (fun s => String.eqb s "ctx.Buf =" || String.eqb s "rctx.Buf =") (assigns_of fn))
          ["unmarshal"; "unmarshalContext"; "unmarshalNoEscape"; "extractFromPath"] = true.
Proof. vm_compute. reflexivity. Qed.

Example C11_ex :
  let c := {| ec_context := Some 5%N; ec_indent := Some (1%N, 2%N); ec_html := true; ec_opts := [OColorize 9%N; ODebug]; ec_arg := 0%N |} in
  snd (result_inputs the_source c (left_of FDebugDOT 7%N)) =
  ({| fl_html := true; fl_norm := true; fl_unordered := false; fl_debug := true; fl_color := true; fl_context := true; fl_indent := true |},
   [Some 5%N; Some 9%N; Some 1%N; Some 0%N; Some 1%N; Some 2%N; Some 0%N; Some 0%N; Some 0%N]).
Proof. vm_compute. reflexivity. Qed.

(* ---- decoder side: the pooled working array of every slice decoder (Model/SlicePool.v) ---- *)
(* slice.go, as the translator read it: every slot beyond the destination's own elements is cleared before the
   element decoder runs, in Decode and in DecodeStream; newSlice / releaseSlice as modelled *)
Theorem C11_slice_source_facts : (forall i, slice_clears i = true) /\ slice_pool_as_modelled = true.
Proof. split; [intro i|]; reflexivity. Qed.

(* For every element type, element decoder (null that leaves a scalar alone, objects that fill some members, ...),
   destination and JSON array: what the call stores is `spec` -- element i decoded into the destination's own
   element i or into a zero value -- WHATEVER an earlier call through the same decoder (longer, shorter, failed
   between two elements) left in the pooled array. *)
Theorem C11_slice_result_is_spec : forall (A E : Type) (zero : A) (decE : E -> A -> option A) pool dst dcap es,
  List.length dst <= dcap ->
  match decode A E zero decE slice_clears pool dst dcap es with Some (out, _) => Some out | None => None end
  = spec A E zero decE dst es.
Proof. intros. apply decode_is_spec; [exact (proj1 C11_slice_source_facts)|assumption]. Qed.
Theorem C11_slice_result_independent_of_pool : forall (A E : Type) (zero : A) (decE : E -> A -> option A) pool1 pool2 dst dcap es,
  List.length dst <= dcap ->
  match decode A E zero decE slice_clears pool1 dst dcap es with Some (out, _) => Some out | None => None end =
  match decode A E zero decE slice_clears pool2 dst dcap es with Some (out, _) => Some out | None => None end.
Proof. intros. apply decode_independent_of_pool; [exact (proj1 C11_slice_source_facts)|assumption]. Qed.
Print Assumptions C11_slice_result_independent_of_pool.

(* the clearing is needed: without it, or with it for the first slots only, an earlier call shows through *)
Theorem C11_slice_no_clearing_refuted :
  calls (fun _ => false) fresh_pool [([Some 1; Some 2; Some 3], true); ([None; None; None], true)] = [Some [1; 2; 3]; Some [1; 2; 3]].
Proof. exact no_clearing_refuted. Qed.
Theorem C11_slice_partial_clearing_refuted :
  calls (fun i => Nat.ltb i 2) fresh_pool [([Some 1; Some 2; Some 3; Some 4], true); ([None; None; None; None], true)]
  = [Some [1; 2; 3; 4]; Some [0; 0; 3; 4]].
Proof. exact partial_clearing_refuted. Qed.
Example C11_slice_ex :
  calls slice_clears fresh_pool [([Some 1; Some 2; Some 3; Some 4], false); ([None; Some 7; None; None; None], true)]
  = [None; Some [0; 7; 0; 0; 0]].
Proof. vm_compute. reflexivity. Qed.

(* ---- a long-lived Decoder: options given to one call (Model/DecOpts.v) ---- *)
(* decode.go, as the translator read it: the Option value saved before the call's option functions run is put back
   by a deferred statement, that is on every way out of the call *)
Theorem C11_decoder_call_options_source : decoder_call_options_restore = OnEveryWayOut.
Proof. reflexivity. Qed.
(* whatever calls the Decoder has served before -- with whatever options, decoded, failed or left by a panic -- a call
   sees its own options applied to what the Decoder was set up with, as on a fresh Decoder *)
Theorem C11_decoder_call_sees_its_own_options : forall (opts optfun : Type) (apply : opts -> optfun -> opts) configured history given,
  seen opts optfun apply (run opts optfun apply decoder_call_options_restore configured history) given = seen opts optfun apply configured given.
Proof. rewrite C11_decoder_call_options_source. exact seen_as_if_fresh. Qed.
Print Assumptions C11_decoder_call_sees_its_own_options.
(* putting the saved value back only when the call succeeded is not enough *)
Theorem C11_decoder_restore_on_success_only_refuted :
  seen N N flags_apply (run N N flags_apply OnSuccessOnly 0%N [([2%N], ReturnedError)]) [] <> seen N N flags_apply 0%N [].
Proof. exact success_only_refuted. Qed.
