(* C13 — All encoder variants and options describe the same document.
   Proved at the level all variants share: the compact interpreter writes the
   compact text of the token sequence the value denotes, whatever is omitted
   and however the value nests; the other variants are compared with it (and
   with encoding/json.Indent of it) by the harness.  The indenting and colouring
   interpreters themselves are not modelled. *)
From Coq Require Import NArith List Bool Permutation.
From GJ Require Import Spec.Json Model.Enc Proofs.EncP.
Import ListNotations.
Open Scope N_scope.

Theorem C13_compact_variant_is_compact_text : forall v, marshal v = render_compact (toks v).
Proof. exact marshal_is_compact_of_tokens. Qed.
Print Assumptions C13_compact_variant_is_compact_text.

(* a value emitted in the middle of a buffer (as an element, a member, or the dynamic value of an interface)
   contributes the same text as at top level *)
Theorem C13_same_text_in_any_position : forall v b, enc v b = b ++ marshal v ++ [COMMA].
Proof. intros. rewrite enc_denotes, marshal_is_render. reflexivity. Qed.

(* the order of members is the only thing a permutation of an object's members changes: the member texts are the same multiset *)
Theorem C13_members_permute : forall l l', Permutation l l' ->
  Permutation.Permutation
    (flat_map (fun kv : list N * bool * jv => match kv with (k, false, x) => [TStr k :: TColon :: toks x] | (_, true, _) => [] end) l)
    (flat_map (fun kv : list N * bool * jv => match kv with (k, false, x) => [TStr k :: TColon :: toks x] | (_, true, _) => [] end) l').
Proof.
  intros l l' H. induction H as [|x a b H IH|x y a|a b c H1 IH1 H2 IH2].
  - constructor.
  - cbn [flat_map]. apply Permutation_app_head. exact IH.
  - cbn [flat_map]. rewrite !app_assoc. apply Permutation_app_tail. apply Permutation_app_comm.
  - eapply perm_trans; eassumption.
Qed.
