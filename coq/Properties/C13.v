(* C13 — All encoder variants and options describe the same document.
   Proved at the level all variants share: the compact interpreter writes the
   compact text of the token sequence the value denotes, whatever is omitted
   and however the value nests.  The indenting interpreter is modelled too
   (Model/EncIndent.v, the helper algebra of vm_indent/util.go): it writes the
   text whose tokens are separated by newline + prefix + depth x indent, and
   with white space as prefix and indent that text is read by the RFC 8259
   recogniser as the same token sequence as the compact text: the two variants
   describe the same document, for every value.  The colouring interpreters
   and the options are compared with these by the harness. *)
From Coq Require Import NArith List Bool Permutation String.
From GJ Require Import Spec.Json Model.Enc Model.EncIndent Model.Compact Proofs.EncP Proofs.ParseP Proofs.ParseWsP Proofs.EncIndentP Proofs.IndentRefP Proofs.CompactP Proofs.ParseShapeP Proofs.UtilSpecP Gen.UtilShape.
Import ListNotations.
Open Scope string_scope.
Open Scope list_scope.
Open Scope N_scope.

Theorem C13_compact_variant_is_compact_text : forall v, marshal v = render_compact (toks v).
Proof. exact marshal_is_compact_of_tokens. Qed.
Print Assumptions C13_compact_variant_is_compact_text.

(* a value emitted in the middle of a buffer (as an element, a member, or the dynamic value of an interface)
   contributes the same text as at top level *)
Theorem C13_same_text_in_any_position : forall v b, enc v b = b ++ marshal v ++ [COMMA].
Proof. intros. rewrite enc_denotes, marshal_is_render. reflexivity. Qed.

(* the order of members is the only thing a permutation of an object's members changes: the member texts are the same multiset *)
Theorem C13_members_permute : forall l l', Permutation l l' ->
  Permutation.Permutation
    (flat_map (fun kv : list N * bool * jv => match kv with (k, false, x) => [TStr k :: TColon :: toks x] | (_, true, _) => [] end) l)
    (flat_map (fun kv : list N * bool * jv => match kv with (k, false, x) => [TStr k :: TColon :: toks x] | (_, true, _) => [] end) l').
Proof.
  intros l l' H. induction H as [|x a b H IH|x y a|a b c H1 IH1 H2 IH2].
  - constructor.
  - cbn [flat_map]. apply Permutation_app_head. exact IH.
  - cbn [flat_map]. rewrite !app_assoc. apply Permutation_app_tail. apply Permutation_app_comm.
  - eapply perm_trans; eassumption.
Qed.

(* ---- the indenting interpreter ---- *)
(* for every prefix and indent string (any bytes) and every value: the bytes MarshalIndent writes are the indented
   text of the value without the members that are left out *)
Theorem C13_indent_variant_is_indented_text : forall pre ind v, marshal_indent pre ind v = ri pre ind 0 (strip v).
Proof. exact marshal_indent_is_ri. Qed.
Print Assumptions C13_indent_variant_is_indented_text.

(* with white space as prefix and indent the indented and the compact text are the same document: the RFC 8259
   recogniser reads the same token sequence from both, with nothing left over *)
Theorem C13_indent_and_compact_same_document : forall pre ind v,
  all_ws pre = true -> all_ws ind = true -> wfp (strip v) = true ->
  parse_json (marshal_indent pre ind v) = Some (toks v, []) /\ parse_json (marshal v) = Some (toks v, []).
Proof. intros pre ind v Hp Hi Hw. split; [exact (parse_marshal_indent pre ind Hp Hi v Hw)|exact (parse_marshal v Hw)]. Qed.
Print Assumptions C13_indent_and_compact_same_document.

(* MarshalIndent(v, p, i) = Indent(Marshal(v), p, i), byte for byte, for every prefix and indent (any bytes): the
   reference of encoding/json.Indent (Spec.render_indent; compared with encoding/json on every run by C18's check)
   applied to the tokens read from Marshal's text gives exactly the bytes the indenting interpreter writes *)
Theorem C13_marshal_indent_is_indent_of_marshal : forall pre ind v, wfp (strip v) = true ->
  Some (marshal_indent pre ind v) =
  match parse_json (marshal v) with Some (ts, _) => Some (render_indent pre ind 0 None ts) | None => None end.
Proof. exact marshal_indent_is_indent_of_marshal. Qed.
Print Assumptions C13_marshal_indent_is_indent_of_marshal.

(* the same against the library's own Indent (Model/Compact.indent_run, the model of
   internal/encoder/indent.go that C18 proves equal to encoding/json's Indent on every input):
   Indent(Marshal(v), p, i) succeeds and appends exactly MarshalIndent(v, p, i), for every value nested
   no deeper than the limit Indent enforces (10000, read from the source) *)
Theorem C13_marshal_indent_is_the_librarys_indent_of_marshal : forall pre ind v,
  wfp (strip v) = true -> scan clim 0 (toks v) = Some 0%nat ->
  indent_run pre ind (marshal v) = COk (marshal_indent pre ind v).
Proof. exact marshal_indent_is_indent_run. Qed.
Print Assumptions C13_marshal_indent_is_the_librarys_indent_of_marshal.

Example C13_indent_example :
  let v := JObj [([97], false, JArr [JLeaf (TNum [49]); JObj []; JArr []]); ([98], true, JLeaf TTrue); ([99], false, JObj [([100], false, JLeaf TNull)])] in
  marshal_indent [62] [32; 32] v =
  [123; 10; 62; 32; 32; 34; 97; 34; 58; 32; 91; 10; 62; 32; 32; 32; 32; 49; 44; 10; 62; 32; 32; 32; 32; 123; 125; 44; 10; 62; 32; 32; 32; 32; 91; 93; 10; 62; 32; 32; 93; 44; 10;
   62; 32; 32; 34; 99; 34; 58; 32; 123; 10; 62; 32; 32; 32; 32; 34; 100; 34; 58; 32; 110; 117; 108; 108; 10; 62; 32; 32; 125; 10; 62; 125].
Proof. vm_compute. reflexivity. Qed.

(* ---- the helpers the two models are a reading of: the bodies in the source (translator) are these ---- *)
Lemma C13_emission_helpers_as_modelled :
  compact_helpers = [
  ("appendComma", "{ return append(b, ',') }");
  ("appendArrayHead", "{ return append(b, '[') }");
  ("appendArrayEnd", "{ last := len(b) - 1 b[last] = ']' return append(b, ',') }");
  ("appendEmptyArray", "{ return append(b, '[', ']', ',') }");
  ("appendEmptyObject", "{ return append(b, '{', '}', ',') }");
  ("appendObjectEnd", "{ last := len(b) - 1 b[last] = '}' return append(b, ',') }");
  ("appendStructHead", "{ return append(b, '{') }");
  ("appendStructKey", "{ return append(b, code.Key...) }");
  ("appendStructEnd", "{ return append(b, '}', ',') }");
  ("appendStructEndSkipLast", "{ last := len(b) - 1 if b[last] == ',' { b[last] = '}' return appendComma(ctx, b) } return appendStructEnd(ctx, code, b) }")] /\
  indent_helpers = [
  ("appendComma", "{ return append(b, ',', '\n') }");
  ("appendArrayHead", "{ b = append(b, '[', '\n') return appendIndent(ctx, b, code.Indent+1) }");
  ("appendArrayEnd", "{ b = b[:len(b)-2] b = append(b, '\n') b = appendIndent(ctx, b, code.Indent) return append(b, ']', ',', '\n') }");
  ("appendEmptyArray", "{ return append(b, '[', ']', ',', '\n') }");
  ("appendEmptyObject", "{ return append(b, '{', '}', ',', '\n') }");
  ("appendObjectEnd", "{ last := len(b) - 1 b[last-1] = '\n' b = appendIndent(ctx, b[:last], code.Indent) return append(b, '}', ',', '\n') }");
  ("appendStructHead", "{ return append(b, '{', '\n') }");
  ("appendStructKey", "{ b = appendIndent(ctx, b, code.Indent) b = append(b, code.Key...) return append(b, ' ') }");
  ("appendStructEndSkipLast", "{ last := len(b) - 1 if b[last-1] == '{' { b[last] = '}' } else { if b[last] == '\n' { b = b[:len(b)-2] } b = append(b, '\n') b = appendIndent(ctx, b, code.Indent-1) b = append(b, '}') } return appendComma(ctx, b) }");
  ("appendArrayElemIndent", "{ return appendIndent(ctx, b, code.Indent+1) }");
  ("appendMapKeyIndent", "{ return appendIndent(ctx, b, code.Indent+1) }")] /\
  append_indent_body = "{ b = append(b, ctx.Prefix...) indentNum := ctx.BaseIndent + indent for i := uint32(0); i < indentNum; i++ { b = append(b, ctx.IndentStr...) } return b }" /\
  marshal_indent_cut = "buf = buf[:len(buf)-2]".
Proof. repeat split; reflexivity. Qed.

(* ---- Colorize (Model/EncColor.v): the emission discipline with every scalar and every key between the header and
   the footer of its kind ---- *)
From GJ Require Import Model.EncColor Proofs.EncColorP Gen.ColorShape.
(* vm_color/util.go and vm_color_indent/util.go, as the translator read them: every scalar helper and appendStructKey
   writes header, the uncoloured text, footer *)
Theorem C13_colour_helpers_wrap : colour_helpers_wrap = true.
Proof. reflexivity. Qed.
(* for every scheme (markers of any bytes) and every value: the coloured output is the uncoloured output with markers
   inserted -- removing exactly the markers gives Marshal's bytes *)
Theorem C13_colour_is_marshal_plus_markers : forall s v,
  marshal_color s v = all_bytes (render_p s v) /\ text_bytes (render_p s v) = marshal v.
Proof. intros s v. split; [apply colour_is_pieces|apply colour_without_markers_is_marshal]. Qed.
Print Assumptions C13_colour_is_marshal_plus_markers.
(* and with the empty scheme it is Marshal's bytes as they stand *)
Theorem C13_empty_scheme_is_marshal : forall v, marshal_color no_colour v = marshal v.
Proof. exact empty_scheme_is_marshal. Qed.

(* ---- code that exists in several copies (Gen/Twins.v, read from the source on every run) ---- *)
From GJ Require Import Gen.Twins.
(* the helpers through which the four interpreters read a value out of its slot (widths, pointers, strings, slices)
   have one text in all four util.go: what a value is does not depend on the variant that encodes it *)
Theorem C13_interpreters_read_values_alike :
  util_helpers_identical = ["load"; "loadNPtr"; "ptrToBool"; "ptrToBytes"; "ptrToFloat32"; "ptrToFloat64"; "ptrToInterface"; "ptrToNPtr"; "ptrToNumber"; "ptrToPtr"; "ptrToSlice"; "ptrToString"; "ptrToUint64"; "ptrToUnsafePtr"; "store"]%string.
Proof. reflexivity. Qed.
(* the two tables that send a value opcode to its struct-head / struct-field opcode answer, for every case Op<X>,
   OpStructHead<X> / OpStructField<X> (and ...String with the option); the six pointer-to-container cases rewrite the
   opcode first *)
Theorem C13_head_and_field_tables_agree :
  opcode_tables_irregular = ["ToHeaderType OpMapPtr: { c.Op = OpMap return OpStructHeadMapPtr }"; "ToHeaderType OpArrayPtr: { c.Op = OpArray return OpStructHeadArrayPtr }"; "ToHeaderType OpSlicePtr: { c.Op = OpSlice return OpStructHeadSlicePtr }"; "ToFieldType OpMapPtr: { c.Op = OpMap return OpStructFieldMapPtr }"; "ToFieldType OpArrayPtr: { c.Op = OpArray return OpStructFieldArrayPtr }"; "ToFieldType OpSlicePtr: { c.Op = OpSlice return OpStructFieldSlicePtr }"]%string /\ opcode_tables_cases = 52%nat.
Proof. split; reflexivity. Qed.
