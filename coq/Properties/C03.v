(* C03 — Every successful encode is exactly one well-formed JSON text.
   Proved: the emission discipline leaves no dangling comma and balances every
   bracket -- the output is the compact text of a token sequence built by the
   grammar (scalar | [ values ] | { members }) -- and the two leaf classes the
   encoder computes itself are well formed: integer digits (C16) and string
   literals (C17).  Which values are refused (non-finite floats, ill-formed
   Number / marshaler output) is compared with encoding/json by the harness;
   the float32 guard is a translator fact. *)
From Coq Require Import NArith List Bool Arith.
From GJ Require Import Spec.Json Gen.VmShape Model.Enc Proofs.EncP Proofs.ParseP Proofs.LeafP Model.Decode Model.EncTyped Proofs.RoundTripP.
Import ListNotations.
Open Scope N_scope.

Theorem C03_output_is_text_of_grammar_tokens : forall v, marshal v = render_compact (toks v).
Proof. exact marshal_is_compact_of_tokens. Qed.
Print Assumptions C03_output_is_text_of_grammar_tokens.

(* ... and that text is one RFC 8259 JSON text: the strict recogniser of Spec/Json.v accepts it, with nothing left
   over, and reads exactly the token sequence of the value -- for every value whose leaves are well formed
   (strings: bodies the recogniser reads back, e.g. everything AppendString writes, Proofs/LeafP.v; numbers: the
   JSON number grammar, e.g. everything AppendInt / AppendUint write; floats come from strconv) *)
Theorem C03_output_is_one_rfc8259_text : forall v, wfp (strip v) = true ->
  rfc_json (marshal v) = true /\ parse_json (marshal v) = Some (toks v, []).
Proof. intros v H. split; [exact (marshal_is_rfc_json v H)|exact (parse_marshal v H)]. Qed.
Print Assumptions C03_output_is_one_rfc8259_text.

(* the hypothesis holds for everything the typed encoder writes (Model/EncTyped.v: bool, integers, strings, pointers,
   slices, arrays, maps, structs, leaves by AppendInt / AppendUint / AppendString): Marshal's text for such a value is
   one RFC 8259 text *)
Theorem C03_typed_output_is_rfc8259 : forall t v, rt t v = true -> rfc_json (marshal_typed t v) = true.
Proof.
  intros t v Hr. unfold marshal_typed. apply marshal_is_rfc_json.
  pose proof (encj_wfp_n (vn v) v (le_n _) t Hr) as Hw.
  rewrite (wfp_strip_n (size (encj t v)) (encj t v) (le_n _) Hw). exact Hw.
Qed.
Print Assumptions C03_typed_output_is_rfc8259.

(* the token sequence of a value whose leaves are scalars is bracket-balanced: every prefix has at least as many
   openers as closers and the whole sequence returns to the starting depth *)
Fixpoint balance (ts : list tok) (d : nat) : option nat :=
  match ts with
  | [] => Some d
  | (TLBrace | TLBrack) :: r => balance r (S d)
  | (TRBrace | TRBrack) :: r => match d with O => None | S d' => balance r d' end
  | _ :: r => balance r d
  end.

Lemma balance_app a : forall b d d', balance a d = Some d' -> balance (a ++ b) d = balance b d'.
Proof.
  induction a as [|t r IH]; intros b d d' H; [inversion H; reflexivity|].
  cbn [app balance] in *. destruct t; try (apply IH; exact H); (destruct d as [|d0]; [discriminate|apply IH; exact H]).
Qed.

Fixpoint wf (v : jv) : Prop :=
  match v with
  | JLeaf t => scalar t = true
  | JArr l => (fix all (l : list jv) : Prop := match l with [] => True | x :: r => wf x /\ all r end) l
  | JObj l => (fix all (l : list (list N * bool * jv)) : Prop := match l with [] => True | (_, _, x) :: r => wf x /\ all r end) l
  end.

Lemma balance_sep (l : list (list tok)) : (forall ts, In ts l -> forall d, balance ts d = Some d) -> forall d, balance (sep_toks l) d = Some d.
Proof.
  induction l as [|x r IH]; intros H d; [reflexivity|]. destruct r as [|y r'].
  - cbn [sep_toks]. apply H. left. reflexivity.
  - change (sep_toks (x :: y :: r')) with (x ++ TComma :: sep_toks (y :: r')).
    rewrite (balance_app x _ d d) by (apply H; left; reflexivity). cbn [balance]. apply IH. intros ts Hin. apply H. right. exact Hin.
Qed.

Theorem C03_tokens_balanced : forall n v, (size v <= n)%nat -> wf v -> forall d, balance (toks v) d = Some d.
Proof.
  induction n as [|n IH]; intros v Hs Hw d; [destruct v; cbn in Hs; inversion Hs|].
  destruct v as [t|l|l].
  - cbn [toks balance]. cbn [wf] in Hw. destruct t; try discriminate Hw; reflexivity.
  - cbn [toks balance]. rewrite (balance_app _ [TRBrack] (S d) (S d)); [reflexivity|].
    apply balance_sep. intros ts Hin d0. apply in_map_iff in Hin. destruct Hin as (x & <- & Hx).
    apply IH.
    + cbn [size] in Hs. clear - Hs Hx. induction l as [|y r IHr]; [destruct Hx|]. cbn [fold_right] in Hs. destruct Hx as [->|Hx]; [apply le_S_n in Hs; eapply Nat.le_trans; [apply Nat.le_add_r|exact Hs]|].
      apply IHr; [|exact Hx]. apply le_n_S. apply le_S_n in Hs. eapply Nat.le_trans; [apply Nat.le_add_l|exact Hs].
    + clear - Hw Hx. cbn [wf] in Hw. induction l as [|y r IHr]; [destruct Hx|]. destruct Hw as [Hy Hr]. destruct Hx as [->|Hx]; [exact Hy|apply IHr; assumption].
  - cbn [toks balance]. rewrite (balance_app _ [TRBrace] (S d) (S d)); [reflexivity|].
    apply balance_sep. intros ts Hin d0. apply in_flat_map in Hin. destruct Hin as ([[k o] x] & Hx & Hts).
    destruct o; [destruct Hts|]. destruct Hts as [<-|[]]. cbn [balance].
    apply IH.
    + cbn [size] in Hs. clear - Hs Hx. induction l as [|y r IHr]; [destruct Hx|]. cbn [fold_right] in Hs. destruct Hx as [->|Hx].
      * cbn [snd] in Hs. apply le_S_n in Hs. eapply Nat.le_trans; [apply Nat.le_add_r|exact Hs].
      * apply IHr; [|exact Hx]. apply le_n_S. apply le_S_n in Hs. eapply Nat.le_trans; [apply Nat.le_add_l|exact Hs].
    + clear - Hw Hx. cbn [wf] in Hw. induction l as [|y r IHr]; [destruct Hx|]. destruct y as [[k1 o1] x1]. destruct Hw as [Hy Hr].
      destruct Hx as [E|Hx]; [inversion E; subst; exact Hy|apply IHr; assumption].
Qed.

(* every float operation of the four interpreters is guarded against NaN and infinities (both widths) *)
Theorem C03_float_ops_guarded :
  vm_float64_guarded = vm_float64_clauses /\ vm_float32_guarded = vm_float32_clauses /\ vm_bodies_identical = true.
Proof. vm_compute. repeat split. Qed.

(* ---- the number recogniser of the source, translated on every run (Base/ScanProg.v, Gen/ScanProgs.v) ---- *)
From GJ Require Import Base.ScanProg Gen.ScanProgs Model.Compact Proofs.ScanProgP Proofs.CompactLeafP.
(* a json.Number, and every number inside the output of a MarshalJSON method, is written only if internal/encoder/compact.go validNumber accepts it;
   that function, as translated, returns for EVERY byte string whether it is an RFC 8259 number *)
Theorem C03_number_recogniser_is_rfc : forall s, run_scanner enc_validNumber_prog s = Returned (json_number s).
Proof.
  intro s. assert (E : enc_validNumber_prog = vn_prog) by reflexivity. rewrite E, vn_prog_is_valid_number, valid_number_spec. reflexivity.
Qed.
Print Assumptions C03_number_recogniser_is_rfc.
