(* C12 — No aliasing between caller data and library buffers.
   Memory is a set of regions; the flags say whether Marshal hands out the
   pooled buffer and whether Unmarshal decodes from the caller's bytes, and
   are read from the source by the translator on every run. *)
From Coq Require Import NArith List Bool String.
From GJ Require Import Gen.PoolUse Model.Alias Proofs.AliasP.
Import ListNotations.

Definition marshal_returns_pooled : bool := match pool_returns_pooled with [] => false | _ => true end.
Definition input_not_copied : bool := match unmarshal_input_not_copied with [] => false | _ => true end.

(* what the translator found in encode.go / decode.go / internal/decoder *)
Theorem C12_source_facts :
  pool_returns_pooled = [] /\ unmarshal_input_not_copied = [] /\ callback_gets_stream_window = [] /\
  unmarshal_functions <> 0%nat /\ callback_sites <> 0%nat.
Proof. split; [reflexivity|]. split; [reflexivity|]. split; [reflexivity|]. split; vm_compute; intro H; discriminate H. Qed.

(* For every history of Marshal and Unmarshal calls (of any sizes, recycling the
   pooled buffers) interleaved with the caller overwriting its input buffers
   and the slices it was handed: everything the caller holds -- decoded data
   and returned slices -- reads as the caller last saw or wrote it. *)
Theorem C12_nothing_the_caller_holds_changes : forall ops,
  views_intact (arun marshal_returns_pooled input_not_copied ops).
Proof.
  unfold marshal_returns_pooled, input_not_copied.
  rewrite (proj1 C12_source_facts), (proj1 (proj2 C12_source_facts)). exact no_aliasing.
Qed.
Print Assumptions C12_nothing_the_caller_holds_changes.

(* and what a Marshal call hands out is what it produced, whatever the caller did to earlier results *)
Theorem C12_later_results_unaffected : forall ops x,
  exists r, nth_error (views (arun false false (ops ++ [AMarshal x]))) (List.length (views (arun false false ops))) = Some (r, x) /\
            acont (am (arun false false (ops ++ [AMarshal x]))) r = x.
Proof. exact marshal_result_fresh. Qed.

(* encoder side of the callbacks: nothing writes through a slice a MarshalJSON / MarshalText call returned *)
Definition writes_marshaler_result : bool := match marshaler_result_written with [] => false | _ => true end.
Theorem C12_marshaler_source_facts : marshaler_result_written = [] /\ marshaler_call_sites <> 0%nat.
Proof. split; [reflexivity|vm_compute; intro H; discriminate H]. Qed.
(* histories that also encode values whose marshalers return windows into what the caller holds
   (a RawMessage cut out of an earlier result or of an input, a marshaler's own scratch space) *)
Theorem C12_marshaler_results_stay_the_callers : forall ops, views_intact (arun2 writes_marshaler_result ops).
Proof. unfold writes_marshaler_result. rewrite (proj1 C12_marshaler_source_facts). exact no_aliasing_marshalers. Qed.
Print Assumptions C12_marshaler_results_stay_the_callers.
Theorem C12_writes_marshaler_result_refuted : exists ops, ~ views_intact (arun2 true ops).
Proof. exact writes_marshaler_result_refuted. Qed.

(* both flags matter *)
Theorem C12_returns_pooled_refuted : exists ops, ~ views_intact (arun true false ops).
Proof. exact returns_pooled_refuted. Qed.
Theorem C12_input_not_copied_refuted : exists ops, ~ views_intact (arun false true ops).
Proof. exact input_not_copied_refuted. Qed.

Example C12_ex :
  let s := arun false false [AMarshal [1%N; 2%N]; AUnmarshal [7%N]; AMutateResult 0 [9%N; 9%N]; AMarshal [3%N]; AScribbleInput 0 [0%N]] in
  map snd (views s) = [[9%N; 9%N]; [7%N]; [3%N]] /\ map (acont (am s)) (map fst (views s)) = [[9%N; 9%N]; [7%N]; [3%N]].
Proof. vm_compute. split; reflexivity. Qed.
