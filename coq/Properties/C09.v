(* C09 — Stream decoding equals buffer decoding for every chunking of the input.
   Proved for the pattern every stream scanner of internal/decoder follows: a
   sentinel-terminated scanner lifted to a refillable window by "at NUL, call
   read(); if it returns true look at the same position again, otherwise treat
   it as the end".  The theorems are parametric in the scanner (any state type,
   any step function). *)
From Coq Require Import NArith List Bool.
From GJ Require Import Gen.StreamPattern Model.Stream Model.StreamInst Proofs.StreamP.
Import ListNotations.
Open Scope N_scope.

(* For every scanner, every document without NUL bytes and EVERY way of cutting it into pieces (of any
   sizes, empty pieces included): the stream run returns what the buffer run returns on the whole document,
   having consumed the same number of bytes. *)
Theorem C09_stream_equals_buffer : forall (St Res : Type) (step : St -> N -> St + Res) (atend : St -> Res) chunks st,
  noNUL (concat chunks) ->
  decode St Res step atend (S (length (concat chunks) + length chunks + 1)) (pieces chunks) st =
    let '(r, n, _) := brun St Res step atend (concat chunks) st 0 in Value Res r n.
Proof. exact stream_equals_buffer. Qed.
Print Assumptions C09_stream_equals_buffer.

(* hence two chunkings of the same bytes cannot be told apart *)
Theorem C09_chunking_invariance : forall (St Res : Type) (step : St -> N -> St + Res) (atend : St -> Res) c1 c2 st,
  concat c1 = concat c2 -> noNUL (concat c1) ->
  decode St Res step atend (S (length (concat c1) + length c1 + 1)) (pieces c1) st =
  decode St Res step atend (S (length (concat c2) + length c2 + 1)) (pieces c2) st.
Proof. exact chunking_invariance. Qed.

(* A reader that fails (with an error other than EOF) after delivering some pieces: Decode returns a value only
   if the scanner had stopped by itself inside the bytes that did arrive, and then exactly the buffer result on
   those bytes; in every other case the outcome is the reader's error, never a value. *)
Theorem C09_reader_error_not_a_value : forall (St Res : Type) (step : St -> N -> St + Res) (atend : St -> Res) items st r n,
  fails items = true -> noNUL (delivered items) ->
  decode St Res step atend (S (length (delivered items) + length items + 1)) items st = Value Res r n ->
  brun St Res step atend (delivered items) st 0 = (r, n, true).
Proof. exact reader_error_not_a_value. Qed.
Print Assumptions C09_reader_error_not_a_value.

(* the source follows the pattern at every branch taken on the sentinel in a function working on a *Stream
   (translator): the branch refills before giving up, and a cursor reloaded from the stream was stored before *)
Theorem C09_source_follows_refill_pattern :
  stream_nul_without_refill = [] /\ stream_cursor_not_saved = [] /\ stream_nul_branches <> 0%nat.
Proof. split; [reflexivity|split; [reflexivity|]]. vm_compute. intro H; discriminate H. Qed.

(* a refill may move the buffer to a larger allocation: every function that keeps a raw pointer into the buffer
   takes it again after any call that may refill, before it reads through it (translator rule R3; the repaired
   defect "escaped struct key across a refill" is the two places this list had) *)
Theorem C09_no_stale_buffer_pointer : stream_stale_pointer = [] /\ stream_pointer_holders <> 0%nat.
Proof. split; [reflexivity|]. vm_compute. intro H; discriminate H. Qed.

(* a refill that lands right behind a backslash leaves the scanner on the escaped character (translator rule R4; the
   repaired defect "unknown struct key with an escape cut by the reader" is the place this list had) *)
Theorem C09_escaped_character_not_reexamined : stream_escape_reexamined = [].
Proof. reflexivity. Qed.

(* instance run against the implementation by the harness (op c09.bool): a number cut short by a failing reader *)
Example C09_ex_bool :
  bool_decode [32; 116; 114; 117; 101; 32] [2; 3]%nat = Value bres (BAccept (Some true)) 5%nat /\
  bool_decode [116; 114; 117] [1]%nat = Value bres BReject 3%nat /\
  decode bst bres bstep batend 20%nat [Piece [116; 114]; Fail] (BSkip true) = ReaderError bres.
Proof. vm_compute. repeat split. Qed.

(* ---- the entry points that hand out what the stream scanners produced (decode.go, read by the translator) ---- *)
From GJ Require Import Gen.Resets.
(* Decoder.DecodeWithOption and Decoder.Token: the statement after the call that runs the scanners returns the reader's
   error if the reader failed -- before the value or the token the scanners made of the bytes that did arrive is handed
   out (the number scanners take the end of the window for the end of the number) *)
Theorem C09_entry_points_look_at_the_reader_error_first :
  decoder_calls_not_consulting_reader_error = nil /\ decoder_calls_running_the_scanners = 2%nat.
Proof. split; reflexivity. Qed.
