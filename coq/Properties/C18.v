(* C18 — Compact, Indent, HTMLEscape and Valid match encoding/json.
   Spec/Json.v is the RFC 8259 grammar with raw tokens; Model/Compact.v is
   compact.go / indent.go over the tables of Gen. *)
From Coq Require Import NArith ZArith List Bool.
From GJ Require Import Base.Bytes Gen.Tables Model.Int Model.Compact Spec.Json
  Proofs.CompactLeafP Proofs.JsonSpecP Proofs.CompactP Proofs.UtilSpecP.
Import ListNotations.
Open Scope N_scope.

(* the texts encoding/json's Compact and Indent take: RFC 8259 with at most
   maxNestingDepth (10000, read from the source) levels of nesting *)
Definition std_compact_language (data : list N) := parse_g (Some c_max_depth) allnum data.

(* 1. for EVERY byte string, Compact returns exactly the raw tokens of that
      parse of the input (what encoding/json.Compact appends), or an error
      when there is none; it never reads outside src ++ [NUL] and never runs
      out of the fuel the model gives it *)
Theorem C18_compact_is_spec : forall data,
  compact_run false data =
  match std_compact_language data with
  | Some (ts, _) => COk (render_compact ts)
  | None => CErr
  end.
Proof. exact compact_run_spec. Qed.
Print Assumptions C18_compact_is_spec.

(* 2. nothing outside RFC 8259 is accepted; success and failure are the only outcomes *)
Theorem C18_compact_accepts_only_rfc : forall data out,
  compact_run false data = COk out -> rfc_json data = true.
Proof.
  intros data out H. rewrite compact_run_spec in H. unfold rfc_json.
  destruct (parse_g clim allnum data) as [r|] eqn:E; [|discriminate].
  rewrite (parse_g_relax _ _ _ _ E). reflexivity.
Qed.
Print Assumptions C18_compact_accepts_only_rfc.

Theorem C18_compact_total : forall data,
  compact_run false data <> CStuck /\ compact_run false data <> CFuel.
Proof.
  intro data. rewrite compact_run_spec. destruct (parse_g clim allnum data) as [[ts rest]|]; split; discriminate.
Qed.
Print Assumptions C18_compact_total.

(* 3. the number recogniser added by the fix: commit is the RFC number grammar *)
Theorem C18_valid_number_is_grammar : forall s, valid_number s = json_number s.
Proof. exact valid_number_spec. Qed.
Print Assumptions C18_valid_number_is_grammar.

(* 4. Indent: for EVERY byte string, prefix and indent, Indent appends exactly
      what encoding/json.Indent appends (Spec.render_indent over the tokens of the
      parse, then the white space that followed the value), or reports an error *)
Theorem C18_indent_is_spec : forall pre ind data,
  indent_run pre ind data =
  match std_compact_language data with
  | Some (ts, rest) => COk (render_indent pre ind 0 None ts ++ rest)
  | None => CErr
  end.
Proof. exact indent_run_spec. Qed.
Print Assumptions C18_indent_is_spec.

(* 5. applying Compact to its own output changes nothing further *)
Theorem C18_compact_idempotent : forall data out,
  compact_run false data = COk out -> compact_run false out = COk out.
Proof. exact compact_idempotent. Qed.
Print Assumptions C18_compact_idempotent.

(* 6. applying Indent to its own output changes nothing further (prefix and indent
      made of white space: with anything else the output is not JSON) *)
Theorem C18_indent_idempotent : forall pre ind, all_ws pre = true -> all_ws ind = true -> forall data out,
  indent_run pre ind data = COk out -> indent_run pre ind out = COk out.
Proof. exact indent_idempotent. Qed.
Print Assumptions C18_indent_idempotent.

(* 7. the two undo each other: Compact of Indent's output is Compact of the input;
      Indent of Compact's output is Indent of the input less its trailing white space *)
Theorem C18_compact_of_indent : forall pre ind, all_ws pre = true -> all_ws ind = true -> forall data out,
  indent_run pre ind data = COk out -> compact_run false out = compact_run false data.
Proof. exact compact_of_indent. Qed.
Print Assumptions C18_compact_of_indent.

Theorem C18_indent_of_compact : forall pre ind data out, compact_run false data = COk out ->
  exists ts rest, std_compact_language data = Some (ts, rest) /\
    indent_run pre ind out = COk (render_indent pre ind 0 None ts) /\
    indent_run pre ind data = COk (render_indent pre ind 0 None ts ++ rest).
Proof. exact indent_of_compact. Qed.
Print Assumptions C18_indent_of_compact.

(* 8. Indent is total too *)
Theorem C18_indent_total : forall pre ind data,
  indent_run pre ind data <> CStuck /\ indent_run pre ind data <> CFuel.
Proof.
  intros pre ind data. rewrite indent_run_spec. destruct (parse_g clim allnum data) as [[ts rest]|]; split; discriminate.
Qed.
Print Assumptions C18_indent_total.

(* HTMLEscape is not modelled as a function of the text: the library decodes and
   marshals again (json.go), so it is compared with encoding/json by value on
   every run; its string escaping is C17's theorem. *)

(* non-vacuity *)
Example C18_ex_valid :
  compact_run false [32; 123; 34; 97; 34; 32; 58; 32; 91; 49; 44; 32; 50; 93; 125; 10]
  = COk [123; 34; 97; 34; 58; 91; 49; 44; 50; 93; 125].
Proof. vm_compute. reflexivity. Qed.
Example C18_limit : Z.of_nat c_max_depth = 10000%Z.
Proof. reflexivity. Qed.
Example C18_ex_invalid : compact_run false [48; 49] = CErr.
Proof. vm_compute. reflexivity. Qed.
Example C18_ex_idem : compact_run false [91; 49; 44; 123; 125; 93] = COk [91; 49; 44; 123; 125; 93].
Proof. vm_compute. reflexivity. Qed.
Example C18_ex_indent :
  indent_run [62] [32] [91; 49; 44; 123; 125; 93; 32] =
  COk [91; 10; 62; 32; 49; 44; 10; 62; 32; 123; 125; 10; 62; 93; 32].
Proof. vm_compute. reflexivity. Qed.

(* ---- the number recogniser, translated ---- *)
From GJ Require Import Base.ScanProg Gen.ScanProgs Proofs.ScanProgP.
(* validNumber of internal/encoder/compact.go and of internal/decoder/number.go, translated statement by statement
   into the scanner language of Base/ScanProg.v on every run, are the program the proof is about *)
Theorem C18_number_recogniser_source : enc_validNumber_prog = vn_prog /\ dec_validNumber_prog = vn_prog.
Proof. split; reflexivity. Qed.
(* and that program accepts, for EVERY byte string, exactly the RFC 8259 numbers: no read beyond the slice (Stuck),
   no loop without progress (OutOfFuel) *)
Theorem C18_number_recogniser_translated_is_rfc : forall s,
  run_scanner enc_validNumber_prog s = Returned (json_number s) /\ run_scanner dec_validNumber_prog s = Returned (json_number s).
Proof.
  intro s. rewrite (proj1 C18_number_recogniser_source), (proj2 C18_number_recogniser_source).
  rewrite vn_prog_is_valid_number, valid_number_spec. split; reflexivity.
Qed.
Print Assumptions C18_number_recogniser_translated_is_rfc.
