(* C10 — All package functions are safe under concurrent use.
   What is proved is the logic: the publish protocol of the per-type caches and
   the take/use/release discipline of the pooled contexts, for any number of
   goroutines and every schedule of their (sequentially consistent) steps.
   The race detector, real scheduling and the memory model are observed by the
   harness in the race and the production build. *)
From Coq Require Import NArith List Bool String.
From GJ Require Import Base.TypeAddrBase Gen.TypeAddr Gen.PoolUse Model.TypeCache Model.Pool Proofs.TypeCacheP Proofs.PoolP.
Import ListNotations.

(* Type caches, both builds, cold start included: whatever the schedule, every
   call runs the program a call made alone would run (compile of its own type). *)
Theorem C10_cache_result_as_alone : forall l live types schedule,
  Forall sample_ok l -> layout_ok (effective l) live -> Forall live types ->
  forall look, (look = enc_norace (effective l) \/ look = enc_race (effective l)) ->
  forall t q, In (t, Done q) (snd (run look (start types) schedule)) -> q = compile t.
Proof.
  intros l live types schedule Hl Hlay Hty look Hlook t q Hin.
  exact (proj1 (enc_own_program l live types schedule Hl Hlay Hty look Hlook t (Done q) Hin) q eq_refl).
Qed.
Print Assumptions C10_cache_result_as_alone.

Theorem C10_decoder_cache_result_as_alone : forall l live types schedule,
  Forall sample_ok l -> layout_ok (effective l) live -> Forall live types ->
  forall look, (look = dec_norace (effective l) \/ look = dec_race (effective l)) ->
  forall t q, In (t, Done q) (snd (run look (start types) schedule)) -> q = compile t.
Proof.
  intros l live types schedule Hl Hlay Hty look Hlook t q Hin.
  exact (proj1 (dec_own_program l live types schedule Hl Hlay Hty look Hlook t (Done q) Hin) q eq_refl).
Qed.

(* Pooled contexts: the source follows the discipline (translator, every function that takes a context) ... *)
Theorem C10_source_follows_pool_discipline :
  pool_use_after_release = [] /\ pool_returns_pooled = [] /\ List.length pool_functions <> 0%nat.
Proof. split; [reflexivity|split; [reflexivity|]]. vm_compute. intro H; discriminate H. Qed.

(* ... and under the discipline every call gets its own data back from its context, whatever the schedule *)
Theorem C10_pool_result_as_alone : forall inputs schedule x res,
  In (x, PDone res) (snd (prun (match pool_use_after_release with [] => false | _ => true end) (pstart inputs) schedule)) -> res = x.
Proof. rewrite (proj1 C10_source_follows_pool_discipline). exact pool_exclusive. Qed.
Print Assumptions C10_pool_result_as_alone.

(* a release before the last use breaks it: a schedule on which a call returns another call's data *)
Theorem C10_early_release_refuted :
  exists inputs schedule x res, In (x, PDone res) (snd (prun true (pstart inputs) schedule)) /\ res <> x.
Proof. exact early_release_refuted. Qed.

Example C10_ex : snd (prun false (pstart [[1%N]; [2%N]]) [0; 1; 0; 1; 0; 0; 1; 1; 1]%nat) = [([1%N], PDone [1%N]); ([2%N], PDone [2%N])].
Proof. vm_compute. reflexivity. Qed.

(* ---- first use of field queries from several goroutines (Model/FilterShare.v) ---- *)
From GJ Require Import Gen.FilterPure Model.FilterShare Proofs.FilterShareP.
(* code.go, as the translator read it: no Filter method assigns to its receiver -- the code tree cached for a type,
   which every goroutine filters by its own query, is never written *)
Theorem C10_filter_leaves_the_cached_tree_alone : filter_writes_receiver = [] /\ filter_methods <> 0%nat.
Proof. split; [reflexivity|vm_compute; intro H; discriminate H]. Qed.
Definition filter_writes : bool := match filter_writes_receiver with [] => false | _ => true end.
(* any number of goroutines, each filtering the shared tree by its own query and compiling the result, under EVERY
   schedule of their steps: a goroutine that has finished has compiled the program of its own query *)
Theorem C10_own_query_under_any_schedule : forall queries schedule,
  Forall (fun t => (f_pc t >= 2)%nat -> f_result t = Some (f_query t)) (threads (frun filter_writes (finit queries) schedule)).
Proof. unfold filter_writes. rewrite (proj1 C10_filter_leaves_the_cached_tree_alone). exact own_query_under_any_schedule. Qed.
Print Assumptions C10_own_query_under_any_schedule.
Theorem C10_filter_writing_its_receiver_refuted :
  map f_result (threads (frun true (finit [7; 9]%nat) [0; 1; 0; 1]%nat)) = [Some 9; Some 9]%nat.
Proof. exact writes_receiver_refuted. Qed.

(* ---- the first use of the caches from several goroutines (Model/InitOnce.v) ---- *)
From GJ Require Import Model.InitOnce Proofs.InitOnceP.
(* initEncoder and initDecoder, as the translator read them: one Once.Do whose body ends with the allocation of the
   cache slice, and nothing in front of or behind it *)
Theorem C10_init_source_facts : enc_init_through_once_only = true /\ dec_init_through_once_only = true.
Proof. split; reflexivity. Qed.
(* any number of goroutines making the process's first calls, under EVERY schedule: whoever gets past the init
   function and indexes the cache slice finds it allocated (encoder and decoder) *)
Theorem C10_first_use_finds_the_cache : forall n schedule i ok,
  nth_error (snd (InitOnce.run (negb enc_init_through_once_only) n schedule)) i = Some (Done ok) -> ok = true.
Proof. rewrite (proj1 C10_init_source_facts). exact lookup_finds_the_cache. Qed.
Theorem C10_decoder_first_use_finds_the_cache : forall n schedule i ok,
  nth_error (snd (InitOnce.run (negb dec_init_through_once_only) n schedule)) i = Some (Done ok) -> ok = true.
Proof. rewrite (proj2 C10_init_source_facts). exact lookup_finds_the_cache. Qed.
Print Assumptions C10_first_use_finds_the_cache.
(* a test of typeAddr in front of the Once lets the second goroutine through between the two assignments *)
Theorem C10_test_in_front_of_the_once_refuted : nth_error (snd (InitOnce.run true 2 [0; 0; 1; 1]%nat)) 1 = Some (Done false).
Proof. exact fast_path_refuted. Qed.
