(* C02 — Unmarshal agrees with encoding/json on every valid document and target.
   What is proved here is the part of the agreement that is arithmetic or
   grammar; what depends on Go's memory (merged maps, reused pointers and
   slices, nil versus empty) is decided by the harness against encoding/json
   itself: a deterministic sweep (every small destination x every boundary
   document x zero / populated x entry point, frozen expectation list) and
   generated (type, document, initial value) triples.

   (1) numeric range: for every integer width and every text, the integer
       decoder stores z exactly when the text is the JSON integer literal of a z
       in the range of the type, and otherwise reports an error (never a wrapped
       value); in stream mode a fraction or exponent is refused before storing;
   (2) interface{} destinations accept exactly the RFC 8259 texts whose numbers
       fit float64 (C05), strings are unescaped exactly (C17);
   (3) the places where agreement hangs on one expression of the source (float
       width, map key parsing, the kinds ,string applies to, null for
       TextUnmarshaler / []byte / json.Number) are what the translator reads. *)
From Coq Require Import NArith ZArith List Bool.
From GJ Require Import Base.Bytes Gen.DecodeShapes Model.Int Proofs.IntEncP Proofs.IntScanP.
From GJ Require Properties.C16.
Import ListNotations.
Open Scope N_scope.

Lemma source_decode_shapes :
  float_parsed_for_width && map_keys_parsed_like_strconv && string_tag_kinds_as_encoding_json && text_unmarshaler_null_typed &&
  bytes_null_clears && number_null_noop && stream_int_refuses_float_tail = true.
Proof. reflexivity. Qed.

(* numeric range, both directions, every width: accepted iff a fitting integer literal *)
Theorem C02_integer_accepts_exactly_the_fitting_literals : forall signed bits data z,
  width_ok bits ->
  (unmarshal_int signed bits data = URes false (Some z) <->
   exists w1 (neg : bool) d w2, data = w1 ++ ((if neg then [45] else []) ++ d) ++ w2 /\ ws w1 /\ ws w2 /\
     canonical d (Z.abs_N z) /\ (if neg then (z <= 0)%Z else (0 <= z)%Z) /\ (signed = false -> neg = false) /\
     in_range signed bits z = true).
Proof.
  intros signed bits data z Hw. split.
  - intro H. destruct (C16.C16_decode_stored_exact signed bits data false z Hw H) as (w & neg & d & rest & E & Hws & Hc & Hs & Hn & Hr & Hrest).
    exists w, neg, d, rest. split; [exact E|]. split; [exact Hws|]. split; [apply Hrest; reflexivity|]. split; [exact Hc|]. split; [exact Hs|]. split; [exact Hn|exact Hr].
  - intros (w1 & neg & d & w2 & -> & H1 & H2 & Hc & Hs & Hn & Hr). apply C16.C16_decode_accepts; assumption.
Qed.
Print Assumptions C02_integer_accepts_exactly_the_fitting_literals.

(* a stored value is never a wrapped one: whatever the call returns, what it stored is the value of a literal in range *)
Theorem C02_no_wrapped_integer : forall signed bits data err z,
  width_ok bits -> unmarshal_int signed bits data = URes err (Some z) -> in_range signed bits z = true.
Proof.
  intros signed bits data err z Hw H. destruct (C16.C16_decode_stored_exact signed bits data err z Hw H) as (w & neg & d & rest & _ & _ & _ & _ & _ & Hr & _). exact Hr.
Qed.

Theorem C02_stream_integer_as_buffer : forall signed bits data,
  match unmarshal_int signed bits data, unmarshal_int_stream signed bits data with
  | URes e st, URes e' st' => e' = e /\ (st' = st \/ st' = None)
  | UStuck, UStuck => True
  | _, _ => False
  end.
Proof. exact C16.C16_stream_agrees_with_buffer. Qed.
