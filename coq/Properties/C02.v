(* C02 — Unmarshal agrees with encoding/json on every valid document and target.
   What is proved here is the part of the agreement that is arithmetic or
   grammar; what depends on Go's memory (merged maps, reused pointers and
   slices, nil versus empty) is decided by the harness against encoding/json
   itself: a deterministic sweep (every small destination x every boundary
   document x zero / populated x entry point, frozen expectation list) and
   generated (type, document, initial value) triples.

   (1) numeric range: for every integer width and every text, the integer
       decoder stores z exactly when the text is the JSON integer literal of a z
       in the range of the type, and otherwise reports an error (never a wrapped
       value); in stream mode a fraction or exponent is refused before storing;
   (2) interface{} destinations accept exactly the RFC 8259 texts whose numbers
       fit float64 (C05), strings are unescaped exactly (C17);
   (2b) the typed decoding semantics (Model/Decode.v: what Unmarshal does with a
       document, a destination type and the value the destination holds:
       null, merged maps, reused pointers / slice elements / struct fields,
       arrays shorter and longer than the text, repeated and unknown keys,
       integer ranges) is an executable function that the harness runs beside
       encoding/json (which validates it) and go-json (op c02.dec); its laws:
       decoding keeps every value well typed, null clears exactly the nilable
       kinds, an interface takes the document whatever it held, keys a map held
       survive;
   (3) the places where agreement hangs on one expression of the source (float
       width, map key parsing, the kinds ,string applies to, null for
       TextUnmarshaler / []byte / json.Number) are what the translator reads. *)
From Coq Require Import NArith ZArith List Bool String.
From GJ Require Import Base.Bytes Gen.DecodeShapes Spec.Json Model.Int Model.Enc Model.Decode Proofs.IntEncP Proofs.IntScanP Proofs.DecodeP.
From GJ Require Properties.C16.
Import ListNotations.
Open Scope string_scope.
Open Scope list_scope.
Open Scope N_scope.

Lemma source_decode_shapes :
  float_parsed_for_width && map_keys_parsed_like_strconv && string_tag_kinds_as_encoding_json && text_unmarshaler_null_typed &&
  bytes_null_clears && number_null_noop && stream_int_refuses_float_tail = true.
Proof. reflexivity. Qed.

(* numeric range, both directions, every width: accepted iff a fitting integer literal *)
Theorem C02_integer_accepts_exactly_the_fitting_literals : forall signed bits data z,
  width_ok bits ->
  (unmarshal_int signed bits data = URes false (Some z) <->
   exists w1 (neg : bool) d w2, data = w1 ++ ((if neg then [45] else []) ++ d) ++ w2 /\ ws w1 /\ ws w2 /\
     canonical d (Z.abs_N z) /\ (if neg then (z <= 0)%Z else (0 <= z)%Z) /\ (signed = false -> neg = false) /\
     in_range signed bits z = true).
Proof.
  intros signed bits data z Hw. split.
  - intro H. destruct (C16.C16_decode_stored_exact signed bits data false z Hw H) as (w & neg & d & rest & E & Hws & Hc & Hs & Hn & Hr & Hrest).
    exists w, neg, d, rest. split; [exact E|]. split; [exact Hws|]. split; [apply Hrest; reflexivity|]. split; [exact Hc|]. split; [exact Hs|]. split; [exact Hn|exact Hr].
  - intros (w1 & neg & d & w2 & -> & H1 & H2 & Hc & Hs & Hn & Hr). apply C16.C16_decode_accepts; assumption.
Qed.
Print Assumptions C02_integer_accepts_exactly_the_fitting_literals.

(* a stored value is never a wrapped one: whatever the call returns, what it stored is the value of a literal in range *)
Theorem C02_no_wrapped_integer : forall signed bits data err z,
  width_ok bits -> unmarshal_int signed bits data = URes err (Some z) -> in_range signed bits z = true.
Proof.
  intros signed bits data err z Hw H. destruct (C16.C16_decode_stored_exact signed bits data err z Hw H) as (w & neg & d & rest & _ & _ & _ & _ & _ & Hr & _). exact Hr.
Qed.

Theorem C02_stream_integer_as_buffer : forall signed bits data,
  match unmarshal_int signed bits data, unmarshal_int_stream signed bits data with
  | URes e st, URes e' st' => e' = e /\ (st' = st \/ st' = None)
  | UStuck, UStuck => True
  | _, _ => False
  end.
Proof. exact C16.C16_stream_agrees_with_buffer. Qed.

(* ---- the typed decoding semantics ---- *)
(* for every well-formed destination type, document, and well-typed value the destination holds: what decoding
   leaves there is a value of the type (integers in range, arrays of their length, every field of its type) *)
Theorem C02_decoding_keeps_values_well_typed : forall f t d init r,
  wf_ty t = true -> has_type t init = true -> dec f t d init = DOk r -> has_type t r = true.
Proof. intros f t d init r Hw Hi H. exact (dec_typed f t Hw d init r Hi H). Qed.
Print Assumptions C02_decoding_keeps_values_well_typed.

Theorem C02_null : forall f t init,
  dec (S f) t (JLeaf TNull) init =
  DOk (match t with TIface | TPtr _ | TSlice _ | TMap _ | TBytes | TMapI _ _ _ => VNil | _ => init end).
Proof. intros f t init. destruct t; reflexivity. Qed.

Theorem C02_interface_takes_the_document : forall f d i1 i2, dec f TIface d i1 = dec f TIface d i2.
Proof. exact dec_iface_ignores_init. Qed.

Theorem C02_map_keeps_its_other_keys : forall f e members m k0 r,
  In k0 (map fst m) -> dec (S f) (TMap e) (JObj members) (VMap m) = DOk r ->
  exists m', r = VMap m' /\ In k0 (map fst m').
Proof. intros f e members m k0 r Hin H. cbn [dec is_null] in H. exact (map_loop_merges (dec f e) (zero e) k0 members m r Hin H). Qed.

(* what the document does not address keeps its value: a struct field no key selects, a map key the document does
   not mention (also the value-level reading of C07: storage the document does not address keeps its contents) *)
Theorem C02_field_not_addressed_keeps_its_value : forall f fs i members cur r,
  not_addressed fs i members = true ->
  dec (S f) (TStruct fs) (JObj members) (VStruct cur) = DOk (VStruct r) -> nth i r VNil = nth i cur VNil.
Proof. intros f fs i members cur r Hn H. cbn [dec is_null] in H. exact (struct_field_not_addressed_keeps_value (dec f) fs i members cur r Hn H). Qed.

Theorem C02_map_key_not_mentioned_keeps_its_value : forall f e k0 members m m',
  not_mentioned k0 members = true ->
  dec (S f) (TMap e) (JObj members) (VMap m) = DOk (VMap m') -> value_of k0 m' = value_of k0 m.
Proof. intros f e k0 members m m' Hn H. cbn [dec is_null] in H. exact (map_key_not_mentioned_keeps_value (dec f e) (zero e) k0 members m m' Hn H). Qed.

(* the statements are about something: a slice of structs keeps the field the document does not mention, a short
   array is zeroed behind the text, a repeated key decodes twice, an out-of-range integer is an error *)
Example C02_example :
  let t := TStruct [([65], TSlice (TStruct [([120], TInt 8); ([121], TString)])); ([66], TArr 3 (TUint 8)); ([67], TPtr (TInt 16))] in
  let init := VStruct [VSlice [VStruct [VInt 1; VStr [104]]]; VArr [VInt 7; VInt 8; VInt 9]; VNil] in
  wf_ty t = true /\ has_type t init = true /\
  unmarshal_typed t (str "{""A"":[{""x"":5},{""y"":""z""}],""B"":[4],""C"":1,""C"":-2,""zz"":[1]}") init =
    str "OR3:L2:R2:I1:5S1:hR2:I1:0S1:zA3:I1:4I1:0I1:0PI2:-2" /\
  unmarshal_typed t (str "{""A"":[{""x"":128}]}") init = [69].
Proof. vm_compute. repeat split; reflexivity. Qed.
