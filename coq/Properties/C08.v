(* C08 — Encoding any acyclic value is safe; cyclic values give an error.
   Proved: the frame arithmetic of the interpreters.  A frame is the region of
   ctx.Ptrs a code works in; recursive calls and interface values push nested
   frames.  With the constants read from the source on every run (Gen/Frames.v):
   every frame's code -- including the slots in which its end opcode saves the
   return address, the offset and the base indent -- stays inside the slots
   reserved for it, and every nested frame starts behind the slots of its
   parent, for every sequence of nested pushes and all code lengths.  The two
   defects repaired in this area are the refutation witnesses.  Cycle detection,
   GC interaction and stack growth are observed by the harness (normal and
   checkptr builds). *)
From Coq Require Import List Bool Arith ZArith.
From GJ Require Import Gen.Frames Model.Frames Proofs.FramesP Gen.Tables Model.Cycle Proofs.CycleP.
Import ListNotations.

Theorem C08_source_constants_ok : consts_ok the_consts /\ vm_push_shapes_ok = true /\ top_iface_len_is_total = true.
Proof. split; [exact the_consts_ok|split; reflexivity]. Qed.

Theorem C08_frames_separated : forall ps f, wf_frame f -> Forall wf_push ps -> separated the_consts (stack the_consts f ps).
Proof. exact (frames_separated the_consts the_consts_ok). Qed.
Print Assumptions C08_frames_separated.

(* before fix d7b1d3d: the slot that saves the base indent lay outside the frame of a recursive call *)
Theorem C08_saved_indent_slot_refuted :
  exists f, wf_frame f /\ ~ top_slot consts_before_fix_indent f < alloc consts_before_fix_indent f.
Proof. exact saved_indent_slot_outside_frame_refuted. Qed.

(* before the interface-in-recursive-code fix: the interface frame started inside the recursive frame *)
Theorem C08_iface_frame_overlap_refuted :
  exists f p, wf_frame f /\ wf_push p /\ ~ f_base f + alloc consts_before_fix_iface f <= f_base (do_push consts_before_fix_iface f p).
Proof. exact iface_frame_inside_recursive_frame_refuted. Qed.

Example C08_ex :
  map (fun f => (f_base f, alloc the_consts f, top_slot the_consts f))
      (stack the_consts {| f_kind := KTop; f_base := 0; f_len := 6; f_end := 5 |} [PRec 4 3; PIface 5 4; PRec 4 3])
  = [(0, 6, 5); (10, 8, 7); (18, 8, 7); (27, 8, 7)].
Proof. vm_compute. reflexivity. Qed.

(* ---- cycles (Model/Cycle.v): the remembered addresses are the path from the root; above the threshold read from
   the source an address met again on that path ends the encoding with an error ---- *)
Definition cycle_threshold : nat := Z.to_nat enc_StartDetectingCyclesAfter.

(* on EVERY finite graph of values, cyclic or not, the recursion ends within threshold + nodes + 1 levels:
   a cyclic value gives the error (or, below the threshold, is never met again), never unbounded recursion *)
Theorem C08_encoding_returns_on_every_graph : forall succ N root,
  (forall n c, n < N -> In c (succ n) -> c < N) -> root < N -> encode_graph cycle_threshold succ N root <> WFuel.
Proof. intros. apply encode_graph_returns; assumption. Qed.
Print Assumptions C08_encoding_returns_on_every_graph.

(* a value without a cycle is never refused, however deep and however often its parts are shared *)
Theorem C08_acyclic_value_is_encoded : forall succ N root (rank : nat -> nat),
  (forall n c, In c (succ n) -> rank c < rank n) -> rank root < N -> encode_graph cycle_threshold succ N root = WOk.
Proof. intros. eapply encode_graph_acyclic_ok; eassumption. Qed.

Example C08_cycle_ex : encode_graph cycle_threshold (succ_of [[1]; [2]; [0]]) 3 0 = WCycle /\
                       encode_graph cycle_threshold (succ_of [[1; 2]; [3]; [3]; []]) 4 0 = WOk.
Proof. vm_compute. split; reflexivity. Qed.
