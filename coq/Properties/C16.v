(* C16 — Integer text conversion is exact; out-of-range input is an error.
   Only statements, each closed by a lemma from Proofs/, and Print Assumptions. *)
From Coq Require Import NArith ZArith List Bool Lia ZifyBool ZifyN.
From GJ Require Import Base.Bytes Base.Word64 Gen.Tables Model.Int
  Proofs.IntEncP Proofs.IntDecP Proofs.IntScanP.
Import ListNotations.
Open Scope N_scope.

(* encoding: AppendUint prints the canonical decimal text of the value *)
Theorem C16_append_uint_exact : forall bits u,
  width_ok bits -> canonical (append_uint bits u) (u mod 2 ^ bits).
Proof. exact append_uint_canonical. Qed.
Print Assumptions C16_append_uint_exact.

(* encoding: AppendInt prints '-' iff negative, then the canonical magnitude *)
Theorem C16_append_int_exact : forall bits z,
  width_ok bits -> (- 2 ^ (Z.of_N bits - 1) <= z < 2 ^ (Z.of_N bits - 1))%Z ->
  canonical_int (append_int bits (twos bits z)) z.
Proof. exact append_int_canonical. Qed.
Print Assumptions C16_append_int_exact.

(* decoding: digit accumulation is exact or an error, never a wrapped value *)
Theorem C16_parse_uint_exact_or_error : forall b, Forall is_digit b ->
  parse_uint b =
    if (Nat.leb (length b) 20) && (value b 0 <=? u64_max) then PVal (Z.of_N (value b 0)) else PErr.
Proof. exact parse_uint_spec. Qed.
Print Assumptions C16_parse_uint_exact_or_error.

Theorem C16_parse_int_exact_or_error : forall b, let '(neg, d) := split_sign b in Forall is_digit d ->
  parse_int b =
    if int_literal_ok d && Nat.leb (length d) 19 &&
       (if neg then value d 0 <=? 9223372036854775808 else value d 0 <=? 9223372036854775807)
    then PVal (if neg then (- Z.of_N (value d 0))%Z else Z.of_N (value d 0)) else PErr.
Proof. exact parse_int_spec. Qed.
Print Assumptions C16_parse_int_exact_or_error.

(* decoding: a fitting JSON integer literal is accepted and stored exactly *)
Theorem C16_decode_accepts : forall signed bits w1 (neg : bool) d w2 z,
  width_ok bits -> ws w1 -> ws w2 ->
  canonical d (Z.abs_N z) -> (if neg then (z <= 0)%Z else (0 <= z)%Z) ->
  (signed = false -> neg = false) ->
  in_range signed bits z = true ->
  unmarshal_int signed bits (w1 ++ ((if neg then [45] else []) ++ d) ++ w2) = URes false (Some z).
Proof. exact unmarshal_int_accepts. Qed.
Print Assumptions C16_decode_accepts.

(* decoding: for EVERY byte string, anything stored is exactly the fitting JSON
   integer literal at the start of the input; success iff only whitespace follows *)
Theorem C16_decode_stored_exact : forall signed bits data err z,
  width_ok bits ->
  unmarshal_int signed bits data = URes err (Some z) ->
  exists w (neg : bool) d rest,
    data = w ++ ((if neg then [45] else []) ++ d) ++ rest /\ ws w /\
    canonical d (Z.abs_N z) /\ (if neg then (z <= 0)%Z else (0 <= z)%Z) /\
    (signed = false -> neg = false) /\
    in_range signed bits z = true /\
    (err = false <-> ws rest).
Proof. exact unmarshal_int_stored_exact. Qed.
Print Assumptions C16_decode_stored_exact.

(* decoding: the scanner never reads outside data ++ [NUL] *)
Theorem C16_decode_never_stuck : forall signed bits data, unmarshal_int signed bits data <> UStuck.
Proof. exact unmarshal_int_never_stuck. Qed.
Print Assumptions C16_decode_never_stuck.

(* the known deviation, stated and witnessed: a value can be stored although
   the call fails (finding PartialStoreBeforeError) *)
Theorem C16_partial_store_refuted : exists data z,
  unmarshal_int true 64 data = URes true (Some z).
Proof. exists [49; 101; 50], 1%Z. vm_compute. reflexivity. Qed.

(* non-vacuity: the hypotheses are met by boundary values *)
Example C16_ex_min64 :
  unmarshal_int true 64 (append_int 64 (twos 64 (-9223372036854775808))) = URes false (Some (-9223372036854775808)%Z).
Proof. vm_compute. reflexivity. Qed.
Example C16_ex_over64 :
  unmarshal_int true 64 [57;50;50;51;51;55;50;48;51;54;56;53;52;55;55;53;56;48;56] = URes true None.
Proof. vm_compute. reflexivity. Qed.
Example C16_ex_overu64 :
  unmarshal_int false 64 [49;56;52;52;54;55;52;52;48;55;51;55;48;57;53;53;49;54;49;54] = URes true None.
Proof. vm_compute. reflexivity. Qed.

(* stream mode (Decoder.Decode): the verdict is Unmarshal's, and nothing is stored that Unmarshal does not store;
   a number with a fraction or an exponent stores nothing at all *)
Theorem C16_stream_agrees_with_buffer : forall signed bits data,
  match unmarshal_int signed bits data, unmarshal_int_stream signed bits data with
  | URes e st, URes e' st' => e' = e /\ (st' = st \/ st' = None)
  | UStuck, UStuck => True
  | _, _ => False
  end.
Proof.
  intros signed bits data. unfold unmarshal_int_stream.
  destruct (int_decode_byte signed (data ++ [0])) as [| |rest|num rest] eqn:E;
    try (destruct (unmarshal_int signed bits data); [exact I|split; [reflexivity|left; reflexivity]]).
  destruct (float_tail rest) eqn:F; [|destruct (unmarshal_int signed bits data); [exact I|split; [reflexivity|left; reflexivity]]].
  unfold unmarshal_int. rewrite E.
  assert (V : validate_end rest = Some false).
  { destruct rest as [|c r]; [discriminate F|]. cbn [float_tail] in F. cbn [validate_end].
    assert (W : is_ws c = false) by (unfold is_ws; lia). rewrite W.
    assert (Z0 : c =? 0 = false) by lia. rewrite Z0. reflexivity. }
  destruct (if signed then parse_int num else parse_uint num); [split; [reflexivity|left; reflexivity]|].
  destruct (in_range signed bits z); [|split; [reflexivity|left; reflexivity]].
  rewrite V. cbn [negb]. split; [reflexivity|right; reflexivity].
Qed.
Print Assumptions C16_stream_agrees_with_buffer.

(* ---- the width in a constructor's name is the width in its body (Gen/Twins.v, read from internal/encoder/compiler.go and
   internal/decoder/compile.go on every run): the 20 (u)int<N>[String]Code constructors build an IntCode / UintCode of
   bitSize N, the 10 compile(U)int<N> build a decoder that stores through a pointer to (u)int<N> ---- *)
From GJ Require Import Gen.Twins.
Theorem C16_width_constructors_carry_their_width : width_constructors_off = nil /\ width_constructors = 30%nat.
Proof. split; reflexivity. Qed.
