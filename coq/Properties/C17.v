(* C17 — String escaping and unescaping are faithful for every byte sequence.
   Statements over the tables, constants and SWAR mask expressions that
   tools/translate read from internal/encoder/string.go, string_table.go,
   decode_rune.go and internal/decoder/string.go. *)
From Coq Require Import NArith ZArith List Bool.
From GJ Require Import Base.Bytes Base.Word64 Gen.Tables Gen.Swar Model.Int Model.StrEnc Model.StrDec
  Proofs.WordP Proofs.SwarP Proofs.StrEncP Proofs.StrBodyP Proofs.StrDecP Proofs.SepP.
Import ListNotations.
Open Scope N_scope.

(* the four variants as (table, html, normalize, mask) *)
Definition variant_ok (need : list N) (html normalize : bool) (mask : wexpr) : Prop :=
  exists ts, terms mask = Some ts /\ cover need ts = true /\
             table_ok need html = true /\ norm_table_ok need normalize = true.

Lemma v11 : variant_ok enc_needEscapeHTMLNormalizeUTF8 true true swar_appendNormalizedHTMLString.
Proof. eexists. split; [vm_compute; reflexivity|]. repeat split; vm_compute; reflexivity. Qed.
Lemma v10 : variant_ok enc_needEscapeHTML true false swar_appendHTMLString.
Proof. eexists. split; [vm_compute; reflexivity|]. repeat split; vm_compute; reflexivity. Qed.
Lemma v01 : variant_ok enc_needEscapeNormalizeUTF8 false true swar_appendNormalizedString.
Proof. eexists. split; [vm_compute; reflexivity|]. repeat split; vm_compute; reflexivity. Qed.
Lemma v00 : variant_ok enc_needEscape false false swar_appendString.
Proof. eexists. split; [vm_compute; reflexivity|]. repeat split; vm_compute; reflexivity. Qed.

Lemma all_variants html normalize :
  match html, normalize with
  | true, true => variant_ok enc_needEscapeHTMLNormalizeUTF8 true true swar_appendNormalizedHTMLString
  | true, false => variant_ok enc_needEscapeHTML true false swar_appendHTMLString
  | false, true => variant_ok enc_needEscapeNormalizeUTF8 false true swar_appendNormalizedString
  | false, false => variant_ok enc_needEscape false false swar_appendString
  end.
Proof. destruct html, normalize; [exact v11|exact v10|exact v01|exact v00]. Qed.

(* 1. the 8-byte SWAR fast path never skips a byte: for every string and every
      flag combination AppendString equals the byte-at-a-time slow loop *)
Theorem C17_swar_fast_path_sound : forall html normalize s, ok s ->
  append_string_v html normalize s = 34 :: slow_v html normalize s ++ [34].
Proof.
  intros html normalize s Hs. pose proof (all_variants html normalize) as V.
  destruct html, normalize; destruct V as (ts & A & B & _); unfold append_string_v, slow_v;
    eapply append_string_eq_slow; eassumption.
Qed.
Print Assumptions C17_swar_fast_path_sound.

(* 2. the emitted literal is a well-formed JSON string: no raw control character,
      quote or backslash outside an escape; with HTML escaping no raw < > & *)
Theorem C17_literal_well_formed : forall html normalize s, ok s ->
  exists body, append_string_v html normalize s = 34 :: body ++ [34] /\ body_ok html body = true.
Proof.
  intros html normalize s Hs. exists (slow_v html normalize s).
  split; [apply C17_swar_fast_path_sound; exact Hs|].
  pose proof (all_variants html normalize) as V.
  destruct html, normalize; destruct V as (ts & _ & _ & T & _); unfold slow_v; apply slow_body_ok; assumption.
Qed.
Print Assumptions C17_literal_well_formed.

(* 3. decoding what was emitted gives back the string (U+FFFD for bytes the
      rune decoder rejects when normalisation is on) — also the C04 round trip *)
Theorem C17_string_roundtrip : forall html normalize s, ok s ->
  unmarshal_string (append_string_v html normalize s) =
  StrRes false (Some (if normalize then sanitize (length s) s else s)).
Proof.
  intros html normalize s Hs. pose proof (all_variants html normalize) as V.
  destruct html, normalize; destruct V as (ts & A & B & C & D); unfold append_string_v;
    rewrite (string_roundtrip _ _ _ _ ts A B C D s Hs); unfold normf; reflexivity.
Qed.
Print Assumptions C17_string_roundtrip.

(* 4. with HTML escaping on (normalising or not), and with normalisation on, the literal contains
      neither U+2028 nor U+2029 as raw bytes: E2 is a flagged byte in these three tables, and the
      slow loop escapes the two separators (the case of appendHTMLString added by the fix recorded in
      KNOWN_FINDINGS.txt; decodeRuneInString in the normalising variants) *)
Lemma e2_flagged : tblb enc_needEscapeHTMLNormalizeUTF8 226 = true /\ tblb enc_needEscapeHTML 226 = true /\
                   tblb enc_needEscapeNormalizeUTF8 226 = true.
Proof. repeat split; vm_compute; reflexivity. Qed.

Theorem C17_no_raw_line_separators : forall html normalize s, html || normalize = true -> ok s ->
  exists body, append_string_v html normalize s = 34 :: body ++ [34] /\ sep_free body = true.
Proof.
  intros html normalize s Hm Hs. exists (slow_v html normalize s).
  split; [apply C17_swar_fast_path_sound; exact Hs|].
  pose proof (all_variants html normalize) as V. destruct e2_flagged as (F11 & F10 & F01).
  destruct html, normalize; try discriminate Hm; destruct V as (ts & _ & _ & T & _); unfold slow_v;
    apply slow_sep_free; try assumption; reflexivity.
Qed.
Print Assumptions C17_no_raw_line_separators.

(* non-vacuity *)
Example C17_ex_offsets :
  append_string_v true true [97;97;97;97;97;97;97;97;97;60;255] =
  [34;97;97;97;97;97;97;97;97;97;92;117;48;48;51;99;92;117;102;102;102;100;34].
Proof. vm_compute. reflexivity. Qed.
Example C17_ex_separator :
  append_string_v true false [97; 226; 128; 168; 226; 128; 167; 226; 128; 169] =
  [34; 97; 92; 117; 50; 48; 50; 56; 226; 128; 167; 92; 117; 50; 48; 50; 57; 34].
Proof. vm_compute. reflexivity. Qed.
Example C17_ex_surrogate :
  unmarshal_string [34;92;117;100;56;51;100;92;117;100;101;48;48;34] = StrRes false (Some [240;159;152;128]).
Proof. vm_compute. reflexivity. Qed.
