(* C15 — Object keys select struct fields exactly as Go's JSON rules prescribe.
   Proved here: the bitmap matcher used for structs with <= 16 ASCII-lowerable
   names (the path advertised in the README).  Field resolution for embedded
   structs, the map-based fallback and encoding order are compared with
   encoding/json on every run. *)
From Coq Require Import NArith List Bool Lia.
From GJ Require Import Base.Bytes Model.KeyBitmap Proofs.KeyBitmapP.
Import ListNotations.
From GJ Require Import Gen.FieldShape Model.FieldRes Proofs.FieldResP.
Open Scope N_scope.

(* for every set of at most `width` names and EVERY key: *)

(* 1. the matcher never indexes its bitmap or field table out of range *)
Theorem C15_bitmap_in_bounds : forall width names key,
  (length names <= width)%nat -> bm_match width names key <> MStuck.
Proof. intros width names key H. apply bm_never_stuck. exact H. Qed.
Print Assumptions C15_bitmap_in_bounds.

(* 2. a key selects a field only if its lower-cased bytes ARE the field's
      (lower-cased) name: no prefix, no extension *)
Theorem C15_bitmap_exact_only : forall width names key i,
  (length names <= width)%nat -> bm_match width names key = MField i ->
  nth_error names i = Some (map lower key).
Proof. intros width names key i H. apply bm_sound. exact H. Qed.
Print Assumptions C15_bitmap_exact_only.

(* 3. with the names in sort.Strings order (as tryOptimize builds them), the
      field whose name is the lower-cased key is always found *)
Theorem C15_bitmap_finds_exact : forall width names key i,
  (length names <= width)%nat -> sorted names -> key <> [] ->
  nth_error names i = Some (map lower key) -> bm_match width names key = MField i.
Proof. intros width names key i H. apply bm_complete. exact H. Qed.
Print Assumptions C15_bitmap_finds_exact.

(* non-vacuity: names a, ab, b: key "A" -> field 0; "ab" -> 1; "abc" -> none; "B" -> 2 *)
Example C15_ex : map (bm_match 8 [[97]; [97; 98]; [98]]) [[65]; [97; 98]; [97; 98; 99]; [66]; [99]]
  = [MField 0; MField 1; MNone; MField 2; MNone].
Proof. vm_compute. reflexivity. Qed.
Example C15_ex_sorted : sorted [[97]; [97; 98]; [98]].
Proof.
  intros i j a b Hij Ha Hb.
  destruct i as [|[|[|i]]]; destruct j as [|[|[|j]]]; cbn in Ha, Hb; try lia;
    try (destruct i; discriminate); try (destruct j; discriminate);
    inversion Ha; inversion Hb; subst; reflexivity.
Qed.

(* ---- which field a name selects when structs are embedded in structs (Model/FieldRes.v) ---- *)
(* compile.go (decoder) and compiler.go (encoder), as the translator read them: every level of embedding hands all
   its candidates up, the outermost struct decides per name *)
Theorem C15_field_resolution_source :
  decoder_flattens_all_candidates = true /\ decoder_rule_as_modelled = true /\
  encoder_flattens_all_candidates = true /\ encoder_rule_as_modelled = true.
Proof. repeat split; reflexivity. Qed.

(* For every struct shape (any depth of embedding, by value or by pointer, tagged and untagged fields, ignored
   fields) and every name: the model selects a field exactly when Go's rule does -- the candidate that is alone at
   the smallest depth, or alone among the tagged candidates at that depth; otherwise nothing, also nothing deeper. *)
Theorem C15_field_resolution_is_gos_rule : forall fs n c,
  resolve (cands fs) n = Some c <-> Selected (cands fs) n c.
Proof. exact select_iff. Qed.
Print Assumptions C15_field_resolution_is_gos_rule.

Theorem C15_shallowest_field_wins : forall fs n c, resolve (cands fs) n = Some c ->
  forall c', In c' (cands fs) -> c_name c' = n -> (c_depth c <= c_depth c')%nat.
Proof. intros fs n c. apply resolve_shallowest. Qed.

(* the two repaired defects: settling the names level by level lets a deeper field through where the name is
   ambiguous (struct{struct{struct{X};struct{X}};struct{struct{X}}}), and a tag counts at every depth *)
Theorem C15_level_by_level_refuted : select w_amb [88] = None /\ hier_select w_amb [88] = Some [1; 0; 0]%nat.
Proof. exact hier_refuted. Qed.
Example C15_tag_two_levels_down : select w_tag [88] = Some [0; 0; 0]%nat.
Proof. exact tag_at_depth. Qed.

(* ---- the 8-bit and the 16-bit key matcher are one function up to the width of their bit sets (Gen/Twins.v, read from
   internal/decoder/struct.go on every run), in buffer mode and in stream mode: the theorems above about the matcher
   (Model/KeyBitmap.v has one matcher, parametric in the number of names) speak about both ---- *)
From GJ Require Import Gen.Twins.
Theorem C15_key_matchers_of_both_widths_are_one_text : key_matchers_8_16_alike_buffer = true /\ key_matchers_8_16_alike_stream = true.
Proof. split; reflexivity. Qed.
