(* C14 — A value is always processed by the program compiled for its own type.
   The address analysis and the four cache lookups are translated from the
   source (Gen/TypeAddr.v); the publish protocol is Model/TypeCache.v. *)
From Coq Require Import NArith List Bool.
From GJ Require Import Base.TypeAddrBase Gen.TypeAddr Model.TypeCache Proofs.TypeCacheP.
Import ListNotations.
Open Scope N_scope.

(* Encoder, race and !race build: for every typelinks sample, every set of live
   types laid out as Go lays descriptors out (48 bytes or more each, not
   overlapping; congruent to base modulo 64 when the analysis chose shift 6),
   every number of goroutines and every schedule: a goroutine that got a
   program got the one compiled for its own type, and no lookup indexes outside
   the cache. *)
Theorem C14_encoder_own_program : forall l live types schedule,
  Forall sample_ok l -> layout_ok (effective l) live -> Forall live types ->
  forall look, (look = enc_norace (effective l) \/ look = enc_race (effective l)) ->
  forall t pcv, In (t, pcv) (snd (run look (start types) schedule)) ->
    (forall q, pcv = Done q -> q = t) /\ pcv <> Crashed.
Proof. exact enc_own_program. Qed.
Print Assumptions C14_encoder_own_program.

(* Decoder: the same (both bounds of the window are tested since the fix recorded in KNOWN_FINDINGS.txt) *)
Theorem C14_decoder_own_program : forall l live types schedule,
  Forall sample_ok l -> layout_ok (effective l) live -> Forall live types ->
  forall look, (look = dec_norace (effective l) \/ look = dec_race (effective l)) ->
  forall t pcv, In (t, pcv) (snd (run look (start types) schedule)) ->
    (forall q, pcv = Done q -> q = t) /\ pcv <> Crashed.
Proof. exact dec_own_program. Qed.
Print Assumptions C14_decoder_own_program.

(* wherever a descriptor lies outside the window of the binary's own types (run-time-created
   types on the heap, above it or, in position-independent builds, below it) all four lookups
   take the map keyed by the descriptor's address *)
Theorem C14_outside_window_takes_map_path : forall ta p, (p < ta_base ta \/ ta_max ta < p) ->
  enc_norace ta p = Slow /\ enc_race ta p = Slow /\ dec_norace ta p = Slow /\ dec_race ta p = Slow.
Proof. exact outside_window_takes_map_path. Qed.
Print Assumptions C14_outside_window_takes_map_path.

(* The layout hypothesis cannot be dropped: the alignment inference compares
   each address with the minimum seen so far, so a sample visited in descending
   order passes it whatever its alignment. *)
Theorem C14_alignment_inference_order_dependent :
  exists l a b, Forall sample_ok l /\ sampled l a /\ sampled l b /\ a <> b /\
    exists i, enc_norace (effective l) a = Fast i /\ enc_norace (effective l) b = Fast i.
Proof. exact alignment_inference_order_dependent. Qed.

(* facts of the analysis used by the harness when it checks the hypothesis on the running binary *)
Theorem C14_sampled_in_range : forall l ta x, analyze l = Some ta -> sampled l x -> ta_base ta <= x <= ta_max ta.
Proof. exact sampled_in_range. Qed.
Theorem C14_shift_values : forall l, Forall sample_ok l ->
  ta_shift (effective l) = 0 \/ ta_shift (effective l) = 5 \/ ta_shift (effective l) = 6.
Proof. intros l H. exact (proj2 (proj2 (proj2 (effective_ok l H)))). Qed.
Print Assumptions C14_shift_values.

(* non-vacuity: a sample and two live types satisfying the hypotheses *)
Example C14_ex :
  let l := [ {| s_addr := 4096; s_ptr := true; s_elem := 4160 |}; {| s_addr := 4320; s_ptr := false; s_elem := 0 |} ] in
  effective l = {| ta_base := 4096; ta_max := 4320; ta_range := 224; ta_shift := 5 |} /\
  enc_norace (effective l) 4160 = Fast 2 /\ dec_norace (effective l) 4320 = Fast 7 /\ enc_norace (effective l) 8192 = Slow.
Proof. vm_compute. repeat split. Qed.
