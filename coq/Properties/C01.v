(* C01 — Marshal agrees with encoding/json for every value of every supported type.
   Proved: the emission discipline of the interpreter (every value appends its
   text and a comma, closers overwrite the last comma, omitted members leave no
   trace, the entry point cuts the final comma) writes exactly the compact text
   of the token sequence the value denotes -- the sequence encoding/json writes.
   The type-directed part (which members, which leaf spelling) is compared with
   encoding/json by the harness over the generated type grammar. *)
From Coq Require Import NArith List Bool.
From GJ Require Import Spec.Json Model.Enc Proofs.EncP.
Import ListNotations.
Open Scope N_scope.

(* for every value (any nesting, any members omitted, empty containers) and any buffer contents before it *)
Theorem C01_emission_appends_text_and_comma : forall v b, enc v b = b ++ render v ++ [COMMA].
Proof. exact enc_denotes. Qed.

Theorem C01_marshal_is_compact_text_of_tokens : forall v, marshal v = render_compact (toks v).
Proof. exact marshal_is_compact_of_tokens. Qed.
Print Assumptions C01_marshal_is_compact_text_of_tokens.

(* the members of an object appear in emission order, omitted ones not at all *)
Example C01_ex :
  marshal (JObj [([97], false, JLeaf (TNum [49])); ([98], true, JLeaf TNull); ([99], false, JArr []); ([100], true, JObj [])])
  = [123; 34; 97; 34; 58; 49; 44; 34; 99; 34; 58; 91; 93; 125] /\
  marshal (JObj [([98], true, JLeaf TNull)]) = [123; 125].
Proof. vm_compute. split; reflexivity. Qed.

(* ---- code that exists in several copies (Gen/Twins.v, read from the source on every run) ---- *)
From Coq Require Import String.
From GJ Require Import Gen.Twins.
(* the helpers through which the four interpreters read a value out of its slot (widths, pointers, strings, slices)
   have one text in all four util.go: what a value is does not depend on the variant that encodes it *)
Theorem C01_interpreters_read_values_alike :
  util_helpers_identical = ["load"; "loadNPtr"; "ptrToBool"; "ptrToBytes"; "ptrToFloat32"; "ptrToFloat64"; "ptrToInterface"; "ptrToNPtr"; "ptrToNumber"; "ptrToPtr"; "ptrToSlice"; "ptrToString"; "ptrToUint64"; "ptrToUnsafePtr"; "store"]%string.
Proof. reflexivity. Qed.
(* the two tables that send a value opcode to its struct-head / struct-field opcode answer, for every case Op<X>,
   OpStructHead<X> / OpStructField<X> (and ...String with the option); the six pointer-to-container cases rewrite the
   opcode first *)
Theorem C01_head_and_field_tables_agree :
  opcode_tables_irregular = ["ToHeaderType OpMapPtr: { c.Op = OpMap return OpStructHeadMapPtr }"; "ToHeaderType OpArrayPtr: { c.Op = OpArray return OpStructHeadArrayPtr }"; "ToHeaderType OpSlicePtr: { c.Op = OpSlice return OpStructHeadSlicePtr }"; "ToFieldType OpMapPtr: { c.Op = OpMap return OpStructFieldMapPtr }"; "ToFieldType OpArrayPtr: { c.Op = OpArray return OpStructFieldArrayPtr }"; "ToFieldType OpSlicePtr: { c.Op = OpSlice return OpStructFieldSlicePtr }"]%string /\ opcode_tables_cases = 52%nat.
Proof. split; reflexivity. Qed.

(* the interpreter's cases for values that implement encoding.TextMarshaler are the text of the cases for
   json.Marshaler with the method renamed (head and field, with and without omitempty, behind pointers: 14 pairs);
   the one pair that differs is the top-level case, where a nil non-pointer value is written as an empty string *)
Theorem C01_text_marshaler_cases_follow_their_json_twins :
  marshaler_twin_cases_differing = ["OpMarshalText"]%string /\ marshaler_twin_cases = 14%nat.
Proof. split; reflexivity. Qed.


(* ---- omitempty on a member whose type implements json.Marshaler / encoding.TextMarshaler (Model/Emptiness.v; the rules
   per kind and the two interpreter cases are read from the source on every run, Gen/Twins.v; harness op c01.omits) ---- *)
From GJ Require Import Model.Emptiness Proofs.EmptinessP.
(* for EVERY value of every kind, as the first member and as a later one: the member is left out exactly when
   encoding/json leaves it out; the one named case is a nil func / chan after the first member *)
Theorem C01_omitempty_on_marshaler_members_is_encoding_json_s pos v : In (kind v) all_kinds -> coherent v = true ->
  omits pos v = Some (std_empty v) \/ named_exception pos v = true.
Proof. exact (marshaler_field_emptiness pos v). Qed.
Print Assumptions C01_omitempty_on_marshaler_members_is_encoding_json_s.
Theorem C01_omitempty_named_case_is_real_and_the_repaired_ones_are_gone :
  let arr := {| kind := "Array"; truth := false; num_zero := false; bits_zero := false; is_nil := false; len_zero := true |} in
  let mp := {| kind := "Map"; truth := false; num_zero := false; bits_zero := false; is_nil := false; len_zero := true |} in
  let nz := {| kind := "Float64"; truth := false; num_zero := true; bits_zero := false; is_nil := false; len_zero := false |} in
  let fn := {| kind := "Func"; truth := false; num_zero := false; bits_zero := false; is_nil := true; len_zero := false |} in
  let ch := {| kind := "Chan"; truth := false; num_zero := false; bits_zero := false; is_nil := true; len_zero := false |} in
  Forall (fun v => coherent v = true /\ named_exception Later v = true /\ omits Later v = Some (negb (std_empty v)) /\ omits First v = Some (std_empty v)) [fn; ch] /\
  Forall (fun v => coherent v = true /\ omits Later v = Some true /\ omits First v = Some true /\ std_empty v = true) [arr; mp; nz].
Proof. exact named_cases_differ. Qed.
