(* C01 — Marshal agrees with encoding/json for every value of every supported type.
   Proved: the emission discipline of the interpreter (every value appends its
   text and a comma, closers overwrite the last comma, omitted members leave no
   trace, the entry point cuts the final comma) writes exactly the compact text
   of the token sequence the value denotes -- the sequence encoding/json writes.
   The type-directed part (which members, which leaf spelling) is compared with
   encoding/json by the harness over the generated type grammar. *)
From Coq Require Import NArith List Bool.
From GJ Require Import Spec.Json Model.Enc Proofs.EncP.
Import ListNotations.
Open Scope N_scope.

(* for every value (any nesting, any members omitted, empty containers) and any buffer contents before it *)
Theorem C01_emission_appends_text_and_comma : forall v b, enc v b = b ++ render v ++ [COMMA].
Proof. exact enc_denotes. Qed.

Theorem C01_marshal_is_compact_text_of_tokens : forall v, marshal v = render_compact (toks v).
Proof. exact marshal_is_compact_of_tokens. Qed.
Print Assumptions C01_marshal_is_compact_text_of_tokens.

(* the members of an object appear in emission order, omitted ones not at all *)
Example C01_ex :
  marshal (JObj [([97], false, JLeaf (TNum [49])); ([98], true, JLeaf TNull); ([99], false, JArr []); ([100], true, JObj [])])
  = [123; 34; 97; 34; 58; 49; 44; 34; 99; 34; 58; 91; 93; 125] /\
  marshal (JObj [([98], true, JLeaf TNull)]) = [123; 125].
Proof. vm_compute. split; reflexivity. Qed.
