(* C19 — Field queries project exactly the selected fields.
   Model (Model/Query.v): the stored Code tree, its Filter methods, the run of a
   (filtered) program on a value, the query cache keyed by the query's text, and
   FieldQuery.MarshalJSON / FieldQueryString.Build over JSON trees.  The shapes
   of the Filter methods, of the interface operation, of the cache and of the
   marshaler call, and the threshold in MarshalJSON, are read from the source
   by the translator (Gen/Query.v); the harness runs the model on generated
   (type, value, query) triples beside MarshalContext (c19.sel) and on
   generated queries beside QueryString (c19.qs). *)
From Coq Require Import NArith List Bool Arith Lia String.
From GJ Require Import Base.Bytes Spec.Json Model.Enc Proofs.EncP Gen.Query Model.Query Proofs.QueryP.
Import ListNotations.
Open Scope list_scope.

(* ---- the source is what the model says ---- *)
Definition thr : nat := match query_subfields_threshold with Some n => n | None => 99 end.
Lemma source_threshold : thr = 0%nat.
Proof. reflexivity. Qed.
Lemma source_shapes :
  query_marshal_shapes_ok && filter_looks_through && filter_scalars_untouched && filter_dynamic_keeps_query &&
  filter_struct_shape && iface_op_uses_kept_query && query_cache_shape && marshaler_receives_kept_query = true.
Proof. reflexivity. Qed.

(* ---- the output under a query is the text of the document restricted to the selected fields: for every code tree
   as the compiler stores it, every value (any nesting of pointers, lists, maps, structs, interfaces holding values
   of any stored code), every query ---- *)
Theorem C19_query_projects_selected_fields : forall c v q, fresh c = true -> vfresh v = true ->
  marshal (encode (filt c q) v) = render_compact (toks (sel (Some q) c v)).
Proof. intros c v q Hc Hv. rewrite marshal_is_compact_of_tokens. rewrite (filter_commutes c v q Hc Hv). reflexivity. Qed.
Print Assumptions C19_query_projects_selected_fields.

Theorem C19_no_query_whole_document : forall c v, fresh c = true -> vfresh v = true ->
  marshal (encode c v) = render_compact (toks (sel None c v)).
Proof. intros c v Hc Hv. rewrite marshal_is_compact_of_tokens. rewrite (unfiltered_is_whole c v Hc Hv). reflexivity. Qed.

(* what "restricted" means at a struct: the members are those of the whole document whose key the query names, in
   the same order, and nothing else *)
Definition members (j : jv) : list (list N * bool * jv) := match j with JObj l => l | _ => [] end.
Definition key (m : list N * bool * jv) : list N := fst (fst m).
Definition named (q : fq) (k : list N) : bool := match lookup_q k (fq_subs q) with Some _ => true | None => false end.

Theorem C19_selected_keys : forall fs l q,
  map key (members (sel (Some q) (CStruct fs) (VRec l))) =
  filter (named q) (map key (members (sel None (CStruct fs) (VRec l)))).
Proof.
  intros fs l q. cbn [sel members]. induction l as [|[[k om] x] r IH]; [reflexivity|].
  cbn [flat_map]. destruct (assoc k fs) as [c'|]; [|exact IH].
  rewrite !map_app. cbn [map app key fst filter]. unfold named at 1.
  destruct (lookup_q k (fq_subs q)) as [s|]; cbn [map app key fst]; [f_equal|]; exact IH.
Qed.

(* a member that is selected without a sub query is written as without any query *)
Theorem C19_whole_field : forall fs l q k om x c' s,
  In (k, om, x) l -> assoc k fs = Some c' -> lookup_q k (fq_subs q) = Some s -> has_subs s = false ->
  In (k, om, sel None c' x) (members (sel (Some q) (CStruct fs) (VRec l))).
Proof.
  intros fs l q k om x c' s Hin Ha Hl Hs. cbn [sel members]. apply in_flat_map. exists (k, om, x). split; [exact Hin|].
  rewrite Ha, Hl. unfold narrow. rewrite Hs. left. reflexivity.
Qed.

(* ---- a query never affects encodings made with another query or with none: for every history of encodings of
   one type, each gets the program of its own query ---- *)
Theorem C19_queries_do_not_affect_each_other : forall c h,
  Forall (fun o => match o with Some q => wf_root q = true | None => True end) h ->
  run_history thr c [] h = map (fun o => match o with Some q => filt c q | None => c end) h.
Proof. intros c h H. rewrite source_threshold. apply history_own_programs; [intros k p []|exact H]. Qed.
Print Assumptions C19_queries_do_not_affect_each_other.

(* ---- building a query from its own QueryString yields the query ---- *)
Theorem C19_query_string_round_trip : forall q, wf_root q = true -> build (qjson thr q) = Some q.
Proof. intros q H. rewrite source_threshold. apply build_qjson. exact H. Qed.
Print Assumptions C19_query_string_round_trip.

(* the threshold matters: with "more than one sub field" a single sub field is lost *)
Theorem C19_other_threshold_refuted : forall t, (0 < t)%nat -> exists q, wf_root q = true /\ build (qjson t q) <> Some q.
Proof. exact qjson_threshold_refuted. Qed.

(* ---- the statements are about something: a struct with a pointer, a list of structs and an interface ---- *)
Definition ex_leaf : code := CStruct [([120], CScalar); ([121], CScalar)].
Definition ex_code : code := CStruct [([97], CScalar); ([98], CPtr ex_leaf); ([99], CList ex_leaf); ([100], CIface None)].
Definition ex_leafv (a b : N) : val := VRec [([120], false, VLeaf [a]); ([121], false, VLeaf [b])].
Definition ex_val : val :=
  VRec [([97], false, VLeaf [49]); ([98], false, VPtr (ex_leafv 50 51)); ([99], false, VList [ex_leafv 52 53; ex_leafv 54 55]);
        ([100], false, VDyn ex_leaf (ex_leafv 56 57))].
Definition ex_q : fq := FQ [] [FQ [98] []; FQ [99] [FQ [121] []]; FQ [100] [FQ [120] []]; FQ [122] []].
Example C19_example :
  fresh ex_code = true /\ vfresh ex_val = true /\ wf_root ex_q = true /\
  marshal (encode (filt ex_code ex_q) ex_val) = str ("{""b"":{""x"":2,""y"":3},""c"":[{""y"":5},{""y"":7}],""d"":{""x"":8}}")%string.
Proof. vm_compute. repeat split; reflexivity. Qed.
