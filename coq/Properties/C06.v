(* C06 — Decoding and utilities always return.
   In the models, a read outside an array is the value Stuck and running out
   of the loop bound is the value Fuel; the theorems say that neither is ever
   produced, for every input.  What the runtime adds (real stack limits,
   scheduling, memory) is observed by the harness, not modelled. *)
From Coq Require Import NArith ZArith List Bool.
From GJ Require Import Base.Bytes Gen.Tables Model.Int Model.StrDec Model.Compact Model.Iface Model.Path Model.KeyBitmap Model.Skip
  Spec.Json Proofs.IntScanP Proofs.CompactP Proofs.IfaceP Proofs.PathP Proofs.KeyBitmapP Proofs.JsonSpecP Proofs.SkipP Proofs.UtilSpecP.
Import ListNotations.
Open Scope N_scope.

(* integer destinations: the scanner stays inside data ++ [NUL] *)
Theorem C06_int_decode_total : forall signed bits data, unmarshal_int signed bits data <> UStuck.
Proof. exact unmarshal_int_never_stuck. Qed.
Print Assumptions C06_int_decode_total.

(* interface{} destinations (objects, arrays, strings with in-place unescape,
   numbers, literals, trailing check): no stuck read, bounded work *)
Theorem C06_iface_decode_total : forall range data,
  iface_unmarshal range data <> CStuck /\ iface_unmarshal range data <> CFuel.
Proof.
  intros range data. rewrite iface_unmarshal_spec.
  destruct (parse_g (Some Iface.max_depth) range data); split; discriminate.
Qed.
Print Assumptions C06_iface_decode_total.

(* Compact (and the validation of MarshalJSON results) *)
Theorem C06_compact_total : forall data,
  compact_run false data <> CStuck /\ compact_run false data <> CFuel.
Proof.
  intro data. rewrite compact_run_spec. destruct (parse_g clim allnum data) as [[ts rest]|]; split; discriminate.
Qed.
Print Assumptions C06_compact_total.

(* Indent *)
Theorem C06_indent_total : forall pre ind data,
  indent_run pre ind data <> CStuck /\ indent_run pre ind data <> CFuel.
Proof.
  intros pre ind data. rewrite indent_run_spec. destruct (parse_g clim allnum data) as [[ts rest]|]; split; discriminate.
Qed.
Print Assumptions C06_indent_total.

(* the skip functions of the typed decoders (skipValue, skipObject, skipArray): a loop over the bytes
   (no recursion, so no stack to exhaust) that never reads past the sentinel, whatever the input *)
Theorem C06_skip_total : forall depth data, sk_value depth (data ++ [0]) <> SStuck /\ sk_value depth (data ++ [0]) <> SFuel.
Proof. exact skip_value_never_stuck. Qed.
Print Assumptions C06_skip_total.

(* the recursion of the decoder and of Compact is bounded by the nesting limit:
   a text nested deeper than the limit is refused, whatever else it contains *)
Theorem C06_depth_limit_enforced : forall lim numok f d ls ts rest,
  pg_value (Some lim) numok f d ls = Some (ts, rest) -> (lim < S d)%nat ->
  forall t, In t ts -> t <> TLBrace /\ t <> TLBrack.
Proof.
  intros lim numok f d ls ts rest H Hd.
  destruct f as [|f]; [discriminate|]. cbn [pg_value] in H.
  assert (Dn : negb (depth_ok (Some lim) d) = true).
  { unfold depth_ok. destruct (Nat.leb_spec (S d) lim); [exfalso; apply (Nat.lt_irrefl lim); eapply Nat.lt_le_trans; eassumption|reflexivity]. }
  destruct (skip_ws ls) as [|c r]; [discriminate|].
  destruct (c =? 123); [rewrite Dn in H; discriminate|].
  destruct (c =? 91); [rewrite Dn in H; discriminate|].
  destruct (c =? 34).
  { destruct (p_string_body r) as [[b rest']|]; [|discriminate]. inversion H; subst. intros t [E|[]]; subst; split; discriminate. }
  destruct ((c =? 45) || digit_b c).
  { destruct (span numchar_b (c :: r)) as [num rest']. destruct (json_number num && numok num); [|discriminate].
    inversion H; subst. intros t [E|[]]; subst; split; discriminate. }
  destruct (c =? 116).
  { destruct (starts [114; 117; 101] r); [|discriminate]. inversion H; subst. intros t [E|[]]; subst; split; discriminate. }
  destruct (c =? 102).
  { destruct (starts [97; 108; 115; 101] r); [|discriminate]. inversion H; subst. intros t [E|[]]; subst; split; discriminate. }
  destruct (c =? 110); [|discriminate].
  destruct (starts [117; 108; 108] r); [|discriminate]. inversion H; subst. intros t [E|[]]; subst; split; discriminate.
Qed.
Print Assumptions C06_depth_limit_enforced.

(* CreatePath: no index out of range on any rune string *)
Theorem C06_create_path_total : forall s, build s <> BStuck /\ build s <> BFuel.
Proof. exact build_total. Qed.
Print Assumptions C06_create_path_total.

(* the struct key matcher never leaves its bitmap *)
Theorem C06_key_matcher_total : forall width names key,
  (length names <= width)%nat -> bm_match width names key <> MStuck.
Proof. intros width names key H. apply bm_never_stuck. exact H. Qed.
Print Assumptions C06_key_matcher_total.

(* ---- the number recogniser of the source, as translated on every run: it returns ---- *)
From GJ Require Import Base.ScanProg Gen.ScanProgs Model.Compact Proofs.ScanProgP.
(* for EVERY byte string neither an index out of range (Stuck) nor a loop that makes no progress (OutOfFuel),
   in both copies of the function *)
Theorem C06_number_recogniser_returns : forall s,
  (exists b, run_scanner enc_validNumber_prog s = Returned b) /\ (exists b, run_scanner dec_validNumber_prog s = Returned b).
Proof.
  intro s. assert (E1 : enc_validNumber_prog = vn_prog) by reflexivity. assert (E2 : dec_validNumber_prog = vn_prog) by reflexivity.
  rewrite E1, E2, vn_prog_is_valid_number. split; eexists; reflexivity.
Qed.
Print Assumptions C06_number_recogniser_returns.
