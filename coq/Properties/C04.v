(* C04 — Marshal followed by Unmarshal reproduces the value.
   Proved here, for all values / all integers / all strings:
   (1) the text Marshal writes is one RFC 8259 text whose token sequence, read
       back by a recursive-descent reader, is the tree that was written (members
       that were left out -- omitempty -- are absent, nothing else changes);
   (2) an integer of any width written by AppendInt / AppendUint is read back by
       the integer decoder as the same integer;
   (3) a string written by AppendString is read back by the string decoder as
       the same string (after replacing invalid UTF-8 when that is switched on).
   Floats and base64 are strconv / encoding/base64 on both sides (trusted
   library code); how the typed decoders store leaves into Go values is
   observed by the harness (round trips of generated values through
   Marshal/Unmarshal, MarshalIndent, Encoder/Decoder and streams), not modelled. *)
From Coq Require Import NArith ZArith List Bool Arith Lia String.
From GJ Require Import Base.Bytes Base.Word64 Gen.Tables Spec.Json Model.Int Model.StrEnc Model.StrDec Model.Enc Model.TreeRead
  Proofs.WordP Proofs.IntEncP Proofs.IntDecP Proofs.IntScanP Proofs.StrBodyP Proofs.StrDecP Proofs.EncP Proofs.ParseP Proofs.LeafP Proofs.TreeReadP Model.Decode Model.EncTyped Proofs.RoundTripP Model.Base64 Proofs.Base64P Proofs.Base64JsonP Proofs.DecodeP.
From GJ Require Properties.C17.
Import ListNotations.
Open Scope list_scope.
Open Scope N_scope.

(* (1) structure *)
Theorem C04_text_reads_back_as_the_tree : forall v, wfp (strip v) = true ->
  match parse_json (marshal v) with Some (ts, _) => read_tree ts | None => None end = Some (strip v).
Proof. exact read_tree_marshal. Qed.
Print Assumptions C04_text_reads_back_as_the_tree.

(* the hypothesis holds for every tree whose strings come from AppendString and whose numbers come from AppendInt /
   AppendUint: those leaves are leaves the reader accepts *)
Theorem C04_encoder_strings_are_leaves : forall html normalize s, ok s ->
  exists body, append_string_v html normalize s = 34 :: body ++ [34] /\ leaf_ok (TStr body) = true.
Proof.
  intros html normalize s Hs. destruct (C17.C17_literal_well_formed html normalize s Hs) as (body & E & B).
  exists body. split; [exact E|]. exact (body_ok_strbody html body B).
Qed.

Theorem C04_encoder_integers_are_leaves : forall bits z,
  width_ok bits -> (- 2 ^ (Z.of_N bits - 1) <= z < 2 ^ (Z.of_N bits - 1))%Z ->
  leaf_ok (TNum (append_int bits (twos bits z))) = true.
Proof. intros bits z Hw Hz. exact (canonical_int_num_ok _ z (append_int_canonical bits z Hw Hz)). Qed.

Theorem C04_encoder_unsigned_are_leaves : forall bits u, width_ok bits -> leaf_ok (TNum (append_uint bits u)) = true.
Proof. intros bits u Hw. exact (canonical_num_ok _ _ (append_uint_canonical bits u Hw)). Qed.

(* (2) integers *)
Theorem C04_int_round_trip : forall bits z,
  width_ok bits -> (- 2 ^ (Z.of_N bits - 1) <= z < 2 ^ (Z.of_N bits - 1))%Z ->
  unmarshal_int true bits (append_int bits (twos bits z)) = URes false (Some z).
Proof.
  intros bits z Hw Hz. pose proof (append_int_canonical bits z Hw Hz) as Hc. unfold canonical_int in Hc.
  assert (Hr : in_range true bits z = true) by (unfold in_range; apply andb_true_iff; split; [apply Z.leb_le|apply Z.ltb_lt]; lia).
  destruct (z <? 0)%Z eqn:En.
  - destruct Hc as (d & E & Hd). rewrite E. apply Z.ltb_lt in En.
    assert (Ha : Z.abs_N z = Z.to_N (- z)) by lia. rewrite <- Ha in Hd.
    pose proof (unmarshal_int_accepts true bits [] true d [] z Hw) as A. cbn [app] in A. rewrite app_nil_r in A.
    apply A; try exact Hd; try exact Hr; try (intro; discriminate); try lia; constructor.
  - apply Z.ltb_ge in En. assert (Ha : Z.abs_N z = Z.to_N z) by lia. rewrite <- Ha in Hc.
    pose proof (unmarshal_int_accepts true bits [] false (append_int bits (twos bits z)) [] z Hw) as A. cbn [app] in A. rewrite app_nil_r in A.
    apply A; try exact Hc; try exact Hr; try (intro; discriminate); try lia; constructor.
Qed.
Print Assumptions C04_int_round_trip.

Theorem C04_uint_round_trip : forall bits u, width_ok bits -> u < 2 ^ bits ->
  unmarshal_int false bits (append_uint bits u) = URes false (Some (Z.of_N u)).
Proof.
  intros bits u Hw Hu. pose proof (append_uint_canonical bits u Hw) as Hc. rewrite N.mod_small in Hc by exact Hu.
  assert (Hr : in_range false bits (Z.of_N u) = true).
  { unfold in_range. apply andb_true_iff. split; [apply Z.leb_le; lia|apply Z.ltb_lt]. change 2%Z with (Z.of_N 2). rewrite <- N2Z.inj_pow. lia. }
  assert (Ha : Z.abs_N (Z.of_N u) = u) by lia.
  assert (Hc' : canonical (append_uint bits u) (Z.abs_N (Z.of_N u))) by (rewrite Ha; exact Hc).
  pose proof (unmarshal_int_accepts false bits [] false (append_uint bits u) [] (Z.of_N u) Hw) as A. cbn [app] in A. rewrite app_nil_r in A.
  apply A; try exact Hc'; try exact Hr; try reflexivity; try lia; constructor.
Qed.
Print Assumptions C04_uint_round_trip.

(* (3) strings *)
Theorem C04_string_round_trip : forall html s, ok s ->
  unmarshal_string (append_string_v html false s) = StrRes false (Some s).
Proof. intros html s Hs. exact (C17.C17_string_roundtrip html false s Hs). Qed.
Print Assumptions C04_string_round_trip.

(* (4) typed: for every type of the modelled fragment (bool, integers of every width, strings, pointers, slices, arrays,
   maps with string or integer keys, structs, []byte; Model/EncTyped.v and Model/Decode.v, both run beside the implementation) and every
   round-trippable value of it -- integers in range, strings that UTF-8 normalisation leaves alone, no pointer to a nil
   nilable, map members in key order, interface{} nil -- decoding what the encoder writes into a fresh value gives
   the value back *)
Theorem C04_typed_round_trip : forall t v, rt t v = true ->
  forall f, (vn v <= f)%nat -> dec f t (encj t v) (zero t) = DOk v.
Proof. exact round_trip. Qed.
Print Assumptions C04_typed_round_trip.

(* ... and through the text: what Marshal writes for the value is one RFC 8259 text, the recogniser and the tree
   reader get from it the tree the encoder wrote, and decoding that tree into a fresh value gives the value *)
Theorem C04_unmarshal_of_marshal_is_the_value : forall t v, rt t v = true ->
  exists d, match parse_json (marshal_typed t v) with Some (ts, _) => read_tree ts | None => None end = Some d /\
            forall f, (vn v <= f)%nat -> dec f t d (zero t) = DOk v.
Proof. exact text_round_trip. Qed.
Print Assumptions C04_unmarshal_of_marshal_is_the_value.

Example C04_typed_example :
  let t := TStruct [([97], TPtr (TSlice (TInt 8))); ([98], TMap TString); ([99], TArr 2 (TUint 16)); ([100], TPtr TBool)] in
  let v := VStruct [VPtr (VSlice [VInt (-128); VInt 127]); VMap [([107], VStr [34; 60]); ([108], VStr [])]; VArr [VInt 0; VInt 65535]; VNil] in
  rt t v = true /\ marshal_typed t v = str ("{""a"":[-128,127],""b"":{""k"":""\""\u003c"",""l"":""""},""c"":[0,65535],""d"":null}")%string /\
  dec 10 t (encj t v) (zero t) = DOk v.
Proof. vm_compute. repeat split; reflexivity. Qed.

(* integer-keyed maps are part of (4): Marshal writes the key with the integer printer between quotes, Unmarshal parses the
   contents of the key with ParseInt / ParseUint (Model/Decode.v key_int: optional sign for signed keys, digits, leading
   zeros allowed, inside the range); what the printer writes for a key in range reads back as that key, every width *)
Theorem C04_integer_key_round_trip : forall signed bits z,
  (bits =? 8) || (bits =? 16) || (bits =? 32) || (bits =? 64) = true -> in_range signed bits z = true ->
  key_int signed bits (int_key signed bits z) = Some z.
Proof. exact key_int_of_int_key. Qed.
Example C04_integer_key_example :
  let t := TMapI true 8 (TMapI false 16 TBool) in
  let v := VMap [(str "-128", VMap [(str "0", VBool true); (str "65535", VBool false)]); (str "127", VNil)]%string in
  rt t v = true /\ marshal_typed t v = str ("{""-128"":{""0"":true,""65535"":false},""127"":null}")%string /\ dec 10 t (encj t v) (zero t) = DOk v /\
  key_int true 8 (str "+5")%string = Some 5%Z /\ key_int true 8 (str "007")%string = Some 7%Z /\ key_int true 8 (str "128")%string = None /\
  key_int false 8 (str "+5")%string = None /\ key_int false 8 (str "-0")%string = None /\ key_int true 8 (str "-0")%string = Some 0%Z.
Proof. vm_compute. repeat split; reflexivity. Qed.

(* (5) byte slices: Marshal writes base64 (padded standard alphabet) between quotes, Unmarshal hands the contents of
   the string to the base64 decoder (Model/Base64.v, run beside encoding/base64 and beside the implementation).  For
   EVERY byte string: decoding gives the bytes back; the text consists of alphabet characters, none of which the
   string scanner changes, so the whole literal reads back as the bytes; and it is a well-formed string token *)
Theorem C04_bytes_round_trip : forall bs, Forall (fun b => b < 256) bs -> b64dec (b64enc bs) = Some bs.
Proof. exact b64_round_trip. Qed.
Print Assumptions C04_bytes_round_trip.
Theorem C04_bytes_through_the_string_literal : forall bs, Forall (fun b => b < 256) bs ->
  match unq (b64enc bs) with Some s => b64dec s | None => None end = Some bs.
Proof. exact b64_json_round_trip. Qed.
Theorem C04_bytes_text : forall bs, Forall (fun b => b < 256) bs ->
  forallb b64char (b64enc bs) = true /\ forallb plain_char (b64enc bs) = true /\ List.length (b64enc bs) = (4 * ((List.length bs + 2) / 3))%nat.
Proof. intros bs H. split; [exact (b64enc_alphabet bs H)|split; [exact (b64_text_is_plain bs H)|exact (b64enc_length bs)]]. Qed.
(* whatever text the decoder accepts (it also steps over CR and LF, and does not look at the unused bits of the last
   sextet), what it stores are bytes *)
Theorem C04_bytes_decoder_stores_bytes : forall s bs, b64dec s = Some bs -> Forall (fun b => b < 256) bs.
Proof. exact b64dec_bytes. Qed.
Example C04_bytes_example :
  let t := TStruct [([98], TBytes); ([110], TBytes); ([101], TBytes)] in
  let v := VStruct [VSlice [VInt 0; VInt 255; VInt 16; VInt 131]; VNil; VSlice []] in
  rt t v = true /\ marshal_typed t v = str ("{""b"":""AP8Qgw=="",""n"":null,""e"":""""}")%string /\ dec 10 t (encj t v) (zero t) = DOk v /\
  b64dec [65; 80; 56; 81; 10; 103; 119; 61; 13; 61; 10] = b64dec (str "AP8Qgw==")%string /\ b64dec (str "AP8Qgw=")%string = None /\ b64dec (str "AP8Qgx==")%string = Some [0; 255; 16; 131].
Proof. vm_compute. repeat split; reflexivity. Qed.

(* not vacuous: a struct with an omitted member, an array, a string with an escape, a negative number *)
Example C04_example :
  let v := JObj [([97], false, JArr [JLeaf (TNum [45; 49; 50]); JLeaf TNull]); ([98], true, JLeaf TTrue); ([99], false, JLeaf (TStr [120; 92; 110]))] in
  wfp (strip v) = true /\ marshal v = str ("{""a"":[-12,null],""c"":""x\n""}")%string /\
  match parse_json (marshal v) with Some (ts, _) => read_tree ts | None => None end = Some (strip v).
Proof. vm_compute. repeat split; reflexivity. Qed.
