#!/bin/sh
# regenerate the Makefile over all .v files and build (full .vo)
cd "$(dirname "$0")"
coq_makefile -f _CoqProject -o Makefile $(find Base Spec Gen Model Proofs Properties Extract -name '*.v' | sort) > /dev/null
exec timeout 1500 make -j16 "$@"
