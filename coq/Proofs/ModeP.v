(* Compact and Indent (one model, Model/Compact.c_value, parametrised by the
   mode) against the specification, for every input: the RFC recogniser's
   parse determines a value tree, and the bytes appended are that tree laid
   out with the mode's gaps (nothing for Compact; newline, prefix and indents
   for Indent).  Errors and fuel as in CompactP. *)
From Coq Require Import NArith ZArith List Bool Lia.
From Coq Require Import ZifyN ZifyNat ZifyBool.
From GJ Require Import Base.Bytes Gen.Tables Model.Int Model.Enc Model.Compact Spec.Json
  Proofs.CompactLeafP Proofs.JsonSpecP Proofs.CompactP Proofs.EncP Proofs.ParseP Proofs.ParseWsP Proofs.LeafSoundP.
Import ListNotations.
Open Scope N_scope.

Section Mode.
  Variable m : mode.

  Definition kgm : list N := match m with None => [] | Some _ => [32] end.
  Definition ogm (d : nat) : list N := nl m (S d).
  Definition cgm (d : nat) : list N := nl m d.
  Definition rsm : nat -> jv -> list N := rs ogm ogm cgm kgm.
  Definition etsm : nat -> list jv -> list N := ets ogm ogm cgm kgm.
  Definition mtsm : nat -> list (list N * bool * jv) -> list N := mts ogm ogm cgm kgm.

  Lemma colon_kgm : colon m = 58 :: kgm.
  Proof. unfold colon, kgm. destruct m; reflexivity. Qed.

  Definition vrel (bound f d : nat) (S : option (list tok * list N)) (R : cres (list N * list N)) : Prop :=
    match S with
    | Some (ts, rest) => exists v, wfp v = true /\ toks v = ts /\ R = COk (rsm d v, rest ++ [0])
    | None => R = CErr \/ (R = CFuel /\ (f < bound)%nat)
    end.
  Definition mrel (bound f d : nat) (S : option (list tok * list N)) (R : cres (list N * list N)) : Prop :=
    match S with
    | Some (ts, rest) => exists ms, ms <> [] /\ wfp (JObj ms) = true /\ mtoks ms = ts /\ R = COk (nl m (Datatypes.S d) ++ mtsm d ms, rest ++ [0])
    | None => R = CErr \/ (R = CFuel /\ (f < bound)%nat)
    end.
  Definition erel (bound f d : nat) (S : option (list tok * list N)) (R : cres (list N * list N)) : Prop :=
    match S with
    | Some (ts, rest) => exists es, es <> [] /\ wfp (JArr es) = true /\ etoks es = ts /\ R = COk (nl m (Datatypes.S d) ++ etsm d es, rest ++ [0])
    | None => R = CErr \/ (R = CFuel /\ (f < bound)%nat)
    end.

  Theorem mode_rel f :
    (forall d ls, vrel (2 * length ls + 2) f d (pg_value clim allnum f d ls) (c_value m false f d (ls ++ [0]))) /\
    (forall d ls, mrel (2 * length ls + 3) f d (pg_members clim allnum f (S d) ls) (c_members m false f (S d) (ls ++ [0]))) /\
    (forall d ls, erel (2 * length ls + 3) f d (pg_elements clim allnum f (S d) ls) (c_elements m false f (S d) (ls ++ [0]))).
  Proof.
    induction f as [|f (IHv & IHm & IHe)].
    { split; [|split]; intros; cbn; right; (split; [reflexivity|lia]). }
    pose proof (spec_shorter clim allnum f) as (SHv & SHm & SHe).
    split; [|split].
    - (* value *)
      intros d ls. cbn [pg_value c_value].
      assert (Dok : negb (depth_ok clim d) = Nat.ltb c_max_depth (S d)).
      { unfold depth_ok, clim. destruct (Nat.leb_spec (S d) c_max_depth); destruct (Nat.ltb_spec c_max_depth (S d)); try reflexivity; lia. }
      rewrite c_value_ws_sentinel.
      pose proof (skip_ws_length ls) as L0.
      destruct (skip_ws ls) as [|c r] eqn:Es.
      { cbn. left. reflexivity. }
      cbn [app]. cbn [length] in L0.
      destruct (N.eqb_spec c 123) as [E|E].
      { subst c. rewrite Dok. destruct (Nat.ltb c_max_depth (S d)); [left; reflexivity|].
        rewrite c_skip_ws_sentinel. pose proof (skip_ws_length r) as L1.
        destruct (skip_ws r) as [|c1 r1] eqn:Er.
        - cbn [app]. destruct f; cbn; [right; split; [reflexivity|lia]|left; reflexivity].
        - cbn [app]. cbn [length] in L1. destruct (c1 =? 125).
          { exists (JObj []). split; [reflexivity|]. split; reflexivity. }
          specialize (IHm d (c1 :: r1)). cbn [app] in IHm. unfold vrel, mrel in *.
          destruct (pg_members clim allnum f (S d) (c1 :: r1)) as [[ts rest]|].
          + destruct IHm as (ms & Hne & Hw & Ht & HR). rewrite HR.
            destruct ms as [|m0 mr]; [congruence|]. exists (JObj (m0 :: mr)). split; [exact Hw|].
            assert (Hsh : allshown (m0 :: mr) = true).
            { unfold allshown. apply forallb_forall. intros [[k0 om] z] Hz. cbn [wfp] in Hw. rewrite forallb_forall in Hw. specialize (Hw _ Hz). cbn beta iota in Hw.
              apply andb_true_iff in Hw. destruct Hw as [Hw _]. apply andb_true_iff in Hw. destruct Hw as [Hw _]. exact Hw. }
            split; [rewrite (toks_obj _ _ Hsh); rewrite Ht; reflexivity|].
            unfold rsm. rewrite rs_obj. reflexivity.
          + useIH IHm. }
      destruct (N.eqb_spec c 125) as [E1|E1].
      { subst c. cbn. left. reflexivity. }
      destruct (N.eqb_spec c 91) as [E2|E2].
      { subst c. rewrite Dok. destruct (Nat.ltb c_max_depth (S d)); [left; reflexivity|].
        rewrite c_skip_ws_sentinel. pose proof (skip_ws_length r) as L1.
        destruct (skip_ws r) as [|c1 r1] eqn:Er.
        - cbn [app]. destruct f as [|[|f']]; cbn; [right; split; [reflexivity|lia]|right; split; [reflexivity|lia]|left; reflexivity].
        - cbn [app]. cbn [length] in L1. destruct (c1 =? 93).
          { exists (JArr []). split; [reflexivity|]. split; reflexivity. }
          specialize (IHe d (c1 :: r1)). cbn [app] in IHe. unfold vrel, erel in *.
          destruct (pg_elements clim allnum f (S d) (c1 :: r1)) as [[ts rest]|].
          + destruct IHe as (es & Hne & Hw & Ht & HR). rewrite HR.
            destruct es as [|e0 er]; [congruence|]. exists (JArr (e0 :: er)). split; [exact Hw|].
            split; [rewrite toks_arr; rewrite Ht; reflexivity|].
            unfold rsm. rewrite rs_arr. reflexivity.
          + useIH IHe. }
      destruct (N.eqb_spec c 93) as [E3|E3].
      { subst c. cbn. left. reflexivity. }
      destruct (N.eqb_spec c 34) as [E4|E4].
      { subst c. pose proof (c_string_rel (34 :: r)) as R. cbn [app] in R. change (34 =? 34) with true in R. cbn iota in R.
        destruct (p_string_body r) as [[b rest]|] eqn:Eb; rewrite R; [|left; reflexivity].
        destruct (parsed_body_ok r b rest Eb) as [Hok _].
        exists (JLeaf (TStr b)). split; [exact Hok|]. split; reflexivity. }
      destruct ((c =? 45) || digit_b c) eqn:E5.
      { change (isdig c) with (digit_b c). rewrite E5.
        assert (Hc : numchar_b c = true) by (unfold numchar_b; lia).
        pose proof (number_rel c r Hc) as R. cbn [app] in R. rewrite R.
        destruct (span numchar_b (c :: r)) as [num rest] eqn:Esp.
        unfold allnum. rewrite andb_true_r. destruct (json_number num) eqn:Ej; [|left; reflexivity].
        destruct (parsed_num_ok c r num rest E5 Esp Ej) as [Hok _].
        exists (JLeaf (TNum num)). split; [exact Hok|]. split; reflexivity. }
      change (isdig c) with (digit_b c). rewrite E5.
      destruct (N.eqb_spec c 116) as [E6|E6].
      { subst c. pose proof (literal_true r) as R. cbn [app] in R. rewrite R.
        destruct (starts [114; 117; 101] r); [|left; reflexivity].
        exists (JLeaf TTrue). split; [reflexivity|]. split; reflexivity. }
      destruct (N.eqb_spec c 102) as [E7|E7].
      { subst c. pose proof (literal_false r) as R. cbn [app] in R. rewrite R.
        destruct (starts [97; 108; 115; 101] r); [|left; reflexivity].
        exists (JLeaf TFalse). split; [reflexivity|]. split; reflexivity. }
      destruct (N.eqb_spec c 110) as [E8|E8].
      { subst c. pose proof (literal_null r) as R. cbn [app] in R. rewrite R.
        destruct (starts [117; 108; 108] r); [|left; reflexivity].
        exists (JLeaf TNull). split; [reflexivity|]. split; reflexivity. }
      left. reflexivity.
    - (* members *)
      intros d ls. cbn [pg_members c_members]. rewrite c_skip_ws_sentinel.
      pose proof (c_string_rel (skip_ws ls)) as R. pose proof (skip_ws_length ls) as L0.
      destruct (skip_ws ls) as [|q r] eqn:Es.
      { rewrite R. left. reflexivity. }
      cbn [length] in L0.
      destruct (N.eqb_spec q 34) as [Eq|Eq]; cbn [negb].
      2:{ rewrite R. left. reflexivity. }
      destruct (p_string_body r) as [[k r1]|] eqn:Ek; [|rewrite R; left; reflexivity].
      pose proof (string_body_shorter _ _ _ Ek) as L1.
      destruct (parsed_body_ok r k r1 Ek) as [Hkok _].
      rewrite R. rewrite c_skip_ws_sentinel. pose proof (skip_ws_length r1) as L2.
      destruct (skip_ws r1) as [|c r2] eqn:E1.
      { cbn. left. reflexivity. }
      cbn [app]. cbn [length] in L2. destruct (N.eqb_spec c 58) as [Ec|Ec]; cbn [negb]; [|left; reflexivity].
      specialize (IHv (S d) r2). unfold vrel in IHv. unfold mrel.
      destruct (pg_value clim allnum f (S d) r2) as [[vt r3]|] eqn:Ev.
      2:{ useIH IHv. }
      pose proof (SHv _ _ _ _ Ev) as L3.
      destruct IHv as (x & Hwx & Htx & HRx). rewrite HRx. rewrite c_skip_ws_sentinel. pose proof (skip_ws_length r3) as L4.
      destruct (skip_ws r3) as [|c3 r4] eqn:E3.
      { cbn. left. reflexivity. }
      cbn [app]. cbn [length] in L4. destruct (N.eqb_spec c3 125) as [E5|E5].
      { exists [(k, false, x)]. split; [discriminate|]. split; [cbn [wfp forallb negb andb]; rewrite Hkok, Hwx; reflexivity|].
        split; [cbn [mtoks]; rewrite Htx; reflexivity|].
        f_equal. f_equal. unfold mtsm. cbn [mts pred]. rewrite colon_kgm. fold rsm. unfold cgm. norm. reflexivity. }
      destruct (N.eqb_spec c3 44) as [E6|E6]; [|left; reflexivity].
      specialize (IHm d r4). unfold mrel in IHm.
      destruct (pg_members clim allnum f (S d) r4) as [[ts rest]|].
      2:{ useIH IHm. }
      destruct IHm as (ms & Hne & Hw & Ht & HR). rewrite HR.
      destruct ms as [|m0 mr]; [congruence|].
      exists ((k, false, x) :: m0 :: mr). split; [discriminate|].
      split. { cbn [wfp forallb] in Hw |- *. cbn [negb andb]. rewrite Hkok, Hwx. cbn [andb]. exact Hw. }
      split. { change (mtoks ((k, false, x) :: m0 :: mr)) with (TStr k :: TColon :: toks x ++ TComma :: mtoks (m0 :: mr)). rewrite Htx, Ht. reflexivity. }
      f_equal. f_equal. unfold mtsm.
      change (mts ogm ogm cgm kgm d ((k, false, x) :: m0 :: mr))
        with (34 :: k ++ [34; 58] ++ kgm ++ rs ogm ogm cgm kgm (S d) x ++ 44 :: ogm d ++ mts ogm ogm cgm kgm d (m0 :: mr)).
      rewrite colon_kgm. fold rsm. unfold ogm. norm. reflexivity.
    - (* elements *)
      intros d ls. cbn [pg_elements c_elements].
      specialize (IHv (S d) ls). unfold vrel in IHv. unfold erel.
      destruct (pg_value clim allnum f (S d) ls) as [[vt r1]|] eqn:Ev.
      2:{ useIH IHv. }
      pose proof (SHv _ _ _ _ Ev) as L3.
      destruct IHv as (x & Hwx & Htx & HRx). rewrite HRx. rewrite c_skip_ws_sentinel. pose proof (skip_ws_length r1) as L4.
      destruct (skip_ws r1) as [|c r2] eqn:E1.
      { cbn. left. reflexivity. }
      cbn [app]. cbn [length] in L4. destruct (N.eqb_spec c 93) as [E5|E5].
      { exists [x]. split; [discriminate|]. split; [cbn [wfp forallb]; rewrite Hwx; reflexivity|].
        split; [cbn [etoks]; rewrite Htx; reflexivity|].
        reflexivity. }
      destruct (N.eqb_spec c 44) as [E6|E6]; [|left; reflexivity].
      specialize (IHe d r2). unfold erel in IHe.
      destruct (pg_elements clim allnum f (S d) r2) as [[ts rest]|].
      2:{ useIH IHe. }
      destruct IHe as (es & Hne & Hw & Ht & HR). rewrite HR.
      destruct es as [|e0 er]; [congruence|].
      exists (x :: e0 :: er). split; [discriminate|].
      split. { cbn [wfp forallb] in Hw |- *. rewrite Hwx. exact Hw. }
      split. { change (etoks (x :: e0 :: er)) with (toks x ++ TComma :: etoks (e0 :: er)). rewrite Htx, Ht. reflexivity. }
      reflexivity.
  Qed.
End Mode.
