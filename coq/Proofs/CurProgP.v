(* skipString of internal/decoder/context.go, as the translator reads it (a program of Base/CurProg.v), computes on
   every byte string what the string recogniser of the hand-written model computes (Model/Compact.v c_string_body
   without HTML escaping: the walk over a string literal that Compact, Indent and -- since d699780 -- the decoder's skip
   functions share), which Proofs/CompactP.v relates to the RFC 8259 grammar.  Proved for the program text
   `skip_string_prog`; Properties/C05.v checks that the function in the source is that text. *)
From Coq Require Import NArith List Bool Lia.
From GJ Require Import Base.Bytes Base.CurProg Model.Compact.
Import ListNotations.
Open Scope N_scope.
Open Scope cprog_scope.

Definition hex_check (i : nat) : cstm :=
  CIf (CAt i PNotHex) {{ CIf (CAt i (PEq 0)) {{ RetErr }} {{ }} ; RetErr }} {{ }}.

Definition escape_switch : cstm :=
  CIf (CAt 0 (PIn [34; 92; 47; 98; 102; 110; 114; 116])) {{ }}
  {{ CIf (CAt 0 (PEq 117)) {{ hex_check 1 ; hex_check 2 ; hex_check 3 ; hex_check 4 ; Adv 4 }}
     {{ CIf (CAt 0 (PEq 0)) {{ RetErr }} {{ RetErr }} }} }}.

Definition string_body : cstms := {{
  Adv 1 ;
  CIf (CAt 0 (PEq 34)) {{ RetAt 1 }}
  {{ CIf (CAt 0 (PEq 92)) {{ Adv 1 ; escape_switch }}
     {{ CIf (CAt 0 (PEq 0)) {{ RetErr }}
        {{ CIf (CAt 0 (PLt 32)) {{ RetErr }} {{ }} }} }} }} }}.

Definition skip_string_prog : cstms := {{ Loop string_body }}.

Definition conv (r : cres (list N * list N)) : CurProg.cres :=
  match r with COk (_, rest) => CRAt rest | CErr => CRErr | CStuck => CRStuck | CFuel => CROutOfFuel end.

Lemma is_esc_same e : existsb (N.eqb e) [34; 92; 47; 98; 102; 110; 114; 116] = is_esc_c e.
Proof. unfold is_esc_c. cbn [existsb]. rewrite orb_false_r. repeat rewrite orb_assoc. reflexivity. Qed.
Lemma is_hex_same c : is_hex_digit c = is_hexc_c c.
Proof. reflexivity. Qed.

(* one pass through the loop body, the cursor standing on some byte in front of l: where it leaves the cursor *)
Definition one_pass (l : list N) : CurProg.cres :=
  match l with
  | [] => CRStuck
  | c :: r =>
      if c =? 34 then CRAt r
      else if c =? 92 then
        match r with
        | [] => CRStuck
        | e :: r1 =>
            if is_esc_c e then CRFell (e :: r1)
            else if e =? 117 then
              match r1 with
              | h1 :: r2 => if negb (is_hexc_c h1) then CRErr else
                match r2 with
                | h2 :: r3 => if negb (is_hexc_c h2) then CRErr else
                  match r3 with
                  | h3 :: r4 => if negb (is_hexc_c h3) then CRErr else
                    match r4 with
                    | h4 :: r5 => if negb (is_hexc_c h4) then CRErr else CRFell (h4 :: r5)
                    | [] => CRStuck
                    end
                  | [] => CRStuck
                  end
                | [] => CRStuck
                end
              | [] => CRStuck
              end
            else CRErr
        end
      else if c =? 0 then CRErr
      else if c <? 32 then CRErr
      else CRFell (c :: r)
  end.

Definition one_pass_st (st : list N) : CurProg.cres := match st with [] => CRStuck | _ :: l => one_pass l end.

Lemma body_is_one_pass F st : cexec F string_body st = one_pass_st st.
Proof.
  destruct st as [|q l]; [reflexivity|].
  cbn [cexec cexec1 string_body drop length Nat.leb skipn one_pass_st].
  destruct l as [|c r]; [reflexivity|].
  cbn [ceval nth_error holds one_pass].
  destruct (N.eqb_spec c 34) as [E34|N34]; [reflexivity|].
  destruct (N.eqb_spec c 92) as [E92|N92].
  - cbn [cexec cexec1 drop length Nat.leb skipn].
    destruct r as [|e r1]; [reflexivity|].
    cbn [length Nat.leb skipn cexec cexec1 escape_switch ceval nth_error holds]. rewrite is_esc_same.
    destruct (is_esc_c e) eqn:Ee; [reflexivity|].
    cbn [cexec cexec1 ceval nth_error holds]. destruct (N.eqb_spec e 117) as [Eu|Nu].
    + cbn [cexec cexec1 hex_check ceval nth_error holds].
      destruct r1 as [|h1 r2]; [reflexivity|]. cbn [nth_error]. rewrite is_hex_same.
      destruct (is_hexc_c h1) eqn:H1; cbn [negb]; [|cbn [cexec cexec1 ceval nth_error holds]; destruct (h1 =? 0); reflexivity].
      cbn [cexec cexec1 hex_check ceval nth_error holds].
      destruct r2 as [|h2 r3]; [reflexivity|]. cbn [nth_error]. rewrite is_hex_same.
      destruct (is_hexc_c h2) eqn:H2; cbn [negb]; [|cbn [cexec cexec1 ceval nth_error holds]; destruct (h2 =? 0); reflexivity].
      cbn [cexec cexec1 hex_check ceval nth_error holds].
      destruct r3 as [|h3 r4]; [reflexivity|]. cbn [nth_error]. rewrite is_hex_same.
      destruct (is_hexc_c h3) eqn:H3; cbn [negb]; [|cbn [cexec cexec1 ceval nth_error holds]; destruct (h3 =? 0); reflexivity].
      cbn [cexec cexec1 hex_check ceval nth_error holds].
      destruct r4 as [|h4 r5]; [reflexivity|]. cbn [nth_error]. rewrite is_hex_same.
      destruct (is_hexc_c h4) eqn:H4; cbn [negb]; [|cbn [cexec cexec1 ceval nth_error holds]; destruct (h4 =? 0); reflexivity].
      reflexivity.
    + cbn [cexec cexec1 ceval nth_error holds]. destruct (e =? 0); reflexivity.
  - cbn [cexec cexec1 ceval nth_error holds]. destruct (N.eqb_spec c 0) as [E0|N0]; [reflexivity|].
    cbn [cexec cexec1 ceval nth_error holds]. destruct (c <? 32) eqn:E32; reflexivity.
Qed.

Fixpoint sloop (n : nat) (st : list N) : CurProg.cres :=
  match n with
  | O => CROutOfFuel
  | S n' => match one_pass_st st with CRFell st' => sloop n' st' | y => y end
  end.

Lemma sloop_spec : forall n q l, (length l < n)%nat -> sloop n (q :: l) = conv (c_string_body false l).
Proof.
  induction n as [|n IH]; intros q l Hn; [lia|].
  cbn [sloop one_pass_st]. destruct l as [|c r]; [reflexivity|]. cbn [one_pass c_string_body andb].
  destruct (N.eqb_spec c 34) as [E34|N34].
  - subst c. change (34 =? 92) with false. cbn iota. reflexivity.
  - destruct (N.eqb_spec c 92) as [E92|N92].
    + destruct r as [|e r1]; [reflexivity|]. destruct (is_esc_c e).
      * rewrite (IH e r1) by (cbn [length] in Hn; lia). destruct (c_string_body false r1) as [[b rest]| | |]; reflexivity.
      * destruct (e =? 117); [|reflexivity].
        destruct r1 as [|h1 r2]; [reflexivity|]. destruct (negb (is_hexc_c h1)); [reflexivity|].
        destruct r2 as [|h2 r3]; [reflexivity|]. destruct (negb (is_hexc_c h2)); [reflexivity|].
        destruct r3 as [|h3 r4]; [reflexivity|]. destruct (negb (is_hexc_c h3)); [reflexivity|].
        destruct r4 as [|h4 r5]; [reflexivity|]. destruct (negb (is_hexc_c h4)); [reflexivity|].
        rewrite (IH h4 r5) by (cbn [length] in Hn; lia). destruct (c_string_body false r5) as [[b rest]| | |]; reflexivity.
    + destruct (c =? 0); [reflexivity|]. destruct (c <? 32); [reflexivity|].
      rewrite (IH c r) by (cbn [length] in Hn; lia). destruct (c_string_body false r) as [[b rest]| | |]; reflexivity.
Qed.

Lemma loop_is_sloop F : forall n st,
  (fix loop (n : nat) (rest : list N) {struct n} : CurProg.cres :=
     match n with
     | O => CROutOfFuel
     | S n' => match cexec F string_body rest with CRFell rest' => loop n' rest' | y => y end
     end) n st = sloop n st.
Proof.
  induction n as [|n IH]; intro st; [reflexivity|].
  rewrite body_is_one_pass. cbn [sloop]. destruct (one_pass_st st); try reflexivity. apply IH.
Qed.

Lemma exec_prog F st : cexec F skip_string_prog st = match sloop F st with CRFell r => CRFell r | y => y end.
Proof.
  unfold skip_string_prog.
  change (cexec F {{ Loop string_body }} st) with
    (match (fix loop (n : nat) (rest : list N) {struct n} : CurProg.cres :=
              match n with
              | O => CROutOfFuel
              | S n' => match cexec F string_body rest with CRFell rest' => loop n' rest' | y => y end
              end) F st with CRFell rest' => CRFell rest' | y => y end).
  rewrite (loop_is_sloop F F st). reflexivity.
Qed.

(* skipString(buf, cursor) with the cursor on the opening quote *)
Theorem skip_string_is_the_model l :
  run_cursor skip_string_prog (34 :: l) = conv (c_string_body false l).
Proof.
  unfold run_cursor. rewrite exec_prog.
  rewrite (sloop_spec (S (length (34 :: l))) 34 l) by (cbn [length]; lia).
  destruct (conv (c_string_body false l)); reflexivity.
Qed.

(* ---- validateTrue / validateFalse / validateNull: entered on the first letter (the dispatch has seen it), they check
   that the rest of the word is there; the model's c_literal compares the whole word ---- *)
Definition lit_check (i : nat) (c : N) : cstm := CIf (CAt i (PNe c)) {{ RetErr }} {{ }}.
Definition validate_true_prog : cstms := {{ CIf (CRemainLe 3) {{ RetErr }} {{ }} ; lit_check 1 114 ; lit_check 2 117 ; lit_check 3 101 ; RetNil }}.
Definition validate_false_prog : cstms :=
  {{ CIf (CRemainLe 4) {{ RetErr }} {{ }} ; lit_check 1 97 ; lit_check 2 108 ; lit_check 3 115 ; lit_check 4 101 ; RetNil }}.
Definition validate_null_prog : cstms := {{ CIf (CRemainLe 3) {{ RetErr }} {{ }} ; lit_check 1 117 ; lit_check 2 108 ; lit_check 3 108 ; RetNil }}.

Definition lit_verdict (word l : list N) : CurProg.cres :=
  match c_literal word l with COk _ => CRNil | _ => CRErr end.

Theorem validate_true_is_the_model l : run_cursor validate_true_prog (116 :: l) = lit_verdict [116; 114; 117; 101] (116 :: l).
Proof.
  unfold run_cursor, lit_verdict, c_literal.
  destruct l as [|a [|b [|c r]]]; try reflexivity.
  cbn [cexec cexec1 validate_true_prog lit_check ceval length Nat.leb nth_error holds firstn list_eqb].
  change (116 =? 116) with true. cbn [andb].
  destruct (N.eqb_spec a 114); cbn [negb andb]; [|reflexivity].
  cbn [cexec cexec1 ceval nth_error holds]. destruct (N.eqb_spec b 117); cbn [negb andb]; [|reflexivity].
  cbn [cexec cexec1 ceval nth_error holds]. destruct (N.eqb_spec c 101); cbn [negb andb]; reflexivity.
Qed.
Theorem validate_null_is_the_model l : run_cursor validate_null_prog (110 :: l) = lit_verdict [110; 117; 108; 108] (110 :: l).
Proof.
  unfold run_cursor, lit_verdict, c_literal.
  destruct l as [|a [|b [|c r]]]; try reflexivity.
  cbn [cexec cexec1 validate_null_prog lit_check ceval length Nat.leb nth_error holds firstn list_eqb].
  change (110 =? 110) with true. cbn [andb].
  destruct (N.eqb_spec a 117); cbn [negb andb]; [|reflexivity].
  cbn [cexec cexec1 ceval nth_error holds]. destruct (N.eqb_spec b 108); cbn [negb andb]; [|reflexivity].
  cbn [cexec cexec1 ceval nth_error holds]. destruct (N.eqb_spec c 108); cbn [negb andb]; reflexivity.
Qed.
Theorem validate_false_is_the_model l : run_cursor validate_false_prog (102 :: l) = lit_verdict [102; 97; 108; 115; 101] (102 :: l).
Proof.
  unfold run_cursor, lit_verdict, c_literal.
  destruct l as [|a [|b [|c [|d r]]]]; try reflexivity.
  cbn [cexec cexec1 validate_false_prog lit_check ceval length Nat.leb nth_error holds firstn list_eqb].
  change (102 =? 102) with true. cbn [andb].
  destruct (N.eqb_spec a 97); cbn [negb andb]; [|reflexivity].
  cbn [cexec cexec1 ceval nth_error holds]. destruct (N.eqb_spec b 108); cbn [negb andb]; [|reflexivity].
  cbn [cexec cexec1 ceval nth_error holds]. destruct (N.eqb_spec c 115); cbn [negb andb]; [|reflexivity].
  cbn [cexec cexec1 ceval nth_error holds]. destruct (N.eqb_spec d 101); cbn [negb andb]; reflexivity.
Qed.
