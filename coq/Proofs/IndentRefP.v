(* The indented text of a value is what the reference of encoding/json.Indent
   (Spec.render_indent, a function of the token sequence) makes of the token
   sequence of the value: MarshalIndent(v, p, i) = Indent(Marshal(v), p, i). *)
From Coq Require Import NArith List Bool Arith Lia.
From GJ Require Import Base.Bytes Spec.Json Model.Enc Model.EncIndent Proofs.EncP Proofs.ParseP Proofs.ParseWsP Proofs.EncIndentP Proofs.TreeReadP.
Import ListNotations.
Open Scope N_scope.

Section Ref.
  Variables pre ind : list N.
  Notation RI := (render_indent pre ind).
  Notation ri' := (ri pre ind).

  Lemma nl_newline k : nl pre ind k = newline pre ind k.
  Proof. reflexivity. Qed.

  Definition not_opener (t : tok) : bool := match t with TLBrace | TLBrack => false | _ => true end.

  (* the token a value ends with *)
  Definition lastt (v : jv) : tok := last (toks v) TNull.

  Lemma lastt_not_opener v : wfp v = true -> not_opener (lastt v) = true.
  Proof.
    destruct v as [t|l|l]; intro H; unfold lastt.
    - cbn [toks last]. cbn [wfp] in H. destruct t; try discriminate H; reflexivity.
    - cbn [toks]. change (TLBrack :: sep_toks (map toks l) ++ [TRBrack]) with ((TLBrack :: sep_toks (map toks l)) ++ [TRBrack]). rewrite last_last. reflexivity.
    - cbn [toks]. match goal with |- context [TLBrace :: ?m ++ [TRBrace]] => change (TLBrace :: m ++ [TRBrace]) with ((TLBrace :: m) ++ [TRBrace]) end.
      rewrite last_last. reflexivity.
  Qed.

  Lemma closer_after (p : tok) c d rest : not_opener p = true -> (c = TRBrack \/ c = TRBrace) ->
    RI (S d) (Some p) (c :: rest) = newline pre ind d ++ raw_tok c ++ RI d (Some c) rest.
  Proof. intros Hp [->| ->]; destruct p; try discriminate Hp; reflexivity. Qed.

  Definition indents (v : jv) : Prop :=
    forall d prev rest, RI d prev (toks v ++ rest) = ri' d v ++ RI d (Some (lastt v)) rest.

  Lemma elems_indent d : forall l, l <> [] -> (forall x, In x l -> wfp x = true /\ indents x) ->
    forall prev rest, RI (S d) prev (etoks l ++ rest) = ets (og pre ind) (sg pre ind) (cg pre ind) (kg) d l ++ RI d (Some TRBrack) rest.
  Proof.
    induction l as [|x r IH]; intros Hne Hall prev rest; [congruence|].
    destruct (Hall x (or_introl eq_refl)) as [Hw Hx]. destruct r as [|y r'].
    - cbn [etoks ets]. rewrite <- ?app_assoc. rewrite (Hx (S d) prev ([TRBrack] ++ rest)). cbn [app].
      rewrite (closer_after (lastt x) TRBrack d rest (lastt_not_opener x Hw) (or_introl eq_refl)).
      unfold cg. unfold nl, newline. cbn [raw_tok]. fold (ri' (S d) x). rewrite <- ?app_assoc. reflexivity.
    - change (etoks (x :: y :: r')) with (toks x ++ TComma :: etoks (y :: r')).
      change (ets (og pre ind) (sg pre ind) (cg pre ind) kg d (x :: y :: r'))
        with (ri' (S d) x ++ 44 :: sg pre ind d ++ ets (og pre ind) (sg pre ind) (cg pre ind) kg d (y :: r')).
      rewrite <- ?app_assoc. rewrite (Hx (S d) prev ((TComma :: etoks (y :: r')) ++ rest)). cbn [app].
      cbn [render_indent]. rewrite (IH ltac:(discriminate) (fun z Hz => Hall z (or_intror Hz)) (Some TComma) rest).
      unfold sg. unfold nl, newline. cbn [app]. rewrite <- ?app_assoc. reflexivity.
  Qed.

  Lemma members_indent d : forall l, l <> [] -> (forall m, In m l -> wfp (snd m) = true /\ indents (snd m)) ->
    forall prev rest, RI (S d) prev (mtoks l ++ rest) = mts (og pre ind) (sg pre ind) (cg pre ind) kg d l ++ RI d (Some TRBrace) rest.
  Proof.
    induction l as [|[[k om] x] r IH]; intros Hne Hall prev rest; [congruence|].
    destruct (Hall (k, om, x) (or_introl eq_refl)) as [Hw Hx]. cbn [snd] in *. destruct r as [|y r'].
    - cbn [mtoks mts]. cbn [app]. cbn [render_indent raw_tok]. rewrite <- ?app_assoc. cbn [app].
      rewrite (Hx (S d) (Some TColon) (TRBrace :: rest)).
      rewrite (closer_after (lastt x) TRBrace d rest (lastt_not_opener x Hw) (or_intror eq_refl)).
      unfold cg, kg. unfold nl, newline. cbn [raw_tok]. fold (ri' (S d) x). norm. reflexivity.
    - change (mtoks ((k, om, x) :: y :: r')) with (TStr k :: TColon :: toks x ++ TComma :: mtoks (y :: r')).
      change (mts (og pre ind) (sg pre ind) (cg pre ind) kg d ((k, om, x) :: y :: r'))
        with (34 :: k ++ [34; 58] ++ kg ++ ri' (S d) x ++ 44 :: sg pre ind d ++ mts (og pre ind) (sg pre ind) (cg pre ind) kg d (y :: r')).
      cbn [app]. cbn [render_indent raw_tok]. rewrite <- ?app_assoc. cbn [app].
      rewrite (Hx (S d) (Some TColon) (TComma :: mtoks (y :: r') ++ rest)).
      cbn [render_indent]. rewrite (IH ltac:(discriminate) (fun z Hz => Hall z (or_intror Hz)) (Some TComma) rest).
      unfold sg, kg. unfold nl, newline. fold (ri' (S d) x). norm. reflexivity.
  Qed.

  Theorem indents_n : forall n v, (size v <= n)%nat -> wfp v = true -> indents v.
  Proof.
    induction n as [|n IH]; intros v Hs Hw; [destruct v; cbn in Hs; lia|].
    destruct v as [t|l|l]; intros d prev rest.
    - unfold lastt. cbn [toks last app]. cbn [wfp] in Hw. unfold ri. cbn [rs].
      destruct t; try discriminate Hw; reflexivity.
    - cbn [wfp] in Hw. rewrite forallb_forall in Hw. cbn [size] in Hs. destruct l as [|x r].
      + unfold lastt, ri. cbn [toks sep_toks map app last rs]. cbn [render_indent raw_tok pred]. reflexivity.
      + assert (Hl : lastt (JArr (x :: r)) = TRBrack).
        { unfold lastt. cbn [toks]. change (TLBrack :: sep_toks (map toks (x :: r)) ++ [TRBrack]) with ((TLBrack :: sep_toks (map toks (x :: r))) ++ [TRBrack]). apply last_last. }
        rewrite Hl. rewrite toks_arr. unfold ri. rewrite rs_arr. cbn [app].
        destruct (toks_head x (Hw x (or_introl eq_refl))) as (t & tl & Ht & Hnb & Hnc).
        assert (Hex : exists tl', etoks (x :: r) ++ rest = t :: tl') by (cbn [etoks]; rewrite Ht; cbn [app]; eexists; reflexivity).
        destruct Hex as [tl' Htl]. cbn [render_indent raw_tok]. rewrite Htl.
        assert (Hne : match t :: tl' with TRBrace :: _ | TRBrack :: _ => true | _ => false end = false) by (destruct t; try reflexivity; congruence).
        rewrite Hne. rewrite <- Htl.
        rewrite (elems_indent d (x :: r) ltac:(discriminate)
                   (fun z Hz => conj (Hw z Hz) (IH z ltac:(pose proof (size_in z (x :: r) Hz); lia) (Hw z Hz))) (Some TLBrack) rest).
        unfold og. unfold nl, newline. norm. reflexivity.
    - cbn [wfp] in Hw. rewrite forallb_forall in Hw. cbn [size] in Hs. destruct l as [|m r].
      + unfold lastt, ri. cbn [toks flat_map sep_toks app last rs]. cbn [render_indent raw_tok pred]. reflexivity.
      + assert (Hshown : allshown (m :: r) = true).
        { unfold allshown. apply forallb_forall. intros [[k0 om] z] Hz. specialize (Hw _ Hz). cbn beta iota in Hw.
          apply andb_true_iff in Hw. destruct Hw as [Hw _]. apply andb_true_iff in Hw. destruct Hw as [Hw _]. exact Hw. }
        assert (Hl : lastt (JObj (m :: r)) = TRBrace).
        { unfold lastt. rewrite (toks_obj m r Hshown). destruct m as [[k om] x]. cbn [mtoks].
          match goal with |- last (TLBrace :: ?a :: ?b :: ?c) _ = _ => change (TLBrace :: a :: b :: c) with ([TLBrace; a; b] ++ c) end.
          assert (E : exists z, toks x ++ match r with [] => [TRBrace] | _ :: _ => TComma :: mtoks r end = z ++ [TRBrace]).
          { clear. revert x. induction r as [|[[k' om'] y] r IHr]; intro x; [exists (toks x); reflexivity|].
            destruct (IHr y) as [z Hz]. exists (toks x ++ TComma :: TStr k' :: TColon :: z). cbn [mtoks]. rewrite Hz. rewrite <- ?app_assoc. reflexivity. }
          destruct E as [z Hz]. rewrite Hz. rewrite app_assoc. apply last_last. }
        rewrite Hl. rewrite (toks_obj m r Hshown). unfold ri. rewrite rs_obj. cbn [app].
        destruct m as [[k om] x]. cbn [render_indent raw_tok].
        assert (Hne : match mtoks ((k, om, x) :: r) ++ rest with TRBrace :: _ | TRBrack :: _ => true | _ => false end = false) by reflexivity.
        rewrite Hne.
        rewrite (members_indent d ((k, om, x) :: r) ltac:(discriminate)
                   (fun z Hz => ltac:(destruct z as [[k' om'] z']; cbn [snd]; specialize (Hw _ Hz); cbn beta iota in Hw;
                      apply andb_true_iff in Hw; destruct Hw as [_ Hz'];
                      exact (conj Hz' (IH z' ltac:(pose proof (size_in_snd (k', om', z') _ Hz) as Hsz; cbn [snd] in Hsz; lia) Hz')))) (Some TLBrace) rest).
        unfold og. unfold nl, newline. norm. reflexivity.
  Qed.

  Theorem ri_is_reference_indent v : wfp v = true -> ri' 0 v = RI 0 None (toks v).
  Proof.
    intro Hw. pose proof (indents_n (size v) v (le_n _) Hw 0%nat None []) as H. rewrite app_nil_r in H. rewrite H.
    cbn [render_indent]. rewrite app_nil_r. reflexivity.
  Qed.

  (* MarshalIndent(v, p, i) = Indent(Marshal(v), p, i): the reference Indent applied to the tokens read from Marshal's text *)
  Theorem marshal_indent_is_indent_of_marshal v : wfp (strip v) = true ->
    Some (marshal_indent pre ind v) = match parse_json (marshal v) with Some (ts, _) => Some (RI 0 None ts) | None => None end.
  Proof.
    intro Hw. rewrite (parse_marshal v Hw). rewrite (marshal_indent_is_ri pre ind v). rewrite (ri_is_reference_indent (strip v) Hw).
    destruct (strip_same_n (size v) v (le_n _)) as [_ Ht]. rewrite Ht. reflexivity.
  Qed.
End Ref.
