(* The colouring interpreter writes the uncoloured text with markers around scalars and keys: for every scheme
   and every value, (1) what it writes is the marker-and-text rendering, (2) that rendering without its markers is
   Marshal's text, (3) with the empty scheme it is Marshal's text as it stands. *)
From Coq Require Import NArith List Bool Lia.
From GJ Require Import Spec.Json Model.Enc Proofs.EncP Model.EncColor.
Import ListNotations.
Open Scope N_scope.

Section G.
  Variable L : tok -> list N.
  Variable K : list N -> list N.

  Lemma flat_sep_g (its : list (list N)) : its <> [] -> flat_map (fun it => it ++ [COMMA]) its = sepcat_g its ++ [COMMA].
  Proof.
    induction its as [|y t IHt]; intro Hne; [congruence|].
    destruct t as [|z t'].
    - cbn. rewrite app_nil_r. reflexivity.
    - cbn [flat_map sepcat_g]. cbn [flat_map] in IHt. rewrite IHt by discriminate. rewrite <- !app_assoc. reflexivity.
  Qed.

  Theorem enc_g_denotes_n : forall n v, (size v <= n)%nat -> forall b, enc_g L K v b = b ++ render_g L K v ++ [COMMA].
  Proof.
    induction n as [|n IH]; intros v Hs b.
    - destruct v; cbn in Hs; lia.
    - destruct v as [t | l | l].
      + cbn [enc_g render_g]. unfold appendComma. rewrite <- app_assoc. reflexivity.
      + destruct l as [|x r]; [reflexivity|].
        cbn [enc_g].
        assert (F: forall l s, (fold_right (fun x a => size x + a) 0 l <= n)%nat ->
                   fold_left (fun acc x => enc_g L K x acc) l s = s ++ flat_map (fun it => it ++ [COMMA]) (map (render_g L K) l)).
        { induction l as [|y t IHt]; intros s Hl; cbn [fold_left flat_map map].
          - rewrite app_nil_r. reflexivity.
          - cbn [fold_right] in Hl. rewrite IH by lia. rewrite IHt by lia. rewrite <- !app_assoc. reflexivity. }
        rewrite F by (cbn [size] in Hs; lia).
        rewrite flat_sep_g by discriminate. unfold appendArrayHead, appendArrayEnd.
        rewrite !app_assoc. rewrite set_last_snoc. cbn [render_g]. rewrite <- !app_assoc. reflexivity.
      + cbn [enc_g].
        set (f := fun kv : list N * bool * jv => match kv with (k, false, x) => [K k ++ [COLON] ++ render_g L K x] | (_, true, _) => [] end).
        assert (F: forall l s, (fold_right (fun kv a => size (snd kv) + a) 0 l <= n)%nat ->
                   fold_left (fun acc kv => match kv with (k, false, x) => enc_g L K x (appendKey_g K acc k) | (_, true, _) => acc end) l s
                   = s ++ flat_map (fun it => it ++ [COMMA]) (flat_map f l)).
        { induction l0 as [|kv t IHt]; intros s Hl; cbn [fold_left flat_map].
          - rewrite app_nil_r. reflexivity.
          - cbn [fold_right] in Hl. destruct kv as [[k o] x]. cbn [snd] in Hl. destruct o.
            + rewrite IHt by lia. reflexivity.
            + rewrite IHt by lia. assert (Hx: (size x <= n)%nat) by (clear - Hl; lia). rewrite (IH x Hx). cbn [f flat_map app].
              unfold appendKey_g. repeat rewrite <- app_assoc. cbn [app]. repeat rewrite <- app_assoc. reflexivity. }
        assert (Hl: (fold_right (fun kv a => size (snd kv) + a) 0 l <= n)%nat).
        { change (size (JObj l)) with (S (fold_right (fun kv a => size (snd kv) + a) 0 l))%nat in Hs. lia. }
        rewrite F by exact Hl.
        assert (R: render_g L K (JObj l) = [LBC] ++ sepcat_g (flat_map f l) ++ [RBC]) by reflexivity.
        rewrite R. clear R.
        unfold appendStructHead, appendStructEndSkipLast.
        destruct (flat_map f l) as [|i0 its] eqn:E.
        * cbn [flat_map sepcat_g]. rewrite app_nil_r. rewrite last_snoc. cbn. rewrite <- !app_assoc. reflexivity.
        * rewrite flat_sep_g by discriminate. rewrite !app_assoc. rewrite last_snoc. cbn [N.eqb COMMA Pos.eqb].
          rewrite set_last_snoc. rewrite <- !app_assoc. reflexivity.
  Qed.

  Theorem marshal_g_is_render v : marshal_g L K v = render_g L K v.
  Proof. unfold marshal_g. rewrite (enc_g_denotes_n (size v)) by lia. cbn [app]. apply removelast_last. Qed.
End G.

(* the renderer without colour is the one of Proofs/EncP.v *)
Lemma sepcat_g_eq l : sepcat_g l = sepcat l.
Proof.
  induction l as [|x r IH]; [reflexivity|]. destruct r as [|y r']; [reflexivity|].
  change (sepcat_g (x :: y :: r')) with (x ++ [COMMA] ++ sepcat_g (y :: r')).
  change (sepcat (x :: y :: r')) with (x ++ [COMMA] ++ sepcat (y :: r')). rewrite IH. reflexivity.
Qed.

(* pieces: all bytes = the coloured rendering, text bytes = the plain rendering *)
Lemma all_app a b : all_bytes (a ++ b) = all_bytes a ++ all_bytes b.
Proof. unfold all_bytes. apply flat_map_app. Qed.
Lemma text_app a b : text_bytes (a ++ b) = text_bytes a ++ text_bytes b.
Proof. unfold text_bytes. apply flat_map_app. Qed.
Lemma all_sepcat (l : list (list piece)) : all_bytes (sepcat_p l) = sepcat_g (map all_bytes l).
Proof.
  induction l as [|x r IH]; [reflexivity|]. destruct r as [|y r']; [reflexivity|].
  change (sepcat_p (x :: y :: r')) with (x ++ [Txt [COMMA]] ++ sepcat_p (y :: r')).
  change (map all_bytes (x :: y :: r')) with (all_bytes x :: map all_bytes (y :: r')).
  change (sepcat_g (all_bytes x :: map all_bytes (y :: r'))) with (all_bytes x ++ [COMMA] ++ sepcat_g (map all_bytes (y :: r'))).
  rewrite !all_app, IH. reflexivity.
Qed.
Lemma text_sepcat (l : list (list piece)) : text_bytes (sepcat_p l) = sepcat (map text_bytes l).
Proof.
  induction l as [|x r IH]; [reflexivity|]. destruct r as [|y r']; [reflexivity|].
  change (sepcat_p (x :: y :: r')) with (x ++ [Txt [COMMA]] ++ sepcat_p (y :: r')).
  change (map text_bytes (x :: y :: r')) with (text_bytes x :: map text_bytes (y :: r')).
  change (sepcat (text_bytes x :: map text_bytes (y :: r'))) with (text_bytes x ++ [COMMA] ++ sepcat (map text_bytes (y :: r'))).
  rewrite !text_app, IH. reflexivity.
Qed.

Lemma map_flat_map {A B C} (g : B -> C) (f : A -> list B) l : map g (flat_map f l) = flat_map (fun x => map g (f x)) l.
Proof. induction l as [|x r IH]; [reflexivity|]. cbn [flat_map]. rewrite map_app, IH. reflexivity. Qed.
Lemma flat_map_ext_in' {A B} (f g : A -> list B) l : (forall x, In x l -> f x = g x) -> flat_map f l = flat_map g l.
Proof. induction l as [|x r IH]; intro H; [reflexivity|]. cbn [flat_map]. rewrite (H x (or_introl eq_refl)), IH; [reflexivity|]. intros y Hy. apply H. right. exact Hy. Qed.

Lemma in_size_le (x : jv) l : In x l -> (size x <= fold_right (fun x a => size x + a) 0 l)%nat.
Proof. induction l as [|y r IH]; intro H; [destruct H|]. cbn [fold_right]. destruct H as [->|H]; [lia|]. specialize (IH H). lia. Qed.

Theorem pieces_n s : forall n v, (size v <= n)%nat ->
  all_bytes (render_p s v) = render_g (leaf_c s) (key_c s) v /\ text_bytes (render_p s v) = render v.
Proof.
  induction n as [|n IH]; intros v Hs; [destruct v; cbn in Hs; lia|].
  destruct v as [t | l | l].
  - cbn [render_p render_g render]. unfold wrap_p, leaf_c, wrap, all_bytes, text_bytes. cbn [flat_map]. rewrite !app_nil_r. split; reflexivity.
  - cbn [render_p render_g render]. rewrite !all_app, !text_app, all_sepcat, text_sepcat, !map_map.
    assert (E : forall x, In x l -> all_bytes (render_p s x) = render_g (leaf_c s) (key_c s) x /\ text_bytes (render_p s x) = render x).
    { intros x Hx. apply IH. pose proof (in_size_le x l Hx). cbn [size] in Hs. lia. }
    split.
    + f_equal. f_equal. f_equal. apply map_ext_in. intros x Hx. apply (E x Hx).
    + f_equal. f_equal. f_equal. apply map_ext_in. intros x Hx. apply (E x Hx).
  - cbn [render_p render_g render]. rewrite !all_app, !text_app, all_sepcat, text_sepcat.
    assert (Hl: (fold_right (fun kv a => size (snd kv) + a) 0 l <= n)%nat) by (cbn [size] in Hs; lia). clear Hs.
    assert (Sz : forall k o x, In (k, o, x) l -> (size x <= n)%nat).
    { clear - Hl. induction l as [|[[k' o'] x'] r IHr]; intros k o x H; [destruct H|]. cbn [fold_right snd] in Hl.
      destruct H as [E|H]; [inversion E; subst; lia|]. apply (IHr ltac:(lia) k o x H). }
    rewrite !map_flat_map.
    assert (M1 : flat_map (fun kv : list N * bool * jv => map all_bytes (match kv with
                                        | (k, false, x) => [wrap_p s CKey (34 :: k ++ [34]) ++ [Txt [COLON]] ++ render_p s x]
                                        | (_, true, _) => [] end)) l
                = flat_map (fun kv : list N * bool * jv => match kv with
                                        | (k, false, x) => [key_c s k ++ [COLON] ++ render_g (leaf_c s) (key_c s) x]
                                        | (_, true, _) => [] end) l).
    { apply flat_map_ext_in'. intros [[k o] x] Hin. destruct o; [reflexivity|]. cbn [map]. f_equal.
      destruct (IH x (Sz k false x Hin)) as [Ax _]. rewrite !all_app, Ax. unfold wrap_p, key_c, wrap, all_bytes. cbn [flat_map]. rewrite !app_nil_r. rewrite <- !app_assoc. reflexivity. }
    assert (M2 : flat_map (fun kv : list N * bool * jv => map text_bytes (match kv with
                                        | (k, false, x) => [wrap_p s CKey (34 :: k ++ [34]) ++ [Txt [COLON]] ++ render_p s x]
                                        | (_, true, _) => [] end)) l
                = flat_map (fun kv : list N * bool * jv => match kv with
                                        | (k, false, x) => [34 :: k ++ [34; COLON] ++ render x]
                                        | (_, true, _) => [] end) l).
    { apply flat_map_ext_in'. intros [[k o] x] Hin. destruct o; [reflexivity|]. cbn [map]. f_equal.
      destruct (IH x (Sz k false x Hin)) as [_ Bx]. rewrite !text_app, Bx. unfold wrap_p, text_bytes. cbn [flat_map app]. rewrite !app_nil_r. cbn [app]. rewrite <- !app_assoc. reflexivity. }
    rewrite M1, M2. split; reflexivity.
Qed.

(* what the colouring interpreter writes is the piece rendering; without its markers it is Marshal's text *)
Theorem colour_is_pieces s v : marshal_color s v = all_bytes (render_p s v).
Proof. unfold marshal_color. rewrite marshal_g_is_render. symmetry. apply (pieces_n s (size v)). lia. Qed.
Theorem colour_without_markers_is_marshal s v : text_bytes (render_p s v) = marshal v.
Proof. rewrite marshal_is_render. apply (pieces_n s (size v)). lia. Qed.

(* the empty scheme: the same bytes *)
Definition marks_empty (ps : list piece) : Prop := Forall (fun p => match p with Mark m => m = [] | Txt _ => True end) ps.
Lemma marks_empty_sepcat l : Forall marks_empty l -> marks_empty (sepcat_p l).
Proof.
  induction l as [|x r IH]; intro F; [constructor|]. inversion F; subst. destruct r as [|y r']; [assumption|].
  change (sepcat_p (x :: y :: r')) with (x ++ [Txt [COMMA]] ++ sepcat_p (y :: r')).
  apply Forall_app. split; [assumption|]. apply Forall_app. split; [repeat constructor|]. apply IH. assumption.
Qed.
Lemma marks_empty_render : forall n v, (size v <= n)%nat -> marks_empty (render_p no_colour v).
Proof.
  induction n as [|n IH]; intros v Hs; [destruct v; cbn in Hs; lia|].
  destruct v as [t | l | l]; cbn [render_p].
  - unfold wrap_p, no_colour. cbn. repeat constructor.
  - apply Forall_app. split; [repeat constructor|]. apply Forall_app. split; [|repeat constructor].
    apply marks_empty_sepcat. apply Forall_forall. intros ps Hps. apply in_map_iff in Hps. destruct Hps as (x & E & Hx). subst ps.
    apply IH. pose proof (in_size_le x l Hx). cbn [size] in Hs. lia.
  - apply Forall_app. split; [repeat constructor|]. apply Forall_app. split; [|repeat constructor].
    apply marks_empty_sepcat.
    assert (Hl: (fold_right (fun kv a => size (snd kv) + a) 0 l <= n)%nat) by (cbn [size] in Hs; lia). clear Hs.
    induction l as [|[[k o] x] r IHr]; [constructor|]. cbn [fold_right snd] in Hl. destruct o; cbn [flat_map app].
    + apply IHr. lia.
    + constructor; [|apply IHr; lia]. unfold marks_empty. apply Forall_app. split; [unfold wrap_p, no_colour; cbn; repeat constructor|].
      constructor; [exact I|]. apply IH. lia.
Qed.
Theorem empty_scheme_is_marshal v : marshal_color no_colour v = marshal v.
Proof.
  rewrite colour_is_pieces, <- colour_without_markers_is_marshal with (s := no_colour).
  pose proof (marks_empty_render (size v) v (le_n _)) as M. revert M. generalize (render_p no_colour v). intro ps.
  induction ps as [|p r IHr]; intro M; [reflexivity|]. inversion M as [|? ? Hp Hr]; subst.
  unfold all_bytes, text_bytes in *. cbn [flat_map]. rewrite IHr by exact Hr. destruct p; [subst m|]; reflexivity.
Qed.
