From Coq Require Import List Arith Bool Lia.
From GJ Require Import Model.FilterShare.
Import ListNotations.

(* when Filter answers with a new node: under EVERY schedule a finished thread has compiled its own query *)
Definition finv (s : fstate) : Prop := Forall (fun t => f_pc t = 0 \/ (f_pc t = 1 /\ f_local t = Some (f_query t)) \/ (f_pc t >= 2 /\ f_result t = Some (f_query t))) (threads s).

Lemma Forall_set_nth {A} (P : A -> Prop) l : forall n x, Forall P l -> P x -> Forall P (set_nth l n x).
Proof.
  induction l as [|y r IH]; intros n x F Px; [destruct n; constructor|].
  inversion F; subst. destruct n; cbn [set_nth]; constructor; auto.
Qed.

Lemma fstep_inv s i : finv s -> finv (fstep false s i).
Proof.
  intro I. unfold fstep. destruct (nth_error (threads s) i) as [t|] eqn:E; [|exact I].
  assert (Ht : f_pc t = 0 \/ (f_pc t = 1 /\ f_local t = Some (f_query t)) \/ (f_pc t >= 2 /\ f_result t = Some (f_query t))).
  { unfold finv in I. rewrite Forall_forall in I. apply I. eapply nth_error_In. exact E. }
  unfold fstep_thread. destruct (f_pc t) as [|[|k]] eqn:P; cbn [shared_fq threads]; unfold finv; cbn [threads]; apply Forall_set_nth; try exact I.
  - right. left. cbn. split; reflexivity.
  - right. right. cbn. split; [lia|]. destruct Ht as [H|[[_ H]|[H _]]]; [discriminate|exact H|lia].
  - destruct Ht as [H|[[H _]|H]]; [discriminate|discriminate|]. right. right. rewrite P. exact H.
Qed.

Theorem own_query_under_any_schedule queries schedule :
  Forall (fun t => f_pc t >= 2 -> f_result t = Some (f_query t)) (threads (frun false (finit queries) schedule)).
Proof.
  assert (I : finv (frun false (finit queries) schedule)).
  { unfold frun. assert (I0 : finv (finit queries)).
    { unfold finv, finit. cbn [threads]. apply Forall_forall. intros t Ht. apply in_map_iff in Ht. destruct Ht as (q & E & _). subst t. left. reflexivity. }
    revert I0. generalize (finit queries). induction schedule as [|i r IH]; intros s I0; [exact I0|]. cbn [fold_left]. apply IH, fstep_inv, I0. }
  unfold finv in I. rewrite Forall_forall in I |- *. intros t Ht P. destruct (I t Ht) as [H|[[H _]|[_ H]]]; [lia|lia|exact H].
Qed.

(* when Filter writes the query into the shared node: thread 0 filters, thread 1 filters, thread 0 reads back *)
Theorem writes_receiver_refuted :
  map f_result (threads (frun true (finit [7; 9]) [0; 1; 0; 1])) = [Some 9; Some 9].
Proof. vm_compute. reflexivity. Qed.
