(* Two facts about every successful parse of the RFC recogniser, whatever the
   nesting limit and the number predicate:
   - the bytes consumed end with a byte that is not white space, and the rest
     is a suffix of the input;
   - nesting: the token sequence respects the limit (scan), and a parse without
     limit whose tokens respect a limit is also the parse under that limit. *)
From Coq Require Import NArith List Bool Arith Lia.
From GJ Require Import Base.Bytes Spec.Json Proofs.CompactLeafP Proofs.JsonSpecP Proofs.ParseP Proofs.ParseWsP Proofs.LeafSoundP.
Import ListNotations.
Open Scope N_scope.

(* ---------- consumption ---------- *)
Definition ends_nonws (l rest : list N) : Prop := exists x c, l = x ++ c :: rest /\ ws_b c = false.

Lemma ends_prepend p l rest : ends_nonws l rest -> ends_nonws (p ++ l) rest.
Proof. intros (x & c & -> & Hc). exists (p ++ x), c. split; [rewrite app_assoc; reflexivity|exact Hc]. Qed.

Lemma ends_trans l mid rest : (exists p, l = p ++ mid) -> ends_nonws mid rest -> ends_nonws l rest.
Proof. intros [p ->] H. apply ends_prepend. exact H. Qed.

Lemma skip_ws_split l : exists w, l = w ++ skip_ws l.
Proof.
  induction l as [|c r [w IH]]; [exists []; reflexivity|]. cbn [skip_ws]. destruct (ws_b c).
  - exists (c :: w). cbn [app]. f_equal. exact IH.
  - exists []. reflexivity.
Qed.

Lemma sfx_skip l c r : skip_ws l = c :: r -> exists p, l = p ++ c :: r.
Proof. intro H. destruct (skip_ws_split l) as [w Hw]. rewrite H in Hw. exists w. exact Hw. Qed.

Lemma numchar_not_ws c : numchar_b c = true -> ws_b c = false.
Proof. intro H. destruct (ws_b c) eqn:E; [|reflexivity]. rewrite (ws_not_numchar c E) in H. discriminate. Qed.

Section Shape.
  Variable lim : option nat.
  Variable numok : list N -> bool.
  Notation PV := (pg_value lim numok).
  Notation PM := (pg_members lim numok).
  Notation PE := (pg_elements lim numok).

  Theorem consumed f :
    (forall d l ts rest, PV f d l = Some (ts, rest) -> ends_nonws l rest) /\
    (forall d l ts rest, PM f d l = Some (ts, rest) -> ends_nonws l rest) /\
    (forall d l ts rest, PE f d l = Some (ts, rest) -> ends_nonws l rest).
  Proof.
    induction f as [|f (IHv & IHm & IHe)]; [split; [|split]; intros; discriminate|].
    split; [|split].
    - intros d l ts rest H. cbn [pg_value] in H.
      destruct (skip_ws l) as [|c r] eqn:Es; [discriminate|].
      pose proof (skip_ws_head _ _ _ Es) as Hc.
      apply (ends_trans l (c :: r) rest (sfx_skip l c r Es)).
      destruct (N.eqb_spec c 123) as [E|E].
      { destruct (negb (depth_ok lim d)); [discriminate|].
        destruct (skip_ws r) as [|c1 r'] eqn:Er; [discriminate|]. destruct (sfx_skip r c1 r' Er) as [p Hp].
        destruct (N.eqb_spec c1 125) as [E1|E1].
        - inversion H; subst. exists (123 :: p), 125. split; reflexivity.
        - destruct (PM f (S d) (c1 :: r')) as [[ts' rest']|] eqn:Em; [|discriminate]. inversion H; subst.
          apply (ends_prepend (123 :: p) (c1 :: r') rest). exact (IHm _ _ _ _ Em). }
      destruct (N.eqb_spec c 91) as [E2|E2].
      { destruct (negb (depth_ok lim d)); [discriminate|].
        destruct (skip_ws r) as [|c1 r'] eqn:Er; [discriminate|]. destruct (sfx_skip r c1 r' Er) as [p Hp].
        destruct (N.eqb_spec c1 93) as [E1|E1].
        - inversion H; subst. exists (91 :: p), 93. split; reflexivity.
        - destruct (PE f (S d) (c1 :: r')) as [[ts' rest']|] eqn:Em; [|discriminate]. inversion H; subst.
          apply (ends_prepend (91 :: p) (c1 :: r') rest). exact (IHe _ _ _ _ Em). }
      destruct (N.eqb_spec c 34) as [E3|E3].
      { destruct (p_string_body r) as [[b rest']|] eqn:Eb; [|discriminate]. inversion H; subst.
        destruct (parsed_body_ok r b rest Eb) as [_ Hr]. exists (34 :: b), 34. split; [rewrite Hr; reflexivity|reflexivity]. }
      destruct ((c =? 45) || digit_b c) eqn:E4.
      { destruct (span numchar_b (c :: r)) as [num rest'] eqn:Esp.
        destruct (json_number num && numok num) eqn:Ej; [|discriminate]. inversion H; subst.
        apply andb_true_iff in Ej. destruct Ej as [Ej _].
        destruct (parsed_num_ok c r num rest E4 Esp Ej) as (Hok & Hl & a & Ha).
        unfold num_ok in Hok. apply andb_true_iff in Hok. destruct Hok as [Hok _]. apply andb_true_iff in Hok. destruct Hok as [_ Hf].
        assert (Hne : num <> []) by (rewrite Ha; discriminate).
        destruct (exists_last Hne) as (x & c' & Hx). exists x, c'. split.
        - rewrite Hl, Hx. rewrite <- app_assoc. reflexivity.
        - apply numchar_not_ws. rewrite forallb_forall in Hf. apply Hf. rewrite Hx. apply in_or_app. right. left. reflexivity. }
      destruct (N.eqb_spec c 116) as [E5|E5].
      { destruct (starts [114; 117; 101] r) as [rest'|] eqn:Est; [|discriminate]. inversion H; subst.
        rewrite (starts_spec _ _ _ Est). exists [116; 114; 117], 101. split; reflexivity. }
      destruct (N.eqb_spec c 102) as [E6|E6].
      { destruct (starts [97; 108; 115; 101] r) as [rest'|] eqn:Est; [|discriminate]. inversion H; subst.
        rewrite (starts_spec _ _ _ Est). exists [102; 97; 108; 115], 101. split; reflexivity. }
      destruct (N.eqb_spec c 110) as [E7|E7].
      { destruct (starts [117; 108; 108] r) as [rest'|] eqn:Est; [|discriminate]. inversion H; subst.
        rewrite (starts_spec _ _ _ Est). exists [110; 117; 108], 108. split; reflexivity. }
      discriminate.
    - intros d l ts rest H. cbn [pg_members] in H.
      destruct (skip_ws l) as [|q r] eqn:Es; [discriminate|].
      destruct (negb (q =? 34)); [discriminate|].
      destruct (p_string_body r) as [[k r1]|] eqn:Ek; [|discriminate].
      destruct (skip_ws r1) as [|c r2] eqn:E1; [discriminate|].
      destruct (negb (c =? 58)); [discriminate|].
      destruct (PV f d r2) as [[vt r3]|] eqn:Ev; [|discriminate].
      destruct (skip_ws r3) as [|c3 r4] eqn:E3; [discriminate|].
      destruct (sfx_skip l q r Es) as [p0 Hp0]. destruct (parsed_body_ok r k r1 Ek) as [_ Hr].
      destruct (sfx_skip r1 c r2 E1) as [p1 Hp1]. destruct (IHv _ _ _ _ Ev) as (xv & cv & Hxv & _).
      destruct (sfx_skip r3 c3 r4 E3) as [p3 Hp3].
      assert (Hl : exists p, l = p ++ c3 :: r4).
      { exists (p0 ++ q :: k ++ 34 :: p1 ++ c :: xv ++ cv :: p3). rewrite Hp0, Hr, Hp1, Hxv, Hp3. norm. reflexivity. }
      destruct (N.eqb_spec c3 125) as [E5|E5].
      { inversion H; subst. destruct Hl as [p Hl]. exists p, 125. split; [exact Hl|reflexivity]. }
      destruct (N.eqb_spec c3 44) as [E6|E6]; [|discriminate].
      destruct (PM f d r4) as [[ts' rest']|] eqn:Em; [|discriminate]. inversion H; subst.
      destruct Hl as [p Hl]. rewrite Hl. pose proof (ends_prepend (p ++ [44]) r4 rest (IHm _ _ _ _ Em)) as IH'.
      rewrite <- app_assoc in IH'. exact IH'.
    - intros d l ts rest H. cbn [pg_elements] in H.
      destruct (PV f d l) as [[vt r1]|] eqn:Ev; [|discriminate].
      destruct (skip_ws r1) as [|c r2] eqn:E1; [discriminate|].
      destruct (IHv _ _ _ _ Ev) as (xv & cv & Hxv & _). destruct (sfx_skip r1 c r2 E1) as [p1 Hp1].
      assert (Hl : exists p, l = p ++ c :: r2).
      { exists (xv ++ cv :: p1). rewrite Hxv, Hp1. norm. reflexivity. }
      destruct (N.eqb_spec c 93) as [E5|E5].
      { inversion H; subst. destruct Hl as [p Hl]. exists p, 93. split; [exact Hl|reflexivity]. }
      destruct (N.eqb_spec c 44) as [E6|E6]; [|discriminate].
      destruct (PE f d r2) as [[ts' rest']|] eqn:Em; [|discriminate]. inversion H; subst.
      destruct Hl as [p Hl]. rewrite Hl. pose proof (ends_prepend (p ++ [44]) r2 rest (IHe _ _ _ _ Em)) as IH'.
      rewrite <- app_assoc in IH'. exact IH'.
  Qed.
End Shape.

(* ---------- nesting ---------- *)
Fixpoint scan (lim : option nat) (d : nat) (ts : list tok) : option nat :=
  match ts with
  | [] => Some d
  | t :: r =>
      match t with
      | TLBrace | TLBrack => if depth_ok lim d then scan lim (S d) r else None
      | TRBrace | TRBrack => scan lim (pred d) r
      | _ => scan lim d r
      end
  end.

Lemma scan_app lim : forall a d b, scan lim d (a ++ b) = match scan lim d a with Some d' => scan lim d' b | None => None end.
Proof.
  induction a as [|t a IH]; intros d b; [reflexivity|]. cbn [app scan].
  destruct t; try apply IH. all: destruct (depth_ok lim d); [apply IH|reflexivity].
Qed.

Lemma scan_relax lim : forall ts d x, scan lim d ts = Some x -> scan None d ts = Some x.
Proof.
  induction ts as [|t ts IH]; intros d x H; [exact H|]. cbn [scan] in *.
  destruct t; try (apply IH; exact H). all: cbn [depth_ok]; destruct (depth_ok lim d); [apply IH; exact H|discriminate].
Qed.

Section Nest.
  Variable lim : option nat.
  Variable numok : list N -> bool.
  Notation PV := (pg_value lim numok).
  Notation PM := (pg_members lim numok).
  Notation PE := (pg_elements lim numok).

  Theorem parse_scan f :
    (forall d l ts rest, PV f d l = Some (ts, rest) -> scan lim d ts = Some d) /\
    (forall d l ts rest, PM f d l = Some (ts, rest) -> scan lim d ts = Some (pred d)) /\
    (forall d l ts rest, PE f d l = Some (ts, rest) -> scan lim d ts = Some (pred d)).
  Proof.
    induction f as [|f (IHv & IHm & IHe)]; [split; [|split]; intros; discriminate|].
    split; [|split].
    - intros d l ts rest H. cbn [pg_value] in H.
      destruct (skip_ws l) as [|c r] eqn:Es; [discriminate|].
      destruct (c =? 123).
      { destruct (depth_ok lim d) eqn:Ed; [|discriminate]. cbn [negb] in H.
        destruct (skip_ws r) as [|c1 r'] eqn:Er; [discriminate|].
        destruct (c1 =? 125).
        - inversion H; subst. cbn [scan]. rewrite Ed. reflexivity.
        - destruct (PM f (S d) (c1 :: r')) as [[ts' rest']|] eqn:Em; [|discriminate]. inversion H; subst.
          cbn [scan]. rewrite Ed. exact (IHm _ _ _ _ Em). }
      destruct (c =? 91).
      { destruct (depth_ok lim d) eqn:Ed; [|discriminate]. cbn [negb] in H.
        destruct (skip_ws r) as [|c1 r'] eqn:Er; [discriminate|].
        destruct (c1 =? 93).
        - inversion H; subst. cbn [scan]. rewrite Ed. reflexivity.
        - destruct (PE f (S d) (c1 :: r')) as [[ts' rest']|] eqn:Em; [|discriminate]. inversion H; subst.
          cbn [scan]. rewrite Ed. exact (IHe _ _ _ _ Em). }
      destruct (c =? 34).
      { destruct (p_string_body r) as [[b rest']|]; [|discriminate]. inversion H; subst. reflexivity. }
      destruct ((c =? 45) || digit_b c).
      { destruct (span numchar_b (c :: r)) as [num rest']. destruct (json_number num && numok num); [|discriminate]. inversion H; subst. reflexivity. }
      destruct (c =? 116). { destruct (starts [114; 117; 101] r); [|discriminate]. inversion H; subst. reflexivity. }
      destruct (c =? 102). { destruct (starts [97; 108; 115; 101] r); [|discriminate]. inversion H; subst. reflexivity. }
      destruct (c =? 110). { destruct (starts [117; 108; 108] r); [|discriminate]. inversion H; subst. reflexivity. }
      discriminate.
    - intros d l ts rest H. cbn [pg_members] in H.
      destruct (skip_ws l) as [|q r] eqn:Es; [discriminate|].
      destruct (negb (q =? 34)); [discriminate|].
      destruct (p_string_body r) as [[k r1]|] eqn:Ek; [|discriminate].
      destruct (skip_ws r1) as [|c r2] eqn:E1; [discriminate|].
      destruct (negb (c =? 58)); [discriminate|].
      destruct (PV f d r2) as [[vt r3]|] eqn:Ev; [|discriminate].
      destruct (skip_ws r3) as [|c3 r4] eqn:E3; [discriminate|].
      destruct (c3 =? 125).
      { inversion H; subst. cbn [scan]. rewrite scan_app. rewrite (IHv _ _ _ _ Ev). reflexivity. }
      destruct (c3 =? 44); [|discriminate].
      destruct (PM f d r4) as [[ts' rest']|] eqn:Em; [|discriminate]. inversion H; subst.
      cbn [scan]. rewrite scan_app. rewrite (IHv _ _ _ _ Ev). cbn [scan]. exact (IHm _ _ _ _ Em).
    - intros d l ts rest H. cbn [pg_elements] in H.
      destruct (PV f d l) as [[vt r1]|] eqn:Ev; [|discriminate].
      destruct (skip_ws r1) as [|c r2] eqn:E1; [discriminate|].
      destruct (c =? 93).
      { inversion H; subst. rewrite scan_app. rewrite (IHv _ _ _ _ Ev). reflexivity. }
      destruct (c =? 44); [|discriminate].
      destruct (PE f d r2) as [[ts' rest']|] eqn:Em; [|discriminate]. inversion H; subst.
      rewrite scan_app. rewrite (IHv _ _ _ _ Ev). cbn [scan]. exact (IHe _ _ _ _ Em).
  Qed.
End Nest.

(* a parse without limit whose tokens stay within a limit is the parse under that limit *)
Theorem parse_tighten lim numok f :
  (forall d l ts rest x, pg_value None numok f d l = Some (ts, rest) -> scan lim d ts = Some x -> pg_value lim numok f d l = Some (ts, rest)) /\
  (forall d l ts rest x, pg_members None numok f d l = Some (ts, rest) -> scan lim d ts = Some x -> pg_members lim numok f d l = Some (ts, rest)) /\
  (forall d l ts rest x, pg_elements None numok f d l = Some (ts, rest) -> scan lim d ts = Some x -> pg_elements lim numok f d l = Some (ts, rest)).
Proof.
  induction f as [|f (IHv & IHm & IHe)]; [split; [|split]; intros; discriminate|].
  pose proof (parse_scan None numok f) as (SCv & _ & _).
  split; [|split].
  - intros d l ts rest x H Hs. cbn [pg_value] in H |- *.
    destruct (skip_ws l) as [|c r] eqn:Es; [discriminate|].
    destruct (c =? 123).
    { cbn [depth_ok negb] in H.
      destruct (skip_ws r) as [|c1 r'] eqn:Er; [discriminate|].
      destruct (c1 =? 125).
      - inversion H; subst. cbn [scan] in Hs. destruct (depth_ok lim d); [reflexivity|discriminate].
      - destruct (pg_members None numok f (S d) (c1 :: r')) as [[ts' rest']|] eqn:Em; [|discriminate]. inversion H; subst.
        cbn [scan] in Hs. destruct (depth_ok lim d); [|discriminate]. cbn [negb].
        rewrite (IHm _ _ _ _ _ Em Hs). reflexivity. }
    destruct (c =? 91).
    { cbn [depth_ok negb] in H.
      destruct (skip_ws r) as [|c1 r'] eqn:Er; [discriminate|].
      destruct (c1 =? 93).
      - inversion H; subst. cbn [scan] in Hs. destruct (depth_ok lim d); [reflexivity|discriminate].
      - destruct (pg_elements None numok f (S d) (c1 :: r')) as [[ts' rest']|] eqn:Em; [|discriminate]. inversion H; subst.
        cbn [scan] in Hs. destruct (depth_ok lim d); [|discriminate]. cbn [negb].
        rewrite (IHe _ _ _ _ _ Em Hs). reflexivity. }
    exact H.
  - intros d l ts rest x H Hs. cbn [pg_members] in H |- *.
    destruct (skip_ws l) as [|q r] eqn:Es; [discriminate|].
    destruct (negb (q =? 34)); [discriminate|].
    destruct (p_string_body r) as [[k r1]|] eqn:Ek; [|discriminate].
    destruct (skip_ws r1) as [|c r2] eqn:E1; [discriminate|].
    destruct (negb (c =? 58)); [discriminate|].
    destruct (pg_value None numok f d r2) as [[vt r3]|] eqn:Ev; [|discriminate].
    destruct (skip_ws r3) as [|c3 r4] eqn:E3; [discriminate|].
    assert (Hvt : forall tail, scan lim d (vt ++ tail) = Some x -> scan lim d vt = Some d /\ scan lim d tail = Some x).
    { intros tail Ht. rewrite scan_app in Ht. destruct (scan lim d vt) as [d1|] eqn:E; [|discriminate].
      pose proof (scan_relax _ _ _ _ E) as E'. rewrite (SCv _ _ _ _ Ev) in E'. inversion E'; subst. split; [reflexivity|exact Ht]. }
    destruct (c3 =? 125) eqn:E125.
    { inversion H; subst. cbn [scan] in Hs. destruct (Hvt _ Hs) as [Hv _]. rewrite (IHv _ _ _ _ _ Ev Hv). rewrite E3, E125. reflexivity. }
    destruct (c3 =? 44) eqn:E44; [|discriminate].
    destruct (pg_members None numok f d r4) as [[ts' rest']|] eqn:Em; [|discriminate]. inversion H; subst.
    cbn [scan] in Hs. destruct (Hvt _ Hs) as [Hv Ht]. cbn [scan] in Ht. rewrite (IHv _ _ _ _ _ Ev Hv). rewrite E3, E125, E44.
    rewrite (IHm _ _ _ _ _ Em Ht). reflexivity.
  - intros d l ts rest x H Hs. cbn [pg_elements] in H |- *.
    destruct (pg_value None numok f d l) as [[vt r1]|] eqn:Ev; [|discriminate].
    destruct (skip_ws r1) as [|c r2] eqn:E1; [discriminate|].
    assert (Hvt : forall tail, scan lim d (vt ++ tail) = Some x -> scan lim d vt = Some d /\ scan lim d tail = Some x).
    { intros tail Ht. rewrite scan_app in Ht. destruct (scan lim d vt) as [d1|] eqn:E; [|discriminate].
      pose proof (scan_relax _ _ _ _ E) as E'. rewrite (SCv _ _ _ _ Ev) in E'. inversion E'; subst. split; [reflexivity|exact Ht]. }
    destruct (c =? 93) eqn:E93.
    { inversion H; subst. destruct (Hvt _ Hs) as [Hv _]. rewrite (IHv _ _ _ _ _ Ev Hv). rewrite E1, E93. reflexivity. }
    destruct (c =? 44) eqn:E44; [|discriminate].
    destruct (pg_elements None numok f d r2) as [[ts' rest']|] eqn:Em; [|discriminate]. inversion H; subst.
    destruct (Hvt _ Hs) as [Hv Ht]. cbn [scan] in Ht. rewrite (IHv _ _ _ _ _ Ev Hv). rewrite E1, E93, E44.
    rewrite (IHe _ _ _ _ _ Em Ht). reflexivity.
Qed.
