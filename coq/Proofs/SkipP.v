(* The skip functions step over every RFC 8259 value exactly (they are complete:
   a valid document is never refused because of a part the destination skips,
   and the cursor lands right behind the value), and they are lenient: a text
   that is no value at all is stepped over too (recorded finding SkipUnvalidated). *)
From Coq Require Import NArith ZArith List Bool Lia.
From Coq Require Import ZifyN ZifyNat ZifyBool.
From GJ Require Import Base.Bytes Gen.Tables Model.Int Model.Compact Model.Iface Model.Skip Spec.Json
  Proofs.CompactLeafP Proofs.JsonSpecP Proofs.IfaceP Proofs.ParseP Proofs.ParseWsP Proofs.LeafSoundP Proofs.ParseShapeP.
Import ListNotations.
Open Scope N_scope.

Definition neutral (c : N) : bool :=
  negb ((c =? 123) || (c =? 125) || (c =? 91) || (c =? 93) || (c =? 34) || (c =? 0)).

Lemma scan_neutral obj count depth c r : neutral c = true ->
  sk_scan obj count depth false false (c :: r) = sk_scan obj count depth false false r.
Proof.
  unfold neutral. intro H. cbn [sk_scan].
  destruct (N.eqb_spec c 123); [lia|]. destruct (N.eqb_spec c 125); [lia|]. destruct (N.eqb_spec c 91); [lia|].
  destruct (N.eqb_spec c 93); [lia|]. destruct (N.eqb_spec c 34); [lia|]. destruct (N.eqb_spec c 0); [lia|]. reflexivity.
Qed.

Lemma scan_neutrals obj count depth p : forall k, forallb neutral p = true ->
  sk_scan obj count depth false false (p ++ k) = sk_scan obj count depth false false k.
Proof.
  induction p as [|c p IH]; intros k H; [reflexivity|]. cbn [forallb] in H. apply andb_true_iff in H. destruct H as [Hc Hp].
  cbn [app]. rewrite (scan_neutral _ _ _ c _ Hc). apply IH. exact Hp.
Qed.

Lemma ws_neutral c : ws_b c = true -> neutral c = true.
Proof. unfold ws_b, neutral. lia. Qed.

Lemma all_ws_neutral w : all_ws w = true -> forallb neutral w = true.
Proof.
  induction w as [|c w IH]; intro H; [reflexivity|]. cbn [all_ws] in H. apply andb_true_iff in H. destruct H as [Hc Hw].
  cbn [forallb]. rewrite (ws_neutral c Hc), (IH Hw). reflexivity.
Qed.

Lemma numchar_neutral c : numchar_b c = true -> neutral c = true.
Proof. unfold numchar_b, digit_b, neutral. lia. Qed.

Lemma skip_ws_prefix l : exists w, l = w ++ skip_ws l /\ all_ws w = true.
Proof.
  induction l as [|c r (w & Hw & Ha)]; [exists []; split; reflexivity|]. cbn [skip_ws]. destruct (ws_b c) eqn:E.
  - exists (c :: w). split; [cbn [app]; f_equal; exact Hw|cbn [all_ws]; rewrite E, Ha; reflexivity].
  - exists []. split; reflexivity.
Qed.

Lemma scan_skip_ws obj count depth l k :
  sk_scan obj count depth false false (l ++ k) = sk_scan obj count depth false false (skip_ws l ++ k).
Proof.
  destruct (skip_ws_prefix l) as (w & Hw & Ha). rewrite Hw at 1. rewrite <- app_assoc.
  apply scan_neutrals. apply all_ws_neutral. exact Ha.
Qed.

(* a string body, from inside the string to behind the closing quote *)
Lemma scan_string_body obj count depth : forall n l, (length l <= n)%nat -> forall b rest k,
  p_string_body l = Some (b, rest) ->
  sk_scan obj count depth true false (l ++ k) = sk_scan obj count depth false false (rest ++ k).
Proof.
  induction n as [|n IH]; intros l Hl b rest k H; [destruct l; [discriminate|cbn in Hl; lia]|].
  destruct l as [|c l]; [discriminate|]. cbn [length] in Hl. cbn [p_string_body] in H. cbn [app sk_scan].
  destruct (N.eqb_spec c 34) as [E|E].
  { subst c. inversion H; subst. reflexivity. }
  destruct (N.eqb_spec c 92) as [E1|E1].
  - subst c. destruct l as [|e r1]; [discriminate|]. cbn [length] in Hl. cbn [app sk_scan].
    destruct (simple_esc_b e) eqn:Es.
    + assert (e =? 0 = false) by (unfold simple_esc_b in Es; lia). rewrite H0.
      destruct (p_string_body r1) as [[b1 rest1]|] eqn:Eb; [|discriminate]. inversion H; subst.
      apply (IH r1 ltac:(lia) b1 rest k Eb).
    + destruct (N.eqb_spec e 117) as [Eu|Eu]; [|discriminate]. subst e. change (117 =? 0) with false. cbn iota.
      destruct r1 as [|h1 [|h2 [|h3 [|h4 r2]]]]; try discriminate. cbn [length] in Hl.
      destruct (hex_b h1 && hex_b h2 && hex_b h3 && hex_b h4) eqn:Eh; [|discriminate].
      destruct (p_string_body r2) as [[b1 rest1]|] eqn:Eb; [|discriminate]. inversion H; subst.
      assert (Hn : forall h, hex_b h = true -> (h =? 92) = false /\ (h =? 34) = false /\ (h =? 0) = false) by (intros h Hh; unfold hex_b, digit_b in Hh; lia).
      cbn [app sk_scan].
      assert (Hh : hex_b h1 = true /\ hex_b h2 = true /\ hex_b h3 = true /\ hex_b h4 = true)
        by (destruct (hex_b h1), (hex_b h2), (hex_b h3), (hex_b h4); try discriminate; repeat split).
      destruct Hh as (Hh1 & Hh2 & Hh3 & Hh4).
      destruct (Hn h1 Hh1) as (A1 & A2 & A3). destruct (Hn h2 Hh2) as (B1 & B2 & B3).
      destruct (Hn h3 Hh3) as (C1 & C2 & C3). destruct (Hn h4 Hh4) as (D1 & D2 & D3).
      rewrite A1, A2, A3, B1, B2, B3, C1, C2, C3, D1, D2, D3.
      apply (IH r2 ltac:(lia) b1 rest k Eb).
  - destruct (c <? 32) eqn:Ec; [discriminate|].
    assert (c =? 0 = false) by lia. rewrite H0.
    destruct (p_string_body l) as [[b1 rest1]|] eqn:Eb; [|discriminate]. inversion H; subst.
    apply (IH l ltac:(lia) b1 rest k Eb).
Qed.

(* the same for skipValue's own string loop *)
Lemma sk_string_body : forall n l, (length l <= n)%nat -> forall b rest k,
  p_string_body l = Some (b, rest) -> sk_string false (l ++ k) = SOk (rest ++ k).
Proof.
  induction n as [|n IH]; intros l Hl b rest k H; [destruct l; [discriminate|cbn in Hl; lia]|].
  destruct l as [|c l]; [discriminate|]. cbn [length] in Hl. cbn [p_string_body] in H. cbn [app sk_string].
  destruct (N.eqb_spec c 34) as [E|E].
  { subst c. inversion H; subst. reflexivity. }
  destruct (N.eqb_spec c 92) as [E1|E1].
  - subst c. destruct l as [|e r1]; [discriminate|]. cbn [length] in Hl. cbn [app sk_string].
    destruct (simple_esc_b e) eqn:Es.
    + assert (e =? 0 = false) by (unfold simple_esc_b in Es; lia). rewrite H0.
      destruct (p_string_body r1) as [[b1 rest1]|] eqn:Eb; [|discriminate]. inversion H; subst.
      apply (IH r1 ltac:(lia) b1 rest k Eb).
    + destruct (N.eqb_spec e 117) as [Eu|Eu]; [|discriminate]. subst e. change (117 =? 0) with false. cbn iota.
      destruct r1 as [|h1 [|h2 [|h3 [|h4 r2]]]]; try discriminate. cbn [length] in Hl.
      destruct (hex_b h1 && hex_b h2 && hex_b h3 && hex_b h4) eqn:Eh; [|discriminate].
      destruct (p_string_body r2) as [[b1 rest1]|] eqn:Eb; [|discriminate]. inversion H; subst.
      assert (Hn : forall h, hex_b h = true -> (h =? 92) = false /\ (h =? 34) = false /\ (h =? 0) = false) by (intros h Hh; unfold hex_b, digit_b in Hh; lia).
      cbn [app sk_string].
      assert (Hh : hex_b h1 = true /\ hex_b h2 = true /\ hex_b h3 = true /\ hex_b h4 = true)
        by (destruct (hex_b h1), (hex_b h2), (hex_b h3), (hex_b h4); try discriminate; repeat split).
      destruct Hh as (Hh1 & Hh2 & Hh3 & Hh4).
      destruct (Hn h1 Hh1) as (A1 & A2 & A3). destruct (Hn h2 Hh2) as (B1 & B2 & B3).
      destruct (Hn h3 Hh3) as (C1 & C2 & C3). destruct (Hn h4 Hh4) as (D1 & D2 & D3).
      rewrite A1, A2, A3, B1, B2, B3, C1, C2, C3, D1, D2, D3.
      apply (IH r2 ltac:(lia) b1 rest k Eb).
  - destruct (c <? 32) eqn:Ec; [discriminate|].
    assert (c =? 0 = false) by lia. rewrite H0.
    destruct (p_string_body l) as [[b1 rest1]|] eqn:Eb; [|discriminate]. inversion H; subst.
    apply (IH l ltac:(lia) b1 rest k Eb).
Qed.

Definition slim : option nat := Some max_depth.

Lemma depth_fits d : depth_ok slim d = true -> (dmax <? Z.of_nat d + 1)%Z = false.
Proof. unfold depth_ok, slim, max_depth, dmax. intro H. apply Nat.leb_le in H. lia. Qed.

Notation SC := (fun obj count d => sk_scan obj count (Z.of_nat d) false false).

(* inside skipObject / skipArray every value, and every member and element list up to
   its closer, leaves the machine where it was *)
Theorem scan_steps_over f :
  (forall d l ts rest, pg_value slim allnum f d l = Some (ts, rest) ->
     forall obj count k, (1 <= count)%nat -> SC obj count d (l ++ k) = SC obj count d (rest ++ k)) /\
  (forall d l ts rest, pg_members slim allnum f d l = Some (ts, rest) ->
     forall obj count k, (1 <= count)%nat -> SC obj count d (l ++ k) = SC obj count d (125 :: rest ++ k)) /\
  (forall d l ts rest, pg_elements slim allnum f d l = Some (ts, rest) ->
     forall obj count k, (1 <= count)%nat -> SC obj count d (l ++ k) = SC obj count d (93 :: rest ++ k)).
Proof.
  induction f as [|f (IHv & IHm & IHe)]; [split; [|split]; intros; discriminate|].
  split; [|split].
  - intros d l ts rest H obj count k Hcnt. cbn [pg_value] in H. rewrite scan_skip_ws.
    destruct (skip_ws l) as [|c r] eqn:Es; [discriminate|].
    destruct (N.eqb_spec c 123) as [E|E].
    { subst c. destruct (depth_ok slim d) eqn:Ed; [|discriminate]. cbn [negb] in H.
      cbn [app sk_scan]. change (123 =? 123) with true. cbn iota. cbv zeta. rewrite (depth_fits d Ed).
      replace (Z.of_nat d + 1)%Z with (Z.of_nat (S d)) by lia.
      rewrite scan_skip_ws.
      destruct (skip_ws r) as [|c1 r'] eqn:Er; [discriminate|].
      destruct (N.eqb_spec c1 125) as [E1|E1].
      - subst c1. inversion H; subst. cbn [app sk_scan]. change (125 =? 123) with false. change (125 =? 125) with true. cbn iota.
        replace (Z.of_nat (S d) - 1)%Z with (Z.of_nat d) by lia.
        destruct obj; [|reflexivity]. destruct count; [lia|reflexivity].
      - destruct (pg_members slim allnum f (S d) (c1 :: r')) as [[ts' rest']|] eqn:Em; [|discriminate]. inversion H; subst.
        rewrite (IHm _ _ _ _ Em) by (destruct obj; lia). cbn [sk_scan]. change (125 =? 123) with false. change (125 =? 125) with true. cbn iota.
        replace (Z.of_nat (S d) - 1)%Z with (Z.of_nat d) by lia.
        destruct obj; [|reflexivity]. destruct count; [lia|reflexivity]. }
    destruct (N.eqb_spec c 91) as [E2|E2].
    { subst c. destruct (depth_ok slim d) eqn:Ed; [|discriminate]. cbn [negb] in H.
      cbn [app sk_scan]. change (91 =? 123) with false. change (91 =? 125) with false. change (91 =? 91) with true. cbn iota. cbv zeta. rewrite (depth_fits d Ed).
      replace (Z.of_nat d + 1)%Z with (Z.of_nat (S d)) by lia.
      rewrite scan_skip_ws.
      destruct (skip_ws r) as [|c1 r'] eqn:Er; [discriminate|].
      destruct (N.eqb_spec c1 93) as [E1|E1].
      - subst c1. inversion H; subst. cbn [app sk_scan]. change (93 =? 123) with false. change (93 =? 125) with false. change (93 =? 91) with false. change (93 =? 93) with true. cbn iota.
        replace (Z.of_nat (S d) - 1)%Z with (Z.of_nat d) by lia.
        destruct obj; [reflexivity|]. destruct count; [lia|reflexivity].
      - destruct (pg_elements slim allnum f (S d) (c1 :: r')) as [[ts' rest']|] eqn:Em; [|discriminate]. inversion H; subst.
        rewrite (IHe _ _ _ _ Em) by (destruct obj; lia). cbn [sk_scan]. change (93 =? 123) with false. change (93 =? 125) with false. change (93 =? 91) with false. change (93 =? 93) with true. cbn iota.
        replace (Z.of_nat (S d) - 1)%Z with (Z.of_nat d) by lia.
        destruct obj; [reflexivity|]. destruct count; [lia|reflexivity]. }
    destruct (N.eqb_spec c 34) as [E3|E3].
    { subst c. destruct (p_string_body r) as [[b rest']|] eqn:Eb; [|discriminate]. inversion H; subst.
      cbn [app sk_scan]. change (34 =? 123) with false. change (34 =? 125) with false. change (34 =? 91) with false. change (34 =? 93) with false. change (34 =? 34) with true. cbn iota.
      apply (scan_string_body obj count (Z.of_nat d) (length r) r (le_n _) b rest k Eb). }
    destruct ((c =? 45) || digit_b c) eqn:E4.
    { destruct (span numchar_b (c :: r)) as [num rest'] eqn:Esp.
      destruct (json_number num && allnum num) eqn:Ej; [|discriminate]. inversion H; subst.
      destruct (span_spec numchar_b (c :: r) num rest Esp) as [Hl Hf]. rewrite Hl. rewrite <- app_assoc.
      apply scan_neutrals. apply forallb_forall. intros x Hx. rewrite forallb_forall in Hf. apply numchar_neutral. apply Hf. exact Hx. }
    destruct (N.eqb_spec c 116) as [E5|E5].
    { subst c. destruct (starts [114; 117; 101] r) as [rest'|] eqn:Est; [|discriminate]. inversion H; subst.
      rewrite (starts_spec _ _ _ Est). change (116 :: [114; 117; 101] ++ rest) with ([116; 114; 117; 101] ++ rest). rewrite <- app_assoc.
      apply scan_neutrals. reflexivity. }
    destruct (N.eqb_spec c 102) as [E6|E6].
    { subst c. destruct (starts [97; 108; 115; 101] r) as [rest'|] eqn:Est; [|discriminate]. inversion H; subst.
      rewrite (starts_spec _ _ _ Est). change (102 :: [97; 108; 115; 101] ++ rest) with ([102; 97; 108; 115; 101] ++ rest). rewrite <- app_assoc.
      apply scan_neutrals. reflexivity. }
    destruct (N.eqb_spec c 110) as [E7|E7].
    { subst c. destruct (starts [117; 108; 108] r) as [rest'|] eqn:Est; [|discriminate]. inversion H; subst.
      rewrite (starts_spec _ _ _ Est). change (110 :: [117; 108; 108] ++ rest) with ([110; 117; 108; 108] ++ rest). rewrite <- app_assoc.
      apply scan_neutrals. reflexivity. }
    discriminate.
  - intros d l ts rest H obj count k Hcnt. cbn [pg_members] in H. rewrite scan_skip_ws.
    destruct (skip_ws l) as [|q r] eqn:Es; [discriminate|].
    destruct (N.eqb_spec q 34) as [Eq|Eq]; cbn [negb] in H; [|discriminate]. subst q.
    destruct (p_string_body r) as [[key r1]|] eqn:Ek; [|discriminate].
    cbn [app sk_scan]. change (34 =? 123) with false. change (34 =? 125) with false. change (34 =? 91) with false. change (34 =? 93) with false. change (34 =? 34) with true. cbn iota.
    rewrite (scan_string_body obj count (Z.of_nat d) (length r) r (le_n _) key r1 k Ek).
    rewrite scan_skip_ws.
    destruct (skip_ws r1) as [|c r2] eqn:E1; [discriminate|].
    destruct (N.eqb_spec c 58) as [Ec|Ec]; cbn [negb] in H; [|discriminate]. subst c.
    cbn [app]. rewrite (scan_neutral obj count (Z.of_nat d) 58 _ eq_refl).
    destruct (pg_value slim allnum f d r2) as [[vt r3]|] eqn:Ev; [|discriminate].
    rewrite (IHv _ _ _ _ Ev) by exact Hcnt. rewrite scan_skip_ws.
    destruct (skip_ws r3) as [|c3 r4] eqn:E3; [discriminate|].
    destruct (N.eqb_spec c3 125) as [E5|E5].
    { subst c3. inversion H; subst. reflexivity. }
    destruct (N.eqb_spec c3 44) as [E6|E6]; [|discriminate]. subst c3.
    destruct (pg_members slim allnum f d r4) as [[ts' rest']|] eqn:Em; [|discriminate]. inversion H; subst.
    cbn [app]. rewrite (scan_neutral obj count (Z.of_nat d) 44 _ eq_refl). apply (IHm _ _ _ _ Em). exact Hcnt.
  - intros d l ts rest H obj count k Hcnt. cbn [pg_elements] in H.
    destruct (pg_value slim allnum f d l) as [[vt r1]|] eqn:Ev; [|discriminate].
    rewrite (IHv _ _ _ _ Ev) by exact Hcnt. rewrite scan_skip_ws.
    destruct (skip_ws r1) as [|c r2] eqn:E1; [discriminate|].
    destruct (N.eqb_spec c 93) as [E5|E5].
    { subst c. inversion H; subst. reflexivity. }
    destruct (N.eqb_spec c 44) as [E6|E6]; [|discriminate]. subst c.
    destruct (pg_elements slim allnum f d r2) as [[ts' rest']|] eqn:Em; [|discriminate]. inversion H; subst.
    cbn [app]. rewrite (scan_neutral obj count (Z.of_nat d) 44 _ eq_refl). apply (IHe _ _ _ _ Em). exact Hcnt.
Qed.

Lemma c_value_ws_app l k : all_ws l = true -> c_value_ws (l ++ k) = c_value_ws k.
Proof.
  induction l as [|c l IH]; intro H; [reflexivity|]. cbn [all_ws] in H. apply andb_true_iff in H. destruct H as [Hc Hl].
  cbn [app c_value_ws]. rewrite is_ws_ws_b, Hc. apply IH. exact Hl.
Qed.

Lemma d_literal_ok word rest : word <> [] -> d_literal word (word ++ rest ++ [0]) = COk (rest ++ [0]).
Proof.
  intro Hne. unfold d_literal. rewrite !app_length. cbn [length].
  assert (1 <= length word)%nat by (destruct word; [congruence|cbn; lia]).
  destruct (Nat.leb_spec (length word + (length rest + 1)) (length word - 1)); [lia|].
  rewrite firstn_app, Nat.sub_diag, firstn_all. cbn [firstn]. rewrite app_nil_r.
  rewrite (proj2 (list_eqb_eq word word) eq_refl).
  rewrite skipn_app, Nat.sub_diag, skipn_all. reflexivity.
Qed.

(* skipValue at depth d (as the element and member decoders call it) steps over every value of the
   language the interface decoder accepts at that depth, and lands right behind it *)
Theorem skip_value_complete f d l ts rest : pg_value slim allnum f d l = Some (ts, rest) ->
  sk_value (Z.of_nat d) (l ++ [0]) = SOk (rest ++ [0]).
Proof.
  intro H. destruct (scan_steps_over f) as (_ & SM & SE). destruct f as [|f]; [discriminate|].
  cbn [pg_value] in H. unfold sk_value.
  destruct (skip_ws_prefix l) as (w & Hw & Ha). rewrite Hw. rewrite <- app_assoc. rewrite (c_value_ws_app w _ Ha).
  destruct (skip_ws l) as [|c r] eqn:Es; [discriminate|].
  assert (Hc : ws_b c = false) by exact (skip_ws_head _ _ _ Es).
  cbn [app c_value_ws]. rewrite is_ws_ws_b, Hc.
  destruct (scan_steps_over f) as (_ & SMf & SEf).
  destruct (N.eqb_spec c 123) as [E|E].
  { subst c. destruct (depth_ok slim d) eqn:Ed; [|discriminate]. cbn [negb] in H.
    replace (Z.of_nat d + 1)%Z with (Z.of_nat (S d)) by lia. rewrite scan_skip_ws.
    destruct (skip_ws r) as [|c1 r'] eqn:Er; [discriminate|].
    destruct (N.eqb_spec c1 125) as [E1|E1].
    - subst c1. inversion H; subst. reflexivity.
    - destruct (pg_members slim allnum f (S d) (c1 :: r')) as [[ts' rest']|] eqn:Em; [|discriminate]. inversion H; subst.
      rewrite (SMf _ _ _ _ Em) by lia. reflexivity. }
  destruct (N.eqb_spec c 91) as [E2|E2].
  { subst c. destruct (depth_ok slim d) eqn:Ed; [|discriminate]. cbn [negb] in H.
    replace (Z.of_nat d + 1)%Z with (Z.of_nat (S d)) by lia. rewrite scan_skip_ws.
    destruct (skip_ws r) as [|c1 r'] eqn:Er; [discriminate|].
    destruct (N.eqb_spec c1 93) as [E1|E1].
    - subst c1. inversion H; subst. reflexivity.
    - destruct (pg_elements slim allnum f (S d) (c1 :: r')) as [[ts' rest']|] eqn:Em; [|discriminate]. inversion H; subst.
      rewrite (SEf _ _ _ _ Em) by lia. reflexivity. }
  destruct (N.eqb_spec c 34) as [E3|E3].
  { subst c. destruct (p_string_body r) as [[b rest']|] eqn:Eb; [|discriminate]. inversion H; subst.
    apply (sk_string_body (length r) r (le_n _) b rest [0] Eb). }
  destruct ((c =? 45) || digit_b c) eqn:E4.
  { change (isdig c) with (digit_b c). rewrite E4.
    destruct (span numchar_b (c :: r)) as [num rest'] eqn:Esp.
    destruct (json_number num && allnum num) eqn:Ej; [|discriminate]. inversion H; subst.
    assert (Hn : numchar_b c = true).
    { unfold numchar_b. apply orb_true_iff in E4. destruct E4 as [E4'|E4']; rewrite E4'; [apply orb_true_r|reflexivity]. }
    cbn [span] in Esp. rewrite Hn in Esp. destruct (span numchar_b r) as [a b] eqn:Esr. inversion Esp; subst.
    rewrite (d_span_float_sentinel r a rest Esr). reflexivity. }
  change (isdig c) with (digit_b c). rewrite E4.
  destruct (N.eqb_spec c 116) as [E5|E5].
  { subst c. destruct (starts [114; 117; 101] r) as [rest'|] eqn:Est; [|discriminate]. inversion H; subst.
    rewrite (starts_spec _ _ _ Est). rewrite <- app_assoc.
    change (116 :: [114; 117; 101] ++ rest ++ [0]) with ([116; 114; 117; 101] ++ rest ++ [0]). rewrite d_literal_ok by discriminate. reflexivity. }
  destruct (N.eqb_spec c 102) as [E6|E6].
  { subst c. destruct (starts [97; 108; 115; 101] r) as [rest'|] eqn:Est; [|discriminate]. inversion H; subst.
    rewrite (starts_spec _ _ _ Est). rewrite <- app_assoc.
    change (102 :: [97; 108; 115; 101] ++ rest ++ [0]) with ([102; 97; 108; 115; 101] ++ rest ++ [0]). rewrite d_literal_ok by discriminate. reflexivity. }
  destruct (N.eqb_spec c 110) as [E7|E7].
  { subst c. destruct (starts [117; 108; 108] r) as [rest'|] eqn:Est; [|discriminate]. inversion H; subst.
    rewrite (starts_spec _ _ _ Est). rewrite <- app_assoc.
    change (110 :: [117; 108; 108] ++ rest ++ [0]) with ([110; 117; 108; 108] ++ rest ++ [0]). rewrite d_literal_ok by discriminate. reflexivity. }
  discriminate.
Qed.

(* the machines never read past the sentinel *)
Lemma scan_never_stuck obj : forall l count depth instr esc, sk_scan obj count depth instr esc (l ++ [0]) <> SStuck.
Proof.
  induction l as [|c l IH]; intros count depth instr esc.
  - cbn. destruct instr; [destruct esc|]; discriminate.
  - cbn [app sk_scan].
    repeat match goal with
    | |- (if ?b then _ else _) <> _ => destruct b
    | |- (let _ := _ in _) <> _ => cbv zeta
    | |- (match ?c with O => _ | S _ => _ end) <> _ => destruct c as [|[|?]]
    end; try discriminate; try apply IH.
Qed.

Lemma sk_string_never_stuck : forall l esc, sk_string esc (l ++ [0]) <> SStuck.
Proof.
  induction l as [|c l IH]; intro esc.
  - cbn. destruct esc; discriminate.
  - cbn [app sk_string]. repeat match goal with |- (if ?b then _ else _) <> _ => destruct b end; try discriminate; apply IH.
Qed.

(* the recorded leniency: texts that are no JSON values are stepped over *)
Theorem skip_value_lenient_refuted :
  exists data, rfc_json data = false /\ sk_value 1 (data ++ [0]) = SOk [0].
Proof. exists [91; 49; 32; 50; 32; 125; 125; 93]. split; vm_compute; reflexivity. Qed.

Lemma d_literal_not_stuck w l : of_cres (d_literal w l) <> SStuck.
Proof. unfold d_literal. destruct (Nat.leb (length l) (length w - 1)); [discriminate|]. destruct (list_eqb (firstn (length w) l) w); discriminate. Qed.

(* skipValue never reads past the sentinel, whatever the input *)
Theorem skip_value_never_stuck depth data : sk_value depth (data ++ [0]) <> SStuck.
Proof.
  unfold sk_value. rewrite c_value_ws_sentinel.
  destruct (skip_ws data) as [|c r]; [cbn; discriminate|]. cbn [app].
  destruct (c =? 123); [apply scan_never_stuck|].
  destruct (c =? 91); [apply scan_never_stuck|].
  destruct (c =? 34); [apply sk_string_never_stuck|].
  destruct ((c =? 45) || isdig c).
  { destruct (span numchar_b r) as [a b] eqn:E. rewrite (d_span_float_sentinel r a b E). discriminate. }
  destruct (c =? 116); [apply d_literal_not_stuck|].
  destruct (c =? 102); [apply d_literal_not_stuck|].
  destruct (c =? 110); [apply d_literal_not_stuck|].
  discriminate.
Qed.
