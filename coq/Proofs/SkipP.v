(* The skip functions accept exactly the values of the grammar, at every nesting depth, whatever follows the value,
   and leave the cursor right behind it; they never read outside the buffer and never run out of fuel.  All of it
   through the relation between the walk of Compact and the RFC 8259 parser (Proofs/CompactP.v). *)
From Coq Require Import NArith ZArith List Bool Lia.
From GJ Require Import Base.Bytes Gen.Tables Model.Int Model.Compact Model.Iface Model.Skip Spec.Json Proofs.CompactP.
Import ListNotations.
Open Scope N_scope.

Lemma fuel_enough (ls : list N) : (2 * length (ls ++ [0%N]) + 2 >= 2 * length ls + 2)%nat.
Proof. rewrite app_length. cbn. lia. Qed.

(* what the parser says about the text behind the cursor decides what the skip function does *)
Theorem skip_value_spec d ls :
  sk_value d (ls ++ [0]) =
  match pg_value clim allnum (2 * length (ls ++ [0]) + 2) d ls with
  | Some (_, rest) => SOk (rest ++ [0])
  | None => SErr
  end.
Proof.
  unfold sk_value. destruct (compact_rel (2 * length (ls ++ [0]) + 2)) as (Hv & _ & _).
  specialize (Hv d ls). unfold val_rel in Hv.
  destruct (pg_value clim allnum (2 * length (ls ++ [0]) + 2) d ls) as [[ts rest]|].
  - rewrite Hv. reflexivity.
  - destruct Hv as [E|[E B]]; [rewrite E; reflexivity|]. exfalso. pose proof (fuel_enough ls). lia.
Qed.

(* complete: every value of the grammar at depth d is stepped over, the cursor lands right behind it *)
Theorem skip_value_complete d ls ts rest :
  pg_value clim allnum (2 * length (ls ++ [0]) + 2) d ls = Some (ts, rest) -> sk_value d (ls ++ [0]) = SOk (rest ++ [0]).
Proof. intro H. rewrite skip_value_spec, H. reflexivity. Qed.

(* sound: nothing but a value of the grammar is stepped over *)
Theorem skip_value_sound d ls r :
  sk_value d (ls ++ [0]) = SOk r -> exists ts rest, pg_value clim allnum (2 * length (ls ++ [0]) + 2) d ls = Some (ts, rest) /\ r = rest ++ [0].
Proof.
  rewrite skip_value_spec. destruct (pg_value clim allnum (2 * length (ls ++ [0]) + 2) d ls) as [[ts rest]|]; [|discriminate].
  intro H. inversion H. exists ts, rest. split; reflexivity.
Qed.

Theorem skip_value_never_stuck d data : sk_value d (data ++ [0]) <> SStuck /\ sk_value d (data ++ [0]) <> SFuel.
Proof. rewrite skip_value_spec. destruct (pg_value _ _ _ _ _) as [[ts rest]|]; split; discriminate. Qed.

(* the text the old scanners stepped over as one value (finding SkipUnvalidated, repaired) is refused *)
Example skip_refuses_non_json : skip_run [91; 49; 32; 50; 32; 125; 125; 93] = SErr.
Proof. vm_compute. reflexivity. Qed.
