From Coq Require Import List String Bool.
From GJ Require Import Model.Emptiness Gen.Twins.
Import ListNotations.
Open Scope string_scope.

Definition all_kinds : list string :=
  ["Bool"; "Int"; "Int8"; "Int16"; "Int32"; "Int64"; "Uint"; "Uint8"; "Uint16"; "Uint32"; "Uint64"; "Uintptr"; "Float32"; "Float64";
   "Complex64"; "Complex128"; "Array"; "Chan"; "Func"; "Interface"; "Map"; "Ptr"; "Slice"; "String"; "Struct"; "UnsafePointer"].

(* the rule the source gives every kind *)
Lemma rules_read : map (rule_of marshaler_field_empty_rules) all_kinds =
  [RNotTrue; RNumZero; RNumZero; RNumZero; RNumZero; RNumZero; RNumZero; RNumZero; RNumZero; RNumZero; RNumZero; RNumZero; RNumZero; RNumZero;
   RNever; RNever; REmpty; RNever; RNever; RNil; REmpty; RNil; REmpty; REmpty; RNever; RNever].
Proof. vm_compute. reflexivity. Qed.

Lemma in_all_kinds_cases k : In k all_kinds ->
  k = "Bool" \/ k = "Int" \/ k = "Int8" \/ k = "Int16" \/ k = "Int32" \/ k = "Int64" \/ k = "Uint" \/ k = "Uint8" \/ k = "Uint16" \/ k = "Uint32" \/
  k = "Uint64" \/ k = "Uintptr" \/ k = "Float32" \/ k = "Float64" \/ k = "Complex64" \/ k = "Complex128" \/ k = "Array" \/ k = "Chan" \/ k = "Func" \/
  k = "Interface" \/ k = "Map" \/ k = "Ptr" \/ k = "Slice" \/ k = "String" \/ k = "Struct" \/ k = "UnsafePointer".
Proof. unfold all_kinds. cbn [In]. intro H. repeat (destruct H as [H|H]; [subst k; tauto|]). contradiction. Qed.

Definition omits := impl_omits marshaler_field_empty_rules omitempty_marshaler_head_skips_nil_pointer omitempty_marshaler_field_skips_nil_pointer.

(* for every value of every kind, as first member and as a later one: the library leaves the member out exactly when
   encoding/json does, but for a nil func / chan after the first member *)
Theorem marshaler_field_emptiness pos v : In (kind v) all_kinds -> coherent v = true ->
  omits pos v = Some (std_empty v) \/ named_exception pos v = true.
Proof.
  intros Hk Hc. destruct v as [k t nz bz nl lz]. cbn [kind] in Hk.
  apply in_all_kinds_cases in Hk.
  unfold coherent in Hc. cbn [kind bits_zero num_zero is_nil len_zero] in Hc.
  repeat (destruct Hk as [Hk|Hk]; [subst k; destruct pos, t, nz, bz, nl, lz; try discriminate Hc; vm_compute; tauto|]).
  subst k; destruct pos, t, nz, bz, nl, lz; try discriminate Hc; vm_compute; tauto.
Qed.

(* the named case does part the two, and only after the first member; what used to part them no longer does *)
Theorem named_cases_differ :
  let arr := {| kind := "Array"; truth := false; num_zero := false; bits_zero := false; is_nil := false; len_zero := true |} in
  let mp := {| kind := "Map"; truth := false; num_zero := false; bits_zero := false; is_nil := false; len_zero := true |} in
  let nz := {| kind := "Float64"; truth := false; num_zero := true; bits_zero := false; is_nil := false; len_zero := false |} in
  let fn := {| kind := "Func"; truth := false; num_zero := false; bits_zero := false; is_nil := true; len_zero := false |} in
  let ch := {| kind := "Chan"; truth := false; num_zero := false; bits_zero := false; is_nil := true; len_zero := false |} in
  Forall (fun v => coherent v = true /\ named_exception Later v = true /\ omits Later v = Some (negb (std_empty v)) /\ omits First v = Some (std_empty v)) [fn; ch] /\
  Forall (fun v => coherent v = true /\ omits Later v = Some true /\ omits First v = Some true /\ std_empty v = true) [arr; mp; nz].
Proof. cbv zeta. split; repeat constructor. Qed.

(* outside them: instances *)
Example emptiness_examples :
  omits Later {| kind := "String"; truth := false; num_zero := false; bits_zero := false; is_nil := false; len_zero := true |} = Some true /\
  omits First {| kind := "Interface"; truth := false; num_zero := false; bits_zero := false; is_nil := true; len_zero := false |} = Some true /\
  omits Later {| kind := "Struct"; truth := false; num_zero := false; bits_zero := false; is_nil := false; len_zero := false |} = Some false /\
  omits First {| kind := "Int8"; truth := false; num_zero := true; bits_zero := false; is_nil := false; len_zero := false |} = Some true /\
  omits Later {| kind := "Ptr"; truth := false; num_zero := false; bits_zero := false; is_nil := true; len_zero := false |} = Some true.
Proof. repeat split. Qed.
