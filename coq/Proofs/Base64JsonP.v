(* The characters base64 writes stand for themselves between the quotes of a JSON string: the decoder's string
   scanner hands the base64 text to the base64 decoder unchanged, and the literal "..." around it is a well-formed
   string token (for both HTML settings: none of them is one of < > &). *)
From Coq Require Import NArith List Bool Lia.
From GJ Require Import Base.Bytes Model.Int Model.StrDec Model.Decode Model.Compact Model.Base64 Proofs.StrBodyP Proofs.StrDecP Proofs.Base64P.
Import ListNotations.
Open Scope N_scope.

Lemma plain_raw_ok html c : plain_char c = true -> raw_ok html c = true /\ c <> 92.
Proof.
  unfold plain_char, raw_ok. intro H.
  destruct (N.leb_spec 32 c), (N.eqb_spec c 34), (N.eqb_spec c 92), (N.eqb_spec c 60), (N.eqb_spec c 62), (N.eqb_spec c 38);
    cbn in H; try discriminate H; destruct html; cbn; split; try reflexivity; try assumption;
    destruct (c <? 127); cbn in H; discriminate H.
Qed.

Lemma plain_body_ok html body : forallb plain_char body = true -> body_ok html body = true /\ nobs body.
Proof.
  induction body as [|c r IH]; intro H; [split; [reflexivity|constructor]|].
  cbn [forallb] in H. apply andb_true_iff in H. destruct H as [Hc Hr].
  destruct (plain_raw_ok html c Hc) as [R N92]. destruct (IH Hr) as [B NB].
  split; [rewrite (body_ok_raw html c r R); exact B|constructor; assumption].
Qed.

Theorem unq_plain body : forallb plain_char body = true -> unq body = Some body.
Proof.
  intro H. destruct (plain_body_ok false body H) as [Hb Hn].
  unfold unq, unmarshal_string. cbn [app str_decode_byte]. change (is_ws 34) with false. change (34 =? 34) with true. cbn iota.
  rewrite <- app_assoc. cbn [app].
  destruct (scan_body false (S (length (body ++ [34; 0]))) body [] false [0] Hb
              ltac:(rewrite app_length; cbn; lia)) as (esc' & E1 & E2).
  cbn [app] in E1. rewrite E1.
  rewrite (unquote_whole body esc' body (S (length body)));
    [|destruct E2 as [E2|[_ E2]]; [left; exact E2|right; exact E2]|lia|intros F' L; apply unescape_nobs; assumption].
  reflexivity.
Qed.

Theorem b64_text_is_plain bs : Forall (fun b => b < 256) bs -> forallb plain_char (b64enc bs) = true.
Proof.
  intro H. pose proof (b64enc_alphabet bs H) as A. rewrite forallb_forall in A |- *. intros c Hc. apply b64char_plain. apply A. exact Hc.
Qed.

(* what Unmarshal makes of the string Marshal wrote for a byte slice *)
Theorem b64_json_round_trip bs : Forall (fun b => b < 256) bs ->
  match unq (b64enc bs) with Some s => b64dec s | None => None end = Some bs.
Proof. intro H. rewrite (unq_plain _ (b64_text_is_plain bs H)). exact (b64_round_trip bs H). Qed.
