(* With HTML escaping on, the emitted string body contains neither U+2028 nor
   U+2029 as raw bytes (E2 80 A8 / E2 80 A9), normalised or not. *)
From Coq Require Import NArith ZArith List Bool Lia.
From Coq Require Import ZifyN ZifyNat ZifyBool.
From GJ Require Import Base.Bytes Base.Word64 Gen.Tables Gen.Swar Model.StrEnc Proofs.WordP Proofs.SwarP Proofs.StrBodyP.
Import ListNotations.
Open Scope N_scope.

Definition is_sep3 (l : list N) : bool :=
  match l with 226 :: 128 :: y :: _ => (y =? 168) || (y =? 169) | _ => false end.

Fixpoint sep_free (l : list N) : bool :=
  match l with [] => true | _ :: r => negb (is_sep3 l) && sep_free r end.

Lemma is_sep3_head c r : c <> 226 -> is_sep3 (c :: r) = false.
Proof.
  intro H. unfold is_sep3. destruct c as [|p]; [reflexivity|].
  repeat (destruct p as [p|p|]; try reflexivity). congruence.
Qed.

Lemma sep_free_cons c r : c <> 226 -> sep_free (c :: r) = sep_free r.
Proof. intro H. cbn [sep_free]. rewrite (is_sep3_head c r H). reflexivity. Qed.

Lemma sep_free_app p : forall r, Forall (fun c => c <> 226) p -> sep_free (p ++ r) = sep_free r.
Proof.
  induction p as [|c p IH]; intros r H; [reflexivity|]. inversion H as [|? ? Hc Hp]; subst.
  cbn [app]. rewrite sep_free_cons by exact Hc. apply IH. exact Hp.
Qed.

(* what follows a raw E2 *)
Definition after_e2 (l : list N) : bool := match l with 128 :: y :: _ => (y =? 168) || (y =? 169) | _ => false end.
Lemma sep_free_e2 r : sep_free (226 :: r) = negb (after_e2 r) && sep_free r.
Proof. reflexivity. Qed.

Lemma escape_no_e2 html c e : c < 256 -> escape_of html c = Some e -> Forall (fun x => x <> 226) e /\ exists t, e = 92 :: t.
Proof.
  intros Hc. unfold escape_of, u00.
  destruct ((c =? 92) || (c =? 34)) eqn:E1.
  { intro H; inversion H; subst. split; [repeat constructor; lia|eexists; reflexivity]. }
  destruct (c =? 10); [intro H; inversion H; subst; split; [repeat constructor; lia|eexists; reflexivity]|].
  destruct (c =? 13); [intro H; inversion H; subst; split; [repeat constructor; lia|eexists; reflexivity]|].
  destruct (c =? 9); [intro H; inversion H; subst; split; [repeat constructor; lia|eexists; reflexivity]|].
  assert (Hh : forall n, n < 16 -> hexdig n <> 226).
  { intros n Hn. pose (P := fun n => negb (hexdig n =? 226)).
    assert (HP : forallb P (upto_nat 16) = true) by (vm_compute; reflexivity).
    pose proof (forall_upto P 16 HP n Hn) as Q. unfold P in Q. lia. }
  assert (H4 : N.shiftr c 4 < 16) by (rewrite N.shiftr_div_pow2; change (2^4) with 16; apply N.div_lt_upper_bound; lia).
  assert (H15 : N.land c 15 < 16) by (change 15 with (N.ones 4); rewrite N.land_ones; apply N.mod_lt; discriminate).
  destruct (html && ((c =? 60) || (c =? 62) || (c =? 38))).
  { intro H; inversion H; subst. split; [|eexists; reflexivity].
    repeat constructor; try lia; apply Hh; assumption. }
  destruct (c <? 32); [|discriminate].
  intro H; inversion H; subst. split; [|eexists; reflexivity].
  repeat constructor; try lia; apply Hh; assumption.
Qed.

Lemma u202_no_e2 y : Forall (fun x => x <> 226) [92; 117; 50; 48; 50; hexdig (N.land y 15)].
Proof.
  assert (H15 : N.land y 15 < 16) by (change 15 with (N.ones 4); rewrite N.land_ones; apply N.mod_lt; discriminate).
  pose (P := fun n => negb (hexdig n =? 226)).
  assert (HP : forallb P (upto_nat 16) = true) by (vm_compute; reflexivity).
  pose proof (forall_upto P 16 HP _ H15) as Q. unfold P in Q.
  repeat constructor; lia.
Qed.

(* ---------- the normalising variants: everything goes through decode_rune ---------- *)

(* a rune passed through raw: continuation bytes are below E2, and it is not one of the separators *)
Definition rune_piece_ok (p : list N) : bool :=
  match p with
  | [] => true
  | c :: tail => forallb (fun b => b <? 226) tail && negb (is_sep3 p) && (negb (c =? 226) || Nat.leb 2 (length tail))
  end.

Lemma rune_piece_free p r : rune_piece_ok p = true -> sep_free (p ++ r) = sep_free r.
Proof.
  destruct p as [|c tail]; [reflexivity|]. unfold rune_piece_ok. intro H.
  apply andb_true_iff in H. destruct H as [H H3]. apply andb_true_iff in H. destruct H as [H1 H2].
  assert (Ht : Forall (fun x => x <> 226) tail).
  { apply Forall_forall. intros x Hx. rewrite forallb_forall in H1. specialize (H1 x Hx). lia. }
  cbn [app sep_free]. rewrite (sep_free_app tail r Ht).
  destruct (N.eqb_spec c 226) as [E|E].
  - subst c. cbn [negb orb] in H3. apply Nat.leb_le in H3.
    destruct tail as [|a [|b t]]; cbn [length] in H3; try lia.
    cbn [app] in *. change (is_sep3 (226 :: a :: b :: t ++ r)) with (is_sep3 (226 :: a :: b :: t)).
    rewrite H2. reflexivity.
  - rewrite (is_sep3_head c _ E). reflexivity.
Qed.

Lemma decode_rune_piece s size : ok s -> hd 0 s >= 128 ->
  decode_rune s = (RValid, size) -> rune_piece_ok (firstn (N.to_nat size) s) = true.
Proof.
  intros Hs Hh. unfold decode_rune.
  destruct s as [|s0 r]; [intro H; inversion H|]. cbn [hd] in Hh.
  inversion Hs as [|? ? Hs0 Hsr]; subst.
  (* the lead byte E2 has size 3 and accepts any continuation byte *)
  assert (HE2 : s0 = 226 -> tbl0 enc_first s0 = 3 /\ True) by (intros ->; split; [vm_compute; reflexivity|exact I]).
  set (x := tbl0 enc_first s0) in *.
  destruct (Z.to_N enc_as <=? x) eqn:EA0.
  { assert (Hne : s0 <> 226) by (intros ->; destruct (HE2 eq_refl) as [E _]; rewrite E in EA0; vm_compute in EA0; discriminate).
    destruct (x =? Z.to_N enc_xx); intro H; inversion H; subst.
    change (N.to_nat 1) with 1%nat. cbn [firstn rune_piece_ok forallb length]. rewrite (is_sep3_head s0 [] Hne). cbn. destruct (N.eqb_spec s0 226); [congruence|reflexivity]. }
  destruct (N.of_nat (length (s0 :: r)) <? N.land x 7); [intro H; inversion H|].
  destruct r as [|s1 r1]; [intro H; inversion H|].
  set (ok1 := if N.shiftr x 4 =? 0 then in_rng (Z.to_N enc_locb) (Z.to_N enc_hicb) s1
              else if N.shiftr x 4 =? 1 then in_rng 160 (Z.to_N enc_hicb) s1
              else if N.shiftr x 4 =? 2 then in_rng (Z.to_N enc_locb) 159 s1
              else if N.shiftr x 4 =? 3 then in_rng 144 (Z.to_N enc_hicb) s1
              else if N.shiftr x 4 =? 4 then in_rng (Z.to_N enc_locb) 143 s1 else true).
  destruct ok1 eqn:O1; cbn [negb]; [|intro H; inversion H].
  assert (Hx : N.shiftr x 4 <= 4).
  { pose (P := fun c => (Z.to_N enc_as <=? tbl0 enc_first c) || (N.shiftr (tbl0 enc_first c) 4 <=? 4)).
    assert (HP : forallb P all_bytes = true) by (vm_compute; reflexivity).
    pose proof (forall_bytes P HP s0 Hs0) as E. unfold P in E. fold x in E. rewrite EA0 in E. cbn [orb] in E. lia. }
  assert (H1 : s1 <= 191).
  { unfold ok1, in_rng in O1. change (Z.to_N enc_locb) with 128 in O1. change (Z.to_N enc_hicb) with 191 in O1.
    destruct (N.shiftr x 4 =? 0) eqn:A0; [lia|]. destruct (N.shiftr x 4 =? 1) eqn:A1; [lia|].
    destruct (N.shiftr x 4 =? 2) eqn:A2; [lia|]. destruct (N.shiftr x 4 =? 3) eqn:A3; [lia|].
    destruct (N.shiftr x 4 =? 4) eqn:A4; [lia|]. lia. }
  destruct (N.land x 7 <=? 2) eqn:L2.
  { assert (Hne : s0 <> 226) by (intros ->; destruct (HE2 eq_refl) as [E _]; rewrite E in L2; vm_compute in L2; discriminate).
    intro H; inversion H; subst. change (N.to_nat 2) with 2%nat. cbn [firstn rune_piece_ok forallb length].
    rewrite (is_sep3_head s0 _ Hne). destruct (N.eqb_spec s0 226); [congruence|]. cbn. lia. }
  destruct r1 as [|s2 r2]; [intro H; inversion H|].
  destruct (in_rng (Z.to_N enc_locb) (Z.to_N enc_hicb) s2) eqn:O2; cbn [negb]; [|intro H; inversion H].
  assert (H2 : s2 <= 191) by (unfold in_rng in O2; change (Z.to_N enc_hicb) with 191 in O2; lia).
  destruct (N.land x 7 <=? 3) eqn:L3.
  { destruct ((s0 =? 226) && (s1 =? 128)) eqn:E28.
    - destruct (s2 =? 168) eqn:E8; [intro H; inversion H|]. destruct (s2 =? 169) eqn:E9; [intro H; inversion H|].
      intro H; inversion H; subst. change (N.to_nat 3) with 3%nat. cbn [firstn rune_piece_ok forallb length].
      assert (s0 = 226 /\ s1 = 128) as [-> ->] by lia. cbn [is_sep3]. rewrite E8, E9. cbn. lia.
    - intro H; inversion H; subst. change (N.to_nat 3) with 3%nat. cbn [firstn rune_piece_ok forallb length].
      destruct (N.eqb_spec s0 226) as [E|E].
      + subst s0. assert (s1 <> 128) by lia. unfold is_sep3.
        destruct s1 as [|p1]; [cbn; lia|]. 
        assert (Y : (match N.pos p1 with 128 => match [s2] with y :: _ => (y =? 168) || (y =? 169) | [] => false end | _ => false end) = false).
        { repeat (destruct p1 as [p1|p1|]; try reflexivity). congruence. }
        rewrite Y. cbn. lia.
      + rewrite (is_sep3_head s0 _ E). cbn. lia. }
  assert (Hne : s0 <> 226) by (intros ->; destruct (HE2 eq_refl) as [E _]; rewrite E in L3; vm_compute in L3; discriminate).
  destruct r2 as [|s3 r3]; [intro H; inversion H|].
  destruct (in_rng (Z.to_N enc_locb) (Z.to_N enc_hicb) s3) eqn:O3; cbn [negb]; [|intro H; inversion H].
  assert (H3 : s3 <= 191) by (unfold in_rng in O3; change (Z.to_N enc_hicb) with 191 in O3; lia).
  intro H; inversion H; subst. change (N.to_nat 4) with 4%nat. cbn [firstn rune_piece_ok forallb length].
  rewrite (is_sep3_head s0 _ Hne). destruct (N.eqb_spec s0 226); [congruence|]. cbn. lia.
Qed.

Section Variant.
  Variable need : list N.
  Variable html normalize : bool.

  (* what the output starts with comes from what the input starts with (non-normalising walk) *)
  Lemma slow_after_e2 : normalize = false -> forall f r, ok r ->
    after_e2 (slow need html normalize f r) = true -> after_e2 r = true.
  Proof.
    intros En f r Hr. rewrite En.
    assert (Hd : forall f r, ok r -> forall y, (y = 168 \/ y = 169 \/ y = 128) ->
              match slow need html false f r with z :: _ => z = y | [] => False end -> match r with z :: _ => z = y | [] => False end).
    { intros f0 r0 Hr0 y Hy. destruct f0 as [|f0]; [cbn; tauto|]. destruct r0 as [|c r0]; [cbn; tauto|].
      inversion Hr0 as [|? ? Hc _]; subst. cbn [slow].
      destruct (tblb need c) eqn:T; cbn [negb]; [|tauto].
      destruct (escape_of html c) as [e|] eqn:Ee.
      { destruct (escape_no_e2 html c e Hc Ee) as [_ [t ->]]. cbn [app]. lia. }
      rewrite if_match_sep. destruct (if html then sep3 (c :: r0) else None); [cbn [app]; lia|tauto]. }
    intro H. unfold after_e2 in H.
    destruct (slow need html false f r) as [|z1 [|z2 rest]] eqn:E; try discriminate.
    1:{ destruct z1 as [|p]; try discriminate. repeat (destruct p as [p|p|]; try discriminate). }
    assert (z1 = 128).
    { destruct z1 as [|p]; try discriminate. repeat (destruct p as [p|p|]; try discriminate). reflexivity. }
    subst z1.
    (* the first byte *)
    destruct f as [|f]; [discriminate|]. destruct r as [|c r']; [discriminate|].
    inversion Hr as [|? ? Hc Hr']; subst. cbn [slow] in E.
    assert (Hfirst : c = 128 /\ slow need html false f r' = z2 :: rest).
    { destruct (tblb need c) eqn:T; cbn [negb] in E; [|inversion E; split; reflexivity].
      destruct (escape_of html c) as [e|] eqn:Ee.
      { destruct (escape_no_e2 html c e Hc Ee) as [_ [t ->]]. cbn [app] in E. inversion E. }
      rewrite if_match_sep in E. destruct (if html then sep3 (c :: r') else None); [cbn [app] in E; inversion E|].
      inversion E; split; reflexivity. }
    destruct Hfirst as [-> E2].
    assert (Hz : z2 = 168 \/ z2 = 169) by (cbn iota in H; lia).
    pose proof (Hd f r' Hr' z2 ltac:(lia)) as D. rewrite E2 in D. specialize (D eq_refl).
    destruct r' as [|c2 r'']; [contradiction|]. subst c2. unfold after_e2. destruct Hz as [-> | ->]; reflexivity.
  Qed.

  Hypothesis Htable : table_ok need html = true.
  (* E2 is a flagged byte: it never passes as an unflagged raw byte *)
  Hypothesis Hflag : tblb need 226 = true.
  (* either the rune decoder or the HTML case sees it *)
  Hypothesis Hmode : normalize || html = true.

  Theorem slow_sep_free f : forall s, ok s -> sep_free (slow need html normalize f s) = true.
  Proof.
    induction f as [|f IH]; intros s Hs; [reflexivity|].
    destruct s as [|c r]; [reflexivity|]. inversion Hs as [|? ? Hc Hr]; subst.
    cbn [slow]. destruct (tblb need c) eqn:T; cbn [negb].
    2:{ rewrite sep_free_cons by (intros ->; congruence). apply IH. exact Hr. }
    destruct (escape_of html c) as [e|] eqn:Ee.
    { destruct (escape_no_e2 html c e Hc Ee) as [He _]. rewrite (sep_free_app e _ He). apply IH. exact Hr. }
    pose proof (flagged_noesc need html Htable c Hc T Ee) as Hhigh.
    destruct normalize eqn:En.
    2:{ assert (Hh : html = true) by exact Hmode. rewrite Hh at 1.
        destruct (sep3 (c :: r)) as [y|] eqn:Es.
        - rewrite (sep_free_app _ _ (u202_no_e2 y)). apply IH. apply SwarP.ok_skipn. exact Hs.
        - destruct (N.eqb_spec c 226) as [E|E].
          + subst c. rewrite sep_free_e2. rewrite (IH r Hr). rewrite andb_true_r. apply negb_true_iff.
            destruct (after_e2 (slow need html false f r)) eqn:A; [|reflexivity]. exfalso.
            pose proof (slow_after_e2 En f r Hr) as SA. rewrite En in SA. specialize (SA A).
            (* then the input starts with a separator and sep3 would have seen it *)
            unfold after_e2 in SA. destruct r as [|a [|b t]]; try discriminate.
            { destruct a as [|p]; try discriminate. repeat (destruct p as [p|p|]; try discriminate). }
            assert (a = 128).
            { destruct a as [|p]; try discriminate. repeat (destruct p as [p|p|]; try discriminate). reflexivity. }
            subst a. cbn iota in SA. unfold sep3 in Es.
            assert (N.land b 254 =? 168 = true) by (assert (b = 168 \/ b = 169) as [-> | ->] by lia; reflexivity).
            rewrite H in Es. discriminate.
          + rewrite sep_free_cons by exact E. apply IH. exact Hr. }
    destruct (decode_rune (c :: r)) as [st size] eqn:D.
    destruct st.
    - rewrite (rune_piece_free _ _ (decode_rune_piece (c :: r) size Hs ltac:(cbn; lia) D)).
      apply IH. apply SwarP.ok_skipn. exact Hs.
    - rewrite sep_free_app by (repeat constructor; lia). apply IH. exact Hr.
    - rewrite sep_free_app by (repeat constructor; lia). apply IH. apply SwarP.ok_skipn. exact Hs.
    - rewrite sep_free_app by (repeat constructor; lia). apply IH. apply SwarP.ok_skipn. exact Hs.
  Qed.
End Variant.
