(* Facts about the specification itself (Spec/Json.v). *)
From Coq Require Import NArith ZArith List Bool Lia.
From Coq Require Import ZifyN ZifyNat ZifyBool.
From GJ Require Import Spec.Json Proofs.CompactLeafP.
Import ListNotations.
Open Scope N_scope.

Lemma span_length p l : let '(a, b) := span p l in (length a + length b = length l)%nat.
Proof.
  induction l as [|c r IH]; cbn [span]; [reflexivity|].
  destruct (p c); [|reflexivity]. destruct (span p r) as [a b]. cbn [length]. lia.
Qed.

(* every successful parse consumes at least one byte *)
Theorem spec_shorter lim numok f :
  (forall d ls ts rest, pg_value lim numok f d ls = Some (ts, rest) -> (length rest < length ls)%nat) /\
  (forall d ls ts rest, pg_members lim numok f d ls = Some (ts, rest) -> (length rest + 4 <= length ls)%nat) /\
  (forall d ls ts rest, pg_elements lim numok f d ls = Some (ts, rest) -> (length rest + 2 <= length ls)%nat).
Proof.
  induction f as [|f (IHv & IHm & IHe)]; [repeat split; intros; discriminate|].
  split; [|split].
  - intros d ls ts rest H. cbn [pg_value] in H. pose proof (skip_ws_length ls) as L0.
    destruct (skip_ws ls) as [|c r] eqn:Es; [discriminate|]. cbn [length] in L0.
    destruct (c =? 123).
    { destruct (negb (depth_ok lim d)); [discriminate|].
      pose proof (skip_ws_length r) as L1. destruct (skip_ws r) as [|c1 r1]; [discriminate|]. cbn [length] in L1.
      destruct (c1 =? 125); [inversion H; subst; lia|].
      destruct (pg_members lim numok f (S d) (c1 :: r1)) as [[ts' rest']|] eqn:E; [|discriminate]. inversion H; subst.
      pose proof (IHm _ _ _ _ E). cbn [length] in *. lia. }
    destruct (c =? 91).
    { destruct (negb (depth_ok lim d)); [discriminate|].
      pose proof (skip_ws_length r) as L1. destruct (skip_ws r) as [|c1 r1]; [discriminate|]. cbn [length] in L1.
      destruct (c1 =? 93); [inversion H; subst; lia|].
      destruct (pg_elements lim numok f (S d) (c1 :: r1)) as [[ts' rest']|] eqn:E; [|discriminate]. inversion H; subst.
      pose proof (IHe _ _ _ _ E). cbn [length] in *. lia. }
    destruct (c =? 34).
    { destruct (p_string_body r) as [[b rest']|] eqn:E; [|discriminate]. inversion H; subst.
      pose proof (string_body_shorter _ _ _ E). lia. }
    destruct ((c =? 45) || digit_b c) eqn:Ed.
    { assert (Hc : numchar_b c = true) by (unfold numchar_b; lia).
      cbn [span] in H. rewrite Hc in H. pose proof (span_length numchar_b r) as SL.
      destruct (span numchar_b r) as [a b]. destruct (json_number (c :: a) && numok (c :: a)); [|discriminate].
      inversion H; subst. lia. }
    destruct (c =? 116).
    { destruct (starts [114; 117; 101] r) eqn:E; [|discriminate]. inversion H; subst. pose proof (starts_shorter _ _ _ E). lia. }
    destruct (c =? 102).
    { destruct (starts [97; 108; 115; 101] r) eqn:E; [|discriminate]. inversion H; subst. pose proof (starts_shorter _ _ _ E). lia. }
    destruct (c =? 110); [|discriminate].
    destruct (starts [117; 108; 108] r) eqn:E; [|discriminate]. inversion H; subst. pose proof (starts_shorter _ _ _ E). lia.
  - intros d ls ts rest H. cbn [pg_members] in H. pose proof (skip_ws_length ls) as L0.
    destruct (skip_ws ls) as [|q r]; [discriminate|]. cbn [length] in L0.
    destruct (negb (q =? 34)); [discriminate|].
    destruct (p_string_body r) as [[k r1]|] eqn:Ek; [|discriminate].
    pose proof (string_body_shorter _ _ _ Ek) as L1. pose proof (skip_ws_length r1) as L2.
    destruct (skip_ws r1) as [|c r2]; [discriminate|]. cbn [length] in L2.
    destruct (negb (c =? 58)); [discriminate|].
    destruct (pg_value lim numok f d r2) as [[vt r3]|] eqn:Ev; [|discriminate].
    pose proof (IHv _ _ _ _ Ev) as L3. pose proof (skip_ws_length r3) as L4.
    destruct (skip_ws r3) as [|c3 r4]; [discriminate|]. cbn [length] in L4.
    destruct (c3 =? 125); [inversion H; subst; lia|].
    destruct (c3 =? 44); [|discriminate].
    destruct (pg_members lim numok f d r4) as [[ts' rest']|] eqn:Em; [|discriminate]. inversion H; subst.
    pose proof (IHm _ _ _ _ Em). lia.
  - intros d ls ts rest H. cbn [pg_elements] in H.
    destruct (pg_value lim numok f d ls) as [[vt r1]|] eqn:Ev; [|discriminate].
    pose proof (IHv _ _ _ _ Ev) as L3. pose proof (skip_ws_length r1) as L4.
    destruct (skip_ws r1) as [|c r2]; [discriminate|]. cbn [length] in L4.
    destruct (c =? 93); [inversion H; subst; lia|].
    destruct (c =? 44); [|discriminate].
    destruct (pg_elements lim numok f d r2) as [[ts' rest']|] eqn:Em; [|discriminate]. inversion H; subst.
    pose proof (IHe _ _ _ _ Em). lia.
Qed.

(* restricting the grammar (nesting limit, number predicate) only removes texts *)
Theorem pg_relax lim numok f :
  (forall d ls ts rest, pg_value lim numok f d ls = Some (ts, rest) -> forall d', pg_value None allnum f d' ls = Some (ts, rest)) /\
  (forall d ls ts rest, pg_members lim numok f d ls = Some (ts, rest) -> forall d', pg_members None allnum f d' ls = Some (ts, rest)) /\
  (forall d ls ts rest, pg_elements lim numok f d ls = Some (ts, rest) -> forall d', pg_elements None allnum f d' ls = Some (ts, rest)).
Proof.
  induction f as [|f (IHv & IHm & IHe)]; [repeat split; intros; discriminate|].
  split; [|split].
  - intros d ls ts rest H d'. cbn [pg_value] in *. change (depth_ok None d') with true. cbn [negb].
    destruct (skip_ws ls) as [|c r]; [discriminate|].
    destruct (c =? 123).
    { destruct (negb (depth_ok lim d)); [discriminate|].
      destruct (skip_ws r) as [|c1 r1]; [discriminate|]. destruct (c1 =? 125); [exact H|].
      destruct (pg_members lim numok f (S d) (c1 :: r1)) as [[ts' rest']|] eqn:E; [|discriminate].
      rewrite (IHm _ _ _ _ E (S d')). exact H. }
    destruct (c =? 91).
    { destruct (negb (depth_ok lim d)); [discriminate|].
      destruct (skip_ws r) as [|c1 r1]; [discriminate|]. destruct (c1 =? 93); [exact H|].
      destruct (pg_elements lim numok f (S d) (c1 :: r1)) as [[ts' rest']|] eqn:E; [|discriminate].
      rewrite (IHe _ _ _ _ E (S d')). exact H. }
    destruct (c =? 34); [exact H|].
    destruct ((c =? 45) || digit_b c).
    { destruct (span numchar_b (c :: r)) as [num rest']. unfold allnum. rewrite andb_true_r.
      destruct (json_number num); cbn [andb] in H; [|discriminate]. destruct (numok num); [exact H|discriminate]. }
    exact H.
  - intros d ls ts rest H d'. cbn [pg_members] in *.
    destruct (skip_ws ls) as [|q r]; [discriminate|]. destruct (negb (q =? 34)); [discriminate|].
    destruct (p_string_body r) as [[k r1]|]; [|discriminate].
    destruct (skip_ws r1) as [|c r2]; [discriminate|]. destruct (negb (c =? 58)); [discriminate|].
    destruct (pg_value lim numok f d r2) as [[vt r3]|] eqn:Ev; [|discriminate].
    rewrite (IHv _ _ _ _ Ev d').
    destruct (skip_ws r3) as [|c3 r4]; [discriminate|]. destruct (c3 =? 125); [exact H|].
    destruct (c3 =? 44); [|discriminate].
    destruct (pg_members lim numok f d r4) as [[ts' rest']|] eqn:Em; [|discriminate].
    rewrite (IHm _ _ _ _ Em d'). exact H.
  - intros d ls ts rest H d'. cbn [pg_elements] in *.
    destruct (pg_value lim numok f d ls) as [[vt r1]|] eqn:Ev; [|discriminate].
    rewrite (IHv _ _ _ _ Ev d').
    destruct (skip_ws r1) as [|c r2]; [discriminate|]. destruct (c =? 93); [exact H|].
    destruct (c =? 44); [|discriminate].
    destruct (pg_elements lim numok f d r2) as [[ts' rest']|] eqn:Em; [|discriminate].
    rewrite (IHe _ _ _ _ Em d'). exact H.
Qed.

Corollary parse_g_relax lim numok data r : parse_g lim numok data = Some r -> parse_json data = Some r.
Proof.
  unfold parse_json, parse_g. intro H.
  destruct (pg_value lim numok (2 * length data + 4) 0 data) as [[ts rest]|] eqn:E; [|discriminate].
  destruct (pg_relax lim numok (2 * length data + 4)) as (Hv & _ & _).
  rewrite (Hv _ _ _ _ E 0%nat). exact H.
Qed.
