(* Facts about the specification itself (Spec/Json.v). *)
From Coq Require Import NArith ZArith List Bool Lia.
From Coq Require Import ZifyN ZifyNat ZifyBool.
From GJ Require Import Spec.Json Proofs.CompactLeafP.
Import ListNotations.
Open Scope N_scope.

Lemma span_length p l : let '(a, b) := span p l in (length a + length b = length l)%nat.
Proof.
  induction l as [|c r IH]; cbn [span]; [reflexivity|].
  destruct (p c); [|reflexivity]. destruct (span p r) as [a b]. cbn [length]. lia.
Qed.

(* every successful parse consumes at least one byte *)
Theorem spec_shorter f :
  (forall ls ts rest, p_value f ls = Some (ts, rest) -> (length rest < length ls)%nat) /\
  (forall ls ts rest, p_members f ls = Some (ts, rest) -> (length rest + 4 <= length ls)%nat) /\
  (forall ls ts rest, p_elements f ls = Some (ts, rest) -> (length rest + 2 <= length ls)%nat).
Proof.
  induction f as [|f (IHv & IHm & IHe)]; [repeat split; intros; discriminate|].
  split; [|split].
  - intros ls ts rest H. cbn [p_value] in H. pose proof (skip_ws_length ls) as L0.
    destruct (skip_ws ls) as [|c r] eqn:Es; [discriminate|]. cbn [length] in L0.
    destruct (c =? 123).
    { pose proof (skip_ws_length r) as L1. destruct (skip_ws r) as [|c1 r1]; [discriminate|]. cbn [length] in L1.
      destruct (c1 =? 125); [inversion H; subst; lia|].
      destruct (p_members f (c1 :: r1)) as [[ts' rest']|] eqn:E; [|discriminate]. inversion H; subst.
      pose proof (IHm _ _ _ E). cbn [length] in *. lia. }
    destruct (c =? 91).
    { pose proof (skip_ws_length r) as L1. destruct (skip_ws r) as [|c1 r1]; [discriminate|]. cbn [length] in L1.
      destruct (c1 =? 93); [inversion H; subst; lia|].
      destruct (p_elements f (c1 :: r1)) as [[ts' rest']|] eqn:E; [|discriminate]. inversion H; subst.
      pose proof (IHe _ _ _ E). cbn [length] in *. lia. }
    destruct (c =? 34).
    { destruct (p_string_body r) as [[b rest']|] eqn:E; [|discriminate]. inversion H; subst.
      pose proof (string_body_shorter _ _ _ E). lia. }
    destruct ((c =? 45) || digit_b c) eqn:Ed.
    { assert (Hc : numchar_b c = true) by (unfold numchar_b; lia).
      cbn [span] in H. rewrite Hc in H. pose proof (span_length numchar_b r) as SL.
      destruct (span numchar_b r) as [a b]. destruct (json_number (c :: a)); [|discriminate].
      inversion H; subst. lia. }
    destruct (c =? 116).
    { destruct (starts [114; 117; 101] r) eqn:E; [|discriminate]. inversion H; subst. pose proof (starts_shorter _ _ _ E). lia. }
    destruct (c =? 102).
    { destruct (starts [97; 108; 115; 101] r) eqn:E; [|discriminate]. inversion H; subst. pose proof (starts_shorter _ _ _ E). lia. }
    destruct (c =? 110); [|discriminate].
    destruct (starts [117; 108; 108] r) eqn:E; [|discriminate]. inversion H; subst. pose proof (starts_shorter _ _ _ E). lia.
  - intros ls ts rest H. cbn [p_members] in H. pose proof (skip_ws_length ls) as L0.
    destruct (skip_ws ls) as [|q r]; [discriminate|]. cbn [length] in L0.
    destruct (negb (q =? 34)); [discriminate|].
    destruct (p_string_body r) as [[k r1]|] eqn:Ek; [|discriminate].
    pose proof (string_body_shorter _ _ _ Ek) as L1. pose proof (skip_ws_length r1) as L2.
    destruct (skip_ws r1) as [|c r2]; [discriminate|]. cbn [length] in L2.
    destruct (negb (c =? 58)); [discriminate|].
    destruct (p_value f r2) as [[vt r3]|] eqn:Ev; [|discriminate].
    pose proof (IHv _ _ _ Ev) as L3. pose proof (skip_ws_length r3) as L4.
    destruct (skip_ws r3) as [|c3 r4]; [discriminate|]. cbn [length] in L4.
    destruct (c3 =? 125); [inversion H; subst; lia|].
    destruct (c3 =? 44); [|discriminate].
    destruct (p_members f r4) as [[ts' rest']|] eqn:Em; [|discriminate]. inversion H; subst.
    pose proof (IHm _ _ _ Em). lia.
  - intros ls ts rest H. cbn [p_elements] in H.
    destruct (p_value f ls) as [[vt r1]|] eqn:Ev; [|discriminate].
    pose proof (IHv _ _ _ Ev) as L3. pose proof (skip_ws_length r1) as L4.
    destruct (skip_ws r1) as [|c r2]; [discriminate|]. cbn [length] in L4.
    destruct (c =? 93); [inversion H; subst; lia|].
    destruct (c =? 44); [|discriminate].
    destruct (p_elements f r2) as [[ts' rest']|] eqn:Em; [|discriminate]. inversion H; subst.
    pose proof (IHe _ _ _ Em). lia.
Qed.
