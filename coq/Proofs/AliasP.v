From Coq Require Import NArith List Bool Arith Lia.
From GJ Require Import Model.Alias.
Import ListNotations.

(* regions the caller holds are never pooled buffers nor caller input buffers *)
Definition AInv (s : astate) : Prop :=
  (forall r, In r (map fst (views s)) -> r < anext (am s) /\ ~ In r (apool (am s)) /\ ~ In r (inputs s)) /\
  (forall r, In r (apool (am s)) -> r < anext (am s)) /\
  (forall r, In r (inputs s) -> r < anext (am s)) /\
  views_intact s.

Lemma Forall_intact_frame (vs : list (nat * list N)) (f g : nat -> list N) :
  (forall r, In r (map fst vs) -> g r = f r) ->
  Forall (fun p => f (fst p) = snd p) vs -> Forall (fun p => g (fst p) = snd p) vs.
Proof.
  intros H F. apply Forall_forall. intros p Hp. rewrite H; [|apply in_map; exact Hp].
  exact (proj1 (Forall_forall _ _) F p Hp).
Qed.

Lemma in_map_fst_app (vs : list (nat * list N)) r x v :
  In r (map fst (vs ++ [(x, v)])) -> In r (map fst vs) \/ r = x.
Proof. rewrite map_app. cbn. intro H. apply in_app_or in H. destruct H as [H|[H|[]]]; [left; exact H|right; symmetry; exact H]. Qed.

Lemma astep_inv s o : AInv s -> AInv (astep false false s o).
Proof.
  intros (Hview & Hpool & Hin & Hv). destruct o as [x|k v|d|j v]; cbn [astep].
  - (* Marshal *)
    destruct (apool (am s)) as [|c rest] eqn:Ep.
    + (* fresh context c = next, result r = next + 1 *)
      unfold AInv; cbn [am views inputs apool anext acont awrite]. split; [|split; [|split]].
      * intros r Hr. apply in_map_fst_app in Hr. destruct Hr as [Hr| ->].
        -- destruct (Hview r Hr) as (H1 & H2 & H3). split; [lia|]. split; [|exact H3]. intros [E|[]]. lia.
        -- split; [lia|]. split; [intros [E|[]]; lia|]. intro H. specialize (Hin _ H). lia.
      * intros r [<-|[]]. lia.
      * intros r Hr. specialize (Hin r Hr). lia.
      * unfold views_intact. cbn [am views acont awrite anext apool]. apply Forall_app. split.
        -- apply Forall_forall; intros [r b0] Hab0; cbn [fst snd];
           pose proof (proj1 (Forall_forall _ _) Hv (r, b0) Hab0) as Hab1; cbn [fst snd] in Hab1; rewrite <- Hab1;
           pose proof (in_map fst _ _ Hab0) as Hr; cbn [fst] in Hr. destruct (Hview r Hr) as (H1 & _).
           destruct (Nat.eqb_spec r (S (anext (am s)))); [lia|]. destruct (Nat.eqb_spec r (anext (am s))); [lia|reflexivity].
        -- constructor; [|constructor]. cbn [fst snd]. rewrite !Nat.eqb_refl. reflexivity.
    + (* reuse c, result r = next *)
      assert (c < anext (am s)) as Hc by (apply Hpool; left; reflexivity).
      unfold AInv; cbn [am views inputs apool anext acont awrite]. split; [|split; [|split]].
      * intros r Hr. apply in_map_fst_app in Hr. destruct Hr as [Hr| ->].
        -- destruct (Hview r Hr) as (H1 & H2 & H3). split; [lia|]. split; [exact H2|exact H3].
        -- split; [lia|]. split; [intro H; specialize (Hpool _ H); lia|intro H; specialize (Hin _ H); lia].
      * intros r Hr. specialize (Hpool r Hr). lia.
      * intros r Hr. specialize (Hin r Hr). lia.
      * unfold views_intact. cbn [am views acont awrite anext apool]. apply Forall_app. split.
        -- apply Forall_forall; intros [r b0] Hab0; cbn [fst snd];
           pose proof (proj1 (Forall_forall _ _) Hv (r, b0) Hab0) as Hab1; cbn [fst snd] in Hab1; rewrite <- Hab1;
           pose proof (in_map fst _ _ Hab0) as Hr; cbn [fst] in Hr. destruct (Hview r Hr) as (H1 & H2 & _).
           destruct (Nat.eqb_spec r (anext (am s))); [lia|]. destruct (Nat.eqb_spec r c) as [->|]; [|reflexivity].
           exfalso. apply H2. left. reflexivity.
        -- constructor; [|constructor]. cbn [fst snd]. rewrite Nat.eqb_refl.
           destruct (Nat.eqb_spec (anext (am s)) c); [lia|]. rewrite Nat.eqb_refl. reflexivity.
  - (* the caller overwrites something it holds *)
    destruct (nth_error (views s) k) as [[r e]|] eqn:Ek; [|split; [exact Hview|split; [exact Hpool|split; [exact Hin|exact Hv]]]].
    cbn [am views inputs apool anext acont awrite].
    assert (map fst (map (fun p : nat * list N => if Nat.eqb (fst p) r then (fst p, v) else p) (views s)) = map fst (views s)) as Em.
    { rewrite map_map. apply map_ext. intros [a b]. cbn. destruct (Nat.eqb a r); reflexivity. }
    split; [|split; [|split]].
    + intros r0 Hr0. apply Hview. rewrite <- Em. exact Hr0.
    + exact Hpool.
    + exact Hin.
    + unfold views_intact. cbn [am views acont awrite anext apool]. apply Forall_forall. intros p Hp. apply in_map_iff in Hp.
      destruct Hp as ([a b] & <- & Hab). cbn [fst]. destruct (Nat.eqb_spec a r) as [->|Hne]; cbn [fst snd].
      * cbn [acont awrite]. rewrite Nat.eqb_refl. reflexivity.
      * cbn [acont awrite]. destruct (Nat.eqb_spec a r); [contradiction|]. exact (proj1 (Forall_forall _ _) Hv (a, b) Hab).
  - (* Unmarshal: caller buffer rd = next, private copy src = next + 1 *)
    unfold AInv; cbn [am views inputs apool anext acont awrite]. split; [|split; [|split]].
    + intros r Hr. apply in_map_fst_app in Hr. destruct Hr as [Hr| ->].
      * destruct (Hview r Hr) as (H1 & H2 & H3). split; [lia|]. split; [exact H2|]. intro H. apply in_app_or in H.
        destruct H as [H|[H|[]]]; [contradiction|lia].
      * split; [lia|]. split; [intro H; specialize (Hpool _ H); lia|]. intro H. apply in_app_or in H.
        destruct H as [H|[H|[]]]; [specialize (Hin _ H); lia|lia].
    + intros r Hr. specialize (Hpool r Hr). lia.
    + intros r Hr. apply in_app_or in Hr. destruct Hr as [Hr|[<-|[]]]; [specialize (Hin r Hr); lia|lia].
    + unfold views_intact. cbn [am views acont awrite anext apool]. apply Forall_app. split.
      * apply Forall_forall; intros [r b0] Hab0; cbn [fst snd];
           pose proof (proj1 (Forall_forall _ _) Hv (r, b0) Hab0) as Hab1; cbn [fst snd] in Hab1; rewrite <- Hab1;
           pose proof (in_map fst _ _ Hab0) as Hr; cbn [fst] in Hr. destruct (Hview r Hr) as (H1 & _).
        destruct (Nat.eqb_spec r (S (anext (am s)))); [lia|]. destruct (Nat.eqb_spec r (anext (am s))); [lia|reflexivity].
      * constructor; [|constructor]. cbn [fst snd]. rewrite Nat.eqb_refl.
        destruct (Nat.eqb_spec (anext (am s)) (S (anext (am s)))); [lia|]. rewrite Nat.eqb_refl. reflexivity.
  - (* the caller overwrites one of its input buffers *)
    destruct (nth_error (inputs s) j) as [r|] eqn:Ej; [|split; [exact Hview|split; [exact Hpool|split; [exact Hin|exact Hv]]]].
    unfold AInv; cbn [am views inputs apool anext acont awrite]. split; [exact Hview|split; [exact Hpool|split; [exact Hin|]]].
    unfold views_intact. cbn [am views acont awrite anext apool]. apply Forall_forall. intros [a b0] Hab0. cbn [fst snd].
    pose proof (proj1 (Forall_forall _ _) Hv (a, b0) Hab0) as Hab1. cbn [fst snd] in Hab1. rewrite <- Hab1.
    pose proof (in_map fst _ _ Hab0) as Ha. cbn [fst] in Ha.
    destruct (Nat.eqb_spec a r) as [->|]; [|reflexivity]. exfalso.
    destruct (Hview r Ha) as (_ & _ & H3). apply H3. eapply nth_error_In. exact Ej.
Qed.

Lemma arun_inv ops : forall s, AInv s -> AInv (fold_left (astep false false) ops s).
Proof. induction ops as [|o r IH]; intros s H; [exact H|]. cbn [fold_left]. apply IH, astep_inv, H. Qed.

Lemma astate0_inv : AInv astate0.
Proof.
  unfold AInv, astate0, views_intact. cbn [am views inputs apool amem0 map app].
  split; [intros r []|]. split; [intros r []|]. split; [intros r []|constructor].
Qed.

(* for every history of library calls and caller writes: everything the caller
   holds reads as the caller last saw or wrote it *)
Theorem no_aliasing ops : views_intact (arun false false ops).
Proof. exact (proj2 (proj2 (proj2 (arun_inv ops _ astate0_inv)))). Qed.

(* the last thing a Marshal handed out is what it produced, whatever happened before *)
Theorem marshal_result_fresh ops x :
  exists r, nth_error (views (arun false false (ops ++ [AMarshal x]))) (length (views (arun false false ops))) = Some (r, x) /\
            acont (am (arun false false (ops ++ [AMarshal x]))) r = x.
Proof.
  unfold arun. rewrite fold_left_app. cbn [fold_left]. set (s := fold_left (astep false false) ops astate0).
  pose proof (no_aliasing (ops ++ [AMarshal x])) as Hv. unfold arun in Hv. rewrite fold_left_app in Hv. cbn [fold_left] in Hv. fold s in Hv.
  assert (exists r, views (astep false false s (AMarshal x)) = views s ++ [(r, x)]) as [r Er].
  { cbn [astep]. destruct (apool (am s)); cbn [views]; eexists; reflexivity. }
  exists r. split.
  - rewrite Er. rewrite nth_error_app2 by lia. rewrite Nat.sub_diag. reflexivity.
  - unfold views_intact in Hv. rewrite Er in Hv. apply Forall_app in Hv. destruct Hv as [_ Hl]. inversion Hl; subst. assumption.
Qed.

(* handing out the pooled buffer: the next call overwrites what the caller holds *)
Theorem returns_pooled_refuted : exists ops, ~ views_intact (arun true false ops).
Proof.
  exists [AMarshal [1%N]; AMarshal [2%N]]. intro H. unfold views_intact in H. vm_compute in H.
  inversion H as [|? ? H1 _]; subst. discriminate H1.
Qed.

(* decoding from the caller's bytes: the caller's later write changes the decoded value *)
Theorem input_not_copied_refuted : exists ops, ~ views_intact (arun false true ops).
Proof.
  exists [AUnmarshal [1%N]; AScribbleInput 0 [9%N]]. intro H. unfold views_intact in H. vm_compute in H.
  inversion H as [|? ? H1 _]; subst. discriminate H1.
Qed.

(* ---- marshaler results ---- *)
Lemma astep2_inv s o : AInv s -> AInv (astep2 false s o).
Proof.
  intro H. destruct o as [o|k]; cbn [astep2]; [apply astep_inv; exact H|].
  destruct (nth_error (views s) k) as [[r v]|]; [|exact H]. apply astep_inv. exact H.
Qed.
Lemma arun2_inv ops : forall s, AInv s -> AInv (fold_left (astep2 false) ops s).
Proof. induction ops as [|o r IH]; intros s H; [exact H|]. cbn [fold_left]. apply IH, astep2_inv, H. Qed.

(* for every history that also encodes values whose marshalers return windows into what the caller holds *)
Theorem no_aliasing_marshalers ops : views_intact (arun2 false ops).
Proof. exact (proj2 (proj2 (proj2 (arun2_inv ops _ astate0_inv)))). Qed.

(* appending the sentinel to the marshaler's own slice writes behind the window *)
Theorem writes_marshaler_result_refuted : exists ops, ~ views_intact (arun2 true ops).
Proof.
  exists [ABase (AMarshal [1%N]); AMarshalVia 0]. intro H. unfold views_intact in H. vm_compute in H.
  inversion H as [|? ? H1 _]; subst. discriminate H1.
Qed.
