(* What the RFC recogniser accepted as a leaf is a leaf the renderer's tree
   vocabulary calls well formed (ParseP.leaf_ok), and the bytes it consumed are
   the raw spelling followed by the rest. *)
From Coq Require Import NArith List Bool Arith Lia.
From GJ Require Import Base.Bytes Spec.Json Model.Enc Proofs.EncP Proofs.ParseP Proofs.CompactLeafP.
Import ListNotations.
Open Scope N_scope.

Lemma list_eqb_refl a : list_eqb a a = true.
Proof. apply list_eqb_eq. reflexivity. Qed.

(* a parsed string body parses again in front of anything *)
Lemma psb_reparse : forall n l, (length l <= n)%nat -> forall b rest,
  p_string_body l = Some (b, rest) -> l = b ++ 34 :: rest /\ forall rest', p_string_body (b ++ 34 :: rest') = Some (b, rest').
Proof.
  induction n as [|n IH]; intros l Hl b rest H; [destruct l; [discriminate|cbn in Hl; lia]|].
  destruct l as [|c l]; [discriminate|]. cbn [length] in Hl. cbn [p_string_body] in H.
  destruct (N.eqb_spec c 34) as [E|E].
  { inversion H; subst. split; [reflexivity|]. intro rest'. reflexivity. }
  destruct (N.eqb_spec c 92) as [E1|E1].
  - subst c. destruct l as [|e r1]; [discriminate|]. cbn [length] in Hl.
    destruct (simple_esc_b e) eqn:Es.
    + destruct (p_string_body r1) as [[b1 rest1]|] eqn:Eb; [|discriminate]. inversion H; subst.
      destruct (IH r1 ltac:(lia) b1 rest Eb) as [Hr Hp]. split; [rewrite Hr; reflexivity|].
      intro rest'. cbn [app p_string_body]. change (92 =? 34) with false. change (92 =? 92) with true. cbn iota. rewrite Es. rewrite Hp. reflexivity.
    + destruct (e =? 117) eqn:Eu; [|discriminate].
      destruct r1 as [|h1 [|h2 [|h3 [|h4 r2]]]]; try discriminate. cbn [length] in Hl.
      destruct (hex_b h1 && hex_b h2 && hex_b h3 && hex_b h4) eqn:Eh; [|discriminate].
      destruct (p_string_body r2) as [[b1 rest1]|] eqn:Eb; [|discriminate]. inversion H; subst.
      destruct (IH r2 ltac:(lia) b1 rest Eb) as [Hr Hp]. split; [rewrite Hr; reflexivity|].
      intro rest'. cbn [app p_string_body]. change (92 =? 34) with false. change (92 =? 92) with true. cbn iota. rewrite Es, Eu, Eh. rewrite Hp. reflexivity.
  - destruct (c <? 32) eqn:Ec; [discriminate|].
    destruct (p_string_body l) as [[b1 rest1]|] eqn:Eb; [|discriminate]. inversion H; subst.
    destruct (IH l ltac:(lia) b1 rest Eb) as [Hr Hp]. split; [rewrite Hr; reflexivity|].
    intro rest'. cbn [app p_string_body].
    destruct (N.eqb_spec c 34); [congruence|]. destruct (N.eqb_spec c 92); [congruence|]. rewrite Ec. rewrite Hp. reflexivity.
Qed.

Lemma parsed_body_ok l b rest : p_string_body l = Some (b, rest) -> strbody_ok b = true /\ l = b ++ 34 :: rest.
Proof.
  intro H. destruct (psb_reparse (length l) l (le_n _) b rest H) as [Hl Hp]. split; [|exact Hl].
  unfold strbody_ok. rewrite (Hp []). apply list_eqb_refl.
Qed.

Lemma span_spec p : forall l a b, span p l = (a, b) -> l = a ++ b /\ forallb p a = true.
Proof.
  induction l as [|c r IH]; intros a b H; cbn [span] in H.
  - inversion H; subst. split; reflexivity.
  - destruct (p c) eqn:Ep.
    + destruct (span p r) as [a1 b1] eqn:E. inversion H; subst. destruct (IH a1 b eq_refl) as [Hr Ha].
      split; [rewrite Hr; reflexivity|]. cbn [forallb]. rewrite Ep, Ha. reflexivity.
    + inversion H; subst. split; reflexivity.
Qed.

Lemma parsed_num_ok c r num rest : (c =? 45) || digit_b c = true ->
  span numchar_b (c :: r) = (num, rest) -> json_number num = true ->
  num_ok num = true /\ c :: r = num ++ rest /\ exists a, num = c :: a.
Proof.
  intros Hc Hs Hj. destruct (span_spec numchar_b (c :: r) num rest Hs) as [Hl Hf].
  assert (Hn : numchar_b c = true) by (unfold numchar_b; lia).
  cbn [span] in Hs. rewrite Hn in Hs. destruct (span numchar_b r) as [a b] eqn:E. inversion Hs; subst.
  split; [|split; [exact Hl|eexists; reflexivity]].
  unfold num_ok. rewrite Hj, Hf. cbn [starts_num andb]. exact Hc.
Qed.

Lemma starts_spec p : forall l rest, starts p l = Some rest -> l = p ++ rest.
Proof.
  induction p as [|x p IH]; intros l rest H.
  - cbn in H. destruct l; inversion H; reflexivity.
  - destruct l as [|y l]; [discriminate|]. cbn in H. destruct (N.eqb_spec x y) as [E|E]; [|discriminate].
    subst y. cbn [app]. f_equal. apply IH. destruct p; exact H.
Qed.
