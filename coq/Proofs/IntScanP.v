(* End-to-end theorems about Unmarshal into an integer (Model/Int.v). *)
From Coq Require Import NArith ZArith List Bool Lia.
From Coq Require Import ZifyN ZifyNat ZifyBool.
From GJ Require Import Base.Bytes Base.Word64 Gen.Tables Model.Int Proofs.IntEncP Proofs.IntDecP.
Import ListNotations.
Open Scope N_scope.
Ltac Zify.zify_post_hook ::= Z.div_mod_to_equations.

Definition ws (l : list N) : Prop := Forall (fun c => is_ws c = true) l.

(* JSON integer literal: optional minus, then 0 or a non-zero digit followed by digits; value z *)
Definition json_int (s : list N) (z : Z) : Prop :=
  exists (neg : bool) d, s = (if neg then [45] else []) ++ d /\ canonical d (Z.abs_N z) /\
    (if neg then (z <= 0)%Z else (0 <= z)%Z).

Lemma tblb_numTable_false c : tblb dec_numTable c = false <-> ~ is_digit c.
Proof.
  pose proof (numTable_digit c) as H. destruct (tblb dec_numTable c); split; intro X; try discriminate.
  - exfalso. apply X. apply H. reflexivity.
  - intro D. apply H in D. discriminate.
  - reflexivity.
Qed.

(* ---------- take_digits ---------- *)
Lemma take_digits_spec l : forall ds rest, take_digits l = Some (ds, rest) ->
  l = ds ++ rest /\ Forall is_digit ds /\ exists c r, rest = c :: r /\ ~ is_digit c.
Proof.
  induction l as [|c l IH]; intros ds rest H; cbn [take_digits] in H; [discriminate|].
  destruct (tblb dec_numTable c) eqn:T.
  - destruct (take_digits l) as [[ds' rest']|] eqn:E; [|discriminate].
    inversion H; subst. destruct (IH ds' rest eq_refl) as (A & B & C).
    split; [cbn; f_equal; exact A|]. split; [|exact C].
    constructor; [apply numTable_digit; exact T|exact B].
  - inversion H; subst. split; [reflexivity|]. split; [constructor|].
    exists c, l. split; [reflexivity|]. apply tblb_numTable_false. exact T.
Qed.

Lemma take_digits_app ds : forall c r, Forall is_digit ds -> ~ is_digit c ->
  take_digits (ds ++ c :: r) = Some (ds, c :: r).
Proof.
  induction ds as [|d ds IH]; intros c r Hd Hc.
  - cbn [app take_digits]. apply tblb_numTable_false in Hc. rewrite Hc. reflexivity.
  - inversion Hd as [|? ? H1 H2]; subst. cbn [app take_digits].
    apply numTable_digit in H1. rewrite H1. rewrite (IH c r H2 Hc). reflexivity.
Qed.

Lemma take_digits_sentinel a : take_digits (a ++ [0]) <> None.
Proof.
  induction a as [|c a IH]; cbn [app take_digits].
  - assert (T : tblb dec_numTable 0 = false) by (vm_compute; reflexivity). rewrite T. discriminate.
  - destruct (tblb dec_numTable c); [|discriminate].
    destruct (take_digits (a ++ [0])) as [[? ?]|]; [discriminate|congruence].
Qed.

(* ---------- validate_end ---------- *)
Lemma validate_end_sentinel a : validate_end (a ++ [0]) <> None.
Proof.
  induction a as [|c a IH]; cbn [app validate_end].
  - cbn. discriminate.
  - destruct (is_ws c); [exact IH|]. destruct (c =? 0); discriminate.
Qed.

Lemma validate_end_true l : validate_end l = Some true <-> exists w, l = w ++ [0] /\ ws w.
Proof.
  induction l as [|c l IH]; cbn [validate_end]; split.
  - discriminate.
  - intros (w & E & _). destruct w; discriminate.
  - destruct (is_ws c) eqn:Wc.
    + intro H. apply IH in H. destruct H as (w & E & Hw). exists (c :: w). split; [cbn; f_equal; exact E|].
      constructor; assumption.
    + destruct (N.eqb_spec c 0) as [E0|E0]; [|discriminate].
      destruct l; [|discriminate]. intros _. exists []. subst. split; [reflexivity|constructor].
  - intros (w & E & Hw). destruct w as [|x w].
    + cbn in E. inversion E; subst. cbn. reflexivity.
    + cbn in E. inversion E; subst. inversion Hw as [|? ? Hx Hw']; subst. rewrite Hx.
      apply IH. exists w. split; [reflexivity|exact Hw'].
Qed.

(* ---------- int_decode_byte ---------- *)
Definition first_ok (signed : bool) (c : N) : Prop :=
  (49 <= c <= 57) \/ (signed = true /\ c = 45).

Lemma idb_sentinel signed a : int_decode_byte signed (a ++ [0]) <> SStuck.
Proof.
  induction a as [|c a IH]; cbn [app int_decode_byte].
  - destruct signed; cbn; discriminate.
  - destruct (is_ws c); [exact IH|].
    destruct (c =? 48); [discriminate|].
    destruct (((49 <=? c) && (c <=? 57)) || (signed && (c =? 45))).
    + pose proof (take_digits_sentinel a) as T.
      destruct (take_digits (a ++ [0])) as [[? ?]|]; [discriminate|congruence].
    + destruct (c =? 110); [|discriminate].
      destruct (validate_null (c :: a ++ [0])); discriminate.
Qed.

Lemma idb_num signed l : forall num rest, int_decode_byte signed l = SNum num rest ->
  exists w, l = w ++ num ++ rest /\ ws w /\
    (num = [48] \/
     exists c ds, num = c :: ds /\ first_ok signed c /\ Forall is_digit ds /\
                  exists x r, rest = x :: r /\ ~ is_digit x).
Proof.
  induction l as [|c l IH]; intros num rest H; cbn [int_decode_byte] in H; [discriminate|].
  destruct (is_ws c) eqn:Wc.
  - destruct (IH num rest H) as (w & E & Hw & S). exists (c :: w). split; [cbn; f_equal; exact E|].
    split; [constructor; assumption|exact S].
  - destruct (N.eqb_spec c 48) as [E48|E48].
    + inversion H; subst. exists []. split; [reflexivity|]. split; [constructor|]. left. reflexivity.
    + destruct (((49 <=? c) && (c <=? 57)) || (signed && (c =? 45))) eqn:F.
      * destruct (take_digits l) as [[ds rest']|] eqn:T; [|discriminate].
        inversion H; subst. destruct (take_digits_spec l ds rest T) as (A & B & C).
        exists []. split; [cbn; f_equal; exact A|]. split; [constructor|]. right.
        exists c, ds. split; [reflexivity|]. split; [|split; assumption].
        unfold first_ok. destruct signed; lia.
      * destruct (c =? 110); [|discriminate]. destruct (validate_null (c :: l)); discriminate.
Qed.

Lemma idb_ws signed w l : ws w -> int_decode_byte signed (w ++ l) = int_decode_byte signed l.
Proof.
  induction 1 as [|c w Hc Hw IH]; [reflexivity|]. cbn [app int_decode_byte]. rewrite Hc. exact IH.
Qed.

Lemma idb_null signed l : forall rest, int_decode_byte signed l = SNull rest ->
  exists w, l = w ++ [110; 117; 108; 108] ++ rest /\ ws w /\ rest <> [].
Proof.
  induction l as [|c l IH]; intros rest H; cbn [int_decode_byte] in H; [discriminate|].
  destruct (is_ws c) eqn:Wc.
  - destruct (IH rest H) as (w & E & Hw & S). exists (c :: w). split; [cbn; f_equal; exact E|].
    split; [constructor; assumption|exact S].
  - destruct (c =? 48); [discriminate|].
    destruct (((49 <=? c) && (c <=? 57)) || (signed && (c =? 45))).
    + destruct (take_digits l) as [[? ?]|]; discriminate.
    + destruct (N.eqb_spec c 110) as [En|En]; [|discriminate]. subst c.
      destruct (validate_null (110 :: l)) as [rest'|] eqn:V; [|discriminate].
      inversion H; subst. unfold validate_null in V.
      destruct l as [|c1 [|c2 [|c3 rest']]]; try discriminate.
      destruct (N.eqb_spec c1 117); [|discriminate]. destruct (N.eqb_spec c2 108); [|discriminate].
      destruct (N.eqb_spec c3 108); [|discriminate]. cbn [andb] in V. subst.
      destruct rest' as [|c4 l]; [discriminate|]. inversion V; subst.
      exists []. split; [reflexivity|]. split; [constructor|discriminate].
Qed.

Lemma sentinel_suffix (a p rest : list N) : a ++ [0] = p ++ rest -> rest <> [] ->
  exists r', rest = r' ++ [0] /\ a = p ++ r'.
Proof.
  intros E Hne. destruct (exists_last Hne) as (r' & x & Er). subst rest.
  rewrite app_assoc in E. apply app_inj_tail in E. destruct E as [E1 E2]. subst.
  exists r'. split; reflexivity.
Qed.

(* ---------- end-to-end ---------- *)

(* 1. the scanner never reads outside the buffer *)
Theorem unmarshal_int_never_stuck signed bits data : unmarshal_int signed bits data <> UStuck.
Proof.
  unfold unmarshal_int.
  pose proof (idb_sentinel signed data) as S.
  destruct (int_decode_byte signed (data ++ [0])) as [| |rest|num rest] eqn:E; try congruence; try discriminate.
  - destruct (idb_null _ _ _ E) as (w & El & Hw & Hne).
    destruct (sentinel_suffix data (w ++ [110; 117; 108; 108]) rest) as (r' & Er & _);
      [rewrite <- app_assoc; exact El|exact Hne|].
    subst rest. pose proof (validate_end_sentinel r') as V.
    destruct (validate_end (r' ++ [0])); [discriminate|congruence].
  - destruct (if signed then parse_int num else parse_uint num); [discriminate|].
    destruct (in_range signed bits z); [|discriminate].
    destruct (idb_num _ _ _ _ E) as (w & El & Hw & Sh).
    assert (Hne : rest <> []).
    { destruct Sh as [E48|(c & ds & _ & _ & _ & x & r & Er & _)]; [|subst; discriminate].
      subst num. intro Er. subst rest. rewrite app_nil_r in El.
      apply app_inj_tail in El. destruct El as [_ El]. discriminate. }
    destruct (sentinel_suffix data (w ++ num) rest) as (r' & Er & _);
      [rewrite <- app_assoc; exact El|exact Hne|].
    subst rest. pose proof (validate_end_sentinel r') as V.
    destruct (validate_end (r' ++ [0])); [discriminate|congruence].
Qed.

(* ---------- helper facts ---------- *)
Lemma canonical_shape d n : canonical d n ->
  Forall is_digit d /\ value d 0 = n /\ int_literal_ok d = true /\
  (d = [48] \/ exists c ds, d = c :: ds /\ 49 <= c <= 57).
Proof.
  intros (Hd & Hv & Hne & Hz). split; [exact Hd|]. split; [exact Hv|].
  destruct d as [|c ds]; [congruence|]. inversion Hd as [|? ? Hc Hds]; subst.
  cbn [hd] in Hz. unfold int_literal_ok. cbn [length hd].
  destruct (N.eqb_spec c 48) as [E|E].
  - specialize (Hz E). inversion Hz; subst. split; [reflexivity|]. left. reflexivity.
  - split.
    + cbn. rewrite andb_false_r. reflexivity.
    + right. exists c, ds. split; [reflexivity|]. unfold is_digit in Hc. lia.
Qed.

Lemma canonical_len_19 d n : canonical d n -> n <= 9223372036854775808 -> (length d <= 19)%nat.
Proof.
  intros Hc Hn. destruct (N.eq_dec n 0) as [E|E].
  - destruct (canonical_shape d n Hc) as (_ & Hv & _ & [E1|(c & ds & E1 & Hc1)]).
    + subst d. cbn. lia.
    + subst. exfalso. destruct Hc as (Hd & Hv' & _). inversion Hd as [|? ? H1 H2]; subst.
      cbn [value] in Hv'. rewrite value_acc in Hv' by assumption.
      assert (0 < 10 ^ N.of_nat (length ds)) by (apply N.neq_0_lt_0, N.pow_nonzero; lia). nia.
  - pose proof (canonical_length_lower d n Hc E) as L.
    destruct (Nat.le_gt_cases (length d) 19) as [G|G]; [exact G|]. exfalso.
    assert (10 ^ 19 <= 10 ^ N.of_nat (length d - 1)) by (apply N.pow_le_mono_r; lia).
    change (10 ^ 19) with 10000000000000000000 in *. lia.
Qed.

Lemma canonical_len_20 d n : canonical d n -> n <= u64_max -> (length d <= 20)%nat.
Proof.
  intros Hc Hn. destruct (N.eq_dec n 0) as [E|E].
  - destruct (canonical_shape d n Hc) as (_ & Hv & _ & [E1|(c & ds & E1 & Hc1)]).
    + subst d. cbn. lia.
    + subst. exfalso. destruct Hc as (Hd & Hv' & _). inversion Hd as [|? ? H1 H2]; subst.
      cbn [value] in Hv'. rewrite value_acc in Hv' by assumption.
      assert (0 < 10 ^ N.of_nat (length ds)) by (apply N.neq_0_lt_0, N.pow_nonzero; lia). nia.
  - pose proof (canonical_length_lower d n Hc E) as L.
    destruct (Nat.le_gt_cases (length d) 20) as [G|G]; [exact G|]. exfalso.
    assert (10 ^ 20 <= 10 ^ N.of_nat (length d - 1)) by (apply N.pow_le_mono_r; lia).
    change (10 ^ 20) with 100000000000000000000 in *. unfold u64_max in Hn. lia.
Qed.

Lemma ws_not_digit x : is_ws x = true -> ~ is_digit x.
Proof. unfold is_ws, is_digit. intros H D. lia. Qed.

Lemma tail_nondigit w2 : ws w2 -> exists x r, w2 ++ [0] = x :: r /\ ~ is_digit x.
Proof.
  intro H. destruct w2 as [|x w2]; cbn.
  - exists 0, []. split; [reflexivity|]. unfold is_digit. lia.
  - inversion H; subst. exists x, (w2 ++ [0]). split; [reflexivity|]. apply ws_not_digit. assumption.
Qed.

Lemma validate_end_ws w2 : ws w2 -> validate_end (w2 ++ [0]) = Some true.
Proof. intro H. apply validate_end_true. exists w2. split; [reflexivity|exact H]. Qed.

Lemma in_range_bound signed bits z : width_ok bits -> in_range signed bits z = true ->
  if signed then (- 9223372036854775808 <= z <= 9223372036854775807)%Z
  else (0 <= z <= 18446744073709551615)%Z.
Proof.
  intros Hw H. unfold in_range in H.
  destruct Hw as [E|[E|[E|E]]]; subst bits; destruct signed; cbn in H; lia.
Qed.

(* 2. every JSON integer literal that fits is accepted and stored exactly,
      whatever whitespace surrounds it *)
Theorem unmarshal_int_accepts signed bits w1 (neg : bool) d w2 z :
  width_ok bits -> ws w1 -> ws w2 ->
  canonical d (Z.abs_N z) -> (if neg then (z <= 0)%Z else (0 <= z)%Z) ->
  (signed = false -> neg = false) ->
  in_range signed bits z = true ->
  unmarshal_int signed bits (w1 ++ ((if neg then [45] else []) ++ d) ++ w2) = URes false (Some z).
Proof.
  intros Hw Hw1 Hw2 Hc Hsign Hsn Hr. unfold unmarshal_int.
  rewrite <- !app_assoc. rewrite idb_ws by exact Hw1.
  destruct (canonical_shape d _ Hc) as (Hd & Hv & Hlit & Hshape).
  destruct (tail_nondigit w2 Hw2) as (x & r & Et & Hx).
  pose proof (in_range_bound signed bits z Hw Hr) as Hb.
  assert (Hnum : int_decode_byte signed (((if neg then [45] else []) ++ d) ++ w2 ++ [0]) =
                 SNum ((if neg then [45] else []) ++ d) (w2 ++ [0])).
  { destruct neg.
    - assert (signed = true) by (destruct signed; [reflexivity|specialize (Hsn eq_refl); discriminate]). subst signed.
      cbn [app int_decode_byte]. change (is_ws 45) with false. change (45 =? 48) with false.
      cbn [andb orb N.leb N.eqb]. change ((49 <=? 45) && (45 <=? 57) || true && (45 =? 45)) with true. cbn iota.
      rewrite Et. rewrite (take_digits_app d x r Hd Hx). reflexivity.
    - cbn [app]. destruct Hshape as [E|(c & ds & E & Hc1)].
      + subst d. cbn [app int_decode_byte]. change (is_ws 48) with false. change (48 =? 48) with true. reflexivity.
      + subst d. cbn [app int_decode_byte].
        assert (W1 : is_ws c = false) by (unfold is_ws; lia). rewrite W1.
        assert (W2 : (c =? 48) = false) by lia. rewrite W2.
        assert (W3 : ((49 <=? c) && (c <=? 57)) || (signed && (c =? 45)) = true) by lia. rewrite W3.
        inversion Hd as [|? ? H1 H2]; subst.
        rewrite Et. rewrite (take_digits_app ds x r H2 Hx). reflexivity. }
  rewrite <- app_assoc in Hnum. rewrite Hnum.
  assert (Hparse : (if signed then parse_int ((if neg then [45] else []) ++ d)
                    else parse_uint ((if neg then [45] else []) ++ d)) = PVal z).
  { destruct signed.
    - pose proof (parse_int_spec ((if neg then [45] else []) ++ d)) as P.
      assert (Hs : split_sign ((if neg then [45] else []) ++ d) = (neg, d)).
      { destruct neg; [reflexivity|]. cbn [app]. unfold split_sign.
        destruct Hshape as [E|(c & ds & E & Hc1)]; subst d; [reflexivity|].
        destruct c as [|p]; [reflexivity|]. destruct (Pos.eq_dec p 45) as [E|E]; [lia|].
        destruct p as [[[[[[|?|]|?|]|[|?|]|]|[[|?|]|?|]|]|[[[|?|]|?|]|[[?|?|]|?|]|]|]|[[[[|?|]|[|?|]|]|[[|?|]|?|]|]|[[[|?|]|?|]|?|]|]|]; try reflexivity; try lia. }
      rewrite Hs in P. specialize (P Hd). rewrite P. rewrite Hlit, Hv.
      pose proof (canonical_len_19 d _ Hc ltac:(lia)) as L.
      destruct (Nat.leb_spec (length d) 19); [|lia]. cbn [andb].
      destruct neg.
      + destruct (N.leb_spec (Z.abs_N z) 9223372036854775808); [|lia]. f_equal. lia.
      + destruct (N.leb_spec (Z.abs_N z) 9223372036854775807); [|lia]. f_equal. lia.
    - rewrite (Hsn eq_refl) in *. cbn [app]. rewrite (parse_uint_spec d Hd). rewrite Hv.
      pose proof (canonical_len_20 d _ Hc ltac:(unfold u64_max; lia)) as L.
      destruct (Nat.leb_spec (length d) 20); [|lia]. cbn [andb]. unfold u64_max.
      destruct (N.leb_spec (Z.abs_N z) 18446744073709551615); [|lia]. f_equal. lia. }
  rewrite Hparse, Hr. rewrite (validate_end_ws w2 Hw2). reflexivity.
Qed.

Lemma ws_sentinel_iff r' : (exists w, r' ++ [0] = w ++ [0] /\ ws w) <-> ws r'.
Proof.
  split.
  - intros (w & E & Hw). apply app_inj_tail in E. destruct E as [E _]. subst. exact Hw.
  - intro H. exists r'. split; [reflexivity|exact H].
Qed.

(* 3. whatever the input, a stored value is exactly the JSON integer literal
      standing at the start of the input, it fits the destination, and the
      call succeeds iff nothing but whitespace follows.  (Storing before the
      trailing check fails is the recorded finding PartialStoreBeforeError.) *)
Theorem unmarshal_int_stored_exact signed bits data err z :
  width_ok bits ->
  unmarshal_int signed bits data = URes err (Some z) ->
  exists w (neg : bool) d rest,
    data = w ++ ((if neg then [45] else []) ++ d) ++ rest /\ ws w /\
    canonical d (Z.abs_N z) /\ (if neg then (z <= 0)%Z else (0 <= z)%Z) /\
    (signed = false -> neg = false) /\
    in_range signed bits z = true /\
    (err = false <-> ws rest).
Proof.
  intros Hw H. unfold unmarshal_int in H.
  destruct (int_decode_byte signed (data ++ [0])) as [| |rest0|num rest0] eqn:E; try discriminate.
  { destruct (validate_end rest0); discriminate. }
  destruct (idb_num _ _ _ _ E) as (w & El & Hws & Sh).
  assert (Hne : rest0 <> []).
  { destruct Sh as [E48|(c & ds & _ & _ & _ & x & r & Er & _)]; [|subst; discriminate].
    subst num. intro Er. subst rest0. rewrite app_nil_r in El.
    apply app_inj_tail in El. destruct El as [_ El]. discriminate. }
  destruct (sentinel_suffix data (w ++ num) rest0) as (r' & Er & Ed);
    [rewrite <- app_assoc; exact El|exact Hne|].
  subst rest0.
  destruct (if signed then parse_int num else parse_uint num) as [|z'] eqn:P; [discriminate|].
  destruct (in_range signed bits z') eqn:R; [|discriminate].
  pose proof (validate_end_sentinel r') as V.
  destruct (validate_end (r' ++ [0])) as [ok|] eqn:Ev; [|congruence].
  inversion H; subst err z'. clear H.
  assert (Herr : negb ok = false <-> ws r').
  { rewrite <- ws_sentinel_iff, <- validate_end_true. rewrite Ev. destruct ok; cbn; split; congruence. }
  pose proof (in_range_bound signed bits z Hw R) as Hb.
  (* shape of the literal *)
  assert (Hlit : exists (neg : bool) d, num = (if neg then [45] else []) ++ d /\
                   canonical d (Z.abs_N z) /\ (if neg then (z <= 0)%Z else (0 <= z)%Z) /\
                   (signed = false -> neg = false)).
  { destruct Sh as [E48|(c & ds & En & Hf & Hds & _)].
    - subst num. exists false, [48]. assert (z = 0%Z).
      { destruct signed; vm_compute in P; inversion P; reflexivity. }
      subst z. split; [reflexivity|]. split; [|split; [lia|reflexivity]].
      unfold canonical. cbn. repeat split; try (intro; discriminate); try reflexivity.
      constructor; [unfold is_digit; lia|constructor].
    - subst num. destruct Hf as [Hc|[Hs Hc]].
      + (* starts with 1..9 *)
        exists false, (c :: ds).
        assert (Hd : Forall is_digit (c :: ds)) by (constructor; [unfold is_digit; lia|exact Hds]).
        assert (Hcan : canonical (c :: ds) (value (c :: ds) 0)).
        { unfold canonical. repeat split; try assumption; try discriminate. cbn [hd]. intro; lia. }
        destruct signed.
        * pose proof (parse_int_spec (c :: ds)) as Q.
          assert (Hs : split_sign (c :: ds) = (false, c :: ds)).
          { unfold split_sign. destruct c as [|p]; [reflexivity|].
            destruct p as [[[[[[|?|]|?|]|[|?|]|]|[[|?|]|?|]|]|[[[|?|]|?|]|[[?|?|]|?|]|]|]|[[[[|?|]|[|?|]|]|[[|?|]|?|]|]|[[[|?|]|?|]|?|]|]|]; try reflexivity; lia. }
          rewrite Hs in Q. specialize (Q Hd). rewrite Q in P.
          destruct (int_literal_ok (c :: ds) && Nat.leb (length (c :: ds)) 19 && (value (c :: ds) 0 <=? 9223372036854775807)); [|discriminate].
          assert (Pz : Z.of_N (value (c :: ds) 0) = z) by congruence. clear P. subst z. split; [reflexivity|]. assert (Ea : Z.abs_N (Z.of_N (value (c :: ds) 0)) = value (c :: ds) 0) by lia. rewrite Ea.
          split; [exact Hcan|]. split; [lia|intro; discriminate].
        * rewrite (parse_uint_spec (c :: ds) Hd) in P.
          destruct (Nat.leb (length (c :: ds)) 20 && (value (c :: ds) 0 <=? u64_max)); [|discriminate].
          assert (Pz : Z.of_N (value (c :: ds) 0) = z) by congruence. clear P. subst z. split; [reflexivity|]. assert (Ea : Z.abs_N (Z.of_N (value (c :: ds) 0)) = value (c :: ds) 0) by lia. rewrite Ea.
          split; [exact Hcan|]. split; [lia|reflexivity].
      + (* starts with '-' (signed only) *)
        subst signed c. exists true, ds.
        pose proof (parse_int_spec (45 :: ds)) as Q. change (split_sign (45 :: ds)) with (true, ds) in Q.
        specialize (Q Hds). rewrite Q in P.
        destruct (int_literal_ok ds) eqn:L; [|discriminate]. cbn [andb] in P.
        destruct (Nat.leb (length ds) 19 && (value ds 0 <=? 9223372036854775808)); [|discriminate].
        assert (Pz : (- Z.of_N (value ds 0))%Z = z) by congruence. clear P. subst z. split; [reflexivity|].
        assert (Ea : Z.abs_N (- Z.of_N (value ds 0)) = value ds 0) by lia. rewrite Ea.
        split; [|split; [lia|intro; discriminate]].
        unfold int_literal_ok in L. unfold canonical. split; [exact Hds|]. split; [reflexivity|].
        destruct ds as [|c0 ds0]; [cbn in L; discriminate|]. split; [discriminate|].
        cbn [hd length] in *. intro E0. subst c0. destruct ds0; [reflexivity|]. cbn in L. discriminate. }
  destruct Hlit as (neg & d & En & Hcan & Hsg & Hsn).
  exists w, neg, d, r'. subst num.
  split; [rewrite Ed; rewrite <- !app_assoc; reflexivity|].
  split; [exact Hws|]. split; [exact Hcan|]. split; [exact Hsg|]. split; [exact Hsn|].
  split; [exact R|exact Herr].
Qed.
