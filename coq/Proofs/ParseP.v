(* The text the encoder writes is read back by the RFC 8259 recogniser of
   Spec/Json.v as exactly the token sequence of the value: parser completeness
   on the image of the renderer.  With marshal v = render v (EncP) this gives:
   every successful encode is one RFC-valid JSON text (C03), and reading that
   text gives back the tree that was written (the structural half of C04). *)
From Coq Require Import NArith List Bool Arith Lia.
From GJ Require Import Base.Bytes Spec.Json Model.Enc Proofs.EncP.
Import ListNotations.
Open Scope N_scope.

(* ---------- leaves ---------- *)
Definition strbody_ok (b : list N) : bool :=
  match p_string_body (b ++ [34]) with Some (b', []) => list_eqb b' b | _ => false end.

Definition starts_num (raw : list N) : bool :=
  match raw with c :: _ => (c =? 45) || digit_b c | [] => false end.
Definition num_ok (raw : list N) : bool := json_number raw && forallb numchar_b raw && starts_num raw.

Definition leaf_ok (t : tok) : bool :=
  match t with
  | TStr b => strbody_ok b
  | TNum raw => num_ok raw
  | TTrue | TFalse | TNull => true
  | _ => false
  end.

(* values all of whose members are written, with well-formed leaves and keys *)
Fixpoint wfp (v : jv) : bool :=
  match v with
  | JLeaf t => leaf_ok t
  | JArr l => forallb wfp l
  | JObj l => forallb (fun m => match m with (k, om, x) => negb om && strbody_ok k && wfp x end) l
  end.

Lemma p_string_body_app : forall n l, (length l <= n)%nat -> forall b r rest,
  p_string_body l = Some (b, r) -> p_string_body (l ++ rest) = Some (b, r ++ rest).
Proof.
  induction n as [|n IH]; intros l Hl b r rest H; [destruct l; [discriminate|cbn in Hl; lia]|].
  destruct l as [|c l]; [discriminate|]. cbn [length] in Hl. cbn [app]. cbn [p_string_body] in *.
  destruct (c =? 34). { inversion H; subst. reflexivity. }
  destruct (c =? 92).
  - destruct l as [|e r1]; [discriminate|]. cbn [app]. cbn [length] in Hl.
    destruct (simple_esc_b e).
    + destruct (p_string_body r1) as [[b1 rest1]|] eqn:E; [|discriminate].
      rewrite (IH r1 ltac:(lia) b1 rest1 rest E). inversion H; subst. reflexivity.
    + destruct (e =? 117); [|discriminate].
      destruct r1 as [|h1 [|h2 [|h3 [|h4 r2]]]]; try discriminate. cbn [app]. cbn [length] in Hl.
      destruct (hex_b h1 && hex_b h2 && hex_b h3 && hex_b h4); [|discriminate].
      destruct (p_string_body r2) as [[b1 rest1]|] eqn:E; [|discriminate].
      rewrite (IH r2 ltac:(lia) b1 rest1 rest E). inversion H; subst. reflexivity.
  - destruct (c <? 32); [discriminate|].
    destruct (p_string_body l) as [[b1 rest1]|] eqn:E; [|discriminate].
    rewrite (IH l ltac:(lia) b1 rest1 rest E). inversion H; subst. reflexivity.
Qed.

Lemma strbody_parse b : strbody_ok b = true -> forall rest, p_string_body (b ++ 34 :: rest) = Some (b, rest).
Proof.
  unfold strbody_ok. intros H rest. destruct (p_string_body (b ++ [34])) as [[b' r]|] eqn:E; [|discriminate].
  destruct r; [|discriminate]. apply list_eqb_eq in H. subst b'.
  change (b ++ 34 :: rest) with (b ++ [34] ++ rest). rewrite app_assoc.
  rewrite (p_string_body_app (length (b ++ [34])) (b ++ [34]) (le_n _) b [] rest E). reflexivity.
Qed.

Definition delim (rest : list N) : bool := match rest with [] => true | c :: _ => negb (numchar_b c) end.

Lemma span_num raw : forall rest, forallb numchar_b raw = true -> delim rest = true -> span numchar_b (raw ++ rest) = (raw, rest).
Proof.
  induction raw as [|c r IH]; intros rest H Hd.
  - cbn [app]. destruct rest as [|c r]; [reflexivity|]. cbn [span]. cbn [delim] in Hd. apply negb_true_iff in Hd. rewrite Hd. reflexivity.
  - cbn [forallb] in H. apply andb_true_iff in H. destruct H as [Hc Hr]. cbn [app span]. rewrite Hc. rewrite (IH rest Hr Hd). reflexivity.
Qed.

(* ---------- the shape of the text and of the token sequence of containers ---------- *)
Fixpoint etext (l : list jv) : list N :=
  match l with
  | [] => []
  | x :: r => render x ++ match r with [] => [93] | _ => 44 :: etext r end
  end.
Fixpoint etoks (l : list jv) : list tok :=
  match l with
  | [] => []
  | x :: r => toks x ++ match r with [] => [TRBrack] | _ => TComma :: etoks r end
  end.
Fixpoint mtext (l : list (list N * bool * jv)) : list N :=
  match l with
  | [] => []
  | (k, _, x) :: r => 34 :: k ++ [34; 58] ++ render x ++ match r with [] => [125] | _ => 44 :: mtext r end
  end.
Fixpoint mtoks (l : list (list N * bool * jv)) : list tok :=
  match l with
  | [] => []
  | (k, _, x) :: r => TStr k :: TColon :: toks x ++ match r with [] => [TRBrace] | _ => TComma :: mtoks r end
  end.

Lemma sepcat_etext x r : sepcat (map render (x :: r)) ++ [93] = etext (x :: r).
Proof.
  revert x. induction r as [|y r IH]; intro x; [reflexivity|].
  change (map render (x :: y :: r)) with (render x :: map render (y :: r)).
  change (sepcat (render x :: map render (y :: r))) with (render x ++ [COMMA] ++ sepcat (map render (y :: r))).
  rewrite <- !app_assoc. rewrite IH. reflexivity.
Qed.

Lemma sep_etoks x r : sep_toks (map toks (x :: r)) ++ [TRBrack] = etoks (x :: r).
Proof.
  revert x. induction r as [|y r IH]; intro x; [reflexivity|].
  change (map toks (x :: y :: r)) with (toks x :: map toks (y :: r)).
  change (sep_toks (toks x :: map toks (y :: r))) with (toks x ++ TComma :: sep_toks (map toks (y :: r))).
  rewrite <- app_assoc. cbn [app]. rewrite IH. reflexivity.
Qed.

Definition allshown (l : list (list N * bool * jv)) : bool := forallb (fun m => negb (snd (fst m))) l.

Lemma shown_text l : allshown l = true ->
  flat_map (fun kv : list N * bool * jv => match kv with (k, false, x) => [34 :: k ++ [34; COLON] ++ render x] | (_, true, _) => [] end) l =
  map (fun kv => match kv with (k, _, x) => 34 :: k ++ [34; COLON] ++ render x end) l.
Proof.
  induction l as [|[[k om] x] r IH]; intro H; [reflexivity|]. cbn [allshown forallb fst snd] in H. apply andb_true_iff in H. destruct H as [Ho Hr].
  apply negb_true_iff in Ho. subst om. cbn [flat_map map app]. f_equal. apply IH. exact Hr.
Qed.

Lemma shown_toks l : allshown l = true ->
  flat_map (fun kv : list N * bool * jv => match kv with (k, false, x) => [TStr k :: TColon :: toks x] | (_, true, _) => [] end) l =
  map (fun kv => match kv with (k, _, x) => TStr k :: TColon :: toks x end) l.
Proof.
  induction l as [|[[k om] x] r IH]; intro H; [reflexivity|]. cbn [allshown forallb fst snd] in H. apply andb_true_iff in H. destruct H as [Ho Hr].
  apply negb_true_iff in Ho. subst om. cbn [flat_map map app]. f_equal. apply IH. exact Hr.
Qed.

Lemma sepcat_mtext m r :
  sepcat (map (fun kv : list N * bool * jv => match kv with (k, _, x) => 34 :: k ++ [34; COLON] ++ render x end) (m :: r)) ++ [125] = mtext (m :: r).
Proof.
  revert m. induction r as [|y r IH]; intros [[k om] x].
  - cbn [map sepcat mtext]. unfold COLON. cbn [app]. rewrite <- !app_assoc. reflexivity.
  - match goal with |- sepcat (map ?f (?a :: y :: r)) ++ _ = _ =>
      change (map f (a :: y :: r)) with (f a :: map f (y :: r));
      change (sepcat (f a :: map f (y :: r))) with (f a ++ [COMMA] ++ sepcat (map f (y :: r))) end.
    rewrite <- !app_assoc. rewrite IH. cbn [mtext]. unfold COLON, COMMA. cbn [app]. rewrite <- !app_assoc. reflexivity.
Qed.

Lemma sep_mtoks m r :
  sep_toks (map (fun kv : list N * bool * jv => match kv with (k, _, x) => TStr k :: TColon :: toks x end) (m :: r)) ++ [TRBrace] = mtoks (m :: r).
Proof.
  revert m. induction r as [|y r IH]; intros [[k om] x].
  - cbn [map sep_toks mtoks]. cbn [app]. reflexivity.
  - match goal with |- sep_toks (map ?f (?a :: y :: r)) ++ _ = _ =>
      change (map f (a :: y :: r)) with (f a :: map f (y :: r));
      change (sep_toks (f a :: map f (y :: r))) with (f a ++ TComma :: sep_toks (map f (y :: r))) end.
    rewrite <- app_assoc. cbn [app]. rewrite IH. cbn [mtoks]. cbn [app]. reflexivity.
Qed.

Lemma render_arr x r : render (JArr (x :: r)) = 91 :: etext (x :: r).
Proof. cbn [render]. unfold LBR, RBR. cbn [app]. f_equal. apply sepcat_etext. Qed.
Lemma toks_arr x r : toks (JArr (x :: r)) = TLBrack :: etoks (x :: r).
Proof. cbn [toks]. f_equal. apply sep_etoks. Qed.
Lemma render_obj m r : allshown (m :: r) = true -> render (JObj (m :: r)) = 123 :: mtext (m :: r).
Proof. intro H. cbn [render]. rewrite (shown_text _ H). unfold LBC, RBC. cbn [app]. f_equal. apply sepcat_mtext. Qed.
Lemma toks_obj m r : allshown (m :: r) = true -> toks (JObj (m :: r)) = TLBrace :: mtoks (m :: r).
Proof. intro H. cbn [toks]. rewrite (shown_toks _ H). f_equal. apply sep_mtoks. Qed.

(* ---------- fuel ---------- *)
Fixpoint vb (v : jv) : nat :=
  match v with
  | JLeaf _ => 1
  | JArr l => S (fold_right (fun x a => S (vb x + a)) 0 l)%nat
  | JObj l => S (fold_right (fun m a => S (vb (snd m) + a)) 0 l)%nat
  end.
Definition eb (l : list jv) : nat := fold_right (fun x a => S (vb x + a)) 0%nat l.
Definition mb (l : list (list N * bool * jv)) : nat := fold_right (fun m a => S (vb (snd m) + a)) 0%nat l.

(* ---------- one step of each recogniser ---------- *)
Lemma skip_ws_nonws c r : ws_b c = false -> skip_ws (c :: r) = c :: r.
Proof. intro H. cbn [skip_ws]. rewrite H. reflexivity. Qed.

Section Complete.
  Notation PV := (pg_value None allnum).
  Notation PM := (pg_members None allnum).
  Notation PE := (pg_elements None allnum).

  Lemma pe_step f d l : PE (S f) d l =
    match PV f d l with
    | None => None
    | Some (vt, r1) =>
        match skip_ws r1 with
        | c :: r2 =>
            if c =? 93 then Some (vt ++ [TRBrack], r2)
            else if c =? 44 then
              match PE f d r2 with
              | Some (ts, rest) => Some (vt ++ TComma :: ts, rest)
              | None => None
              end
            else None
        | [] => None
        end
    end.
  Proof. reflexivity. Qed.

  Lemma pm_step f d l : PM (S f) d l =
    match skip_ws l with
    | q :: r =>
        if negb (q =? 34) then None else
        match p_string_body r with
        | None => None
        | Some (k, r1) =>
            match skip_ws r1 with
            | c :: r2 =>
                if negb (c =? 58) then None else
                match PV f d r2 with
                | None => None
                | Some (vt, r3) =>
                    match skip_ws r3 with
                    | c3 :: r4 =>
                        if c3 =? 125 then Some (TStr k :: TColon :: vt ++ [TRBrace], r4)
                        else if c3 =? 44 then
                          match PM f d r4 with
                          | Some (ts, rest) => Some (TStr k :: TColon :: vt ++ TComma :: ts, rest)
                          | None => None
                          end
                        else None
                    | [] => None
                    end
                end
            | [] => None
            end
        end
    | [] => None
    end.
  Proof. reflexivity. Qed.

  Lemma pv_step f d l : PV (S f) d l =
    match skip_ws l with
    | [] => None
    | c :: r =>
        if c =? 123 then
          match skip_ws r with
          | c1 :: r' =>
              if c1 =? 125 then Some ([TLBrace; TRBrace], r')
              else match PM f (S d) (c1 :: r') with
                   | Some (ts, rest) => Some (TLBrace :: ts, rest)
                   | None => None
                   end
          | [] => None
          end
        else if c =? 91 then
          match skip_ws r with
          | c1 :: r' =>
              if c1 =? 93 then Some ([TLBrack; TRBrack], r')
              else match PE f (S d) (c1 :: r') with
                   | Some (ts, rest) => Some (TLBrack :: ts, rest)
                   | None => None
                   end
          | [] => None
          end
        else if c =? 34 then
          match p_string_body r with Some (b, rest) => Some ([TStr b], rest) | None => None end
        else if (c =? 45) || digit_b c then
          let '(num, rest) := span numchar_b (c :: r) in
          if json_number num && allnum num then Some ([TNum num], rest) else None
        else if c =? 116 then match starts [114; 117; 101] r with Some rest => Some ([TTrue], rest) | None => None end
        else if c =? 102 then match starts [97; 108; 115; 101] r with Some rest => Some ([TFalse], rest) | None => None end
        else if c =? 110 then match starts [117; 108; 108] r with Some rest => Some ([TNull], rest) | None => None end
        else None
    end.
  Proof. reflexivity. Qed.

  (* the first byte of the text of a value: not white space, not a closer *)
  Definition opener (c : N) : bool :=
    negb (ws_b c) && negb (c =? 93) && negb (c =? 125).

  Lemma render_head v : wfp v = true -> exists c r, render v = c :: r /\ opener c = true.
  Proof.
    destruct v as [t|l|l]; intro H.
    - cbn [wfp] in H. cbn [render]. destruct t; try discriminate H; cbn [raw_tok].
      + eexists _, _. split; [reflexivity|reflexivity].
      + cbn [leaf_ok] in H. unfold num_ok in H. apply andb_true_iff in H. destruct H as [_ H]. destruct raw as [|c r]; [discriminate|].
        exists c, r. split; [reflexivity|]. cbn [starts_num] in H. unfold opener, ws_b, digit_b in *.
        destruct (c =? 45) eqn:E1; [apply N.eqb_eq in E1; subst; reflexivity|].
        cbn [orb] in H. apply andb_true_iff in H. destruct H as [H1 H2]. apply N.leb_le in H1. apply N.leb_le in H2.
        assert (c =? 32 = false) by (apply N.eqb_neq; lia). assert (c =? 9 = false) by (apply N.eqb_neq; lia).
        assert (c =? 10 = false) by (apply N.eqb_neq; lia). assert (c =? 13 = false) by (apply N.eqb_neq; lia).
        assert (c =? 93 = false) by (apply N.eqb_neq; lia). assert (c =? 125 = false) by (apply N.eqb_neq; lia).
        repeat match goal with E : _ = false |- _ => rewrite E; clear E end. reflexivity.
      + eexists _, _. split; [reflexivity|reflexivity].
      + eexists _, _. split; [reflexivity|reflexivity].
      + eexists _, _. split; [reflexivity|reflexivity].
    - cbn [render]. eexists _, _. split; [reflexivity|reflexivity].
    - cbn [render]. eexists _, _. split; [reflexivity|reflexivity].
  Qed.

  Definition complete_for (v : jv) : Prop :=
    forall f d rest, (vb v <= f)%nat -> delim rest = true -> PV f d (render v ++ rest) = Some (toks v, rest).

  Lemma elements_complete : forall l, l <> [] -> (forall x, In x l -> wfp x = true /\ complete_for x) ->
    forall f d rest, (eb l <= f)%nat -> PE f d (etext l ++ rest) = Some (etoks l, rest).
  Proof.
    induction l as [|x r IH]; intros Hne Hall f d rest Hf; [congruence|].
    unfold eb in Hf. cbn [fold_right] in Hf. destruct f as [|f]; [lia|]. fold (eb r) in Hf.
    destruct (Hall x (or_introl eq_refl)) as [Hwx Hcx].
    rewrite pe_step. destruct r as [|y r'].
    - cbn [etext etoks]. rewrite <- app_assoc. cbn [app].
      rewrite (Hcx f d (93 :: rest) ltac:(lia) eq_refl). rewrite skip_ws_nonws by reflexivity.
      change (93 =? 93) with true. cbv iota. reflexivity.
    - change (etext (x :: y :: r')) with (render x ++ 44 :: etext (y :: r')).
      change (etoks (x :: y :: r')) with (toks x ++ TComma :: etoks (y :: r')).
      rewrite <- app_assoc. cbn [app].
      rewrite (Hcx f d (44 :: etext (y :: r') ++ rest) ltac:(lia) eq_refl). rewrite skip_ws_nonws by reflexivity.
      change (44 =? 93) with false. change (44 =? 44) with true. cbv iota.
      rewrite (IH ltac:(discriminate) (fun z Hz => Hall z (or_intror Hz)) f d rest ltac:(lia)). reflexivity.
  Qed.

  Lemma members_complete : forall l, l <> [] ->
    (forall m, In m l -> strbody_ok (fst (fst m)) = true /\ wfp (snd m) = true /\ complete_for (snd m)) ->
    forall f d rest, (mb l <= f)%nat -> PM f d (mtext l ++ rest) = Some (mtoks l, rest).
  Proof.
    induction l as [|[[k om] x] r IH]; intros Hne Hall f d rest Hf; [congruence|].
    unfold mb in Hf. cbn [fold_right snd] in Hf. destruct f as [|f]; [lia|]. fold (mb r) in Hf.
    destruct (Hall (k, om, x) (or_introl eq_refl)) as (Hk & Hwx & Hcx). cbn [fst snd] in *.
    rewrite pm_step. cbn [mtext]. cbn [app]. rewrite skip_ws_nonws by reflexivity.
    change (34 =? 34) with true. cbn [negb]. cbv iota.
    rewrite <- app_assoc. cbn [app]. rewrite (strbody_parse k Hk). rewrite skip_ws_nonws by reflexivity.
    change (58 =? 58) with true. cbn [negb]. cbv iota.
    destruct r as [|y r'].
    - rewrite <- app_assoc. cbn [app].
      rewrite (Hcx f d (125 :: rest) ltac:(lia) eq_refl). rewrite skip_ws_nonws by reflexivity.
      change (125 =? 125) with true. cbv iota. reflexivity.
    - rewrite <- app_assoc. cbn [app].
      rewrite (Hcx f d (44 :: mtext (y :: r') ++ rest) ltac:(lia) eq_refl). rewrite skip_ws_nonws by reflexivity.
      change (44 =? 125) with false. change (44 =? 44) with true. cbv iota.
      rewrite (IH ltac:(discriminate) (fun z Hz => Hall z (or_intror Hz)) f d rest ltac:(lia)). reflexivity.
  Qed.

  Lemma size_in x : forall l, In x l -> (size x <= fold_right (fun x a => size x + a) 0 l)%nat.
  Proof. induction l as [|y r IH]; intros H; [destruct H|]. cbn [fold_right]. destruct H as [->|H]; [lia|specialize (IH H); lia]. Qed.
  Lemma size_in_snd (m : list N * bool * jv) : forall l, In m l -> (size (snd m) <= fold_right (fun kv a => size (snd kv) + a) 0 l)%nat.
  Proof. induction l as [|y r IH]; intros H; [destruct H|]. cbn [fold_right]. destruct H as [->|H]; [lia|specialize (IH H); lia]. Qed.

  Theorem value_complete_n : forall n v, (size v <= n)%nat -> wfp v = true -> complete_for v.
  Proof.
    induction n as [|n IH]; intros v Hs Hw; [destruct v; cbn in Hs; lia|].
    destruct v as [t|l|l]; intros f d rest Hf Hd.
    - cbn [vb] in Hf. destruct f as [|f]; [lia|]. cbn [wfp] in Hw. cbn [render toks]. rewrite pv_step.
      destruct t; try discriminate Hw; cbn [raw_tok leaf_ok] in *.
      + cbn [app]. rewrite skip_ws_nonws by reflexivity. change (34 =? 123) with false. change (34 =? 91) with false. change (34 =? 34) with true. cbv iota.
        rewrite <- app_assoc. cbn [app]. rewrite (strbody_parse body Hw). reflexivity.
      + unfold num_ok in Hw. apply andb_true_iff in Hw. destruct Hw as [Hw Hst]. apply andb_true_iff in Hw. destruct Hw as [Hj Hn].
        destruct raw as [|c r]; [discriminate|]. cbn [starts_num] in Hst.
        assert (Hnw : ws_b c = false /\ c =? 123 = false /\ c =? 91 = false /\ c =? 34 = false).
        { unfold ws_b, digit_b in *. destruct (c =? 45) eqn:E1; [apply N.eqb_eq in E1; subst; repeat split; reflexivity|].
          cbn [orb] in Hst. apply andb_true_iff in Hst. destruct Hst as [H1 H2]. apply N.leb_le in H1. apply N.leb_le in H2.
          repeat split; try (apply N.eqb_neq; lia).
          assert (c =? 32 = false) by (apply N.eqb_neq; lia). assert (c =? 9 = false) by (apply N.eqb_neq; lia).
          assert (c =? 10 = false) by (apply N.eqb_neq; lia). assert (c =? 13 = false) by (apply N.eqb_neq; lia).
          repeat match goal with E : _ = false |- _ => rewrite E; clear E end. reflexivity. }
        destruct Hnw as (W & E1 & E2 & E3). cbn [app]. rewrite skip_ws_nonws by exact W. rewrite E1, E2, E3, Hst.
        change (c :: r ++ rest) with ((c :: r) ++ rest). rewrite (span_num (c :: r) rest Hn Hd). rewrite Hj. reflexivity.
      + cbn [app]. reflexivity.
      + cbn [app]. reflexivity.
      + cbn [app]. reflexivity.
    - cbn [wfp] in Hw. rewrite forallb_forall in Hw. cbn [size] in Hs.
      destruct l as [|x r].
      + cbn [vb fold_right] in Hf. destruct f as [|f]; [lia|]. reflexivity.
      + cbn [vb] in Hf. destruct f as [|f]; [lia|]. fold (eb (x :: r)) in Hf.
        rewrite render_arr, toks_arr. cbn [app]. rewrite pv_step. rewrite skip_ws_nonws by reflexivity.
        change (91 =? 123) with false. change (91 =? 91) with true. cbv iota.
        destruct (render_head x (Hw x (or_introl eq_refl))) as (c & tl & Hr & Ho).
        assert (Hex : exists tl', etext (x :: r) ++ rest = c :: tl').
        { cbn [etext]. rewrite Hr. cbn [app]. eexists. reflexivity. }
        destruct Hex as [tl' Htl]. unfold opener in Ho. apply andb_true_iff in Ho. destruct Ho as [Ho H125]. apply andb_true_iff in Ho. destruct Ho as [Hws H93].
        apply negb_true_iff in Hws. apply negb_true_iff in H93.
        rewrite Htl. rewrite skip_ws_nonws by exact Hws. rewrite H93. rewrite <- Htl.
        rewrite (elements_complete (x :: r) ltac:(discriminate)); [reflexivity| |lia].
        intros z Hz. split; [apply Hw; exact Hz|]. apply IH; [pose proof (size_in z (x :: r) Hz); lia|apply Hw; exact Hz].
    - cbn [wfp] in Hw. rewrite forallb_forall in Hw. cbn [size] in Hs.
      destruct l as [|m r].
      + cbn [vb fold_right] in Hf. destruct f as [|f]; [lia|]. reflexivity.
      + cbn [vb] in Hf. destruct f as [|f]; [lia|]. fold (mb (m :: r)) in Hf.
        assert (Hshown : allshown (m :: r) = true).
        { unfold allshown. apply forallb_forall. intros [[k om] z] Hz. specialize (Hw _ Hz). cbn beta iota in Hw.
          apply andb_true_iff in Hw. destruct Hw as [Hw _]. apply andb_true_iff in Hw. destruct Hw as [Hw _]. exact Hw. }
        rewrite (render_obj m r Hshown), (toks_obj m r Hshown). cbn [app]. rewrite pv_step. rewrite skip_ws_nonws by reflexivity.
        change (123 =? 123) with true. cbv iota.
        destruct m as [[k om] x]. cbn [mtext]. cbn [app]. rewrite skip_ws_nonws by reflexivity. change (34 =? 125) with false. cbv iota.
        change (34 :: (k ++ 34 :: 58 :: render x ++ match r with [] => [125] | _ :: _ => 44 :: mtext r end) ++ rest) with (mtext ((k, om, x) :: r) ++ rest).
        rewrite (members_complete ((k, om, x) :: r) ltac:(discriminate)); [reflexivity| |lia].
        intros [[k' om'] z] Hz. cbn [fst snd]. specialize (Hw _ Hz). cbn beta iota in Hw.
        apply andb_true_iff in Hw. destruct Hw as [Hw Hz']. apply andb_true_iff in Hw. destruct Hw as [_ Hk'].
        split; [exact Hk'|]. split; [exact Hz'|]. apply IH; [pose proof (size_in_snd (k', om', z) _ Hz) as Hsz; cbn [snd] in Hsz; lia|exact Hz'].
  Qed.
End Complete.

(* the fuel parse_json gives is enough *)
Lemma vb_le_text_n : forall n v, (size v <= n)%nat -> wfp v = true -> (vb v <= 2 * length (render v))%nat.
Proof.
  induction n as [|n IH]; intros v Hs Hw; [destruct v; cbn in Hs; lia|].
  destruct v as [t|l|l].
  - destruct (render_head (JLeaf t) Hw) as (c & r & Hr & _). rewrite Hr. cbn [vb length]. lia.
  - cbn [wfp] in Hw. rewrite forallb_forall in Hw. cbn [size] in Hs. destruct l as [|x r]; [cbn; lia|].
    rewrite render_arr. cbn [vb length].
    assert (H : forall l, (forall z, In z l -> wfp z = true /\ (size z <= n)%nat) -> l <> [] -> (S (eb l) <= 2 * length (etext l))%nat).
    { induction l as [|y l' IHl]; intros Hall Hne; [congruence|]. destruct (Hall y (or_introl eq_refl)) as [Hwy Hsy].
      pose proof (IH y Hsy Hwy) as Hy. unfold eb. cbn [fold_right etext]. fold (eb l'). rewrite app_length.
      destruct l' as [|y' l'']; [cbn [eb fold_right length]; lia|].
      specialize (IHl (fun z Hz => Hall z (or_intror Hz)) ltac:(discriminate)). cbn [length]. lia. }
    specialize (H (x :: r)). unfold eb in H.
    assert (Hall : forall z, In z (x :: r) -> wfp z = true /\ (size z <= n)%nat).
    { intros z Hz. split; [apply Hw; exact Hz|pose proof (size_in z (x :: r) Hz); lia]. }
    specialize (H Hall ltac:(discriminate)). lia.
  - cbn [wfp] in Hw. rewrite forallb_forall in Hw. cbn [size] in Hs. destruct l as [|m r]; [cbn; lia|].
    assert (Hshown : allshown (m :: r) = true).
    { unfold allshown. apply forallb_forall. intros [[k om] z] Hz. specialize (Hw _ Hz). cbn beta iota in Hw.
      apply andb_true_iff in Hw. destruct Hw as [Hw _]. apply andb_true_iff in Hw. destruct Hw as [Hw _]. exact Hw. }
    rewrite (render_obj m r Hshown). cbn [vb length].
    assert (H : forall l, (forall z, In z l -> wfp (snd z) = true /\ (size (snd z) <= n)%nat) -> l <> [] -> (S (mb l) <= 2 * length (mtext l))%nat).
    { induction l as [|[[k om] y] l' IHl]; intros Hall Hne; [congruence|]. destruct (Hall (k, om, y) (or_introl eq_refl)) as [Hwy Hsy]. cbn [snd] in *.
      pose proof (IH y Hsy Hwy) as Hy. unfold mb. cbn [fold_right mtext snd]. fold (mb l'). cbn [length]. rewrite !app_length. cbn [length].
      destruct l' as [|y' l'']; [cbn [mb fold_right length]; lia|].
      specialize (IHl (fun z Hz => Hall z (or_intror Hz)) ltac:(discriminate)). cbn [length]. lia. }
    specialize (H (m :: r)). unfold mb in H.
    assert (Hall : forall z, In z (m :: r) -> wfp (snd z) = true /\ (size (snd z) <= n)%nat).
    { intros [[k om] z] Hz. cbn [snd]. specialize (Hw _ Hz). cbn beta iota in Hw. apply andb_true_iff in Hw. destruct Hw as [_ Hz'].
      split; [exact Hz'|pose proof (size_in_snd (k, om, z) _ Hz) as Hsz; cbn [snd] in Hsz; lia]. }
    specialize (H Hall ltac:(discriminate)). lia.
Qed.

Theorem parse_render v : wfp v = true -> parse_json (render v) = Some (toks v, []).
Proof.
  intro Hw. unfold parse_json, parse_g.
  pose proof (value_complete_n (size v) v (le_n _) Hw (2 * length (render v) + 4)%nat 0%nat (@nil N)) as H.
  rewrite app_nil_r in H. rewrite H; [reflexivity| |reflexivity].
  pose proof (vb_le_text_n (size v) v (le_n _) Hw). lia.
Qed.

(* members that are left out do not appear in the text: the text of v is that of v without them *)
Fixpoint strip (v : jv) : jv :=
  match v with
  | JLeaf t => JLeaf t
  | JArr l => JArr (map strip l)
  | JObj l => JObj (flat_map (fun m : list N * bool * jv => match m with (k, om, x) => if om then [] else [(k, false, strip x)] end) l)
  end.

Lemma strip_same_n : forall n v, (size v <= n)%nat -> render (strip v) = render v /\ toks (strip v) = toks v.
Proof.
  induction n as [|n IH]; intros v Hs; [destruct v; cbn in Hs; lia|].
  destruct v as [t|l|l]; [split; reflexivity| |]; cbn [size] in Hs.
  - assert (H : forall x, In x l -> render (strip x) = render x /\ toks (strip x) = toks x).
    { intros x Hx. apply IH. pose proof (size_in x l Hx). lia. }
    cbn [strip render toks]. rewrite !map_map. split.
    + f_equal. f_equal. f_equal. apply map_ext_in. intros x Hx. apply (H x Hx).
    + f_equal. f_equal. f_equal. apply map_ext_in. intros x Hx. apply (H x Hx).
  - assert (H : forall m, In m l -> render (strip (snd m)) = render (snd m) /\ toks (strip (snd m)) = toks (snd m)).
    { intros m Hm. apply IH. pose proof (size_in_snd m l Hm). lia. }
    cbn [strip render toks]. clear Hs. split.
    + f_equal. f_equal. f_equal. induction l as [|[[k om] x] r IHl]; [reflexivity|].
      cbn [flat_map]. destruct om; cbn [app flat_map]; [apply IHl; intros m Hm; apply H; right; exact Hm|].
      pose proof (proj1 (H (k, false, x) (or_introl eq_refl))) as Hx. cbn [snd] in Hx. rewrite Hx. f_equal. apply IHl. intros m Hm. apply H. right. exact Hm.
    + f_equal. f_equal. f_equal. induction l as [|[[k om] x] r IHl]; [reflexivity|].
      cbn [flat_map]. destruct om; cbn [app flat_map]; [apply IHl; intros m Hm; apply H; right; exact Hm|].
      pose proof (proj2 (H (k, false, x) (or_introl eq_refl))) as Hx. cbn [snd] in Hx. rewrite Hx. f_equal. apply IHl. intros m Hm. apply H. right. exact Hm.
Qed.

(* Marshal's output is one RFC 8259 text, and reading it gives the token sequence of the value *)
Theorem parse_marshal v : wfp (strip v) = true -> parse_json (marshal v) = Some (toks v, []).
Proof.
  intro Hw. rewrite marshal_is_render. destruct (strip_same_n (size v) v (le_n _)) as [Hr Ht].
  rewrite <- Hr, <- Ht. apply parse_render. exact Hw.
Qed.

Corollary marshal_is_rfc_json v : wfp (strip v) = true -> rfc_json (marshal v) = true.
Proof. intro Hw. unfold rfc_json. rewrite (parse_marshal v Hw). reflexivity. Qed.
