(* append*String: the SWAR fast path never changes the result of the slow loop. *)
From Coq Require Import NArith ZArith List Bool Lia.
From Coq Require Import ZifyN ZifyNat ZifyBool.
From GJ Require Import Base.Bytes Base.Word64 Gen.Tables Gen.Swar Model.StrEnc Proofs.WordP Proofs.SwarP.
Import ListNotations.
Open Scope N_scope.
Ltac Zify.zify_post_hook ::= Z.div_mod_to_equations.

Definition nothi (l : list N) : Prop := Forall (fun m => hi m = false) l.
Definition his (ms : list N) : list N := map (fun m => N.land m 128) ms.

Lemma msb_const_rep : msb_const = to_word (rep 128 8).
Proof. vm_compute. reflexivity. Qed.

Lemma zipw_land_rep ms : zipw N.land ms (rep 128 (length ms)) = his ms.
Proof. induction ms as [|m r IH]; cbn; [reflexivity|]. rewrite IH. reflexivity. Qed.

Lemma land_msb ms : ok ms -> length ms = 8%nat ->
  N.land (to_word ms) msb_const = to_word (his ms).
Proof.
  intros H L. rewrite msb_const_rep. rewrite to_word_land; [|assumption|apply rep_ok; lia|rewrite rep_length; exact L].
  rewrite <- L. rewrite zipw_land_rep. reflexivity.
Qed.

Lemma land128 m : m < 256 -> N.land m 128 = 0 \/ N.land m 128 = 128.
Proof.
  intro H. pose (P := fun m => (N.land m 128 =? 0) || (N.land m 128 =? 128)).
  assert (HP : forallb P all_bytes = true) by (vm_compute; reflexivity).
  pose proof (forall_bytes P HP m H) as E. unfold P in E. lia.
Qed.

Lemma to_word_his_zero ms : ok ms -> to_word (his ms) = 0 -> nothi ms.
Proof.
  induction 1 as [|m r Hm Hr IH]; intro E; [constructor|].
  cbn [his map to_word] in E. fold (his r) in E.
  assert (N.land m 128 = 0 /\ to_word (his r) = 0) as [A B] by lia.
  constructor; [unfold hi; rewrite A; reflexivity|apply IH; exact B].
Qed.

(* first byte whose high bit is set *)
Lemma tz_his ms : ok ms -> to_word (his ms) <> 0 ->
  exists p, tz_bytes (length ms) (to_word (his ms)) = 8 * N.of_nat p + 7 /\
            (p < length ms)%nat /\ nothi (firstn p ms).
Proof.
  induction 1 as [|m r Hm Hr IH]; intro E; [cbn in E; congruence|].
  cbn [his map to_word length tz_bytes] in *. fold (his r) in *.
  destruct (land128 m Hm) as [Z|Z]; rewrite Z in *.
  - assert (E1 : (0 + 256 * to_word (his r)) mod 256 = 0) by lia. rewrite E1. cbn [N.eqb].
    assert (E2 : (0 + 256 * to_word (his r)) / 256 = to_word (his r)) by lia. rewrite E2.
    destruct IH as (p & A & B & C); [lia|]. exists (S p). split; [rewrite A; lia|]. split; [lia|].
    cbn [firstn]. constructor; [unfold hi; rewrite Z; reflexivity|exact C].
  - assert (E1 : (128 + 256 * to_word (his r)) mod 256 = 128) by lia. rewrite E1.
    exists 0%nat. split; [vm_compute; reflexivity|]. split; [lia|constructor].
Qed.

Section Variant.
  Variable need : list N.
  Variable html normalize : bool.
  Variable mask : wexpr.
  Variable ts : list term.
  Hypothesis Hterms : terms mask = Some ts.
  Hypothesis Hcover : cover need ts = true.

  Let Hts : terms_ok ts := proj1 (terms_sound mask ts Hterms).
  Let Hev := proj2 (terms_sound mask ts Hterms).

  Definition chunk_mask (c : list N) : N := N.land (weval mask (to_word c)) msb_const.

  Lemma chunk_mask_his c : ok c -> length c = 8%nat -> chunk_mask c = to_word (his (mbytes ts c)).
  Proof.
    intros Hc Hl. unfold chunk_mask. rewrite Hev by assumption.
    destruct (mbytes_ok ts Hts c Hc) as [A B]. apply land_msb; [exact A|lia].
  Qed.

  (* F1: no high bit in the mask => no flagged byte in the chunk *)
  Lemma chunk_clean c : ok c -> length c = 8%nat -> chunk_mask c = 0 -> unflagged need c.
  Proof.
    intros Hc Hl E. rewrite chunk_mask_his in E by assumption.
    destruct (mbytes_ok ts Hts c Hc) as [A B].
    pose proof (to_word_his_zero _ A E) as NH.
    pose proof (clean_unflagged need ts 8 c Hts Hcover Hc) as CU.
    rewrite (firstn_all2 (n := 8) (mbytes ts c)) in CU by lia.
    rewrite (firstn_all2 (n := 8) c) in CU by lia. apply CU. exact NH.
  Qed.

  (* F2: the bytes before the first high bit are not flagged *)
  Lemma chunk_hit c : ok c -> length c = 8%nat -> chunk_mask c <> 0 ->
    exists p, tz64 (chunk_mask c) / 8 = N.of_nat p /\ (p < 8)%nat /\ unflagged need (firstn p c).
  Proof.
    intros Hc Hl E. unfold tz64. destruct (N.eqb_spec (chunk_mask c) 0) as [Z|Z]; [congruence|].
    rewrite chunk_mask_his in * by assumption.
    destruct (mbytes_ok ts Hts c Hc) as [A B].
    destruct (tz_his _ A E) as (p & T & L & NH). rewrite B, Hl in *.
    exists p. split; [rewrite T; lia|]. split; [exact L|].
    apply (clean_unflagged need ts p c Hts Hcover Hc). exact NH.
  Qed.

  (* ---------- the slow loop ---------- *)
  Lemma slow_nil f : slow need html normalize f [] = [].
  Proof. destruct f; reflexivity. Qed.

  Lemma slow_unflagged_prefix p : forall f r, unflagged need p -> (length p <= f)%nat ->
    slow need html normalize f (p ++ r) = p ++ slow need html normalize (f - length p) r.
  Proof.
    induction p as [|c p IH]; intros f r H L.
    - cbn [app length]. rewrite Nat.sub_0_r. reflexivity.
    - inversion H as [|? ? Hc Hp]; subst. cbn [length] in L. destruct f as [|f]; [lia|].
      cbn [app slow]. rewrite Hc. cbn [negb]. rewrite IH by (try assumption; lia). reflexivity.
  Qed.

  Lemma decode_rune_size s st size : decode_rune s = (st, size) -> 1 <= size <= 4.
  Proof.
    unfold decode_rune. intro H.
    repeat match type of H with
    | (match ?x with _ => _ end) = _ => destruct x eqn:?
    | (if ?b then _ else _) = _ => destruct b eqn:?
    | (let _ := _ in _) = _ => cbv zeta in H
    end; inversion H; subst; lia.
  Qed.

  Lemma slow_fuel f1 : forall f2 s, (length s <= f1)%nat -> (length s <= f2)%nat ->
    slow need html normalize f1 s = slow need html normalize f2 s.
  Proof.
    induction f1 as [|f1 IH]; intros f2 s L1 L2.
    - destruct s; [|cbn in L1; lia]. rewrite !slow_nil. reflexivity.
    - destruct s as [|c r]; [rewrite !slow_nil; reflexivity|].
      destruct f2 as [|f2]; [cbn in L2; lia|]. cbn [length] in L1, L2.
      cbn [slow]. destruct (negb (tblb need c)); [f_equal; apply IH; lia|].
      destruct (escape_of html c); [f_equal; apply IH; lia|].
      assert (Lk : forall k, (1 <= k)%nat -> (length (skipn k (c :: r)) <= length r)%nat).
      { intros k Hk. rewrite skipn_length. cbn [length]. lia. }
      destruct normalize.
      2:{ destruct html; [|f_equal; apply IH; lia].
          destruct (sep3 (c :: r)); f_equal; apply IH; try lia; pose proof (Lk 3%nat ltac:(lia)); lia. }
      destruct (decode_rune (c :: r)) as [st size] eqn:D.
      pose proof (decode_rune_size _ _ _ D) as Sz.
      destruct st; f_equal; apply IH;
        try lia; try (pose proof (Lk 3%nat ltac:(lia)); lia);
        try (pose proof (Lk (N.to_nat size) ltac:(lia)); lia).
  Qed.

  Lemma slow_from_prefix s J : ok s -> unflagged need (firstn J s) ->
    slow need html normalize (length s) s =
    firstn J s ++ slow need html normalize (length s) (skipn J s).
  Proof.
    intros Hs HU. rewrite <- (firstn_skipn J s) at 2.
    rewrite slow_unflagged_prefix; [|exact HU|rewrite firstn_length; lia].
    f_equal. apply slow_fuel; rewrite skipn_length, ?firstn_length; lia.
  Qed.

  (* ---------- chunk loop ---------- *)
  Lemma chunks_wf n : forall s, ok s -> (8 * n <= length s)%nat ->
    Forall (fun c => ok c /\ length c = 8%nat) (chunks n s).
  Proof.
    induction n as [|n IH]; intros s Hs L; cbn [chunks]; constructor.
    - split; [apply ok_firstn; exact Hs|rewrite firstn_length; lia].
    - apply IH; [apply ok_skipn; exact Hs|rewrite skipn_length; lia].
  Qed.

  Lemma first_hit_lt8 cs : Forall (fun c => ok c /\ length c = 8%nat) cs ->
    forall j, first_hit mask cs = Some j -> j < 8.
  Proof.
    induction 1 as [|c r [Hc Hl] Hr IH]; intros j H; cbn [first_hit] in H; [discriminate|].
    fold (chunk_mask c) in H. destruct (N.eqb_spec (chunk_mask c) 0) as [Z|Z]; [apply IH; exact H|].
    inversion H; subst. destruct (chunk_hit c Hc Hl Z) as (p & E & L & _). rewrite E. lia.
  Qed.

  Lemma first_hit_head c0 r j : Forall (fun c => ok c /\ length c = 8%nat) (c0 :: r) ->
    first_hit mask (c0 :: r) = Some j -> unflagged need (firstn (N.to_nat j) c0).
  Proof.
    intros HF H. inversion HF as [|? ? [Hc Hl] Hr]; subst. cbn [first_hit] in H.
    fold (chunk_mask c0) in H. destruct (N.eqb_spec (chunk_mask c0) 0) as [Z|Z].
    - pose proof (chunk_clean c0 Hc Hl Z) as U. unfold unflagged in *.
      apply Forall_forall. intros x Hx. apply (proj1 (Forall_forall _ _) U).
      rewrite <- (firstn_skipn (N.to_nat j) c0). apply in_or_app. left. exact Hx.
    - inversion H; subst. destruct (chunk_hit c0 Hc Hl Z) as (p & E & L & U). rewrite E, Nat2N.id. exact U.
  Qed.

  Lemma first_hit_none n : forall s, ok s -> (8 * n <= length s)%nat ->
    first_hit mask (chunks n s) = None -> unflagged need (firstn (8 * n) s).
  Proof.
    induction n as [|n IH]; intros s Hs L H.
    - cbn. constructor.
    - cbn [chunks first_hit] in H. fold (chunk_mask (firstn 8 s)) in H.
      destruct (N.eqb_spec (chunk_mask (firstn 8 s)) 0) as [Z|Z]; [|discriminate].
      assert (U1 : unflagged need (firstn 8 s)).
      { apply chunk_clean; [apply ok_firstn; exact Hs|rewrite firstn_length; lia|exact Z]. }
      specialize (IH (skipn 8 s) (ok_skipn 8 s Hs) ltac:(rewrite skipn_length; lia) H).
      replace (8 * S n)%nat with (8 + 8 * n)%nat by lia.
      rewrite <- (firstn_skipn 8 s) at 1.
      rewrite firstn_app, firstn_firstn, firstn_length.
      replace (Nat.min (8 + 8 * n) 8) with 8%nat by lia.
      replace (8 + 8 * n - Nat.min 8 (length s))%nat with (8 * n)%nat by lia.
      unfold unflagged in *. apply Forall_app. split; assumption.
  Qed.

  Lemma tail_hit_spec l : forall i,
    match tail_hit need i l with
    | Some j => exists q, j = i + N.of_nat q /\ (q < length l)%nat /\ unflagged need (firstn q l)
    | None => unflagged need l
    end.
  Proof.
    induction l as [|c r IH]; intro i; cbn [tail_hit]; [constructor|].
    destruct (tblb need c) eqn:T.
    - exists 0%nat. split; [lia|]. split; [cbn; lia|constructor].
    - specialize (IH (i + 1)). destruct (tail_hit need (i + 1) r) as [j|].
      + destruct IH as (q & E & L & U). exists (S q). split; [lia|]. split; [cbn; lia|].
        cbn [firstn]. constructor; assumption.
      + constructor; assumption.
  Qed.

  (* the theorem: whatever the fast path decides, the result is that of the slow loop *)
  Theorem append_string_eq_slow s : ok s ->
    append_string need html normalize mask s = 34 :: slow need html normalize (length s) s ++ [34].
  Proof.
    intro Hs. unfold append_string. destruct s as [|c0 s0] eqn:Es; [reflexivity|]. rewrite <- Es in *.
    destruct (Nat.ltb_spec (length s) 8) as [L8|L8]; [reflexivity|].
    set (n := Nat.div (length s) 8).
    assert (Ln : (8 * n <= length s)%nat) by (unfold n; apply Nat.mul_div_le; lia).
    assert (Hn : (1 <= n)%nat) by (unfold n; apply Nat.div_le_lower_bound; lia).
    pose proof (chunks_wf n s Hs Ln) as WF.
    destruct (first_hit mask (chunks n s)) as [j|] eqn:FH.
    - pose proof (first_hit_lt8 _ WF j FH) as J8.
      destruct n as [|n']; [lia|]. cbn [chunks] in FH, WF.
      pose proof (first_hit_head _ _ j WF FH) as U.
      rewrite firstn_firstn in U. replace (Nat.min (N.to_nat j) 8) with (N.to_nat j) in U by lia.
      rewrite (slow_from_prefix s (N.to_nat j) Hs U). rewrite <- app_assoc. reflexivity.
    - pose proof (first_hit_none n s Hs Ln FH) as U1.
      pose proof (tail_hit_spec (skipn (n * 8) s) (N.of_nat (n * 8))) as TS.
      destruct (tail_hit need (N.of_nat (n * 8)) (skipn (n * 8) s)) as [j|].
      + destruct TS as (q & Ej & Lq & U2).
        assert (Ej' : N.to_nat j = (8 * n + q)%nat) by lia.
        assert (U : unflagged need (firstn (N.to_nat j) s)).
        { rewrite Ej'. rewrite <- (firstn_skipn (8 * n) s) at 1.
          rewrite firstn_app, firstn_firstn, firstn_length.
          replace (Nat.min (8 * n + q) (8 * n)) with (8 * n)%nat by lia.
          replace (8 * n + q - Nat.min (8 * n) (length s))%nat with q by lia.
          replace (n * 8)%nat with (8 * n)%nat in U2 by lia.
          unfold unflagged in *. apply Forall_app. split; assumption. }
        rewrite (slow_from_prefix s (N.to_nat j) Hs U). rewrite <- app_assoc. reflexivity.
      + assert (U : unflagged need s).
        { rewrite <- (firstn_skipn (8 * n) s). replace (n * 8)%nat with (8 * n)%nat in TS by lia.
          unfold unflagged in *. apply Forall_app. split; assumption. }
        pose proof (slow_unflagged_prefix s (length s) [] U ltac:(lia)) as SP.
        rewrite app_nil_r in SP. rewrite SP, slow_nil, app_nil_r. reflexivity.
  Qed.
End Variant.
