From Coq Require Import NArith List Bool.
From GJ Require Import Model.DecOpts.
Import ListNotations.

Section P.
  Variable opts optfun : Type.
  Variable apply : opts -> optfun -> opts.

  Lemma run_every_way_out configured history : run opts optfun apply OnEveryWayOut configured history = configured.
  Proof. unfold run. induction history as [|c h IH]; [reflexivity|]. cbn [fold_left after]. exact IH. Qed.

  (* a call on a Decoder with any history sees what the same call sees on a fresh Decoder set up the same way *)
  Theorem seen_as_if_fresh configured history given :
    seen opts optfun apply (run opts optfun apply OnEveryWayOut configured history) given = seen opts optfun apply configured given.
  Proof. rewrite run_every_way_out. reflexivity. Qed.
End P.

(* restoring only on success: a failed first-win call (bit 2) leaves the bit for the plain call that follows *)
Theorem success_only_refuted :
  seen N N flags_apply (run N N flags_apply OnSuccessOnly 0%N [([2%N], ReturnedError)]) [] <> seen N N flags_apply 0%N [].
Proof. vm_compute. discriminate. Qed.
Theorem no_restore_refuted :
  seen N N flags_apply (run N N flags_apply NoRestore 0%N [([2%N], Decoded)]) [] <> seen N N flags_apply 0%N [].
Proof. vm_compute. discriminate. Qed.
