(* Indent against encoding/json's Indent for every input, and what applying
   Compact and Indent to their own (and to each other's) output does. *)
From Coq Require Import NArith ZArith List Bool Lia.
From GJ Require Import Base.Bytes Gen.Tables Model.Int Model.Enc Model.EncIndent Model.Compact Spec.Json
  Proofs.CompactLeafP Proofs.JsonSpecP Proofs.CompactP Proofs.EncP Proofs.ParseP Proofs.ParseWsP
  Proofs.EncIndentP Proofs.IndentRefP Proofs.LeafSoundP Proofs.ModeP Proofs.ParseShapeP.
Import ListNotations.
Open Scope N_scope.

Notation PARSE := (parse_g clim allnum).

(* ---------- every mode: the tree of the parse, laid out ---------- *)
Theorem run_value_tree m data :
  match PARSE data with
  | Some (ts, rest) => exists v, wfp v = true /\ toks v = ts /\ run_value m false data = COk (rsm m 0 v)
  | None => run_value m false data = CErr
  end.
Proof.
  unfold run_value, parse_g, top_fuel.
  destruct data as [|d0 dr] eqn:Ed.
  { reflexivity. }
  rewrite <- Ed. assert (Hne : data <> []) by (rewrite Ed; discriminate). clear Ed d0 dr.
  destruct (mode_rel m (2 * length data + 4)) as (Hv & _ & _).
  specialize (Hv 0%nat data). unfold vrel in Hv.
  destruct (pg_value clim allnum (2 * length data + 4) 0 data) as [[ts rest]|].
  - destruct Hv as (v & Hw & Ht & HR). destruct data as [|d0 dr]; [congruence|]. rewrite HR. rewrite validate_end_all_ws.
    destruct (all_ws rest); [|reflexivity]. exists v. split; [exact Hw|]. split; [exact Ht|reflexivity].
  - destruct data as [|d0 dr]; [congruence|].
    destruct Hv as [E|[E B]]; [rewrite E; reflexivity|exfalso; lia].
Qed.

(* every accepted text is the text of a tree; the rest is the trailing white space *)
Lemma parse_tree data ts rest : PARSE data = Some (ts, rest) ->
  (exists v, wfp v = true /\ toks v = ts) /\ all_ws rest = true /\ ends_nonws data rest /\ scan clim 0 ts = Some 0%nat.
Proof.
  intro H. pose proof (run_value_tree None data) as T. rewrite H in T. destruct T as (v & Hw & Ht & _).
  split; [exists v; split; assumption|].
  unfold parse_g in H. destruct (pg_value clim allnum (2 * length data + 4) 0 data) as [[ts' rest']|] eqn:E; [|discriminate].
  destruct (all_ws rest') eqn:Ea; [|discriminate]. inversion H; subst.
  split; [exact Ea|]. split.
  - destruct (consumed clim allnum (2 * length data + 4)) as (C & _ & _). exact (C _ _ _ _ E).
  - destruct (parse_scan clim allnum (2 * length data + 4)) as (S1 & _ & _). exact (S1 _ _ _ _ E).
Qed.

(* ---------- trailing white space ---------- *)
Lemma trailing_rev_ws w : all_ws w = true -> forall c t, ws_b c = false -> trailing_ws_rev (w ++ c :: t) = w.
Proof.
  induction w as [|x w IH]; intros H c t Hc.
  - cbn [app trailing_ws_rev]. rewrite ws_table, Hc. reflexivity.
  - cbn [all_ws] in H. apply andb_true_iff in H. destruct H as [Hx Hw]. cbn [app trailing_ws_rev]. rewrite ws_table, Hx. f_equal. exact (IH Hw c t Hc).
Qed.

Lemma all_ws_rev w : all_ws w = true -> all_ws (rev w) = true.
Proof.
  induction w as [|x w IH]; intro H; [reflexivity|]. cbn [all_ws] in H. apply andb_true_iff in H. destruct H as [Hx Hw].
  cbn [rev]. apply all_ws_app; [exact (IH Hw)|cbn [all_ws]; rewrite Hx; reflexivity].
Qed.

Lemma trailing_is_rest data rest : ends_nonws data rest -> all_ws rest = true -> trailing_ws data = rest.
Proof.
  intros (x & c & -> & Hc) Hw. unfold trailing_ws. rewrite rev_app_distr. cbn [rev]. rewrite <- app_assoc. cbn [app].
  rewrite (trailing_rev_ws (rev rest) (all_ws_rev rest Hw) c (rev x) Hc). apply rev_involutive.
Qed.

(* ---------- Indent = encoding/json.Indent, for every input, prefix and indent ---------- *)
Theorem indent_run_spec pre ind data :
  indent_run pre ind data =
  match PARSE data with
  | Some (ts, rest) => COk (render_indent pre ind 0 None ts ++ rest)
  | None => CErr
  end.
Proof.
  unfold indent_run. pose proof (run_value_tree (Some (pre, ind)) data) as T.
  destruct (PARSE data) as [[ts rest]|] eqn:E; [|rewrite T; reflexivity].
  destruct T as (v & Hw & Ht & HR). rewrite HR.
  destruct (parse_tree data ts rest E) as (_ & Ha & He & _).
  rewrite (trailing_is_rest data rest He Ha).
  change (rsm (Some (pre, ind)) 0 v) with (ri pre ind 0 v).
  rewrite (ri_is_reference_indent pre ind v Hw). rewrite Ht. reflexivity.
Qed.

(* ---------- reading a laid-out tree again ---------- *)
Lemma all_ws_delim w : all_ws w = true -> delim w = true.
Proof. destruct w as [|c w]; [reflexivity|]. cbn [all_ws delim]. intro H. apply andb_true_iff in H. destruct H as [Hc _]. rewrite (ws_not_numchar c Hc). reflexivity. Qed.

Section Again.
  Variables og sg cg : nat -> list N.
  Variable kg : list N.
  Hypothesis Hog : forall d, all_ws (og d) = true.
  Hypothesis Hsg : forall d, all_ws (sg d) = true.
  Hypothesis Hcg : forall d, all_ws (cg d) = true.
  Hypothesis Hkg : all_ws kg = true.

  Lemma parse_laid_out v tw : wfp v = true -> all_ws tw = true -> scan clim 0 (toks v) = Some 0%nat ->
    PARSE (rs og sg cg kg 0 v ++ tw) = Some (toks v, tw).
  Proof.
    intros Hw Htw Hs. unfold parse_g.
    set (F := (2 * length (rs og sg cg kg 0 v ++ tw) + 4)%nat).
    pose proof (value_ws_n og sg cg kg Hog Hsg Hcg Hkg (size v) v (le_n _) Hw F 0%nat 0%nat (@nil N) tw) as H.
    cbn [app] in H.
    assert (HF : (vb v <= F)%nat).
    { pose proof (vb_le_rs_n og sg cg kg Hog Hsg Hcg Hkg (size v) v 0%nat (le_n _) Hw). unfold F. rewrite app_length. lia. }
    specialize (H HF eq_refl (all_ws_delim tw Htw)).
    destruct (parse_tighten clim allnum F) as (T & _ & _).
    rewrite (T _ _ _ _ _ H Hs). rewrite Htw. reflexivity.
  Qed.
End Again.

Lemma parse_compact_text v : wfp v = true -> scan clim 0 (toks v) = Some 0%nat -> PARSE (render v) = Some (toks v, []).
Proof.
  intros Hw Hs. unfold parse_g. set (F := (2 * length (render v) + 4)%nat).
  pose proof (value_complete_n (size v) v (le_n _) Hw F 0%nat (@nil N)) as H. rewrite app_nil_r in H.
  assert (HF : (vb v <= F)%nat) by (pose proof (vb_le_text_n (size v) v (le_n _) Hw); unfold F; lia).
  specialize (H HF eq_refl).
  destruct (parse_tighten clim allnum F) as (T & _ & _).
  rewrite (T _ _ _ _ _ H Hs). reflexivity.
Qed.

Lemma render_is_compact v : render v = render_compact (toks v).
Proof. rewrite <- marshal_is_render. apply marshal_is_compact_of_tokens. Qed.

(* ---------- Compact of Compact's output ---------- *)
Theorem compact_idempotent data out : compact_run false data = COk out -> compact_run false out = COk out.
Proof.
  intro H. rewrite compact_run_spec in H. destruct (PARSE data) as [[ts rest]|] eqn:E; [|discriminate]. inversion H; subst out.
  destruct (parse_tree data ts rest E) as ((v & Hw & Ht) & _ & _ & Hs). subst ts.
  rewrite compact_run_spec. rewrite <- render_is_compact. rewrite (parse_compact_text v Hw Hs). rewrite render_is_compact. reflexivity.
Qed.

Section WsIndent.
  Variables pre ind : list N.
  Hypothesis Hpre : all_ws pre = true.
  Hypothesis Hind : all_ws ind = true.

  Lemma parse_indent_text v tw : wfp v = true -> all_ws tw = true -> scan clim 0 (toks v) = Some 0%nat ->
    PARSE (render_indent pre ind 0 None (toks v) ++ tw) = Some (toks v, tw).
  Proof.
    intros Hw Htw Hs. rewrite <- (ri_is_reference_indent pre ind v Hw). unfold ri.
    apply parse_laid_out; try assumption.
    - intro d. apply (nl_ws pre ind Hpre Hind).
    - intro d. apply (nl_ws pre ind Hpre Hind).
    - intro d. apply (nl_ws pre ind Hpre Hind).
    - reflexivity.
  Qed.

  (* Indent of Indent's output (white-space prefix and indent: anything else does not give JSON) *)
  Theorem indent_idempotent data out : indent_run pre ind data = COk out -> indent_run pre ind out = COk out.
  Proof.
    intro H. rewrite indent_run_spec in H. destruct (PARSE data) as [[ts rest]|] eqn:E; [|discriminate]. inversion H; subst out.
    destruct (parse_tree data ts rest E) as ((v & Hw & Ht) & Ha & _ & Hs). subst ts.
    rewrite indent_run_spec. rewrite (parse_indent_text v rest Hw Ha Hs). reflexivity.
  Qed.

  (* Compact undoes Indent, up to the trailing white space Indent keeps *)
  Theorem compact_of_indent data out : indent_run pre ind data = COk out -> compact_run false out = compact_run false data.
  Proof.
    intro H. rewrite indent_run_spec in H. destruct (PARSE data) as [[ts rest]|] eqn:E; [|discriminate]. inversion H; subst out.
    destruct (parse_tree data ts rest E) as ((v & Hw & Ht) & Ha & _ & Hs). subst ts.
    rewrite !compact_run_spec. rewrite E. rewrite (parse_indent_text v rest Hw Ha Hs). reflexivity.
  Qed.
End WsIndent.

(* Indent of Compact's output is Indent of the input without its trailing white space *)
Theorem indent_of_compact pre ind data out : compact_run false data = COk out ->
  exists ts rest, PARSE data = Some (ts, rest) /\ indent_run pre ind out = COk (render_indent pre ind 0 None ts) /\
                  indent_run pre ind data = COk (render_indent pre ind 0 None ts ++ rest).
Proof.
  intro H. rewrite compact_run_spec in H. destruct (PARSE data) as [[ts rest]|] eqn:E; [|discriminate]. inversion H; subst out.
  exists ts, rest. split; [reflexivity|].
  destruct (parse_tree data ts rest E) as ((v & Hw & Ht) & _ & _ & Hs). subst ts.
  rewrite !indent_run_spec. rewrite E. rewrite <- render_is_compact. rewrite (parse_compact_text v Hw Hs). rewrite app_nil_r. split; reflexivity.
Qed.

(* MarshalIndent(v, p, i) is what Indent (this model of indent.go) makes of Marshal(v) *)
Theorem marshal_indent_is_indent_run pre ind v : wfp (strip v) = true -> scan clim 0 (toks v) = Some 0%nat ->
  indent_run pre ind (marshal v) = COk (marshal_indent pre ind v).
Proof.
  intros Hw Hs. destruct (strip_same_n (size v) v (le_n _)) as [Hr Ht].
  rewrite indent_run_spec. rewrite marshal_is_render. rewrite <- Hr. rewrite <- Ht in Hs.
  rewrite (parse_compact_text (strip v) Hw Hs). rewrite app_nil_r.
  rewrite (marshal_indent_is_ri pre ind v). rewrite (ri_is_reference_indent pre ind (strip v) Hw). reflexivity.
Qed.
