(* The pooled working array of the slice decoder never shows through: what a
   call stores in the destination is `spec`, whatever an earlier call left in
   the pool -- provided every slot beyond the destination's own elements is
   cleared before the element decoder sees it.  Without that clearing (at all,
   or only for the first slots) the statement is false. *)
From Coq Require Import List Arith Bool Lia.
From GJ Require Import Model.SlicePool.
Import ListNotations.

Lemma hd_skipn {A} (d : A) (l : list A) i : hd d (skipn i l) = nth i l d.
Proof. revert l; induction i as [|i IH]; intros [|x l]; cbn; auto. Qed.
Lemma tl_skipn {A} (l : list A) i : tl (skipn i l) = skipn (S i) l.
Proof.
  revert l; induction i as [|i IH]; intros [|x l]; cbn [skipn tl]; try reflexivity.
  apply IH.
Qed.

Section P.
  Variables (A E : Type) (zero : A) (decE : E -> A -> option A).
  Notation arr := (arr A).
  Notation grow := (grow A zero).
  Notation put := (put A).
  Notation loop := (loop A E zero decE).
  Notation spec := (spec A E zero decE).
  Notation decode := (decode A E zero decE).
  Notation take := (take A zero).

  Variable clears : nat -> bool.
  Hypothesis clears_all : forall i, clears i = true.

  Lemma grow_keeps (dst : list A) s idx j :
    length dst <= capacity A s -> j < length dst -> contents A (grow s idx) j = contents A s j.
  Proof.
    intros C J. unfold SlicePool.grow. destruct (Nat.leb_spec (capacity A s) idx) as [L|L]; [|reflexivity].
    cbn [contents]. destruct (Nat.ltb_spec j idx); [reflexivity|lia].
  Qed.
  Lemma grow_below s idx j : j < idx -> contents A (grow s idx) j = contents A s j.
  Proof.
    intro J. unfold SlicePool.grow. destruct (capacity A s <=? idx); [|reflexivity].
    cbn [contents]. destruct (Nat.ltb_spec j idx); [reflexivity|lia].
  Qed.
  Lemma grow_cap s idx : capacity A s <= capacity A (grow s idx).
  Proof. unfold SlicePool.grow. destruct (capacity A s <=? idx); cbn [capacity]; lia. Qed.

  Lemma loop_spec (dst : list A) : forall es s idx,
    length dst <= capacity A s ->
    (forall j, idx <= j < length dst -> contents A s j = nth j dst zero) ->
    match loop clears (length dst) s idx es, spec (skipn idx dst) es with
    | Some s', Some l => map (contents A s') (seq idx (length es)) = l /\ (forall j, j < idx -> contents A s' j = contents A s j)
    | None, None => True
    | _, _ => False
    end.
  Proof.
    induction es as [|e es IH]; intros s idx C Inv.
    - cbn. split; [reflexivity|auto].
    - cbn [SlicePool.loop SlicePool.spec length seq map].
      rewrite hd_skipn, clears_all, andb_true_r.
      assert (S0 : (if length dst <=? idx then zero else contents A (grow s idx) idx) = nth idx dst zero).
      { destruct (Nat.leb_spec (length dst) idx) as [L|L].
        - symmetry. apply nth_overflow. exact L.
        - rewrite (grow_keeps dst) by assumption. apply Inv. lia. }
      rewrite S0. destruct (decE e (nth idx dst zero)) as [a|]; [|exact I].
      rewrite tl_skipn.
      specialize (IH (put (grow s idx) idx a) (S idx)).
      assert (C2 : length dst <= capacity A (put (grow s idx) idx a)).
      { cbn [SlicePool.put capacity]. pose proof (grow_cap s idx). lia. }
      assert (I2 : forall j, S idx <= j < length dst -> contents A (put (grow s idx) idx a) j = nth j dst zero).
      { intros j J. cbn [SlicePool.put contents]. destruct (Nat.eqb_spec j idx); [lia|].
        rewrite (grow_keeps dst) by (assumption || lia). apply Inv. lia. }
      specialize (IH C2 I2).
      destruct (loop clears (length dst) (put (grow s idx) idx a) (S idx) es) as [s'|];
        destruct (spec (skipn (S idx) dst) es) as [l|]; try exact IH.
      destruct IH as [M K]. split.
      + rewrite M. f_equal. rewrite K by lia. cbn [SlicePool.put contents]. rewrite Nat.eqb_refl. reflexivity.
      + intros j J. rewrite K by lia. cbn [SlicePool.put contents]. destruct (Nat.eqb_spec j idx); [lia|]. apply grow_below. exact J.
  Qed.

  (* for EVERY content and capacity of the pooled array *)
  Theorem decode_is_spec pool dst dcap es : length dst <= dcap ->
    match decode clears pool dst dcap es with Some (out, _) => Some out | None => None end = spec dst es.
  Proof.
    intro D. unfold SlicePool.decode.
    pose proof (loop_spec dst es (take pool dst dcap) 0) as L.
    assert (C : length dst <= capacity A (take pool dst dcap)).
    { unfold SlicePool.take. destruct dst as [|x dst']; [cbn; lia|].
      cbn [capacity]. destruct (Nat.ltb_spec (capacity A pool) dcap); cbn [capacity]; lia. }
    assert (Inv : forall j, 0 <= j < length dst -> contents A (take pool dst dcap) j = nth j dst zero).
    { intros j J. unfold SlicePool.take. destruct dst as [|x dst']; [cbn in J; lia|].
      cbn [contents]. destruct (Nat.ltb_spec j (length (x :: dst'))); [reflexivity|lia]. }
    specialize (L C Inv). cbn [skipn] in L.
    destruct (loop clears (length dst) (take pool dst dcap) 0 es) as [s'|]; destruct (spec dst es) as [l|]; try contradiction; try reflexivity.
    destruct L as [M _]. rewrite M. reflexivity.
  Qed.

  Corollary decode_independent_of_pool pool1 pool2 dst dcap es : length dst <= dcap ->
    match decode clears pool1 dst dcap es with Some (out, _) => Some out | None => None end =
    match decode clears pool2 dst dcap es with Some (out, _) => Some out | None => None end.
  Proof. intro D. rewrite !decode_is_spec by exact D. reflexivity. Qed.
End P.

(* every slot written lies inside the working array: capacities along the loop *)
Fixpoint caps (cap idx n : nat) : list (nat * nat) :=
  match n with
  | O => []
  | S n' => let cap' := if cap <=? idx then 2 * cap else cap in (idx, cap') :: caps cap' (S idx) n'
  end.
Lemma caps_in_bounds n : forall cap idx, 0 < cap -> idx <= cap -> Forall (fun w => fst w < snd w) (caps cap idx n).
Proof.
  induction n as [|n IH]; intros cap idx P L; cbn [caps]; constructor.
  - cbn [fst snd]. destruct (Nat.leb_spec cap idx); lia.
  - apply IH; destruct (Nat.leb_spec cap idx); lia.
Qed.

(* ---- refutations on the integer-or-null instance ---- *)
Definition fresh_pool : arr nat := {| contents := fun _ => 0; capacity := 2 |}.
(* no clearing at all: [1,2,3] then [null,null,null] into a fresh destination *)
Lemma no_clearing_refuted :
  calls (fun _ => false) fresh_pool [([Some 1; Some 2; Some 3], true); ([None; None; None], true)] = [Some [1; 2; 3]; Some [1; 2; 3]].
Proof. vm_compute. reflexivity. Qed.
(* clearing only the first two slots *)
Lemma partial_clearing_refuted :
  calls (fun i => i <? 2) fresh_pool [([Some 1; Some 2; Some 3; Some 4], true); ([None; None; None; None], true)]
  = [Some [1; 2; 3; 4]; Some [0; 0; 3; 4]].
Proof. vm_compute. reflexivity. Qed.
(* with the clearing: also after a call that failed between two elements *)
Lemma clearing_ok_example :
  calls (fun _ => true) fresh_pool [([Some 1; Some 2; Some 3; Some 4], false); ([None; Some 7; None; None; None], true)]
  = [None; Some [0; 7; 0; 0; 0]].
Proof. vm_compute. reflexivity. Qed.
