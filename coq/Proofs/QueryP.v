From Coq Require Import NArith List Bool Arith Lia.
From GJ Require Import Base.Bytes Spec.Json Model.Enc Model.Query.
Import ListNotations.

(* ---------- filtering the code commutes with restricting the document ---------- *)

Lemma assoc_in {A} k : forall (l : list (list N * A)) a, assoc k l = Some a -> exists k', In (k', a) l.
Proof.
  induction l as [|[k0 a0] r IH]; intros a H; [discriminate|]. cbn [assoc] in H.
  destruct (list_eqb k k0).
  - inversion H; subst. exists k0. left. reflexivity.
  - destruct (IH a H) as [k' Hin]. exists k'. right. exact Hin.
Qed.

Definition keep (q : fq) (kc : list N * code) : list (list N * code) :=
  match kc with
  | (k, c') => match lookup_q k (fq_subs q) with
               | None => []
               | Some s => [(k, if has_subs s then filt c' s else c')]
               end
  end.

Lemma filt_struct fs q : filt (CStruct fs) q = CStruct (flat_map (keep q) fs).
Proof. reflexivity. Qed.

Lemma assoc_dropped q k : lookup_q k (fq_subs q) = None -> forall fs, assoc k (flat_map (keep q) fs) = None.
Proof.
  intros Hk. induction fs as [|[k0 c0] r IH]; [reflexivity|].
  cbn [flat_map keep]. destruct (lookup_q k0 (fq_subs q)) as [s|] eqn:E0; cbn [app]; [|exact IH].
  cbn [assoc]. destruct (list_eqb k k0) eqn:Ek; [|exact IH].
  apply list_eqb_eq in Ek. subst k0. rewrite Hk in E0. discriminate.
Qed.

Lemma assoc_filtered q k : forall fs,
  assoc k (flat_map (keep q) fs) =
  match assoc k fs with
  | None => None
  | Some c' => match lookup_q k (fq_subs q) with
               | None => None
               | Some s => Some (if has_subs s then filt c' s else c')
               end
  end.
Proof.
  induction fs as [|[k0 c0] r IH]; [reflexivity|].
  cbn [flat_map keep assoc]. destruct (list_eqb k k0) eqn:Ek.
  - pose proof Ek as Ek'. apply list_eqb_eq in Ek'. subst k0.
    destruct (lookup_q k (fq_subs q)) as [s|] eqn:E0; cbn [app].
    + cbn [assoc]. rewrite Ek. reflexivity.
    + apply assoc_dropped. exact E0.
  - destruct (lookup_q k0 (fq_subs q)) as [s|]; cbn [app]; [cbn [assoc]; rewrite Ek|]; exact IH.
Qed.

Lemma flat_map_ext_in {A B} (f g : A -> list B) : forall l, (forall x, In x l -> f x = g x) -> flat_map f l = flat_map g l.
Proof.
  induction l as [|x r IH]; intros H; [reflexivity|]. cbn [flat_map].
  rewrite (H x (or_introl eq_refl)). rewrite IH; [reflexivity|]. intros y Hy. apply H. right. exact Hy.
Qed.

Lemma vsize_in_list x : forall l, In x l -> (vsize x <= fold_right (fun x a => vsize x + a) 0 l)%nat.
Proof. induction l as [|y r IH]; intros H; [destruct H|]. cbn [fold_right]. destruct H as [->|H]; [lia|specialize (IH H); lia]. Qed.

Lemma vsize_in_snd {K} (m : K * val) : forall l, In m l -> (vsize (snd m) <= fold_right (fun kv a => vsize (snd kv) + a) 0 l)%nat.
Proof. induction l as [|y r IH]; intros H; [destruct H|]. cbn [fold_right]. destruct H as [->|H]; [lia|specialize (IH H); lia]. Qed.

Theorem filter_commutes_n : forall n v, (vsize v <= n)%nat -> forall c, fresh c = true -> vfresh v = true ->
  encode c v = sel None c v /\ forall q, encode (filt c q) v = sel (Some q) c v.
Proof.
  induction n as [|n IH]; intros v Hs c Hc Hv; [destruct v; cbn in Hs; lia|].
  destruct v as [raw| |x|l|l|l|c' x].
  - split; [reflexivity|]. intro q. destruct c; reflexivity.
  - split; [reflexivity|]. intro q. destruct c; reflexivity.
  - cbn [vsize] in Hs. cbn [vfresh] in Hv.
    destruct c as [|e|e|e|fs|oq]; try (split; [reflexivity|intro q; reflexivity]).
    cbn [fresh] in Hc. destruct (IH x ltac:(lia) e Hc Hv) as [H1 H2]. split; [exact H1|]. intro q. exact (H2 q).
  - cbn [vsize] in Hs. cbn [vfresh] in Hv. rewrite forallb_forall in Hv.
    destruct c as [|e|e|e|fs|oq]; try (split; [reflexivity|intro q; reflexivity]).
    cbn [fresh] in Hc.
    assert (HIH : forall x, In x l -> encode e x = sel None e x /\ forall q, encode (filt e q) x = sel (Some q) e x).
    { intros x Hx. apply IH; [pose proof (vsize_in_list x l Hx); lia|exact Hc|apply Hv; exact Hx]. }
    split.
    + cbn [encode sel]. f_equal. apply map_ext_in. intros x Hx. apply (HIH x Hx).
    + intro q. cbn [filt encode sel]. f_equal. apply map_ext_in. intros x Hx. apply (HIH x Hx).
  - cbn [vsize] in Hs. cbn [vfresh] in Hv. rewrite forallb_forall in Hv.
    destruct c as [|e|e|e|fs|oq]; try (split; [reflexivity|intro q; reflexivity]).
    cbn [fresh] in Hc.
    assert (HIH : forall kv, In kv l -> encode e (snd kv) = sel None e (snd kv) /\ forall q, encode (filt e q) (snd kv) = sel (Some q) e (snd kv)).
    { intros kv Hx. apply IH; [pose proof (vsize_in_snd kv l Hx); lia|exact Hc|apply Hv; exact Hx]. }
    split.
    + cbn [encode sel]. f_equal. apply map_ext_in. intros [k x] Hx. f_equal. apply (HIH (k, x) Hx).
    + intro q. cbn [filt encode sel]. f_equal. apply map_ext_in. intros [k x] Hx. f_equal. apply (HIH (k, x) Hx).
  - cbn [vsize] in Hs. cbn [vfresh] in Hv. rewrite forallb_forall in Hv.
    destruct c as [|e|e|e|fs|oq]; try (split; [reflexivity|intro q; reflexivity]).
    cbn [fresh] in Hc. rewrite forallb_forall in Hc.
    assert (HIH : forall m, In m l -> forall c', fresh c' = true ->
              encode c' (snd m) = sel None c' (snd m) /\ forall q, encode (filt c' q) (snd m) = sel (Some q) c' (snd m)).
    { intros m Hx c' Hc'. apply IH; [pose proof (vsize_in_snd m l Hx); lia|exact Hc'|apply Hv; exact Hx]. }
    split.
    + cbn [encode sel]. f_equal. apply flat_map_ext_in. intros [[k om] x] Hx.
      destruct (assoc k fs) as [c'|] eqn:Ea; [|reflexivity].
      destruct (assoc_in k fs c' Ea) as [k' Hin]. pose proof (Hc (k', c') Hin) as Hc'. cbn [snd] in Hc'.
      f_equal. f_equal. apply (HIH (k, om, x) Hx c' Hc').
    + intro q. rewrite filt_struct. cbn [encode sel]. f_equal. apply flat_map_ext_in. intros [[k om] x] Hx.
      rewrite assoc_filtered. destruct (assoc k fs) as [c'|] eqn:Ea; [|reflexivity].
      destruct (assoc_in k fs c' Ea) as [k' Hin]. pose proof (Hc (k', c') Hin) as Hc'. cbn [snd] in Hc'.
      destruct (lookup_q k (fq_subs q)) as [s|]; [|reflexivity].
      f_equal. f_equal. unfold narrow. destruct (has_subs s).
      * apply (HIH (k, om, x) Hx c' Hc').
      * apply (HIH (k, om, x) Hx c' Hc').
  - cbn [vsize] in Hs. cbn [vfresh] in Hv. apply andb_true_iff in Hv. destruct Hv as [Hc' Hx].
    destruct c as [|e|e|e|fs|oq]; try (split; [reflexivity|intro q; reflexivity]).
    destruct oq as [q0|]; [discriminate Hc|].
    destruct (IH x ltac:(lia) c' Hc' Hx) as [H1 H2]. split; [exact H1|]. intro q. exact (H2 q).
Qed.

Theorem filter_commutes c v q : fresh c = true -> vfresh v = true -> encode (filt c q) v = sel (Some q) c v.
Proof. intros Hc Hv. exact (proj2 (filter_commutes_n (vsize v) v (le_n _) c Hc Hv) q). Qed.

Theorem unfiltered_is_whole c v : fresh c = true -> vfresh v = true -> encode c v = sel None c v.
Proof. intros Hc Hv. exact (proj1 (filter_commutes_n (vsize v) v (le_n _) c Hc Hv)). Qed.

(* ---------- the text of a query determines it: QueryString / Build ---------- *)

Fixpoint build_all (l : list qj) (acc : list fq) : option fq :=
  match l with
  | [] => Some (FQ [] (rev acc))
  | x :: r => match build x with Some q => build_all r (q :: acc) | None => None end
  end.

Lemma build_arr l : build (QArr l) = build_all l [].
Proof. reflexivity. Qed.

Lemma build_all_map thr : forall s acc,
  (forall q, In q s -> build (qjson thr q) = Some q) -> build_all (map (qjson thr) s) acc = Some (FQ [] (rev acc ++ s)).
Proof.
  induction s as [|q r IH]; intros acc H.
  - cbn. rewrite app_nil_r. reflexivity.
  - cbn [map build_all]. rewrite (H q (or_introl eq_refl)). rewrite IH by (intros x Hx; apply H; right; exact Hx).
    cbn [rev]. rewrite <- app_assoc. reflexivity.
Qed.

Lemma qsize_in x : forall s, In x s -> (qsize x <= fold_right (fun x a => qsize x + a) 0 s)%nat.
Proof. induction s as [|y r IH]; intros H; [destruct H|]. cbn [fold_right]. destruct H as [->|H]; [lia|specialize (IH H); lia]. Qed.

Theorem build_qjson_sub_n : forall n q, (qsize q <= n)%nat -> wf_sub q = true -> build (qjson 0 q) = Some q.
Proof.
  induction n as [|n IH]; intros [nm s] Hs Hw; [cbn in Hs; lia|].
  cbn [wf_sub] in Hw. apply andb_true_iff in Hw. destruct Hw as [Hw Hsub]. apply andb_true_iff in Hw. destruct Hw as [Hn Ho].
  rewrite forallb_forall in Hsub. cbn [qsize] in Hs.
  assert (Hall : forall x, In x s -> build (qjson 0 x) = Some x).
  { intros x Hx. apply IH; [pose proof (qsize_in x s Hx); lia|apply Hsub; exact Hx]. }
  cbn [qjson]. apply negb_true_iff in Hn. apply negb_true_iff in Ho. rewrite Hn.
  destruct s as [|x r].
  - cbn [length Nat.ltb Nat.leb build]. rewrite Ho, Hn. reflexivity.
  - change (Nat.ltb 0 (length (x :: r))) with true. cbv iota. cbn [build]. fold (build_all (map (qjson 0) (x :: r)) []).
    rewrite (build_all_map 0 (x :: r) [] Hall). reflexivity.
Qed.

Theorem build_qjson q : wf_root q = true -> build (qjson 0 q) = Some q.
Proof.
  destruct q as [nm s]. unfold wf_root. cbn [fq_name fq_subs]. intro H. apply andb_true_iff in H. destruct H as [Hn Hs].
  destruct nm; [|discriminate]. cbn [qjson is_nil]. rewrite build_arr. rewrite forallb_forall in Hs.
  rewrite (build_all_map 0 s []); [reflexivity|]. intros x Hx. apply (build_qjson_sub_n (qsize x)); [lia|apply Hs; exact Hx].
Qed.

Corollary qjson_injective q1 q2 : wf_root q1 = true -> wf_root q2 = true -> qjson 0 q1 = qjson 0 q2 -> q1 = q2.
Proof.
  intros H1 H2 E. pose proof (build_qjson q1 H1) as B1. pose proof (build_qjson q2 H2) as B2. rewrite E in B1. rewrite B1 in B2. inversion B2. reflexivity.
Qed.

(* with any other threshold a query with few sub fields loses them *)
Theorem qjson_threshold_refuted thr : (0 < thr)%nat ->
  exists q, wf_root q = true /\ build (qjson thr q) <> Some q.
Proof.
  intro H. exists (FQ [] [FQ [97] [FQ [98] []]]). split; [reflexivity|].
  cbn [qjson is_nil map length]. destruct thr as [|t]; [lia|]. cbn. intro E. discriminate E.
Qed.

(* ---------- the cache: whatever was encoded before, a query gets its own program ---------- *)

Lemma qj_eqb_eq : forall a b, qj_eqb a b = true -> a = b.
Proof.
  fix IH 1. intros a b. destruct a as [s|l|k v|]; destruct b as [t|m|k' v'|]; cbn [qj_eqb]; try discriminate.
  - intro H. apply list_eqb_eq in H. subst. reflexivity.
  - intro H. f_equal. revert m H. induction l as [|x r IHl]; intros [|y r'] H; try discriminate; [reflexivity|].
    apply andb_true_iff in H. destruct H as [Hx Hr]. f_equal; [apply IH; exact Hx|apply IHl; exact Hr].
  - intro H. apply andb_true_iff in H. destruct H as [Hk Hv]. apply list_eqb_eq in Hk. subst. f_equal. apply IH. exact Hv.
  - reflexivity.
Qed.

(* every entry of the cache is the program of a well-formed query under that query's own key *)
Definition cache_ok (c : code) (st : qcache) : Prop :=
  forall k p, In (k, p) st -> exists q, wf_root q = true /\ k = qjson 0 q /\ p = filt c q.

Lemma cache_find_in k : forall st p, cache_find k st = Some p -> In (k, p) st.
Proof.
  induction st as [|[k' p'] r IH]; intros p H; [discriminate|]. cbn [cache_find] in H.
  destruct (qj_eqb k k') eqn:E.
  - apply qj_eqb_eq in E. inversion H; subst. left. reflexivity.
  - right. apply IH. exact H.
Qed.

Lemma get_filtered_own c st q : cache_ok c st -> wf_root q = true ->
  fst (get_filtered 0 c st q) = filt c q /\ cache_ok c (snd (get_filtered 0 c st q)).
Proof.
  intros Hst Hq. unfold get_filtered. destruct (cache_find (qjson 0 q) st) as [p|] eqn:E.
  - cbn [fst snd]. split; [|exact Hst]. apply cache_find_in in E. destruct (Hst _ _ E) as (q' & Hq' & Hk & Hp).
    apply (qjson_injective q q' Hq Hq') in Hk. subst. reflexivity.
  - cbn [fst snd]. split; [reflexivity|]. intros k p [Hin|Hin]; [inversion Hin; subst; exists q; auto|apply Hst; exact Hin].
Qed.

Theorem history_own_programs c : forall h st, cache_ok c st ->
  Forall (fun o => match o with Some q => wf_root q = true | None => True end) h ->
  run_history 0 c st h = map (fun o => match o with Some q => filt c q | None => c end) h.
Proof.
  induction h as [|o r IH]; intros st Hst Hh; [reflexivity|]. inversion Hh as [|? ? Ho Hr]; subst.
  destruct o as [q|]; cbn [run_history map].
  - pose proof (get_filtered_own c st q Hst Ho) as [Hp Hst']. destruct (get_filtered 0 c st q) as [p st'] eqn:E. cbn [fst snd] in *.
    rewrite Hp. f_equal. apply IH; assumption.
  - f_equal. apply IH; assumption.
Qed.
