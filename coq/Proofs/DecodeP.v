(* Laws of the typed decoding semantics (Model/Decode.v). *)
From Coq Require Import NArith ZArith List Bool Arith Lia.
From GJ Require Import Base.Bytes Base.Show Spec.Json Model.Int Model.StrDec Model.Enc Model.Decode Model.Base64 Proofs.IntEncP Proofs.Base64P.
Import ListNotations.
Open Scope N_scope.

Fixpoint wf_ty (t : ty) : bool :=
  match t with
  | TInt bits | TUint bits => (bits =? 8) || (bits =? 16) || (bits =? 32) || (bits =? 64)
  | TPtr e | TSlice e | TArr _ e | TMap e => wf_ty e
  | TMapI _ bits e => ((bits =? 8) || (bits =? 16) || (bits =? 32) || (bits =? 64)) && wf_ty e
  | TStruct fs => forallb (fun kt : list N * ty => wf_ty (snd kt)) fs
  | _ => true
  end.

Fixpoint tsize (t : ty) : nat :=
  match t with
  | TPtr e | TSlice e | TArr _ e | TMap e | TMapI _ _ e => S (tsize e)
  | TStruct fs => S (fold_right (fun kt a => (tsize (snd kt) + a)%nat) O fs)
  | _ => 1%nat
  end.

(* the typing of a struct value, field by field *)
Fixpoint fields_typed (fs : list (list N * ty)) (l : list gv) : bool :=
  match fs, l with
  | [], [] => true
  | (_, ft) :: fr, x :: lr => has_type ft x && fields_typed fr lr
  | _, _ => false
  end.

Lemma has_type_struct fs l : has_type (TStruct fs) (VStruct l) = fields_typed fs l.
Proof.
  cbn [has_type]. revert l. induction fs as [|[k ft] fr IH]; intros [|x lr]; try reflexivity.
Qed.

Lemma width_zero_in_range signed bits : (bits =? 8) || (bits =? 16) || (bits =? 32) || (bits =? 64) = true -> in_range signed bits 0 = true.
Proof.
  intro H. assert (E : bits = 8 \/ bits = 16 \/ bits = 32 \/ bits = 64).
  { repeat (apply orb_true_iff in H; destruct H as [H|H]); apply N.eqb_eq in H; auto. }
  destruct E as [E|[E|[E|E]]]; subst bits; destruct signed; reflexivity.
Qed.

Lemma forallb_repeat {A} (p : A -> bool) x n : p x = true -> forallb p (repeat x n) = true.
Proof. intro H. induction n as [|n IH]; [reflexivity|]. cbn [repeat forallb]. rewrite H, IH. reflexivity. Qed.

Lemma tsize_in (kt : list N * ty) : forall fs, In kt fs -> (tsize (snd kt) <= fold_right (fun kt a => tsize (snd kt) + a) 0 fs)%nat.
Proof. induction fs as [|y r IH]; intros H; [destruct H|]. cbn [fold_right]. destruct H as [->|H]; [lia|specialize (IH H); lia]. Qed.

Lemma zero_typed_n : forall n t, (tsize t <= n)%nat -> wf_ty t = true -> has_type t (zero t) = true.
Proof.
  induction n as [|n IH]; intros t Hs Hw; [destruct t; cbn in Hs; lia|].
  destruct t as [ |bits|bits| | |e|e|k e|e|fs| |sg bits e]; try reflexivity.
  - cbn [zero has_type]. apply width_zero_in_range. exact Hw.
  - cbn [zero has_type]. apply width_zero_in_range. exact Hw.
  - cbn [zero has_type wf_ty tsize] in *. rewrite repeat_length, Nat.eqb_refl. cbn [andb]. apply forallb_repeat. apply IH; [lia|exact Hw].
  - cbn [zero]. rewrite has_type_struct. cbn [wf_ty tsize] in *. rewrite forallb_forall in Hw.
    assert (H : forall l, (forall kt, In kt l -> In kt fs) -> fields_typed l (map (fun kt : list N * ty => zero (snd kt)) l) = true).
    { induction l as [|[k ft] r IHl]; intros Hin; [reflexivity|]. cbn [map fields_typed snd].
      rewrite (IH ft); [cbn [andb]; apply IHl; intros kt Hkt; apply Hin; right; exact Hkt| |].
      - pose proof (tsize_in (k, ft) fs (Hin _ (or_introl eq_refl))) as Hle. cbn [snd] in Hle. lia.
      - apply (Hw (k, ft)). apply Hin. left. reflexivity. }
    apply H. auto.
Qed.

Lemma zero_typed t : wf_ty t = true -> has_type t (zero t) = true.
Proof. apply (zero_typed_n (tsize t)). lia. Qed.

(* ---------- null ---------- *)
Theorem dec_null_nilable f t init : (match t with TIface | TPtr _ | TSlice _ | TMap _ | TBytes | TMapI _ _ _ => true | _ => false end) = true ->
  dec (S f) t (JLeaf TNull) init = DOk VNil.
Proof. destruct t; intro H; try discriminate H; reflexivity. Qed.

Theorem dec_null_other f t init : (match t with TIface | TPtr _ | TSlice _ | TMap _ | TBytes | TMapI _ _ _ => true | _ => false end) = false ->
  dec (S f) t (JLeaf TNull) init = DOk init.
Proof. destruct t; intro H; try discriminate H; reflexivity. Qed.

(* ---------- an interface takes the document whatever it held ---------- *)
Theorem dec_iface_ignores_init f d i1 i2 : dec f TIface d i1 = dec f TIface d i2.
Proof. destruct f as [|f]; [reflexivity|]. cbn [dec]. destruct (is_null d); reflexivity. Qed.

(* ---------- integers: what is stored is in the range of the type ---------- *)
Lemma int_of_in_range signed bits raw z : (bits =? 8) || (bits =? 16) || (bits =? 32) || (bits =? 64) = true ->
  int_of signed bits raw = Some z -> in_range signed bits z = true.
Proof.
  intros Hw H. unfold int_of in H. destruct (unmarshal_int signed bits raw) as [|err st] eqn:E; [discriminate|].
  destruct err; [discriminate|]. destruct st as [z'|]; [|discriminate]. inversion H; subst z'.
  unfold unmarshal_int in E. destruct (int_decode_byte signed (raw ++ [0])) as [| |rest|num rest]; try discriminate E.
  - destruct (validate_end rest); discriminate E.
  - destruct (if signed then parse_int num else parse_uint num) as [|z']; [discriminate E|].
    destruct (in_range signed bits z') eqn:R; [|discriminate E]. destruct (validate_end rest); [|discriminate E]. inversion E; subst. exact R.
Qed.

(* ---------- decoding keeps values well typed ---------- *)
Definition keeps (e : ty) (decf : jv -> gv -> dres) : Prop :=
  forall x start v, has_type e start = true -> decf x start = DOk v -> has_type e v = true.

Lemma slice_loop_typed e decf : keeps e decf -> has_type e (zero e) = true ->
  forall l old acc r, forallb (has_type e) old = true -> forallb (has_type e) acc = true ->
  slice_loop decf (zero e) l old acc = DOk r -> has_type (TSlice e) r = true.
Proof.
  intros Hk Hz. induction l as [|x l IH]; intros old acc r Ho Ha H; cbn [slice_loop] in H.
  - inversion H; subst. cbn [has_type]. rewrite forallb_forall in *. intros y Hy. apply Ha. apply in_rev. exact Hy.
  - destruct (decf x (match old with o :: _ => o | [] => zero e end)) as [v| |] eqn:E; try discriminate H.
    apply (IH (tl old) (v :: acc) r); [destruct old as [|o old']; [reflexivity|cbn [tl]; cbn [forallb] in Ho; apply andb_true_iff in Ho; apply Ho]| |exact H].
    cbn [forallb]. rewrite Ha, andb_true_r. apply (Hk x (match old with o :: _ => o | [] => zero e end) v); [|exact E].
    destruct old as [|o old']; [exact Hz|cbn [forallb] in Ho; apply andb_true_iff in Ho; apply Ho].
Qed.

Lemma array_loop_typed e decf : keeps e decf -> has_type e (zero e) = true ->
  forall old l acc r, forallb (has_type e) old = true -> forallb (has_type e) acc = true ->
  array_loop decf (zero e) l old acc = DOk r ->
  exists items, r = VArr items /\ length items = (length acc + length old)%nat /\ forallb (has_type e) items = true.
Proof.
  intros Hk Hz. induction old as [|o old IH]; intros l acc r Ho Ha H.
  - destruct l; cbn [array_loop] in H; inversion H; subst; exists (rev acc); (split; [reflexivity|]); rewrite rev_length; (split; [cbn; lia|]);
      rewrite forallb_forall in *; intros y Hy; apply Ha; apply in_rev; exact Hy.
  - cbn [forallb] in Ho. apply andb_true_iff in Ho. destruct Ho as [Ho1 Ho2]. destruct l as [|x l]; cbn [array_loop] in H.
    + destruct (IH [] (zero e :: acc) r Ho2 ltac:(cbn [forallb]; rewrite Hz, Ha; reflexivity) H) as (items & Er & Hl & Ht). subst r.
      exists items. split; [reflexivity|]. split; [cbn [length] in *; lia|exact Ht].
    + destruct (decf x o) as [v| |] eqn:E; try discriminate H.
      destruct (IH l (v :: acc) r Ho2 ltac:(cbn [forallb]; rewrite (Hk x o v Ho1 E), Ha; reflexivity) H) as (items & Er & Hl & Ht). subst r.
      exists items. split; [reflexivity|]. split; [cbn [length] in *; lia|exact Ht].
Qed.

Lemma set_key_typed e k v : has_type e v = true -> forall m, forallb (fun kv : list N * gv => has_type e (snd kv)) m = true ->
  forallb (fun kv : list N * gv => has_type e (snd kv)) (set_key k v m) = true.
Proof.
  intros Hv. induction m as [|[k' v'] m IH]; intro Hm; cbn [set_key].
  - cbn [forallb snd]. rewrite Hv. reflexivity.
  - cbn [forallb snd] in Hm. apply andb_true_iff in Hm. destruct Hm as [H1 H2]. destruct (list_eqb k k'); cbn [forallb snd].
    + rewrite Hv, H2. reflexivity.
    + rewrite H1, (IH H2). reflexivity.
Qed.

Lemma map_loop_typed e decf : keeps e decf -> has_type e (zero e) = true ->
  forall l m r, forallb (fun kv : list N * gv => has_type e (snd kv)) m = true ->
  map_loop decf (zero e) l m = DOk r -> has_type (TMap e) r = true.
Proof.
  intros Hk Hz. induction l as [|[[k om] x] l IH]; intros m r Hm H; cbn [map_loop] in H.
  - inversion H; subst. exact Hm.
  - destruct (unq k) as [k'|]; [|discriminate H]. destruct (decf x (zero e)) as [v| |] eqn:E; try discriminate H.
    apply (IH (set_key k' v m) r); [|exact H]. apply set_key_typed; [|exact Hm]. exact (Hk x (zero e) v Hz E).
Qed.

(* a key the map held before and that the document does not mention is still there *)
Lemma set_key_keeps {A} k (a : A) k0 : forall m, In k0 (map fst m) -> In k0 (map fst (set_key k a m)).
Proof.
  induction m as [|[k' a'] m IH]; intro H; [destruct H|]. cbn [set_key]. destruct (list_eqb k k') eqn:E.
  - apply list_eqb_eq in E. subst k'. exact H.
  - cbn [map fst] in *. destruct H as [H|H]; [left; exact H|right; apply IH; exact H].
Qed.

Theorem map_loop_merges decf z0 k0 : forall l m r, In k0 (map fst m) -> map_loop decf z0 l m = DOk r ->
  exists m', r = VMap m' /\ In k0 (map fst m').
Proof.
  induction l as [|[[k om] x] l IH]; intros m r Hin H; cbn [map_loop] in H.
  - inversion H; subst. exists m. split; [reflexivity|exact Hin].
  - destruct (unq k) as [k'|]; [|discriminate H]. destruct (decf x z0) as [v| |]; try discriminate H.
    apply (IH (set_key k' v m) r); [apply set_key_keeps; exact Hin|exact H].
Qed.

Lemma field_index_sound k : forall fs i j ft, field_index k fs i = Some (j, ft) -> (i <= j)%nat /\ exists k', nth_error fs (j - i) = Some (k', ft).
Proof.
  induction fs as [|[k' t] fs IH]; intros i j ft H; [discriminate H|]. cbn [field_index] in H. destruct (list_eqb k k').
  - inversion H; subst. split; [lia|]. rewrite Nat.sub_diag. exists k'. reflexivity.
  - destruct (IH (S i) j ft H) as [Hle (k2 & Hn)]. split; [lia|]. exists k2. replace (j - i)%nat with (S (j - S i)) by lia. exact Hn.
Qed.

Lemma field_fold_sound k : forall fs i j ft, field_fold k fs i = Some (j, ft) -> (i <= j)%nat /\ exists k', nth_error fs (j - i) = Some (k', ft).
Proof.
  induction fs as [|[k' t] fs IH]; intros i j ft H; [discriminate H|]. cbn [field_fold] in H. destruct (list_eqb (map lower k) (map lower k')).
  - inversion H; subst. split; [lia|]. rewrite Nat.sub_diag. exists k'. reflexivity.
  - destruct (IH (S i) j ft H) as [Hle (k2 & Hn)]. split; [lia|]. exists k2. replace (j - i)%nat with (S (j - S i)) by lia. exact Hn.
Qed.

Lemma field_lookup_sound k fs j ft : field_lookup k fs = Some (j, ft) -> exists k', nth_error fs j = Some (k', ft).
Proof.
  unfold field_lookup. destruct (field_index k fs 0) as [[j' ft']|] eqn:E.
  - intro H. inversion H; subst. destruct (field_index_sound k fs 0 j ft E) as [_ (k' & Hn)]. rewrite Nat.sub_0_r in Hn. exists k'. exact Hn.
  - intro H. destruct (field_fold_sound k fs 0 j ft H) as [_ (k' & Hn)]. rewrite Nat.sub_0_r in Hn. exists k'. exact Hn.
Qed.

Lemma fields_typed_nth : forall fs cur j k ft, fields_typed fs cur = true -> nth_error fs j = Some (k, ft) -> has_type ft (nth j cur VNil) = true.
Proof.
  induction fs as [|[k0 t0] fs IH]; intros cur j k ft Hc Hn; [destruct j; discriminate Hn|].
  destruct cur as [|x cur]; [discriminate Hc|]. cbn [fields_typed] in Hc. apply andb_true_iff in Hc. destruct Hc as [H1 H2].
  destruct j as [|j]; cbn [nth_error nth] in *; [inversion Hn; subst; exact H1|apply (IH cur j k ft H2 Hn)].
Qed.

Lemma fields_typed_set : forall fs cur j k ft v, fields_typed fs cur = true -> nth_error fs j = Some (k, ft) -> has_type ft v = true ->
  fields_typed fs (set_nth j v cur) = true.
Proof.
  induction fs as [|[k0 t0] fs IH]; intros cur j k ft v Hc Hn Hv; [destruct j; discriminate Hn|].
  destruct cur as [|x cur]; [discriminate Hc|]. cbn [fields_typed] in Hc. apply andb_true_iff in Hc. destruct Hc as [H1 H2].
  destruct j as [|j]; cbn [nth_error set_nth fields_typed] in *.
  - inversion Hn; subst. rewrite Hv, H2. reflexivity.
  - rewrite H1. cbn [andb]. apply (IH cur j k ft v H2 Hn Hv).
Qed.

Lemma struct_loop_typed (decf : ty -> jv -> gv -> dres) fs :
  (forall k ft, In (k, ft) fs -> keeps ft (decf ft)) ->
  forall l cur r, fields_typed fs cur = true -> struct_loop decf fs l cur = DOk r -> has_type (TStruct fs) r = true.
Proof.
  intros Hk. induction l as [|[[k om] x] l IH]; intros cur r Hc H; cbn [struct_loop] in H.
  - inversion H; subst. rewrite has_type_struct. exact Hc.
  - destruct (unq k) as [k'|]; [|discriminate H]. destruct (field_lookup k' fs) as [[i ft]|] eqn:E; [|apply (IH cur r Hc H)].
    destruct (field_lookup_sound k' fs i ft E) as (kf & Hn).
    destruct (decf ft x (nth i cur VNil)) as [v| |] eqn:D; try discriminate H.
    apply (IH (set_nth i v cur) r); [|exact H]. apply (fields_typed_set fs cur i kf ft v Hc Hn).
    apply (Hk kf ft (nth_error_In _ _ Hn) x (nth i cur VNil) v); [apply (fields_typed_nth fs cur i kf ft Hc Hn)|exact D].
Qed.

(* ---------- integer map keys ---------- *)
Lemma canonical_digits s n : canonical s n -> all_digits s = true /\ dec_N s = n.
Proof.
  intros (Hd & Hv & Hne & _). split.
  - unfold all_digits. destruct s as [|c r]; [congruence|]. apply forallb_forall. intros x Hx. rewrite Forall_forall in Hd.
    specialize (Hd x Hx). unfold is_digit in Hd. apply andb_true_iff. split; apply N.leb_le; lia.
  - unfold dec_N. rewrite <- Hv. generalize 0. clear. induction s as [|c r IH]; intro a; [reflexivity|]. cbn [dec_N_acc value]. apply IH.
Qed.
Lemma canonical_head s n : canonical s n -> match s with 45 :: _ => False | 43 :: _ => False | _ => True end.
Proof.
  intros (Hd & _ & _ & _). destruct s as [|c r]; [exact I|]. inversion Hd as [|? ? Hc _]; subst. unfold is_digit in Hc.
  destruct (N.eq_dec c 45) as [->|N1]; [lia|]. destruct (N.eq_dec c 43) as [->|N2]; [lia|].
  destruct c as [|p]; [exact I|]. repeat (destruct p as [p|p|]; try exact I; try (exfalso; lia)).
Qed.

(* what Marshal writes for an integer key in range reads back as that integer *)
Lemma key_int_of_int_key signed bits z : (bits =? 8) || (bits =? 16) || (bits =? 32) || (bits =? 64) = true ->
  in_range signed bits z = true -> key_int signed bits (int_key signed bits z) = Some z.
Proof.
  intros Hw Hr. assert (W : width_ok bits).
  { unfold width_ok. repeat (apply orb_true_iff in Hw; destruct Hw as [Hw|Hw]); apply N.eqb_eq in Hw; auto. }
  unfold int_key, key_int. destruct signed.
  - unfold in_range in Hr. pose proof Hr as Hr'. apply andb_true_iff in Hr'. destruct Hr' as [H1 H2]. apply Z.leb_le in H1. apply Z.ltb_lt in H2.
    pose proof (append_int_canonical bits z W (conj H1 H2)) as C. unfold canonical_int, twos in C.
    destruct (z <? 0)%Z eqn:Ez.
    + destruct C as (d & E & Cd). rewrite E. destruct (canonical_digits d _ Cd) as [A D]. rewrite A, D.
      apply Z.ltb_lt in Ez. rewrite Z2N.id by lia. replace (- - z)%Z with z by lia. unfold in_range. rewrite Hr. reflexivity.
    + apply Z.ltb_ge in Ez. destruct (canonical_digits _ _ C) as [A D]. pose proof (canonical_head _ _ C) as Hh.
      destruct (append_int bits (Z.to_N (z mod 2 ^ Z.of_N bits))) as [|c r] eqn:Ea; [discriminate A|].
      destruct (N.eq_dec c 45) as [->|N1]; [contradiction|]. destruct (N.eq_dec c 43) as [->|N2]; [contradiction|].
      assert (Hsame : match c :: r with 45 :: r0 => (true, r0) | 43 :: r0 => (false, r0) | _ => (false, c :: r) end = (false, c :: r)).
      { destruct c as [|p]; [reflexivity|]. repeat (destruct p as [p|p|]; try reflexivity; try congruence). }
      rewrite Hsame, A, D. rewrite Z2N.id by lia. unfold in_range. rewrite Hr. reflexivity.
  - unfold in_range in Hr. pose proof Hr as Hr'. apply andb_true_iff in Hr'. destruct Hr' as [H1 H2]. apply Z.leb_le in H1. apply Z.ltb_lt in H2.
    pose proof (append_uint_canonical bits (Z.to_N z) W) as C. rewrite N.mod_small in C by (rewrite <- (Z2N.id (2 ^ Z.of_N bits)) in H2 by lia; replace (2 ^ bits) with (Z.to_N (2 ^ Z.of_N bits)) by (rewrite Z2N.inj_pow by lia; rewrite N2Z.id; reflexivity); lia).
    destruct (canonical_digits _ _ C) as [A D].
    assert (Hsame : forall s : list N, match s with 45 :: r0 => (false, s) | 43 :: r0 => (false, s) | _ => (false, s) end = (false, s)).
    { intros [|c r]; [reflexivity|]. destruct c as [|p]; [reflexivity|]. repeat (destruct p as [p|p|]; try reflexivity). }
    rewrite Hsame, A, D. rewrite Z2N.id by lia. unfold in_range. rewrite Hr. reflexivity.
Qed.
Lemma key_int_in_range signed bits s z : key_int signed bits s = Some z -> in_range signed bits z = true.
Proof.
  unfold key_int. destruct (match s with 45 :: r => if signed then (true, r) else (false, s) | 43 :: r => if signed then (false, r) else (false, s) | _ => (false, s) end) as [neg body].
  destruct (all_digits body); [|discriminate]. destruct (in_range signed bits (if neg then (- Z.of_N (dec_N body))%Z else Z.of_N (dec_N body))) eqn:E; [|discriminate].
  intro H. inversion H; subst. exact E.
Qed.
Lemma canon_int_key signed bits z : (bits =? 8) || (bits =? 16) || (bits =? 32) || (bits =? 64) = true ->
  in_range signed bits z = true -> canon_key signed bits (int_key signed bits z) = true.
Proof. intros Hw Hr. unfold canon_key. rewrite (key_int_of_int_key signed bits z Hw Hr). apply list_eqb_eq. reflexivity. Qed.

Lemma set_key_typed_k signed bits e k v : canon_key signed bits k = true -> has_type e v = true ->
  forall m, forallb (fun kv : list N * gv => canon_key signed bits (fst kv) && has_type e (snd kv)) m = true ->
  forallb (fun kv : list N * gv => canon_key signed bits (fst kv) && has_type e (snd kv)) (set_key k v m) = true.
Proof.
  intros Hk Hv. induction m as [|[k' v'] m IH]; intro Hm; cbn [set_key].
  - cbn [forallb fst snd]. rewrite Hk, Hv. reflexivity.
  - cbn [forallb fst snd] in Hm. apply andb_true_iff in Hm. destruct Hm as [H1 H2]. destruct (list_eqb k k').
    + cbn [forallb fst snd]. rewrite Hk, Hv, H2. reflexivity.
    + cbn [forallb fst snd]. rewrite H1, (IH H2). reflexivity.
Qed.
Lemma map_loop_k_typed signed bits e decf : (bits =? 8) || (bits =? 16) || (bits =? 32) || (bits =? 64) = true ->
  keeps e decf -> has_type e (zero e) = true ->
  forall l m r, forallb (fun kv : list N * gv => canon_key signed bits (fst kv) && has_type e (snd kv)) m = true ->
  map_loop_k decf (zero e) (fun k' => match key_int signed bits k' with Some z => Some (int_key signed bits z) | None => None end) l m = DOk r ->
  has_type (TMapI signed bits e) r = true.
Proof.
  intros Hw Hk Hz. induction l as [|[[k om] x] l IH]; intros m r Hm H; cbn [map_loop_k] in H.
  - inversion H; subst. exact Hm.
  - destruct (unq k) as [k'|]; [|discriminate H]. destruct (key_int signed bits k') as [z|] eqn:Ek; [|discriminate H].
    destruct (decf x (zero e)) as [v| |] eqn:E; try discriminate H.
    apply (IH (set_key (int_key signed bits z) v m) r); [|exact H]. apply set_key_typed_k; [|exact (Hk x (zero e) v Hz E)|exact Hm].
    apply canon_int_key; [exact Hw|exact (key_int_in_range signed bits k' z Ek)].
Qed.

(* []byte: its values are those of a slice of uint8 *)
Lemma has_type_u8 x : has_type (TUint 8) x = match x with VInt z => in_range false 8 z | _ => false end.
Proof. destruct x; reflexivity. Qed.
Lemma has_type_bytes l : has_type TBytes (VSlice l) = has_type (TSlice (TUint 8)) (VSlice l).
Proof. reflexivity. Qed.
Lemma bytes_values_typed bs : Forall (fun b => b < 256) bs -> has_type TBytes (VSlice (map (fun x => VInt (Z.of_N x)) bs)) = true.
Proof.
  intro H. cbn [has_type]. induction H as [|b r Hb Hr IH]; [reflexivity|]. cbn [map forallb]. rewrite IH, andb_true_r.
  unfold in_range. apply andb_true_iff. split; [apply Z.leb_le|apply Z.ltb_lt]; lia.
Qed.

Theorem dec_typed : forall f t, wf_ty t = true -> keeps t (dec f t).
Proof.
  induction f as [|f IH]; intros t Hw x start v Hs H; [discriminate H|].
  cbn [dec] in H. destruct (is_null x) eqn:En.
  - destruct t; inversion H; subst; try exact Hs; reflexivity.
  - destruct t as [ |bits|bits| | |e|e|k e|e|fs| |sg bits e]; cbn [wf_ty] in Hw.
    + destruct x as [[]| |]; inversion H; reflexivity.
    + destruct x as [[]| |]; try discriminate H. destruct (int_of true bits raw) as [z|] eqn:E; inversion H; subst. cbn [has_type]. exact (int_of_in_range true bits raw z Hw E).
    + destruct x as [[]| |]; try discriminate H. destruct (int_of false bits raw) as [z|] eqn:E; inversion H; subst. cbn [has_type]. exact (int_of_in_range false bits raw z Hw E).
    + destruct x as [[]| |]; try discriminate H. destruct (unq body); inversion H; reflexivity.
    + destruct (gen_of f x); inversion H; reflexivity.
    + destruct (dec f e x (match start with VPtr v0 => v0 | _ => zero e end)) as [v'| |] eqn:D; inversion H; subst. cbn [has_type].
      apply (IH e Hw x (match start with VPtr v0 => v0 | _ => zero e end) v'); [|exact D]. destruct start; try (apply zero_typed; exact Hw). cbn [has_type] in Hs. exact Hs.
    + destruct x as [|l|]; try discriminate H.
      apply (slice_loop_typed e (dec f e) (IH e Hw) (zero_typed e Hw) l (match start with VSlice o => o | _ => [] end) [] v); [|reflexivity|exact H].
      destruct start; try reflexivity. cbn [has_type] in Hs. exact Hs.
    + destruct x as [|l|]; try discriminate H.
      assert (Ho : forallb (has_type e) (match start with VArr o => o | _ => repeat (zero e) k end) = true /\
                   length (match start with VArr o => o | _ => repeat (zero e) k end) = k).
      { destruct start; try (split; [apply forallb_repeat; apply zero_typed; exact Hw|apply repeat_length]).
        cbn [has_type] in Hs. apply andb_true_iff in Hs. destruct Hs as [H1 H2]. apply Nat.eqb_eq in H1. split; assumption. }
      destruct Ho as [Ho Hl].
      destruct (array_loop_typed e (dec f e) (IH e Hw) (zero_typed e Hw) (match start with VArr o => o | _ => repeat (zero e) k end) l [] v Ho eq_refl H) as (items & Ev & Hlen & Ht). subst v.
      cbn [has_type]. cbn [length] in Hlen. rewrite Hlen, Hl, Nat.eqb_refl. exact Ht.
    + destruct x as [| |l]; try discriminate H.
      apply (map_loop_typed e (dec f e) (IH e Hw) (zero_typed e Hw) l (match start with VMap o => o | _ => [] end) v); [|exact H].
      destruct start; try reflexivity. cbn [has_type] in Hs. exact Hs.
    + destruct x as [| |l]; try discriminate H. rewrite forallb_forall in Hw.
      apply (struct_loop_typed (dec f) fs (fun k ft Hin => IH ft (Hw (k, ft) Hin)) l (match start with VStruct o => o | _ => map (fun kt : list N * ty => zero (snd kt)) fs end) v); [|exact H].
      destruct start; try (rewrite <- has_type_struct; apply (zero_typed (TStruct fs)); cbn [wf_ty]; apply forallb_forall; exact Hw).
      rewrite <- has_type_struct. exact Hs.
    + destruct x as [[]|l|]; try discriminate H.
      * destruct (unq body) as [s|]; [|discriminate H]. destruct (b64dec s) as [bs|] eqn:E; inversion H; subst.
        apply bytes_values_typed. exact (b64dec_bytes s bs E).
      * assert (Hv : exists items, v = VSlice items).
        { clear -H. revert H. generalize (match start with VSlice o => o | _ => [] end) as old. generalize (@nil gv) as acc.
          induction l as [|y l IHl]; intros acc old H; cbn [slice_loop] in H; [inversion H; eexists; reflexivity|].
          destruct (dec f (TUint 8) y (match old with o :: _ => o | [] => zero (TUint 8) end)); try discriminate H. exact (IHl _ _ H). }
        destruct Hv as [items ->]. rewrite has_type_bytes.
        apply (slice_loop_typed (TUint 8) (dec f (TUint 8)) (IH (TUint 8) eq_refl) eq_refl l (match start with VSlice o => o | _ => [] end) [] (VSlice items)); [|reflexivity|exact H].
        destruct start; try reflexivity. exact Hs.
    + destruct x as [| |l]; try discriminate H. apply andb_true_iff in Hw. destruct Hw as [Hwd Hwe].
      apply (map_loop_k_typed sg bits e (dec f e) Hwd (IH e Hwe) (zero_typed e Hwe) l (match start with VMap o => o | _ => [] end) v); [|exact H].
      destruct start; try reflexivity. cbn [has_type] in Hs. exact Hs.
Qed.

(* ---------- what the document does not address keeps its value ---------- *)
Lemma nth_set_nth_other : forall (l : list gv) i j x d, i <> j -> nth i (set_nth j x l) d = nth i l d.
Proof.
  induction l as [|y l IH]; intros i j x d H; [destruct j; reflexivity|].
  destruct j as [|j]; destruct i as [|i]; cbn [set_nth nth]; try reflexivity; [congruence|apply IH; congruence].
Qed.

(* no key of the document selects field i *)
Fixpoint not_addressed (fs : list (list N * ty)) (i : nat) (l : list (list N * bool * jv)) : bool :=
  match l with
  | [] => true
  | (k, _, _) :: r =>
      match unq k with
      | None => true
      | Some k' => match field_lookup k' fs with Some (j, _) => negb (Nat.eqb j i) | None => true end
      end && not_addressed fs i r
  end.

Theorem struct_field_not_addressed_keeps_value (decf : ty -> jv -> gv -> dres) fs i : forall l cur r,
  not_addressed fs i l = true -> struct_loop decf fs l cur = DOk (VStruct r) -> nth i r VNil = nth i cur VNil.
Proof.
  induction l as [|[[k om] x] l IH]; intros cur r Hn H; cbn [struct_loop] in H.
  - inversion H; subst. reflexivity.
  - cbn [not_addressed] in Hn. destruct (unq k) as [k'|]; [|discriminate H]. apply andb_true_iff in Hn. destruct Hn as [Hk Hn].
    destruct (field_lookup k' fs) as [[j ft]|]; [|apply (IH cur r Hn H)].
    destruct (decf ft x (nth j cur VNil)) as [v| |]; try discriminate H.
    rewrite (IH (set_nth j v cur) r Hn H). apply nth_set_nth_other. apply negb_true_iff in Hk. apply Nat.eqb_neq in Hk. congruence.
Qed.

(* a key of the map the document does not mention keeps its value *)
Fixpoint value_of (k : list N) (m : list (list N * gv)) : option gv :=
  match m with [] => None | (k', v) :: r => if list_eqb k k' then Some v else value_of k r end.

Lemma value_of_set_other k0 k v : list_eqb k0 k = false -> forall m, value_of k0 (set_key k v m) = value_of k0 m.
Proof.
  intro H. induction m as [|[k' v'] m IH]; cbn [set_key value_of]; [rewrite H; reflexivity|].
  destruct (list_eqb k k') eqn:E; cbn [value_of].
  - apply list_eqb_eq in E. subst k'. rewrite H. reflexivity.
  - destruct (list_eqb k0 k'); [reflexivity|exact IH].
Qed.

Fixpoint not_mentioned (k0 : list N) (l : list (list N * bool * jv)) : bool :=
  match l with
  | [] => true
  | (k, _, _) :: r => match unq k with Some k' => negb (list_eqb k0 k') | None => true end && not_mentioned k0 r
  end.

Theorem map_key_not_mentioned_keeps_value (decf : jv -> gv -> dres) z0 k0 : forall l m m',
  not_mentioned k0 l = true -> map_loop decf z0 l m = DOk (VMap m') -> value_of k0 m' = value_of k0 m.
Proof.
  induction l as [|[[k om] x] l IH]; intros m m' Hn H; cbn [map_loop] in H.
  - inversion H; subst. reflexivity.
  - cbn [not_mentioned] in Hn. destruct (unq k) as [k'|]; [|discriminate H]. apply andb_true_iff in Hn. destruct Hn as [Hk Hn].
    destruct (decf x z0) as [v| |]; try discriminate H.
    rewrite (IH (set_key k' v m) m' Hn H). apply value_of_set_other. apply negb_true_iff in Hk. exact Hk.
Qed.
