From Coq Require Import NArith ZArith List Bool Lia.
From Coq Require Import ZifyN ZifyNat ZifyBool.
From GJ Require Import Base.TypeAddrBase Gen.TypeAddr Model.TypeCache.
Import ListNotations.
Open Scope N_scope.
Ltac Zify.zify_post_hook ::= Z.div_mod_to_equations.

(* case analysis on a comparison whose operands contain no conditional (innermost first) *)
Ltac atom_ltb :=
  match goal with
  | |- context [N.ltb ?a ?b] =>
      lazymatch a with
      | context [if _ then _ else _] => fail
      | _ => lazymatch b with
             | context [if _ then _ else _] => fail
             | _ => destruct (N.ltb_spec a b)
             end
      end
  end.

Definition w64 (x : N) : Prop := x < two64.
Definition sample_ok (s : sample) : Prop := w64 (s_addr s) /\ w64 (s_elem s).

Lemma subw_le a b : b <= a -> a < two64 -> subw a b = a - b.
Proof. unfold subw, two64. intros. symmetry. apply N.mod_unique with (q := 1); lia. Qed.

Lemma subw_lt a b : a < b -> b < two64 -> subw a b = a + two64 - b.
Proof. unfold subw, two64. intros. apply N.mod_small. lia. Qed.

(* ---------- shape of the analysis result ---------- *)

Definition st_w64 (st : astate) : Prop :=
  let '(mn, mx, _, _) := st in w64 mn /\ w64 mx.

Lemma step_w64 st s : st_w64 st -> sample_ok s -> st_w64 (analyze_step st s).
Proof.
  destruct st as [[[mn mx] a64] a32]. intros [Hmn Hmx] [Ha He]. unfold analyze_step, st_w64.
  destruct (s_ptr s); cbv zeta; repeat atom_ltb; split; assumption.
Qed.

Lemma fold_w64 l : forall st, st_w64 st -> Forall sample_ok l -> st_w64 (fold_left analyze_step l st).
Proof.
  induction l as [|s r IH]; intros st Hst Hl; [exact Hst|].
  inversion Hl; subst. cbn [fold_left]. apply IH; [apply step_w64|]; assumption.
Qed.

Lemma init_w64 : st_w64 analyze_init.
Proof. unfold analyze_init, st_w64, w64, two64. cbv zeta. lia. Qed.

Lemma finish_shape st ta : st_w64 st -> analyze_finish st = Some ta ->
  w64 (ta_base ta) /\ w64 (ta_max ta) /\ ta_range ta = subw (ta_max ta) (ta_base ta) /\
  (ta_shift ta = 0 \/ ta_shift ta = 5 \/ ta_shift ta = 6).
Proof.
  destruct st as [[[mn mx] a64] a32]. intros [Hmn Hmx]. unfold analyze_finish. cbv zeta.
  destruct (subw mx mn =? 0); [discriminate|].
  match goal with |- context [if ?c then None else _] => destruct c end; [discriminate|].
  intro E. inversion E; subst; clear E. cbn [ta_base ta_max ta_range ta_shift].
  split; [assumption|]. split; [assumption|]. split; [reflexivity|].
  destruct a64; [right; right; reflexivity|]. destruct a32; [right; left|left]; reflexivity.
Qed.

Theorem analyze_shape l ta : Forall sample_ok l -> analyze l = Some ta ->
  w64 (ta_base ta) /\ w64 (ta_max ta) /\ ta_range ta = subw (ta_max ta) (ta_base ta) /\
  (ta_shift ta = 0 \/ ta_shift ta = 5 \/ ta_shift ta = 6).
Proof. intros Hl. apply finish_shape. apply fold_w64; [apply init_w64|exact Hl]. Qed.

Definition ta_ok (ta : typeaddr) : Prop :=
  w64 (ta_base ta) /\ w64 (ta_max ta) /\ ta_range ta = subw (ta_max ta) (ta_base ta) /\
  (ta_shift ta = 0 \/ ta_shift ta = 5 \/ ta_shift ta = 6).

Theorem effective_ok l : Forall sample_ok l -> ta_ok (effective l).
Proof.
  intro Hl. unfold effective. destruct (analyze l) as [ta|] eqn:E; [exact (analyze_shape l ta Hl E)|].
  unfold ta_ok, ta_zero, w64, two64, subw. cbn [ta_base ta_max ta_range ta_shift].
  split; [lia|]. split; [lia|]. split; [reflexivity|left; reflexivity].
Qed.

(* every sampled address lies in [base, max] *)
Definition st_covers (st : astate) (x : N) : Prop := let '(mn, mx, _, _) := st in mn <= x <= mx.

Lemma step_mono st s x : st_covers st x -> st_covers (analyze_step st s) x.
Proof.
  destruct st as [[[mn mx] a64] a32]. unfold st_covers, analyze_step. intro H. cbv zeta.
  destruct (s_ptr s); repeat atom_ltb; lia.
Qed.

Lemma step_covers st s : st_covers (analyze_step st s) (s_addr s) /\
  (s_ptr s = true -> st_covers (analyze_step st s) (s_elem s)).
Proof.
  destruct st as [[[mn mx] a64] a32]. unfold st_covers, analyze_step. cbv zeta.
  destruct (s_ptr s); repeat atom_ltb; (split; [lia|intro; try discriminate; lia]).
Qed.

Lemma fold_mono l : forall st x, st_covers st x -> st_covers (fold_left analyze_step l st) x.
Proof. induction l as [|s r IH]; intros st x H; [exact H|]. cbn [fold_left]. apply IH, step_mono, H. Qed.

Definition sampled (l : list sample) (x : N) : Prop :=
  exists s, In s l /\ (x = s_addr s \/ (s_ptr s = true /\ x = s_elem s)).

Lemma fold_covers l : forall st x, sampled l x -> st_covers (fold_left analyze_step l st) x.
Proof.
  induction l as [|s r IH]; intros st x (s0 & Hin & Hx); [destruct Hin|].
  cbn [fold_left]. destruct Hin as [->|Hin].
  - apply fold_mono. destruct (step_covers st s0) as [H1 H2]. destruct Hx as [->|[Hp ->]]; [exact H1|exact (H2 Hp)].
  - apply IH. exists s0. split; assumption.
Qed.

Theorem sampled_in_range l ta x : analyze l = Some ta -> sampled l x -> ta_base ta <= x <= ta_max ta.
Proof.
  unfold analyze. intros E Hx. pose proof (fold_covers l analyze_init x Hx) as H.
  destruct (fold_left analyze_step l analyze_init) as [[[mn mx] a64] a32]. unfold st_covers in H.
  unfold analyze_finish in E. cbv zeta in E.
  destruct (subw mx mn =? 0); [discriminate|].
  match type of E with context [if ?c then None else _] => destruct c end; [discriminate|].
  inversion E; subst. cbn. exact H.
Qed.

(* ---------- lookups stay inside the cache ---------- *)

Lemma shiftr_le a b s : a <= b -> N.shiftr a s <= N.shiftr b s.
Proof. intro H. rewrite !N.shiftr_div_pow2. apply N.div_le_mono; [apply N.pow_nonzero; lia|exact H]. Qed.

Lemma fast_in_range slow index len ta p i :
  lookup slow index len ta p = Fast i -> i < len ta.
Proof.
  unfold lookup. destruct (slow ta p); [discriminate|]. destruct (index ta p <? len ta) eqn:E; [|discriminate].
  intro H. inversion H; subst. lia.
Qed.

Theorem enc_never_panics ta p : ta_ok ta -> w64 p -> enc_norace ta p <> Panic /\ enc_race ta p <> Panic.
Proof.
  intros (Hb & Hm & Hr & _) Hp. unfold enc_norace, enc_race, lookup, enc_norace_slow, enc_race_slow,
    enc_norace_index, enc_race_index, enc_cache_len.
  destruct ((ta_max ta <? p) || (p <? ta_base ta)) eqn:G; [split; discriminate|].
  assert (ta_base ta <= p <= ta_max ta) as Hin by lia.
  rewrite Hr, !subw_le by (unfold w64 in *; lia).
  assert (N.shiftr (p - ta_base ta) (ta_shift ta) <= N.shiftr (ta_max ta - ta_base ta) (ta_shift ta))
    by (apply shiftr_le; lia).
  destruct (N.shiftr (p - ta_base ta) (ta_shift ta) <? N.shiftr (ta_max ta - ta_base ta) (ta_shift ta) + 1) eqn:E;
    [split; discriminate|lia].
Qed.

(* the decoder tests both bounds like the encoder *)
Theorem dec_never_panics ta p : ta_ok ta -> w64 p -> dec_norace ta p <> Panic /\ dec_race ta p <> Panic.
Proof.
  intros (Hb & Hm & Hr & _) Hp. unfold dec_norace, dec_race, lookup, dec_norace_slow, dec_race_slow,
    dec_norace_index, dec_race_index, dec_cache_len.
  destruct ((ta_max ta <? p) || (p <? ta_base ta)) eqn:G; [split; discriminate|].
  assert (ta_base ta <= p <= ta_max ta) as Hin by lia.
  rewrite Hr, !subw_le by (unfold w64 in *; lia).
  assert (N.shiftr (p - ta_base ta) (ta_shift ta) <= N.shiftr (ta_max ta - ta_base ta) (ta_shift ta))
    by (apply shiftr_le; lia).
  destruct (N.shiftr (p - ta_base ta) (ta_shift ta) <? N.shiftr (ta_max ta - ta_base ta) (ta_shift ta) + 1) eqn:E;
    [split; discriminate|lia].
Qed.

(* a descriptor outside the window (below base or above max) takes the map path in all four lookups *)
Theorem outside_window_takes_map_path ta p : (p < ta_base ta \/ ta_max ta < p) ->
  enc_norace ta p = Slow /\ enc_race ta p = Slow /\ dec_norace ta p = Slow /\ dec_race ta p = Slow.
Proof.
  intro H. unfold enc_norace, enc_race, dec_norace, dec_race, lookup, enc_norace_slow, enc_race_slow, dec_norace_slow, dec_race_slow.
  assert (G : (ta_max ta <? p) || (p <? ta_base ta) = true) by lia. rewrite G. repeat split.
Qed.

(* ---------- one slot, one type ---------- *)

Lemma index_facts ta p : ta_ok ta -> w64 p -> ta_base ta <= p ->
  enc_norace_index ta p = (p - ta_base ta) / 2 ^ ta_shift ta.
Proof.
  intros (Hb & _) Hp Hge. unfold enc_norace_index. rewrite subw_le by (unfold w64 in *; lia). apply N.shiftr_div_pow2.
Qed.

(* descriptors are at least 48 bytes long and do not overlap: with a shift of at most 5 two of them never share a slot *)
Theorem index_injective_small_shift ta a b : ta_ok ta -> w64 a -> w64 b -> ta_base ta <= a -> ta_base ta <= b ->
  ta_shift ta <> 6 -> a + 48 <= b -> enc_norace_index ta a <> enc_norace_index ta b.
Proof.
  intros Hta Ha Hb Hga Hgb Hs Hd. rewrite !index_facts by assumption.
  destruct Hta as (_ & _ & _ & [E|[E|E]]); rewrite E; [| |contradiction]; cbn [N.pow]; [change (2^0) with 1|change (2^5) with 32]; lia.
Qed.

(* for any shift: two addresses congruent to base modulo 2^shift never share a slot *)
Theorem index_injective_aligned ta a b : ta_ok ta -> w64 a -> w64 b -> ta_base ta <= a -> ta_base ta <= b ->
  (a - ta_base ta) mod 2 ^ ta_shift ta = 0 -> (b - ta_base ta) mod 2 ^ ta_shift ta = 0 ->
  enc_norace_index ta a = enc_norace_index ta b -> a = b.
Proof.
  intros Hta Ha Hb Hga Hgb Ma Mb. rewrite !index_facts by assumption.
  destruct Hta as (_ & _ & _ & [E|[E|E]]); rewrite E in *;
    [change (2^0) with 1 in *|change (2^5) with 32 in *|change (2^6) with 64 in *]; lia.
Qed.

(* the four lookups compute the same index *)
Lemma index_same ta p : enc_race_index ta p = enc_norace_index ta p /\ dec_norace_index ta p = enc_norace_index ta p /\
  dec_race_index ta p = enc_norace_index ta p.
Proof. repeat split. Qed.

(* the alignment inference itself depends on the order of the sample: a new minimum is never checked against earlier types *)
Theorem alignment_inference_order_dependent :
  exists l a b, Forall sample_ok l /\ sampled l a /\ sampled l b /\ a <> b /\
    exists i, enc_norace (effective l) a = Fast i /\ enc_norace (effective l) b = Fast i.
Proof.
  exists [ {| s_addr := 4196; s_ptr := false; s_elem := 0 |}; {| s_addr := 4166; s_ptr := false; s_elem := 0 |} ], 4196, 4166.
  split; [repeat constructor; unfold w64, two64; cbn; lia|].
  split; [eexists; split; [left; reflexivity|left; reflexivity]|].
  split; [eexists; split; [right; left; reflexivity|left; reflexivity]|].
  split; [lia|]. exists 0. vm_compute. split; reflexivity.
Qed.

(* ---------- the publish protocol under any schedule ---------- *)

Section Protocol.
  Variable look : N -> slot.
  Variable live : N -> Prop.
  Hypothesis inj : forall a b i, live a -> live b -> look a = Fast i -> look b = Fast i -> a = b.

  Definition map_ok (m : list (N * prog)) : Prop := forall t q, assoc m t = Some q -> q = t.
  Definition cache_ok (c : cache) : Prop :=
    (forall i q, fast c i = Some q -> live q /\ look q = Fast i) /\ map_ok (slowmap c).
  Definition thread_ok (th : thread) : Prop :=
    let '(t, p) := th in live t /\
    match p with
    | Start => True
    | FastLoaded i c => look t = Fast i /\ (forall q, c = Some q -> q = t)
    | FastCompiled i q => look t = Fast i /\ q = t
    | SlowLoaded m => map_ok m
    | SlowCompiled m q => map_ok m /\ q = t
    | Done q => q = t
    | Crashed => look t = Panic
    end.
  Definition Inv (s : sys) : Prop := cache_ok (fst s) /\ Forall thread_ok (snd s).

  Lemma step_inv c th : cache_ok c -> thread_ok th ->
    cache_ok (fst (step look c th)) /\ thread_ok (snd (step look c th)).
  Proof.
    intros [Hf Hm] Ht. destruct th as [t p]. destruct Ht as [Hl Hp].
    destruct p as [|i [q|]|i q|m|m q|q|]; cbn [step].
    - destruct (look t) as [|i|] eqn:E; cbn [fst snd]; (split; [split; assumption|split; [exact Hl|]]).
      + exact Hm.
      + split; [exact E|]. intros q Hq. destruct (Hf _ _ Hq) as [Hlq Hiq]. exact (inj q t i Hlq Hl Hiq E).
      + exact E.
    - cbn [fst snd]. split; [split; assumption|split; [exact Hl|]]. destruct Hp as [_ Hq]. apply Hq. reflexivity.
    - cbn [fst snd]. split; [split; assumption|split; [exact Hl|]]. destruct Hp as [Hi _]. split; [exact Hi|reflexivity].
    - cbn [fst snd fast slowmap]. destruct Hp as [Hi ->]. split; [split; [|exact Hm]|split; [exact Hl|reflexivity]].
      intros j q. cbn [fast slowmap]. unfold upd. destruct (N.eqb_spec j i) as [->|Hne].
      + intro E. inversion E; subst. split; assumption.
      + apply Hf.
    - destruct (assoc m t) as [q|] eqn:E; cbn [fst snd]; (split; [split; assumption|split; [exact Hl|]]).
      + exact (Hp _ _ E).
      + split; [exact Hp|reflexivity].
    - cbn [fst snd fast slowmap]. destruct Hp as [Hmm ->]. split; [split; [exact Hf|]|split; [exact Hl|reflexivity]].
      intros k q. cbn [fast slowmap assoc]. destruct (N.eqb_spec t k) as [->|Hne].
      + intro E. inversion E; subst. unfold compile. reflexivity.
      + apply Hmm.
    - cbn [fst snd]. split; [split; assumption|split; [exact Hl|exact Hp]].
    - cbn [fst snd]. split; [split; assumption|split; [exact Hl|exact Hp]].
  Qed.

  Lemma set_nth_Forall {A} (P : A -> Prop) l : forall n x, Forall P l -> P x -> Forall P (set_nth l n x).
  Proof.
    induction l as [|y r IH]; intros n x Hl Hx; [constructor|].
    inversion Hl; subst. destruct n as [|k]; cbn [set_nth]; constructor; try assumption. apply IH; assumption.
  Qed.

  Lemma sys_step_inv s i : Inv s -> Inv (sys_step look s i).
  Proof.
    destruct s as [c ths]. intros [Hc Hts]. cbn [fst snd] in *. unfold sys_step.
    destruct (nth_error ths i) as [th|] eqn:E; [|split; assumption].
    assert (thread_ok th) as Hth by (eapply Forall_forall; [exact Hts|eapply nth_error_In; exact E]).
    destruct (step_inv c th Hc Hth) as [Hc' Hth']. destruct (step look c th) as [c' th'].
    cbn [fst snd] in *. split; [exact Hc'|apply set_nth_Forall; assumption].
  Qed.

  Lemma run_inv schedule : forall s, Inv s -> Inv (run look s schedule).
  Proof.
    induction schedule as [|i r IH]; intros s H; [exact H|]. cbn [run fold_left]. apply IH, sys_step_inv, H.
  Qed.

  Lemma start_inv types : Forall live types -> Inv (start types).
  Proof.
    intro H. split.
    - split; [intros i q E; discriminate|intros t q E; discriminate].
    - cbn [snd start]. induction H as [|t r Ht Hr IH]; [constructor|]. constructor; [split; [exact Ht|exact I]|exact IH].
  Qed.

  (* whatever the schedule, a goroutine that obtained a program obtained the one compiled for its own type *)
  Theorem own_program types schedule t q :
    Forall live types -> In (t, Done q) (snd (run look (start types) schedule)) -> q = t.
  Proof.
    intros Hl Hin. destruct (run_inv schedule _ (start_inv types Hl)) as [_ Hts].
    pose proof (proj1 (Forall_forall _ _) Hts _ Hin) as H. destruct H as [_ H]. exact H.
  Qed.

  Theorem crash_only_on_panic types schedule t :
    Forall live types -> In (t, Crashed) (snd (run look (start types) schedule)) -> look t = Panic.
  Proof.
    intros Hl Hin. destruct (run_inv schedule _ (start_inv types Hl)) as [_ Hts].
    pose proof (proj1 (Forall_forall _ _) Hts _ Hin) as H. destruct H as [_ H]. exact H.
  Qed.
End Protocol.

(* the layout hypothesis under which the address-indexed slots are injective:
   descriptors are 48 bytes or longer and do not overlap, and when the analysis
   chose shift 6 they are congruent to base modulo 64 *)
Definition layout_ok (ta : typeaddr) (live : N -> Prop) : Prop :=
  (forall a, live a -> w64 a) /\
  (forall a b, live a -> live b -> a <> b -> a + 48 <= b \/ b + 48 <= a) /\
  (ta_shift ta = 6 -> forall a, live a -> ta_base ta <= a -> (a - ta_base ta) mod 64 = 0).

Lemma lookup_fast_index slow index len ta p i : lookup slow index len ta p = Fast i -> i = index ta p /\ slow ta p = false.
Proof.
  unfold lookup. destruct (slow ta p); [discriminate|]. destruct (index ta p <? len ta); [|discriminate].
  intro H. inversion H. split; reflexivity.
Qed.

Lemma fast_injective (slow : typeaddr -> N -> bool) (index : typeaddr -> N -> N) (len : typeaddr -> N) ta (live : N -> Prop) :
  (forall p, index ta p = enc_norace_index ta p) ->
  (forall p, live p -> slow ta p = false -> ta_base ta <= p) ->
  ta_ok ta -> layout_ok ta live ->
  forall a b i, live a -> live b -> lookup slow index len ta a = Fast i -> lookup slow index len ta b = Fast i -> a = b.
Proof.
  intros Hidx Hge Hta (Hw & Hsep & Hal) a b i La Lb Ea Eb.
  apply lookup_fast_index in Ea. apply lookup_fast_index in Eb. destruct Ea as [Ia Sa]. destruct Eb as [Ib Sb].
  rewrite Hidx in Ia, Ib. pose proof (Hge a La Sa) as Ga. pose proof (Hge b Lb Sb) as Gb.
  destruct (N.eq_dec a b) as [E|Hne]; [exact E|exfalso].
  destruct (N.eq_dec (ta_shift ta) 6) as [E6|N6].
  - apply Hne. apply (index_injective_aligned ta a b Hta (Hw a La) (Hw b Lb) Ga Gb).
    + rewrite E6. change (2^6) with 64. apply (Hal E6 a La Ga).
    + rewrite E6. change (2^6) with 64. apply (Hal E6 b Lb Gb).
    + congruence.
  - destruct (Hsep a b La Lb Hne) as [D|D].
    + apply (index_injective_small_shift ta a b Hta (Hw a La) (Hw b Lb) Ga Gb N6 D). congruence.
    + apply (index_injective_small_shift ta b a Hta (Hw b Lb) (Hw a La) Gb Ga N6 D). congruence.
Qed.

(* encoder, both builds: every goroutine runs the program of its own type, and no lookup panics *)
Theorem enc_own_program l live types schedule :
  Forall sample_ok l -> layout_ok (effective l) live -> Forall live types ->
  forall look, (look = enc_norace (effective l) \/ look = enc_race (effective l)) ->
  forall t pcv, In (t, pcv) (snd (run look (start types) schedule)) ->
    (forall q, pcv = Done q -> q = t) /\ pcv <> Crashed.
Proof.
  intros Hl Hlay Hty look Hlook t pcv Hin.
  pose proof (effective_ok l Hl) as Hta.
  assert (forall a b i, live a -> live b -> look a = Fast i -> look b = Fast i -> a = b) as Hinj.
  { destruct Hlook as [->| ->]; unfold enc_norace, enc_race;
      apply (fast_injective _ _ _ (effective l) live); try assumption; try reflexivity;
      intros p _ Hs; unfold enc_norace_slow, enc_race_slow in Hs; lia. }
  split.
  - intros q ->. exact (own_program look live Hinj types schedule t q Hty Hin).
  - intros ->. pose proof (crash_only_on_panic look live Hinj types schedule t Hty Hin) as Hp.
    assert (In t types \/ True) as _ by (right; exact I).
    assert (live t) as Lt.
    { destruct (run_inv look live Hinj schedule _ (start_inv look live types Hty)) as [_ Hts].
      pose proof (proj1 (Forall_forall _ _) Hts _ Hin) as H. destruct H as [H _]. exact H. }
    destruct Hlay as (Hw & _). destruct (enc_never_panics (effective l) t Hta (Hw t Lt)) as [H1 H2].
    destruct Hlook as [->| ->]; contradiction.
Qed.

(* decoder, both builds: the same *)
Theorem dec_own_program l live types schedule :
  Forall sample_ok l -> layout_ok (effective l) live -> Forall live types ->
  forall look, (look = dec_norace (effective l) \/ look = dec_race (effective l)) ->
  forall t pcv, In (t, pcv) (snd (run look (start types) schedule)) ->
    (forall q, pcv = Done q -> q = t) /\ pcv <> Crashed.
Proof.
  intros Hl Hlay Hty look Hlook t pcv Hin.
  pose proof (effective_ok l Hl) as Hta.
  assert (forall a b i, live a -> live b -> look a = Fast i -> look b = Fast i -> a = b) as Hinj.
  { destruct Hlook as [->| ->]; unfold dec_norace, dec_race;
      apply (fast_injective _ _ _ (effective l) live); try assumption; try reflexivity;
      intros p _ Hs; unfold dec_norace_slow, dec_race_slow in Hs; lia. }
  split.
  - intros q ->. exact (own_program look live Hinj types schedule t q Hty Hin).
  - intros ->. pose proof (crash_only_on_panic look live Hinj types schedule t Hty Hin) as Hp.
    assert (live t) as Lt.
    { destruct (run_inv look live Hinj schedule _ (start_inv look live types Hty)) as [_ Hts].
      pose proof (proj1 (Forall_forall _ _) Hts _ Hin) as H. destruct H as [H _]. exact H. }
    destruct Hlay as (Hw & _). destruct (dec_never_panics (effective l) t Hta (Hw t Lt)) as [H1 H2].
    destruct Hlook as [->| ->]; contradiction.
Qed.
