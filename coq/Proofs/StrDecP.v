(* The decoder's scanner + in-place unescape undo the encoder's escaping:
   what AppendString emits decodes back to the original string (with invalid
   UTF-8 replaced by U+FFFD when normalisation is on). *)
From Coq Require Import NArith ZArith List Bool Lia.
From Coq Require Import ZifyN ZifyNat ZifyBool.
From GJ Require Import Base.Bytes Base.Word64 Gen.Tables Gen.Swar Model.Int Model.StrEnc Model.StrDec
  Proofs.WordP Proofs.SwarP Proofs.StrEncP Proofs.StrBodyP.
Import ListNotations.
Open Scope N_scope.
Ltac Zify.zify_post_hook ::= Z.div_mod_to_equations.

(* the string with every byte the rune decoder rejects replaced by U+FFFD *)
Fixpoint sanitize (fuel : nat) (s : list N) : list N :=
  match fuel with
  | O => []
  | S f =>
      match s with
      | [] => []
      | c :: r =>
          if c <? 128 then c :: sanitize f r
          else match decode_rune s with
               | (RError, _) => [239; 191; 189] ++ sanitize f r
               | (_, size) => firstn (N.to_nat size) s ++ sanitize f (skipn (N.to_nat size) s)
               end
      end
  end.

(* ---------- table facts ---------- *)
Lemma hexv_hexdig n : n < 16 -> hexv (hexdig n) = n.
Proof.
  intro H. pose (P := fun n => hexv (hexdig n) =? n).
  assert (HP : forallb P (upto_nat 16) = true) by (vm_compute; reflexivity).
  pose proof (forall_upto P 16 HP n H) as E. unfold P in E. lia.
Qed.

Lemma hex4_00 c : c < 256 -> hex4 48 48 (hexdig (N.shiftr c 4)) (hexdig (N.land c 15)) = c.
Proof.
  intro Hc. pose (P := fun c => hex4 48 48 (hexdig (N.shiftr c 4)) (hexdig (N.land c 15)) =? c).
  assert (HP : forallb P all_bytes = true) by (vm_compute; reflexivity).
  pose proof (forall_bytes P HP c Hc) as E. unfold P in E. lia.
Qed.

Lemma rune_size s st size : decode_rune s = (st, size) -> 1 <= size <= 4.
Proof.
  unfold decode_rune. intro H.
  repeat match type of H with
  | (match ?x with _ => _ end) = _ => destruct x eqn:?
  | (if ?b then _ else _) = _ => destruct b eqn:?
  | (let _ := _ in _) = _ => cbv zeta in H
  end; inversion H; subst; lia.
Qed.

Section Variant.
  Variable need : list N.
  Variable html normalize : bool.
  Hypothesis Htable : table_ok need html = true.

  Definition norm (s : list N) : list N := if normalize then sanitize (length s) s else s.

  (* unescape over a whole content, piece by piece *)
  Lemma unescape_raw f c r : c <> 92 -> unescape (S f) (c :: r) =
    match unescape f r with Some o => Some (c :: o) | None => None end.
  Proof. intro H. cbn [unescape]. destruct (N.eqb_spec c 92); [congruence|reflexivity]. Qed.

  Lemma unescape_raws p : forall f r, Forall (fun c => c <> 92) p ->
    unescape (length p + f) (p ++ r) = match unescape f r with Some o => Some (p ++ o) | None => None end.
  Proof.
    induction p as [|c p IH]; intros f r H.
    - cbn. destruct (unescape f r); reflexivity.
    - inversion H; subst. cbn [length app Nat.add]. rewrite unescape_raw by assumption.
      rewrite IH by assumption. destruct (unescape f r); reflexivity.
  Qed.

  Definition normf (f : nat) (s : list N) : list N := if normalize then sanitize f s else s.

  (* normalising tables flag every non-ASCII byte *)
  Definition norm_table_ok : bool :=
    if normalize then forallb (fun c => (c <? 128) || tblb need c) all_bytes else true.
  Hypothesis Hnorm : norm_table_ok = true.

  Lemma unflagged_ascii c : normalize = true -> c < 256 -> tblb need c = false -> c < 128.
  Proof.
    intros En Hc T. unfold norm_table_ok in Hnorm. rewrite En in Hnorm.
    pose proof (forall_bytes _ Hnorm c Hc) as E. cbv beta in E. rewrite T in E. lia.
  Qed.

  Lemma raw_not_bs c : raw_ok html c = true -> c <> 92.
  Proof. unfold raw_ok. destruct html; lia. Qed.

  Lemma unescape_pair F e r : e <> 117 ->
    unescape (S F) (92 :: e :: r) =
    match unescape F r with Some o => Some (tbl0 dec_unescapeMap e :: o) | None => None end.
  Proof.
    intro H. cbn [unescape]. change (92 =? 92) with true. cbn iota.
    destruct (N.eqb_spec e 117); [congruence|]. reflexivity.
  Qed.

  Lemma unescape_u4 F h1 h2 h3 h4 r :
    ((55296 <=? hex4 h1 h2 h3 h4) && (hex4 h1 h2 h3 h4 <? 56320)) = false ->
    unescape (S F) (92 :: 117 :: h1 :: h2 :: h3 :: h4 :: r) =
    match unescape F r with Some o => Some (encode_rune (hex4 h1 h2 h3 h4) ++ o) | None => None end.
  Proof.
    intro H. cbn [unescape]. change (92 =? 92) with true. cbn iota.
    change (117 =? 117) with true. cbn [negb]. cbn iota. rewrite H. cbn [andb]. reflexivity.
  Qed.

  Lemma escape_decodes F c e r : c < 256 -> escape_of html c = Some e ->
    unescape (S F) (e ++ r) = match unescape F r with Some o => Some (c :: o) | None => None end.
  Proof.
    intros Hc. unfold escape_of.
    destruct ((c =? 92) || (c =? 34)) eqn:E1.
    { intro H; inversion H; subst. cbn [app]. rewrite unescape_pair by lia.
      assert (M : tbl0 dec_unescapeMap c = c).
      { destruct (N.eqb_spec c 92); [subst; reflexivity|]. destruct (N.eqb_spec c 34); [subst; reflexivity|]. lia. }
      rewrite M. reflexivity. }
    destruct (N.eqb_spec c 10) as [Q10|Q10]. { intro H; inversion H; subst. cbn [app]. rewrite unescape_pair by lia. reflexivity. }
    destruct (N.eqb_spec c 13) as [Q13|Q13]. { intro H; inversion H; subst. cbn [app]. rewrite unescape_pair by lia. reflexivity. }
    destruct (N.eqb_spec c 9) as [Q9|Q9]. { intro H; inversion H; subst. cbn [app]. rewrite unescape_pair by lia. reflexivity. }
    assert (U : c < 128 -> unescape (S F) (u00 c ++ r) = match unescape F r with Some o => Some (c :: o) | None => None end).
    { intro L. unfold u00. cbn [app]. rewrite unescape_u4; rewrite (hex4_00 c Hc); [|lia].
      unfold encode_rune. destruct (N.leb_spec c 127); [|lia]. reflexivity. }
    destruct (html && ((c =? 60) || (c =? 62) || (c =? 38))) eqn:E2.
    { intro H; inversion H; subst. apply U. lia. }
    destruct (N.ltb_spec c 32) as [Q32|Q32]; [|discriminate].
    intro H; inversion H; subst. apply U. lia.
  Qed.

  Lemma unescape_ufffd F r :
    unescape (S F) ([92; 117; 102; 102; 102; 100] ++ r) =
    match unescape F r with Some o => Some ([239; 191; 189] ++ o) | None => None end.
  Proof. cbn [app]. rewrite unescape_u4 by (vm_compute; reflexivity). reflexivity. Qed.

  Lemma unescape_u2028 F r :
    unescape (S F) ([92; 117; 50; 48; 50; 56] ++ r) =
    match unescape F r with Some o => Some ([226; 128; 168] ++ o) | None => None end.
  Proof. cbn [app]. rewrite unescape_u4 by (vm_compute; reflexivity). reflexivity. Qed.

  Lemma unescape_u2029 F r :
    unescape (S F) ([92; 117; 50; 48; 50; 57] ++ r) =
    match unescape F r with Some o => Some ([226; 128; 169] ++ o) | None => None end.
  Proof. cbn [app]. rewrite unescape_u4 by (vm_compute; reflexivity). reflexivity. Qed.

  Lemma raws_not_bs p : forallb (raw_ok html) p = true -> Forall (fun c => c <> 92) p.
  Proof.
    induction p as [|c p IH]; intro H; [constructor|]. cbn [forallb] in H. apply andb_true_iff in H.
    destruct H as [H1 H2]. constructor; [apply raw_not_bs; exact H1|apply IH; exact H2].
  Qed.

  (* line/paragraph separators are what decode_rune says they are *)
  Lemma decode_rune_sep s size st : decode_rune s = (st, size) ->
    (st = RLineSep -> firstn 3 s = [226; 128; 168] /\ size = 3) /\
    (st = RParaSep -> firstn 3 s = [226; 128; 169] /\ size = 3).
  Proof.
    unfold decode_rune. intro H.
    repeat match type of H with
    | (match ?x with _ => _ end) = _ => destruct x eqn:?
    | (if ?b then _ else _) = _ => destruct b eqn:?
    | (let _ := _ in _) = _ => cbv zeta in H
    end; inversion H; subst; split; intro X; try discriminate; cbn [firstn];
    (split; [repeat f_equal; lia|reflexivity]).
  Qed.

  Lemma sep3_shape s y : ok s -> sep3 s = Some y -> exists t, s = 226 :: 128 :: y :: t /\ (y = 168 \/ y = 169).
  Proof.
    intros Hs H. unfold sep3 in H.
    destruct s as [|a [|b [|y' t]]]; try discriminate.
    1,2: repeat match type of H with (match ?x with _ => _ end) = _ => destruct x; try discriminate end.
    destruct (N.eqb_spec a 226) as [Ea|Ea].
    2:{ exfalso. revert H. clear -Ea. destruct a as [|p]; [discriminate|].
        repeat (destruct p as [p|p|]; try discriminate); congruence. }
    subst a. destruct (N.eqb_spec b 128) as [Eb|Eb].
    2:{ exfalso. revert H. clear -Eb. destruct b as [|p]; [discriminate|].
        repeat (destruct p as [p|p|]; try discriminate); congruence. }
    subst b. cbn iota beta in H. destruct (N.land y' 254 =? 168) eqn:E; [|discriminate]. inversion H; subst y'.
    exists t. split; [reflexivity|].
    inversion Hs as [|? ? _ Hs1]; subst. inversion Hs1 as [|? ? _ Hs2]; subst. inversion Hs2 as [|? ? Hy _]; subst.
    pose (P := fun y => negb (N.land y 254 =? 168) || (y =? 168) || (y =? 169)).
    assert (HP : forallb P all_bytes = true) by (vm_compute; reflexivity).
    pose proof (forall_bytes P HP y Hy) as Q. unfold P in Q. lia.
  Qed.

  Lemma unescape_u202 F y r : (y = 168 \/ y = 169) ->
    unescape (S F) ([92; 117; 50; 48; 50; hexdig (N.land y 15)] ++ r) =
    match unescape F r with Some o => Some ([226; 128; y] ++ o) | None => None end.
  Proof. intros [-> | ->]; [apply unescape_u2028|apply unescape_u2029]. Qed.

  Theorem unescape_slow f : forall s F, ok s -> (length s <= f)%nat -> (length (slow need html normalize f s) < F)%nat ->
    unescape F (slow need html normalize f s) = Some (normf f s).
  Proof.
    induction f as [|f IH]; intros s F Hs Lf HF.
    - destruct s; [|cbn in Lf; lia]. destruct F; [cbn in HF; lia|]. unfold normf. destruct normalize; reflexivity.
    - destruct s as [|c r].
      { destruct F; [cbn in HF; lia|]. unfold normf. destruct normalize; reflexivity. }
      inversion Hs as [|? ? Hc Hr]; subst. cbn [length] in Lf. cbn [slow] in *.
      assert (Lk : forall k, (1 <= k)%nat -> (length (skipn k (c :: r)) <= f)%nat).
      { intros k Hk. rewrite skipn_length. cbn [length]. lia. }
      destruct (tblb need c) eqn:T; cbn [negb] in *.
      2:{ (* unflagged byte, copied *)
        destruct F as [|F]; [cbn in HF; lia|]. cbn [length] in HF.
        rewrite unescape_raw by (apply raw_not_bs; apply (unflagged_raw need html Htable); assumption).
        rewrite (IH r F Hr) by lia. unfold normf. destruct normalize eqn:En.
        - cbn [sanitize]. pose proof (unflagged_ascii c En Hc T). destruct (N.ltb_spec c 128); [reflexivity|lia].
        - reflexivity. }
      destruct (escape_of html c) as [e|] eqn:Ee.
      { destruct F as [|F]; [cbn in HF; lia|]. rewrite app_length in HF.
        assert (Le : (1 <= length e)%nat).
        { unfold escape_of in Ee. repeat match type of Ee with (if ?b then _ else _) = _ => destruct b end;
          inversion Ee; subst; cbn; lia. }
        rewrite (escape_decodes F c e _ Hc Ee). rewrite (IH r F Hr) by lia.
        assert (c < 128).
        { unfold escape_of in Ee. repeat match type of Ee with (if ?b then _ else _) = _ => destruct b eqn:? end;
          try discriminate; lia. }
        unfold normf. destruct normalize; [|reflexivity].
        cbn [sanitize]. destruct (N.ltb_spec c 128); [reflexivity|lia]. }
      pose proof (flagged_noesc need html Htable c Hc T Ee) as Hhigh.
      destruct normalize eqn:En.
      2:{ rewrite if_match_sep in *. destruct (if html then sep3 (c :: r) else None) as [y|] eqn:Es.
          - assert (Es' : sep3 (c :: r) = Some y) by (destruct html; [exact Es|discriminate]).
            destruct (sep3_shape (c :: r) y Hs Es') as (t & Est & Hy).
            destruct F as [|F]; [cbn in HF; lia|]. rewrite app_length in HF. cbn [length] in HF.
            rewrite (unescape_u202 F y _ Hy). rewrite (IH _ F (ok_skipn _ _ Hs)) by (try apply Lk; lia).
            unfold normf. rewrite En. rewrite Est. reflexivity.
          - destruct F as [|F]; [cbn in HF; lia|]. cbn [length] in HF.
            rewrite unescape_raw by lia. rewrite (IH r F Hr) by lia. unfold normf. rewrite En. reflexivity. }
      unfold normf. rewrite En. cbn [sanitize]. destruct (N.ltb_spec c 128); [lia|].
      destruct (decode_rune (c :: r)) as [st size] eqn:D.
      pose proof (rune_size _ _ _ D) as Sz.
      destruct (decode_rune_sep _ _ _ D) as [SL SP].
      destruct st.
      + (* valid multi-byte: copied raw *)
        pose proof (decode_rune_valid_high need html (c :: r) size Hs ltac:(cbn; lia) D) as Raw.
        rewrite app_length in HF.
        replace F with (length (firstn (N.to_nat size) (c :: r)) + (F - length (firstn (N.to_nat size) (c :: r))))%nat by lia.
        rewrite unescape_raws by (apply raws_not_bs; exact Raw).
        rewrite (IH _ _ (ok_skipn _ _ Hs)) by (try apply Lk; lia). unfold normf. rewrite En. reflexivity.
      + destruct F as [|F]; [cbn in HF; lia|]. rewrite app_length in HF. cbn [length] in HF.
        rewrite unescape_ufffd. rewrite (IH r F Hr) by lia. unfold normf. rewrite En. reflexivity.
      + destruct F as [|F]; [cbn in HF; lia|]. rewrite app_length in HF. cbn [length] in HF.
        rewrite unescape_u2028. rewrite (IH _ F (ok_skipn _ _ Hs)) by (try apply Lk; lia). unfold normf. rewrite En.
        destruct (SL eq_refl) as [E3 Es]. subst size. change (N.to_nat 3) with 3%nat. rewrite E3. reflexivity.
      + destruct F as [|F]; [cbn in HF; lia|]. rewrite app_length in HF. cbn [length] in HF.
        rewrite unescape_u2029. rewrite (IH _ F (ok_skipn _ _ Hs)) by (try apply Lk; lia). unfold normf. rewrite En.
        destruct (SP eq_refl) as [E3 Es]. subst size. change (N.to_nat 3) with 3%nat. rewrite E3. reflexivity.
  Qed.
End Variant.

(* ---------- the scanner accepts every well-formed body ---------- *)
Lemma simple_esc_same e : is_simple_esc e = simple_esc e.
Proof. reflexivity. Qed.
Lemma is_hex_same c : is_hexc c = is_hex c.
Proof. reflexivity. Qed.

Definition nobs (l : list N) : Prop := Forall (fun c => c <> 92) l.

Lemma scan_body html F : forall content acc esc rest,
  body_ok html content = true -> (length content < F)%nat ->
  exists esc', scan_string F (content ++ 34 :: rest) acc esc = SSOk (acc ++ content) esc' rest /\
               (esc' = true \/ (esc' = esc /\ nobs content)).
Proof.
  induction F as [|F IH]; intros content acc esc rest Hb HF; [lia|].
  destruct content as [|c r].
  - exists esc. cbn [app scan_string]. change (34 =? 92) with false. change (34 =? 34) with true. cbn iota.
    rewrite app_nil_r. split; [reflexivity|]. right. split; [reflexivity|constructor].
  - cbn [body_ok] in Hb. cbn [app scan_string length] in *.
    destruct (N.eqb_spec c 92) as [E|E].
    + subst c. destruct r as [|e r1]; [discriminate|]. cbn [app].
      rewrite simple_esc_same. destruct (simple_esc e) eqn:Se.
      * destruct (IH r1 (acc ++ [92; e]) true rest Hb ltac:(cbn [length] in HF; lia)) as (esc' & E1 & E2).
        exists esc'. rewrite E1. rewrite <- app_assoc. split; [reflexivity|].
        left. destruct E2 as [E2|[E2 _]]; exact E2.
      * destruct (N.eqb_spec e 117) as [Eu|Eu]; [|discriminate]. subst e.
        destruct r1 as [|h1 [|h2 [|h3 [|h4 r2]]]]; try discriminate.
        apply andb_true_iff in Hb. destruct Hb as [Hb Hb2].
        assert (L : Nat.leb (length ((117 :: h1 :: h2 :: h3 :: h4 :: r2) ++ 34 :: rest)) 5 = false).
        { apply Nat.leb_gt. rewrite app_length. cbn [length]. lia. }
        cbn [app] in L |- *. rewrite L. unfold is_hexc. unfold is_hex in Hb. rewrite Hb.
        destruct (IH r2 (acc ++ [92; 117; h1; h2; h3; h4]) true rest Hb2 ltac:(cbn [length] in HF; lia)) as (esc' & E1 & E2).
        exists esc'. rewrite E1. rewrite <- app_assoc. split; [reflexivity|].
        left. destruct E2 as [E2|[E2 _]]; exact E2.
    + apply andb_true_iff in Hb. destruct Hb as [Hraw Hb].
      assert (c <> 34 /\ c <> 0 /\ 32 <= c) as (E34 & E0 & E32) by (unfold raw_ok in Hraw; destruct html; lia).
      destruct (N.eqb_spec c 34); [congruence|]. destruct (N.eqb_spec c 0); [congruence|].
      destruct (N.ltb_spec c 32); [lia|].
      destruct (IH r (acc ++ [c]) esc rest Hb ltac:(lia)) as (esc' & E1 & E2).
      exists esc'. rewrite E1. rewrite <- app_assoc. split; [reflexivity|].
      destruct E2 as [E2|[E2 E3]]; [left; exact E2|right]. split; [exact E2|constructor; assumption].
Qed.

Lemma split_bs_spec l : let '(pre, rest) := split_bs l in
  l = pre ++ rest /\ nobs pre /\ (rest = [] \/ exists r, rest = 92 :: r).
Proof.
  induction l as [|c r IH]; cbn [split_bs]; [split; [reflexivity|split; [constructor|left; reflexivity]]|].
  destruct (N.eqb_spec c 92) as [E|E].
  - subst. split; [reflexivity|split; [constructor|right; eexists; reflexivity]].
  - destruct (split_bs r) as [a b]. destruct IH as (A & B & C). subst r.
    split; [reflexivity|split; [constructor; assumption|exact C]].
Qed.

Lemma unescape_nobs p : forall F, nobs p -> (length p < F)%nat -> unescape F p = Some p.
Proof.
  induction p as [|c p IH]; intros F H L; (destruct F; [cbn in L; lia|]); [reflexivity|].
  inversion H; subst. cbn [unescape]. destruct (N.eqb_spec c 92); [congruence|].
  rewrite IH by (try assumption; cbn in L; lia). reflexivity.
Qed.

(* unquote = unescape applied to the whole content *)
Lemma unquote_whole content esc o F :
  (esc = true \/ nobs content) -> (length content < F)%nat ->
  (forall F', (length content < F')%nat -> unescape F' content = Some o) ->
  unquote content esc = Some o.
Proof.
  intros He HF Hu. unfold unquote. destruct esc.
  - pose proof (split_bs_spec content) as S. destruct (split_bs content) as [pre rest].
    destruct S as (E & Hp & Hr). subst content.
    specialize (Hu (length pre + S (length rest))%nat ltac:(rewrite app_length; lia)).
    rewrite (unescape_raws pre (S (length rest)) rest Hp) in Hu.
    destruct (unescape (S (length rest)) rest) as [o'|]; [|discriminate].
    inversion Hu; subst. reflexivity.
  - destruct He as [He|He]; [discriminate|].
    specialize (Hu (S (length content)) ltac:(lia)). rewrite unescape_nobs in Hu by (try assumption; lia).
    exact Hu.
Qed.

Section RoundTrip.
  Variable need : list N.
  Variable html normalize : bool.
  Variable mask : wexpr.
  Variable ts : list term.
  Hypothesis Hterms : terms mask = Some ts.
  Hypothesis Hcover : cover need ts = true.
  Hypothesis Htable : table_ok need html = true.
  Hypothesis Hnorm : norm_table_ok need normalize = true.

  (* Marshal then Unmarshal of a string: the original, sanitised when normalising *)
  Theorem string_roundtrip s : ok s ->
    unmarshal_string (append_string need html normalize mask s) =
    StrRes false (Some (normf normalize (length s) s)).
  Proof.
    intro Hs. rewrite (append_string_eq_slow need html normalize mask ts Hterms Hcover s Hs).
    unfold unmarshal_string. cbn [app str_decode_byte]. change (is_ws 34) with false. change (34 =? 34) with true. cbn iota.
    set (body := slow need html normalize (length s) s).
    pose proof (slow_body_ok need html normalize Htable (length s) s Hs) as Hb. fold body in Hb.
    rewrite <- app_assoc. cbn [app].
    destruct (scan_body html (S (length (body ++ [34; 0]))) body [] false [0] Hb
                ltac:(rewrite app_length; cbn; lia)) as (esc' & E1 & E2).
    cbn [app] in E1. rewrite E1.
    assert (Hu : forall F', (length body < F')%nat -> unescape F' body = Some (normf normalize (length s) s)).
    { intros F' L. apply (unescape_slow need html normalize Htable Hnorm); [assumption|apply le_n|assumption]. }
    rewrite (unquote_whole body esc' (normf normalize (length s) s) (S (length body)));
      [|destruct E2 as [E2|[_ E2]]; [left; exact E2|right; exact E2]|lia|exact Hu].
    reflexivity.
  Qed.
End RoundTrip.
