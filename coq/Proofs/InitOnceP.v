From Coq Require Import List Arith Bool Lia.
From GJ Require Import Model.InitOnce.
Import ListNotations.

(* through the Once only: nobody is past the init function before the slice is there *)
Definition pc_ok (s : shared) (i : nat) (p : pc) : Prop :=
  match p with
  | Enter | Waiting => True
  | Body1 => s_once s = Running i /\ s_cache s = false
  | Body2 => s_once s = Running i /\ s_cache s = false
  | Lookup => s_cache s = true
  | Done ok => ok = true
  end.
Definition inv (st : sys) : Prop :=
  (s_once (fst st) = Finished -> s_cache (fst st) = true) /\
  (s_cache (fst st) = true -> s_once (fst st) = Finished) /\
  (forall i p, nth_error (snd st) i = Some p -> pc_ok (fst st) i p) /\
  (forall i j, nth_error (snd st) i = Some Body1 \/ nth_error (snd st) i = Some Body2 -> s_once (fst st) = Running j -> i = j).

Lemma nth_set_same {A} : forall (l : list A) n x p, nth_error l n = Some p -> nth_error (set_nth l n x) n = Some x.
Proof. induction l as [|y l IH]; intros [|n] x p H; try discriminate H; [reflexivity|]. cbn. exact (IH n x p H). Qed.
Lemma nth_set_other {A} : forall (l : list A) n m x, n <> m -> nth_error (set_nth l n x) m = nth_error l m.
Proof.
  induction l as [|y l IH]; intros [|n] [|m] x H; try reflexivity; try congruence. cbn. apply IH. congruence.
Qed.

Lemma inv_step st i : inv st -> inv (sys_step false st i).
Proof.
  destruct st as [s ps]. unfold sys_step. cbn [fst snd]. destruct (nth_error ps i) as [p|] eqn:E; [|auto].
  intros (I1 & I2 & I3 & I4). cbn [fst snd] in *. pose proof (I3 i p E) as Hp.
  assert (G : forall s' p',
            (forall j q, j <> i -> nth_error ps j = Some q -> pc_ok s' j q) -> pc_ok s' i p' ->
            (s_once s' = Finished -> s_cache s' = true) -> (s_cache s' = true -> s_once s' = Finished) ->
            (forall k j, (k = i /\ (p' = Body1 \/ p' = Body2)) \/ (k <> i /\ (nth_error ps k = Some Body1 \/ nth_error ps k = Some Body2)) -> s_once s' = Running j -> k = j) ->
            inv (s', set_nth ps i p')).
  { intros s' p' Hothers Hme H1 H2 H4. split; [exact H1|split; [exact H2|split]]; cbn [fst snd].
    - intros j q Hq. destruct (Nat.eq_dec j i) as [->|Hne].
      + rewrite (nth_set_same ps i p' p E) in Hq. inversion Hq; subst. exact Hme.
      + rewrite (nth_set_other ps i j p' (not_eq_sym Hne)) in Hq. exact (Hothers j q Hne Hq).
    - intros k j Hk Hr. apply (H4 k j); [|exact Hr]. destruct (Nat.eq_dec k i) as [->|Hne].
      + left. split; [reflexivity|]. rewrite (nth_set_same ps i p' p E) in Hk. destruct Hk as [Hk|Hk]; inversion Hk; auto.
      + right. split; [exact Hne|]. rewrite (nth_set_other ps i k p' (not_eq_sym Hne)) in Hk. exact Hk. }
  assert (Keep : forall j q, j <> i -> nth_error ps j = Some q -> pc_ok s j q) by (intros j q _ Hq; exact (I3 j q Hq)).
  assert (NoBody : forall p', p' <> Body1 -> p' <> Body2 -> forall k j : nat,
            k = i /\ (p' = Body1 \/ p' = Body2) \/ k <> i /\ (nth_error ps k = Some Body1 \/ nth_error ps k = Some Body2) ->
            s_once s = Running j -> k = j).
  { intros p' N1 N2 k j [[_ [Hb|Hb]]|[_ Hk]] Hr; [contradiction|contradiction|exact (I4 k j Hk Hr)]. }
  destruct p; cbn [step andb].
  - (* Enter *) remember (s_once s) as o0 eqn:Eo in |- *. symmetry in Eo. destruct o0; cbn iota.
    + refine (G {| s_once := Running i; s_addr := s_addr s; s_cache := s_cache s |} Body1 _ _ _ _ _); cbn [s_once s_cache pc_ok].
      * intros j q Hne Hq. pose proof (I3 j q Hq) as Hq'. destruct q; cbn [pc_ok s_once s_cache] in *; try exact Hq'.
        -- destruct Hq' as [Hq' _]. congruence.
        -- destruct Hq' as [Hq' _]. congruence.
      * split; [reflexivity|]. remember (s_cache s) as c0 eqn:Ec in |- *. symmetry in Ec. destruct c0; [|reflexivity]. rewrite (I2 Ec) in Eo. discriminate.
      * discriminate.
      * intro Hc. rewrite (I2 Hc) in Eo. discriminate.
      * intros k j [[-> _]|[Hne [Hk|Hk]]] Hr; [inversion Hr; reflexivity| |];
          (pose proof (I3 k _ Hk) as Hq'; cbn [pc_ok] in Hq'; destruct Hq' as [Hq' _]; congruence).
    + refine (G s Waiting Keep I I1 I2 (NoBody Waiting _ _)); discriminate.
    + refine (G s Lookup Keep (I1 Eo) I1 I2 (NoBody Lookup _ _)); discriminate.
  - (* Body1 *) destruct Hp as [Ho Hc].
    refine (G {| s_once := s_once s; s_addr := true; s_cache := s_cache s |} Body2 _ _ I1 I2 _); cbn [s_once s_cache pc_ok].
    + intros j q _ Hq. pose proof (I3 j q Hq) as Hq'. destruct q; exact Hq'.
    + split; assumption.
    + intros k j [[-> _]|[Hne Hk]] Hr; [congruence|exact (I4 k j Hk Hr)].
  - (* Body2 *) destruct Hp as [Ho Hc].
    refine (G {| s_once := Finished; s_addr := s_addr s; s_cache := true |} Lookup _ _ _ _ _); cbn [s_once s_cache pc_ok]; try reflexivity.
    + intros j q Hne Hq. pose proof (I3 j q Hq) as Hq'. destruct q; cbn [pc_ok s_once s_cache] in *; try exact Hq'; try reflexivity.
      * exfalso. apply Hne. exact (I4 j i (or_introl Hq) Ho).
      * exfalso. apply Hne. exact (I4 j i (or_intror Hq) Ho).
    + intros k j _ Hr. discriminate Hr.
  - (* Waiting *) remember (s_once s) as o0 eqn:Eo in |- *; symmetry in Eo; destruct o0; cbn iota.
    + refine (G s Waiting Keep I I1 I2 (NoBody Waiting _ _)); discriminate.
    + refine (G s Waiting Keep I I1 I2 (NoBody Waiting _ _)); discriminate.
    + refine (G s Lookup Keep (I1 Eo) I1 I2 (NoBody Lookup _ _)); discriminate.
  - (* Lookup *) cbn [pc_ok] in Hp. refine (G s (Done (s_cache s)) Keep Hp I1 I2 (NoBody _ _ _)); discriminate.
  - (* Done *) refine (G s (Done ok) Keep Hp I1 I2 (NoBody _ _ _)); discriminate.
Qed.

Lemma inv_init n : inv ({| s_once := Fresh; s_addr := false; s_cache := false |}, repeat Enter n).
Proof.
  split; [discriminate|split; [discriminate|split]]; cbn [fst snd].
  - intros i p H. apply nth_error_In in H. apply repeat_spec in H. subst. exact I.
  - intros i j [H|H] _; apply nth_error_In in H; apply repeat_spec in H; discriminate H.
Qed.

Lemma inv_run n schedule : inv (run false n schedule).
Proof.
  unfold run. generalize (inv_init n). generalize ({| s_once := Fresh; s_addr := false; s_cache := false |}, repeat Enter n).
  induction schedule as [|i r IH]; intros st H; [exact H|]. cbn [fold_left]. apply IH. apply inv_step. exact H.
Qed.

(* any number of goroutines, any schedule: a lookup that completes found the cache slice allocated *)
Theorem lookup_finds_the_cache n schedule i ok :
  nth_error (snd (run false n schedule)) i = Some (Done ok) -> ok = true.
Proof. intro H. destruct (inv_run n schedule) as (_ & _ & I3 & _). exact (I3 i (Done ok) H). Qed.

(* with a test of typeAddr in front of the Once: goroutine 1 slips through between the two assignments *)
Theorem fast_path_refuted : nth_error (snd (run true 2 [0; 0; 1; 1]%nat)) 1 = Some (Done false).
Proof. vm_compute. reflexivity. Qed.
