(* The SWAR fast path of append*String is sound: a chunk whose mask has no
   high bit contains no byte the table flags, and the bytes before the first
   high bit are not flagged either.  Stated for ANY mask expression the
   analyser recognises (an OR of n, n - rep c, (n ^ rep c) - lsb terms in any
   order), so reordering or adding terms in the source does not break it. *)
From Coq Require Import NArith ZArith List Bool Lia.
From Coq Require Import ZifyN ZifyNat ZifyBool.
From GJ Require Import Base.Bytes Base.Word64 Proofs.WordP.
Import ListNotations.
Open Scope N_scope.
Ltac Zify.zify_post_hook ::= Z.div_mod_to_equations.

Inductive term := TVar | TSub (c : N) | TXor (c : N).

Definition lsb8 : N := to_word (rep 1 8).

(* k = rep c 8 as a word, with c <= 128 *)
Definition rep_byte (k : N) : option N :=
  let c := k mod 256 in
  if (k =? to_word (rep c 8)) && (c <=? 128) then Some c else None.

Fixpoint terms (e : wexpr) : option (list term) :=
  match e with
  | WVar => Some [TVar]
  | WOr a b => match terms a, terms b with
               | Some x, Some y => Some (x ++ y)
               | _, _ => None
               end
  | WSub WVar (WConst k) => match rep_byte k with Some c => Some [TSub c] | None => None end
  | WSub (WXor WVar (WConst k)) (WConst l) =>
      if l =? lsb8 then
        match rep_byte k with Some c => Some [TXor c] | None => None end
      else None
  | _ => None
  end.

(* bytes of one term, as the word-level operation computes them *)
Definition term_bytes (t : term) (bs : list N) : list N :=
  match t with
  | TVar => bs
  | TSub c => fst (subb bs c 0)
  | TXor c => fst (subb (map (fun b => N.lxor b c) bs) 1 0)
  end.

Fixpoint mbytes (ts : list term) (bs : list N) : list N :=
  match ts with
  | [] => rep 0 (length bs)
  | t :: r => zipw N.lor (term_bytes t bs) (mbytes r bs)
  end.

(* the same byte with no borrow coming in *)
Definition term_byte0 (t : term) (b : N) : N :=
  match t with
  | TVar => b
  | TSub c => fst (sub_step b c)
  | TXor c => fst (sub_step (N.lxor b c) 1)
  end.
Definition mbyte0 (ts : list term) (b : N) : N :=
  fold_right (fun t acc => N.lor (term_byte0 t b) acc) 0 ts.

Definition hi (m : N) : bool := negb (N.land m 128 =? 0).

(* ---------- basic facts ---------- *)
Lemma subb_fst_length bs : forall c bin, length (fst (subb bs c bin)) = length bs.
Proof.
  induction bs as [|b r IH]; intros c bin; cbn [subb]; [reflexivity|].
  destruct (sub_step b (c + bin)) as [d bo]. specialize (IH c bo).
  destruct (subb r c bo) as [rs bout]. cbn [fst length] in *. lia.
Qed.

Lemma subb_fst_ok bs : forall c bin, ok bs -> c < 256 -> bin <= 1 -> ok (fst (subb bs c bin)).
Proof.
  intros c bin H1 H2 H3. pose proof (subb_spec bs c bin H1 H2 H3) as H.
  destruct (subb bs c bin). cbn. tauto.
Qed.

Lemma map_lxor_ok bs c : ok bs -> c < 256 -> ok (map (fun b => N.lxor b c) bs).
Proof.
  intros H Hc. induction H; cbn; constructor; [apply lxor_small; assumption|assumption].
Qed.

Lemma term_ok t : match t with TVar => True | TSub c | TXor c => c < 256 end ->
  forall bs, ok bs -> ok (term_bytes t bs) /\ length (term_bytes t bs) = length bs.
Proof.
  intros Ht bs Hb. destruct t as [|c|c]; cbn [term_bytes].
  - split; [exact Hb|reflexivity].
  - split; [apply subb_fst_ok; [assumption|assumption|lia]|apply subb_fst_length].
  - split; [apply subb_fst_ok; [apply map_lxor_ok; assumption|lia|lia]|].
    rewrite subb_fst_length, map_length. reflexivity.
Qed.

Definition terms_ok (ts : list term) : Prop :=
  Forall (fun t => match t with TVar => True | TSub c | TXor c => c <= 128 end) ts.

Lemma mbytes_ok ts : terms_ok ts -> forall bs, ok bs ->
  ok (mbytes ts bs) /\ length (mbytes ts bs) = length bs.
Proof.
  induction 1 as [|t r Ht Hr IH]; intros bs Hb; cbn [mbytes].
  - split; [apply rep_ok; lia|apply rep_length].
  - destruct (IH bs Hb) as [A B].
    destruct (term_ok t ltac:(destruct t; [exact I|lia|lia]) bs Hb) as [C D].
    split; [apply zipw_ok; [exact lor_small|assumption|assumption]|].
    rewrite zipw_length by lia. exact D.
Qed.

Lemma mbytes_app ts1 : forall ts2 bs, terms_ok ts1 -> terms_ok ts2 -> ok bs ->
  mbytes (ts1 ++ ts2) bs = zipw N.lor (mbytes ts1 bs) (mbytes ts2 bs).
Proof.
  induction ts1 as [|t r IH]; intros ts2 bs H1 H2 Hb; cbn [app mbytes].
  - destruct (mbytes_ok ts2 H2 bs Hb) as [A B]. revert B. generalize (mbytes ts2 bs).
    generalize (length bs). intros n l. revert n. induction l as [|x l IHl]; intros [|n] E; cbn in *; try lia; try reflexivity.
    rewrite <- IHl by lia. reflexivity.
  - inversion H1 as [|? ? Ht Hr]; subst. rewrite IH by assumption.
    destruct (mbytes_ok r Hr bs Hb) as [A B]. destruct (mbytes_ok ts2 H2 bs Hb) as [A2 B2].
    destruct (term_ok t ltac:(destruct t; [exact I|lia|lia]) bs Hb) as [C D].
    revert B B2 D. generalize (term_bytes t bs) (mbytes r bs) (mbytes ts2 bs) (length bs).
    intros xs. induction xs as [|x xs IHx]; intros [|y ys] [|z zs] n E1 E2 E3; cbn in *; try lia; try reflexivity.
    rewrite N.lor_assoc. f_equal. apply (IHx ys zs (pred n)); lia.
Qed.

(* ---------- word level = byte level ---------- *)
Lemma rep_byte_spec k c : rep_byte k = Some c -> k = to_word (rep c 8) /\ c <= 128.
Proof.
  unfold rep_byte. destruct (N.eqb_spec k (to_word (rep (k mod 256) 8))) as [E|E]; [|discriminate].
  destruct (N.leb_spec (k mod 256) 128) as [L|L]; [|discriminate]. cbn [andb].
  intro H. inversion H; subst c. split; [exact E|exact L].
Qed.

Lemma to_word_lt_W bs : ok bs -> length bs = 8%nat -> to_word bs < W.
Proof. intros H L. pose proof (to_word_bound bs H) as B. rewrite L in B. exact B. Qed.

Lemma lxor_rep bs c : ok bs -> c < 256 ->
  N.lxor (to_word bs) (to_word (rep c (length bs))) = to_word (map (fun b => N.lxor b c) bs).
Proof.
  intros H Hc. induction H as [|b r Hb Hr IH]; [reflexivity|].
  cbn [length rep to_word map]. rewrite lxor_bytes by assumption. rewrite IH. reflexivity.
Qed.

Theorem terms_sound e : forall ts, terms e = Some ts ->
  terms_ok ts /\
  forall bs, ok bs -> length bs = 8%nat -> weval e (to_word bs) = to_word (mbytes ts bs).
Proof.
  induction e as [| |k|a IHa b IHb|a IHa b IHb|a IHa b IHb|a IHa b IHb|a IHa b IHb|a IHa b IHb];
    intros ts H; cbn [terms] in H; try discriminate.
  - (* WVar *)
    inversion H; subst. split; [repeat constructor|]. intros bs Hb Hl. cbn [weval mbytes term_bytes].
    rewrite <- to_word_lor; [|assumption|apply rep_ok; lia|rewrite rep_length; reflexivity].
    assert (Z0 : to_word (rep 0 (length bs)) = 0).
    { generalize (length bs). intro n. induction n; cbn; [reflexivity|]. rewrite IHn. reflexivity. }
    rewrite Z0. rewrite N.lor_0_r. reflexivity.
  - (* WOr *)
    destruct (terms a) as [x|] eqn:Ea; [|discriminate]. destruct (terms b) as [y|] eqn:Eb; [|discriminate].
    inversion H; subst. destruct (IHa x eq_refl) as [Ha1 Ha2]. destruct (IHb y eq_refl) as [Hb1 Hb2].
    split; [apply Forall_app; split; assumption|]. intros bs Hb Hl. cbn [weval].
    rewrite Ha2, Hb2 by assumption. rewrite mbytes_app by assumption.
    destruct (mbytes_ok x Ha1 bs Hb) as [A1 B1]. destruct (mbytes_ok y Hb1 bs Hb) as [A2 B2].
    apply to_word_lor; try assumption. lia.
  - (* WSub *)
    destruct a as [| |ka|a1 a2|a1 a2|a1 a2|a1 a2|a1 a2|a1 a2]; try discriminate.
    + (* n - const *)
      destruct b as [| |k| | | | | |]; try discriminate.
      destruct (rep_byte k) as [c|] eqn:Er; [|discriminate]. inversion H; subst.
      destruct (rep_byte_spec k c Er) as [Ek Hc].
      split; [repeat constructor; exact Hc|]. intros bs Hb Hl. cbn [weval mbytes term_bytes].
      rewrite Ek. rewrite (N.mod_small (to_word (rep c 8))) by (apply to_word_lt_W; [apply rep_ok; lia|apply rep_length]).
      rewrite sub_word8 by (try assumption; lia).
      pose proof (subb_fst_ok bs c 0 Hb ltac:(lia) ltac:(lia)) as Ok1.
      pose proof (subb_fst_length bs c 0) as L1.
      rewrite <- to_word_lor; [|assumption|apply rep_ok; lia|rewrite rep_length; lia].
      assert (Z0 : forall n, to_word (rep 0 n) = 0).
      { intro n. induction n; cbn; [reflexivity|]. rewrite IHn. reflexivity. }
      rewrite Z0, N.lor_0_r. reflexivity.
    + (* (n ^ const) - lsb *)
      destruct a1 as [| | | | | | | |]; try discriminate.
      destruct a2 as [| |k| | | | | |]; try discriminate.
      destruct b as [| |l| | | | | |]; try discriminate.
      destruct (N.eqb_spec l lsb8) as [El|El]; [|discriminate].
      destruct (rep_byte k) as [c|] eqn:Er; [|discriminate]. inversion H; subst.
      destruct (rep_byte_spec k c Er) as [Ek Hc].
      split; [repeat constructor; exact Hc|]. intros bs Hb Hl. cbn [weval mbytes term_bytes].
      rewrite Ek. rewrite (N.mod_small (to_word (rep c 8))) by (apply to_word_lt_W; [apply rep_ok; lia|apply rep_length]).
      rewrite <- Hl. rewrite lxor_rep by (try assumption; lia). rewrite Hl.
      unfold lsb8. rewrite (N.mod_small (to_word (rep 1 8))) by (vm_compute; reflexivity).
      pose proof (map_lxor_ok bs c Hb ltac:(lia)) as Okx.
      rewrite sub_word8 by (try assumption; try lia; rewrite map_length; exact Hl).
      pose proof (subb_fst_ok (map (fun b => N.lxor b c) bs) 1 0 Okx ltac:(lia) ltac:(lia)) as Ok1.
      pose proof (subb_fst_length (map (fun b => N.lxor b c) bs) 1 0) as L1. rewrite map_length in L1.
      rewrite <- to_word_lor; [|assumption|apply rep_ok; lia|rewrite rep_length; lia].
      assert (Z0 : forall n, to_word (rep 0 n) = 0).
      { intro n. induction n; cbn; [reflexivity|]. rewrite IHn. reflexivity. }
      rewrite Z0, N.lor_0_r. reflexivity.
Qed.

(* ---------- high bits: what a clean prefix of the mask says ---------- *)
Lemma hi_lor x y : hi (N.lor x y) = false -> hi x = false /\ hi y = false.
Proof.
  unfold hi. intro H. apply negb_false_iff, N.eqb_eq in H.
  rewrite N.land_lor_distr_l in H. apply N.lor_eq_0_iff in H. destruct H as [A B].
  rewrite A, B. split; reflexivity.
Qed.

Lemma hi_byte m : m < 256 -> hi m = (128 <=? m).
Proof.
  intro H. pose (P := fun m => Bool.eqb (hi m) (128 <=? m)).
  assert (HP : forallb P all_bytes = true) by (vm_compute; reflexivity).
  pose proof (forall_bytes P HP m H) as E. unfold P in E. apply Bool.eqb_prop in E. exact E.
Qed.

Lemma sub_step_clean b c : b < 256 -> c <= 128 ->
  hi (fst (sub_step b c)) = false -> snd (sub_step b c) = 0.
Proof.
  intros Hb Hc. unfold sub_step. destruct (N.ltb_spec b c) as [L|L]; cbn [fst snd]; [|reflexivity].
  rewrite hi_byte by lia. intro H. lia.
Qed.

Lemma subb_clean_prefix c : c <= 128 -> forall p bs, ok bs ->
  Forall (fun m => hi m = false) (firstn p (fst (subb bs c 0))) ->
  firstn p (fst (subb bs c 0)) = map (fun b => fst (sub_step b c)) (firstn p bs).
Proof.
  intros Hc p. induction p as [|p IH]; intros bs Hb H; [reflexivity|].
  destruct bs as [|b r]; [reflexivity|]. inversion Hb as [|? ? Hb1 Hr]; subst.
  cbn [subb] in *. rewrite N.add_0_r in *.
  destruct (sub_step b c) as [d bo] eqn:Es.
  destruct (subb r c bo) as [rs bout] eqn:Er. cbn [fst firstn map] in *.
  inversion H as [|? ? Hd Hrest]; subst.
  assert (bo = 0).
  { pose proof (sub_step_clean b c Hb1 Hc) as S. rewrite Es in S. cbn [fst snd] in S. apply S. exact Hd. }
  subst bo. f_equal; [rewrite Es; reflexivity|]. specialize (IH r Hr). rewrite Er in IH. cbn [fst] in IH. apply IH. exact Hrest.
Qed.

Lemma term_clean_prefix t : match t with TVar => True | TSub c | TXor c => c <= 128 end ->
  forall p bs, ok bs ->
  Forall (fun m => hi m = false) (firstn p (term_bytes t bs)) ->
  firstn p (term_bytes t bs) = map (term_byte0 t) (firstn p bs).
Proof.
  intros Ht p bs Hb H. destruct t as [|c|c]; cbn [term_bytes term_byte0] in *.
  - rewrite map_id. reflexivity.
  - apply subb_clean_prefix; assumption.
  - rewrite (subb_clean_prefix 1 ltac:(lia) p _ (map_lxor_ok bs c Hb ltac:(lia)) H).
    rewrite firstn_map, map_map. reflexivity.
Qed.

Lemma firstn_zipw f p : forall xs ys, firstn p (zipw f xs ys) = zipw f (firstn p xs) (firstn p ys).
Proof.
  induction p as [|p IH]; intros [|x xs] [|y ys]; cbn; try reflexivity. f_equal. apply IH.
Qed.

Lemma forall_zipw_lor xs : forall ys, length xs = length ys ->
  Forall (fun m => hi m = false) (zipw N.lor xs ys) ->
  Forall (fun m => hi m = false) xs /\ Forall (fun m => hi m = false) ys.
Proof.
  induction xs as [|x xs IH]; intros [|y ys] L H; cbn in *; try lia; [split; constructor|].
  inversion H as [|? ? H1 H2]; subst. apply hi_lor in H1. destruct H1 as [A B].
  destruct (IH ys ltac:(lia) H2) as [C D]. split; constructor; assumption.
Qed.

Lemma clean_prefix ts : terms_ok ts -> forall p bs, ok bs ->
  Forall (fun m => hi m = false) (firstn p (mbytes ts bs)) ->
  Forall (fun b => hi (mbyte0 ts b) = false) (firstn p bs).
Proof.
  induction 1 as [|t r Ht Hr IH]; intros p bs Hb H.
  - cbn [mbyte0 fold_right]. apply Forall_forall. intros; reflexivity.
  - cbn [mbytes] in H. rewrite firstn_zipw in H.
    destruct (term_ok t ltac:(destruct t; [exact I|lia|lia]) bs Hb) as [C D].
    destruct (mbytes_ok r Hr bs Hb) as [A B].
    apply forall_zipw_lor in H; [|rewrite !firstn_length; lia].
    destruct H as [H1 H2]. specialize (IH p bs Hb H2).
    rewrite (term_clean_prefix t Ht p bs Hb H1) in H1.
    cbn [mbyte0 fold_right]. fold (mbyte0 r).
    clear -H1 IH. induction (firstn p bs) as [|b l IHl]; [constructor|].
    cbn [map] in H1. inversion H1; inversion IH; subst. constructor; [|apply IHl; assumption].
    unfold hi, mbyte0 in *. rewrite N.land_lor_distr_l.
    apply negb_false_iff, N.eqb_eq in H2. apply negb_false_iff, N.eqb_eq in H6. rewrite H2, H6. reflexivity.
Qed.

(* the table-dependent fact, decidable by a 256-case sweep *)
Definition cover (need : list N) (ts : list term) : bool :=
  forallb (fun b => hi (mbyte0 ts b) || negb (tblb need b)) all_bytes.

Lemma cover_spec need ts : cover need ts = true ->
  forall b, b < 256 -> hi (mbyte0 ts b) = false -> tblb need b = false.
Proof.
  intros H b Hb Hh. pose proof (forall_bytes _ H b Hb) as E. cbv beta in E.
  rewrite Hh in E. cbn in E. apply negb_true_iff in E. exact E.
Qed.

Definition unflagged (need : list N) (l : list N) : Prop := Forall (fun b => tblb need b = false) l.

Lemma ok_firstn p : forall bs, ok bs -> ok (firstn p bs).
Proof.
  induction p as [|p IH]; intros [|b r] H; cbn; try constructor.
  - inversion H; assumption.
  - inversion H; subst. apply IH. assumption.
Qed.

Lemma ok_skipn p : forall bs, ok bs -> ok (skipn p bs).
Proof.
  induction p as [|p IH]; intros [|b r] H; cbn; try assumption.
  inversion H; subst. apply IH. assumption.
Qed.

Lemma clean_unflagged need ts p bs : terms_ok ts -> cover need ts = true -> ok bs ->
  Forall (fun m => hi m = false) (firstn p (mbytes ts bs)) -> unflagged need (firstn p bs).
Proof.
  intros Ht Hc Hb H. pose proof (clean_prefix ts Ht p bs Hb H) as C.
  assert (Hok : ok (firstn p bs)) by (apply ok_firstn; exact Hb).
  unfold unflagged. clear H. induction (firstn p bs) as [|b l IH]; [constructor|].
  inversion C; inversion Hok; subst. constructor; [|apply IH; assumption].
  apply (cover_spec need ts Hc); assumption.
Qed.
