From Coq Require Import NArith List Bool Arith Lia.
From GJ Require Import Model.Stream.
Import ListNotations.
Open Scope N_scope.

Section LiftP.
  Variable St Res : Type.
  Variable step : St -> N -> St + Res.
  Variable atend : St -> Res.
  Notation brun := (brun St Res step atend).
  Notation srun := (srun St Res step atend).
  Notation stream := (stream).

  Definition noNUL (b : list N) := Forall (fun x => x <> NUL) b.

  (* what is still to be seen through the window *)
  Definition rest (s : stream) : list N := skipn (cursor s) (win s) ++ delivered (pending s).

  Definition WF (s : stream) : Prop :=
    (cursor s <= length (win s))%nat /\ (allRead s = true -> pending s = []) /\ (failed s = true -> False).

  Definition credit (s : stream) : nat := length (pending s) + (if allRead s then 0 else 1).

  Lemma nth_skipn {A} (l : list A) n d : nth n l d = nth 0 (skipn n l) d.
  Proof. revert n; induction l; destruct n; cbn; auto. Qed.

  Lemma skipn_all_nil {A} (l : list A) n : (length l <= n)%nat -> skipn n l = [].
  Proof. intro H. apply length_zero_iff_nil. rewrite skipn_length. lia. Qed.

  Lemma skipn_cons_nth (l : list N) n : (n < length l)%nat -> skipn n l = nth n l NUL :: skipn (S n) l.
  Proof.
    revert n. induction l as [|a r IH]; intros n H; [cbn in H; lia|]. destruct n; [reflexivity|]. cbn [skipn nth]. apply IH. cbn in H. lia.
  Qed.

  (* Main simulation: from a well-formed window whose unseen bytes contain no NUL, the stream run
     equals the buffer run on those bytes -- unless the reader fails before the scanner stops by itself. *)
  Lemma srun_spec : forall fuel s st n,
    WF s -> noNUL (rest s) -> (length (rest s) + credit s < fuel)%nat ->
    exists s', 
      (fails (pending s) = false ->
         srun fuel s st n = Some (brun (rest s) st n, s') /\ failed s' = false) /\
      (fails (pending s) = true ->
         exists r k b, srun fuel s st n = Some (r, k, b, s') /\
           ((failed s' = false /\ b = true /\ brun (rest s) st n = (r, k, true)) \/ failed s' = true)).
  Proof.
    induction fuel as [|f IH]; intros s st n (Hcur & Hall & Hnf) Hn Hf; [lia|].
    cbn [Stream.srun].
    destruct (Nat.lt_ge_cases (cursor s) (length (win s))) as [Hlt|Hge].
    - (* a byte of the window *)
      assert (Hr : rest s = nth (cursor s) (win s) NUL :: (skipn (S (cursor s)) (win s) ++ delivered (pending s))).
      { unfold rest. rewrite (skipn_cons_nth _ _ Hlt). reflexivity. }
      assert (Hc : char s <> NUL).
      { unfold char. unfold noNUL in Hn. rewrite Hr in Hn. inversion Hn; assumption. }
      destruct (N.eqb_spec (char s) NUL) as [E|_]; [contradiction|].
      rewrite Hr. cbn [Stream.brun]. fold (char s).
      destruct (step st (char s)) as [st'|res] eqn:Es.
      + (* consumed *)
        assert (Hr' : rest (adv s) = skipn (S (cursor s)) (win s) ++ delivered (pending s)) by reflexivity.
        assert (WF (adv s)) as Hwf' by (split; [cbn [adv cursor win]; lia|split; [exact Hall|exact Hnf]]).
        assert (noNUL (rest (adv s))) as Hn'.
        { rewrite Hr'. unfold noNUL in *. rewrite Hr in Hn. inversion Hn; assumption. }
        assert (length (rest (adv s)) + credit (adv s) < f)%nat as Hf'.
        { rewrite Hr'. rewrite Hr in Hf. cbn [length] in Hf. unfold credit in *. cbn [adv pending allRead]. lia. }
        destruct (IH (adv s) st' (S n) Hwf' Hn' Hf') as (s' & H1 & H2). exists s'. rewrite <- Hr'. split; [exact H1|exact H2].
      + (* the scanner stops here *)
        exists s. split.
        * intros _. split; [reflexivity|]. destruct (failed s) eqn:Ef; [exfalso; apply Hnf; reflexivity|reflexivity].
        * intros _. exists res, n, true. split; [reflexivity|]. left. split; [|split; reflexivity].
          destruct (failed s) eqn:Ef; [exfalso; apply Hnf; reflexivity|reflexivity].
    - (* at the end of the window *)
      assert (Ech : char s = NUL) by (unfold char; apply nth_overflow; lia).
      rewrite Ech. cbn [N.eqb NUL]. change (0 =? 0) with true. cbn iota.
      assert (Hskip : skipn (cursor s) (win s) = []) by (apply skipn_all_nil; lia).
      unfold read. destruct (allRead s) eqn:Ea; cbn [orb].
      + (* the reader has said EOF: end of input *)
        exists s. rewrite (Hall eq_refl) in *. unfold rest. rewrite Hskip, (Hall eq_refl). cbn [app delivered fails Stream.brun].
        split; [intros _; split; [reflexivity|]|intro H; discriminate H].
        destruct (failed s) eqn:Ef; [exfalso; apply Hnf; reflexivity|reflexivity].
      + destruct (failed s) eqn:Ef; [exfalso; apply Hnf; reflexivity|]. cbn [orb].
        destruct (pending s) as [|[ch|] r] eqn:Ep.
        * (* the EOF call: returns true once *)
          set (s1 := {| win := win s; cursor := cursor s; pending := []; allRead := true; failed := false |}).
          assert (WF s1) as Hwf1 by (unfold WF; cbn; repeat split; auto; discriminate).
          assert (rest s1 = rest s) as Hr1 by (unfold rest; cbn; rewrite Ep; reflexivity).
          assert (noNUL (rest s1)) as Hn1 by (rewrite Hr1; exact Hn).
          assert (length (rest s1) + credit s1 < f)%nat as Hf1.
          { rewrite Hr1. unfold credit in *. cbn. rewrite Ep, Ea in Hf. cbn in Hf. lia. }
          destruct (IH s1 st n Hwf1 Hn1 Hf1) as (s' & H1 & H2). exists s'. rewrite <- Hr1. cbn [pending s1] in H1, H2. exact (conj H1 H2).
        * (* a piece arrives *)
          set (s1 := {| win := win s ++ ch; cursor := cursor s; pending := r; allRead := false; failed := false |}).
          assert (cursor s = length (win s)) as Hce by lia.
          assert (WF s1) as Hwf1.
          { unfold WF; cbn. repeat split; try discriminate. rewrite app_length. lia. }
          assert (rest s1 = rest s) as Hr1.
          { unfold rest; cbn. rewrite Ep. cbn [delivered]. rewrite Hskip. cbn [app].
            rewrite skipn_app. rewrite Hskip. replace (cursor s - length (win s))%nat with 0%nat by lia. cbn [skipn app].
            reflexivity. }
          assert (noNUL (rest s1)) as Hn1 by (rewrite Hr1; exact Hn).
          assert (length (rest s1) + credit s1 < f)%nat as Hf1.
          { rewrite Hr1. unfold credit in *. cbn. rewrite Ep, Ea in Hf. cbn in Hf. lia. }
          destruct (IH s1 st n Hwf1 Hn1 Hf1) as (s' & H1 & H2). exists s'. rewrite <- Hr1. cbn [pending s1 fails] in *. exact (conj H1 H2).
        * (* the reader fails *)
          set (s1 := {| win := win s; cursor := cursor s; pending := r; allRead := false; failed := true |}).
          exists s1. split; [intro H; discriminate H|]. intros _.
          exists (atend st), n, false. split; [reflexivity|]. right. reflexivity.
  Qed.

  Lemma start_wf items : WF (start items).
  Proof. unfold WF, start; cbn. repeat split; try discriminate. lia. Qed.
  Lemma start_rest items : rest (start items) = delivered items.
  Proof. reflexivity. Qed.

  Definition pieces (chunks : list (list N)) : list item := map Piece chunks.
  Lemma delivered_pieces chunks : delivered (pieces chunks) = concat chunks.
  Proof. induction chunks as [|c r IH]; [reflexivity|]. unfold pieces in *. cbn [map delivered concat]. rewrite IH. reflexivity. Qed.
  Lemma fails_pieces chunks : fails (pieces chunks) = false.
  Proof. induction chunks as [|c r IH]; [reflexivity|]. unfold pieces in *. cbn [map fails]. exact IH. Qed.

  (* Any chunking (pieces of any sizes, empty ones included): the stream scanner returns what the
     buffer scanner returns on the whole document, and has consumed the same number of bytes. *)
  Theorem stream_equals_buffer chunks st :
    noNUL (concat chunks) ->
    decode St Res step atend (S (length (concat chunks) + length chunks + 1)) (pieces chunks) st =
      let '(r, n, _) := brun (concat chunks) st 0 in Value Res r n.
  Proof.
    intro Hn. unfold decode.
    destruct (srun_spec (S (length (concat chunks) + length chunks + 1)) (start (pieces chunks)) st 0 (start_wf _)) as (s' & H1 & _).
    - rewrite start_rest, delivered_pieces. exact Hn.
    - rewrite start_rest, delivered_pieces. unfold credit, start. cbn. unfold pieces. rewrite map_length. lia.
    - destruct (H1 (fails_pieces chunks)) as [E Ef]. rewrite E, start_rest, delivered_pieces.
      destruct (brun (concat chunks) st 0) as [[r n] b]. rewrite Ef. reflexivity.
  Qed.

  (* two ways of cutting the same bytes cannot be told apart *)
  Corollary chunking_invariance c1 c2 st :
    concat c1 = concat c2 -> noNUL (concat c1) ->
    decode St Res step atend (S (length (concat c1) + length c1 + 1)) (pieces c1) st =
    decode St Res step atend (S (length (concat c2) + length c2 + 1)) (pieces c2) st.
  Proof. intros E Hn. rewrite !stream_equals_buffer; [rewrite E; reflexivity|rewrite <- E; exact Hn|exact Hn]. Qed.

  (* A failing reader: the outcome is the reader's error, unless the scanner had stopped by itself
     inside the bytes that did arrive -- then it is exactly the buffer result on those bytes. *)
  Theorem reader_error_not_a_value items st r n :
    fails items = true -> noNUL (delivered items) ->
    decode St Res step atend (S (length (delivered items) + length items + 1)) items st = Value Res r n ->
    brun (delivered items) st 0 = (r, n, true).
  Proof.
    intros Hfail Hn. unfold decode.
    destruct (srun_spec (S (length (delivered items) + length items + 1)) (start items) st 0 (start_wf _)) as (s' & _ & H2).
    - rewrite start_rest. exact Hn.
    - rewrite start_rest. unfold credit, start. cbn. lia.
    - destruct (H2 Hfail) as (r0 & k & b & E & Hcase). rewrite E. rewrite start_rest in Hcase.
      destruct Hcase as [(Ef & Hb & Hbr)|Ef]; rewrite Ef; [|discriminate]. intro H. inversion H; subst. exact Hbr.
  Qed.
End LiftP.
