From Coq Require Import NArith List Bool Lia.
From GJ Require Import Spec.Json Model.Enc.
Import ListNotations.
Open Scope N_scope.

Lemma set_last_snoc b c d : set_last (b ++ [c]) d = b ++ [d].
Proof. unfold set_last. rewrite removelast_last. reflexivity. Qed.

Lemma last_snoc (b : list N) c d : last (b ++ [c]) d = c.
Proof. apply last_last. Qed.

Fixpoint size (v : jv) : nat :=
  match v with
  | JLeaf _ => 1
  | JArr l => S (fold_right (fun x a => size x + a) 0 l)%nat
  | JObj l => S (fold_right (fun kv a => size (snd kv) + a) 0 l)%nat
  end.

(* byte-level reference renderer *)
Fixpoint sepcat (l : list (list N)) : list N :=
  match l with [] => [] | [x] => x | x :: r => x ++ [COMMA] ++ sepcat r end.

Fixpoint render (v : jv) : list N :=
  match v with
  | JLeaf t => raw_tok t
  | JArr l => [LBR] ++ sepcat (map render l) ++ [RBR]
  | JObj l => [LBC] ++ sepcat (flat_map (fun kv => match kv with
                                               | (k, false, x) => [34 :: k ++ [34; COLON] ++ render x]
                                               | (_, true, _) => [] end) l) ++ [RBC]
  end.

Lemma flat_sep (its : list (list N)) : its <> [] -> flat_map (fun it => it ++ [COMMA]) its = sepcat its ++ [COMMA].
Proof.
  induction its as [|y t IHt]; intro Hne; [congruence|].
  destruct t as [|z t'].
  - cbn. rewrite app_nil_r. reflexivity.
  - cbn [flat_map sepcat]. cbn [flat_map] in IHt. rewrite IHt by discriminate. rewrite <- !app_assoc. reflexivity.
Qed.

(* every value emission appends exactly its rendering and one comma *)
Theorem enc_denotes_n : forall n v, (size v <= n)%nat -> forall b, enc v b = b ++ render v ++ [COMMA].
Proof.
  induction n as [|n IH]; intros v Hs b.
  - destruct v; cbn in Hs; lia.
  - destruct v as [t | l | l].
    + cbn [enc render]. unfold appendComma. rewrite <- app_assoc. reflexivity.
    + destruct l as [|x r]; [reflexivity|].
      cbn [enc].
      assert (F: forall l s, (fold_right (fun x a => size x + a) 0 l <= n)%nat ->
                 fold_left (fun acc x => enc x acc) l s = s ++ flat_map (fun it => it ++ [COMMA]) (map render l)).
      { induction l as [|y t IHt]; intros s Hl; cbn [fold_left flat_map map].
        - rewrite app_nil_r. reflexivity.
        - cbn [fold_right] in Hl. rewrite IH by lia. rewrite IHt by lia. rewrite <- !app_assoc. reflexivity. }
      rewrite F by (cbn [size] in Hs; lia).
      rewrite flat_sep by discriminate. unfold appendArrayHead, appendArrayEnd.
      rewrite !app_assoc. rewrite set_last_snoc. cbn [render]. rewrite <- !app_assoc. reflexivity.
    + cbn [enc].
      set (f := fun kv : list N * bool * jv => match kv with (k, false, x) => [34 :: k ++ [34; COLON] ++ render x] | (_, true, _) => [] end).
      assert (F: forall l s, (fold_right (fun kv a => size (snd kv) + a) 0 l <= n)%nat ->
                 fold_left (fun acc kv => match kv with (k, false, x) => enc x (appendKey acc k) | (_, true, _) => acc end) l s
                 = s ++ flat_map (fun it => it ++ [COMMA]) (flat_map f l)).
      { induction l0 as [|kv t IHt]; intros s Hl; cbn [fold_left flat_map].
        - rewrite app_nil_r. reflexivity.
        - cbn [fold_right] in Hl. destruct kv as [[k o] x]. cbn [snd] in Hl. destruct o.
          + rewrite IHt by lia. reflexivity.
          + rewrite IHt by lia. assert (Hx: (size x <= n)%nat) by (clear - Hl; lia). rewrite (IH x Hx). cbn [f flat_map app].
            unfold appendKey. repeat rewrite <- app_assoc. cbn [app]. repeat rewrite <- app_assoc. reflexivity. }
      assert (Hl: (fold_right (fun kv a => size (snd kv) + a) 0 l <= n)%nat).
      { change (size (JObj l)) with (S (fold_right (fun kv a => size (snd kv) + a) 0 l))%nat in Hs. lia. }
      rewrite F by exact Hl.
      assert (R: render (JObj l) = [LBC] ++ sepcat (flat_map f l) ++ [RBC]) by reflexivity.
      rewrite R. clear R.
      unfold appendStructHead, appendStructEndSkipLast.
      destruct (flat_map f l) as [|i0 its] eqn:E.
      * cbn [flat_map sepcat]. rewrite app_nil_r. rewrite last_snoc. cbn. rewrite <- !app_assoc. reflexivity.
      * rewrite flat_sep by discriminate. rewrite !app_assoc. rewrite last_snoc. cbn [N.eqb COMMA Pos.eqb].
        rewrite set_last_snoc. rewrite <- !app_assoc. reflexivity.
Qed.

Theorem enc_denotes v b : enc v b = b ++ render v ++ [COMMA].
Proof. apply (enc_denotes_n (size v)). lia. Qed.

Theorem marshal_is_render v : marshal v = render v.
Proof. unfold marshal. rewrite enc_denotes. cbn [app]. apply removelast_last. Qed.

(* the byte rendering is the compact rendering of the token sequence *)
Lemma render_compact_app a b : render_compact (a ++ b) = render_compact a ++ render_compact b.
Proof. unfold render_compact. apply flat_map_app. Qed.

Lemma render_compact_cons t r : render_compact (t :: r) = raw_tok t ++ render_compact r.
Proof. reflexivity. Qed.

Lemma sepcat_sep_toks (l : list (list tok)) :
  render_compact (sep_toks l) = sepcat (map render_compact l).
Proof.
  induction l as [|x r IH]; [reflexivity|]. destruct r as [|y r'].
  - reflexivity.
  - change (sep_toks (x :: y :: r')) with (x ++ TComma :: sep_toks (y :: r')).
    change (map render_compact (x :: y :: r')) with (render_compact x :: map render_compact (y :: r')).
    change (sepcat (render_compact x :: map render_compact (y :: r'))) with (render_compact x ++ [COMMA] ++ sepcat (map render_compact (y :: r'))).
    rewrite render_compact_app, render_compact_cons, IH. reflexivity.
Qed.

Theorem render_toks_n : forall n v, (size v <= n)%nat -> render v = render_compact (toks v).
Proof.
  induction n as [|n IH]; intros v Hs; [destruct v; cbn in Hs; lia|].
  destruct v as [t | l | l].
  - cbn. rewrite app_nil_r. reflexivity.
  - cbn [render toks]. change (TLBrack :: sep_toks (map toks l) ++ [TRBrack]) with ([TLBrack] ++ sep_toks (map toks l) ++ [TRBrack]).
    rewrite !render_compact_app, sepcat_sep_toks, map_map. f_equal. f_equal.
    f_equal. apply map_ext_in. intros x Hx. apply IH.
    assert (size x <= fold_right (fun x a => size x + a) 0 l)%nat.
    { clear - Hx. induction l as [|y r IHr]; [destruct Hx|]. cbn [fold_right]. destruct Hx as [->|Hx]; [lia|]. specialize (IHr Hx). lia. }
    cbn [size] in Hs. lia.
  - cbn [render toks].
    match goal with |- _ = render_compact (TLBrace :: ?m ++ [TRBrace]) => change (TLBrace :: m ++ [TRBrace]) with ([TLBrace] ++ m ++ [TRBrace]) end.
    rewrite !render_compact_app, sepcat_sep_toks. f_equal. f_equal.
    f_equal. assert (Hl: (fold_right (fun kv a => size (snd kv) + a) 0 l <= n)%nat) by (cbn [size] in Hs; lia).
    clear Hs. induction l as [|kv r IHr]; [reflexivity|]. cbn [fold_right] in Hl. destruct kv as [[k o] x]. cbn [snd] in Hl.
    destruct o.
    + change (flat_map ?f ((k, true, x) :: r)) with (flat_map f r). apply IHr. lia.
    + match goal with |- flat_map ?f ((k, false, x) :: r) = map render_compact (flat_map ?g ((k, false, x) :: r)) =>
        change (flat_map f ((k, false, x) :: r)) with ((34 :: k ++ [34; COLON] ++ render x) :: flat_map f r);
        change (flat_map g ((k, false, x) :: r)) with ((TStr k :: TColon :: toks x) :: flat_map g r) end.
      cbn [map]. rewrite IHr by lia. f_equal.
      rewrite (IH x) by lia. unfold render_compact, COLON. cbn [flat_map raw_tok]. cbn [app]. rewrite <- ?app_assoc. cbn [app]. reflexivity.
Qed.

(* Marshal writes exactly the compact text of the token sequence the value denotes *)
Theorem marshal_is_compact_of_tokens v : marshal v = render_compact (toks v).
Proof. rewrite marshal_is_render. apply (render_toks_n (size v)). lia. Qed.
