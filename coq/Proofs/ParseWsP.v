(* Parser completeness for texts with insignificant white space between the
   tokens: whatever white space a renderer puts after an opener, after a
   comma, before a closer and after a colon, the RFC 8259 recogniser reads the
   token sequence of the value.  The compact text (no white space) and the
   indented text of the indenting interpreter are instances. *)
From Coq Require Import NArith List Bool Arith Lia.
From GJ Require Import Base.Bytes Spec.Json Model.Enc Proofs.EncP Proofs.ParseP.
Import ListNotations.
Open Scope N_scope.

Lemma skip_ws_app w : all_ws w = true -> forall l, skip_ws (w ++ l) = skip_ws l.
Proof.
  induction w as [|c w IH]; intros H l; [reflexivity|]. cbn [all_ws] in H. apply andb_true_iff in H. destruct H as [Hc Hw].
  cbn [app skip_ws]. rewrite Hc. apply IH. exact Hw.
Qed.

Lemma ws_not_numchar c : ws_b c = true -> numchar_b c = false.
Proof.
  unfold ws_b. intro H. assert (E : c = 32 \/ c = 9 \/ c = 10 \/ c = 13).
  { repeat (apply orb_true_iff in H; destruct H as [H|H]); apply N.eqb_eq in H; auto. }
  destruct E as [E|[E|[E|E]]]; subst c; reflexivity.
Qed.

Lemma delim_ws_app w c rest : all_ws w = true -> numchar_b c = false -> delim (w ++ c :: rest) = true.
Proof.
  destruct w as [|x w]; intros Hw Hc; cbn [app delim]; [rewrite Hc; reflexivity|].
  cbn [all_ws] in Hw. apply andb_true_iff in Hw. destruct Hw as [Hx _]. rewrite (ws_not_numchar x Hx). reflexivity.
Qed.

Ltac norm := repeat (progress (rewrite <- ?app_assoc; cbn [app])).

Section Spaced.
  Variables og sg cg : nat -> list N.   (* after the opener / after a comma / before the closer of a container at depth d *)
  Variable kg : list N.                 (* after a colon *)
  Hypothesis Hog : forall d, all_ws (og d) = true.
  Hypothesis Hsg : forall d, all_ws (sg d) = true.
  Hypothesis Hcg : forall d, all_ws (cg d) = true.
  Hypothesis Hkg : all_ws kg = true.

  Fixpoint join (sep : list N) (l : list (list N)) : list N :=
    match l with [] => [] | [x] => x | x :: r => x ++ sep ++ join sep r end.

  Fixpoint rs (d : nat) (v : jv) : list N :=
    match v with
    | JLeaf t => raw_tok t
    | JArr l =>
        match l with
        | [] => [91; 93]
        | _ => 91 :: og d ++ join (44 :: sg d) (map (rs (S d)) l) ++ cg d ++ [93]
        end
    | JObj l =>
        match l with
        | [] => [123; 125]
        | _ => 123 :: og d ++
               join (44 :: sg d) (map (fun m : list N * bool * jv => match m with (k, _, x) => 34 :: k ++ [34; 58] ++ kg ++ rs (S d) x end) l) ++
               cg d ++ [125]
        end
    end.

  Fixpoint ets (d : nat) (l : list jv) : list N :=
    match l with
    | [] => []
    | x :: r => rs (S d) x ++ match r with [] => cg d ++ [93] | _ => 44 :: sg d ++ ets d r end
    end.
  Fixpoint mts (d : nat) (l : list (list N * bool * jv)) : list N :=
    match l with
    | [] => []
    | (k, _, x) :: r => 34 :: k ++ [34; 58] ++ kg ++ rs (S d) x ++ match r with [] => cg d ++ [125] | _ => 44 :: sg d ++ mts d r end
    end.

  Lemma join_ets d x r : join (44 :: sg d) (map (rs (S d)) (x :: r)) ++ cg d ++ [93] = ets d (x :: r).
  Proof.
    revert x. induction r as [|y r IH]; intro x; [reflexivity|].
    change (map (rs (S d)) (x :: y :: r)) with (rs (S d) x :: map (rs (S d)) (y :: r)).
    change (join (44 :: sg d) (rs (S d) x :: map (rs (S d)) (y :: r))) with (rs (S d) x ++ (44 :: sg d) ++ join (44 :: sg d) (map (rs (S d)) (y :: r))).
    rewrite <- !app_assoc. rewrite IH. reflexivity.
  Qed.

  Lemma join_mts d m r :
    join (44 :: sg d) (map (fun m : list N * bool * jv => match m with (k, _, x) => 34 :: k ++ [34; 58] ++ kg ++ rs (S d) x end) (m :: r)) ++ cg d ++ [125] = mts d (m :: r).
  Proof.
    revert m. induction r as [|y r IH]; intros [[k om] x].
    - cbn [map join mts]. repeat (progress (rewrite <- ?app_assoc; cbn [app])). reflexivity.
    - match goal with |- join ?s (map ?f (?a :: y :: r)) ++ _ = _ =>
        change (map f (a :: y :: r)) with (f a :: map f (y :: r));
        change (join s (f a :: map f (y :: r))) with (f a ++ s ++ join s (map f (y :: r))) end.
      rewrite <- !app_assoc. rewrite IH. cbn [mts]. repeat (progress (rewrite <- ?app_assoc; cbn [app])). reflexivity.
  Qed.

  Lemma rs_arr d x r : rs d (JArr (x :: r)) = 91 :: og d ++ ets d (x :: r).
  Proof. cbn [rs]. f_equal. f_equal. apply join_ets. Qed.
  Lemma rs_obj d m r : rs d (JObj (m :: r)) = 123 :: og d ++ mts d (m :: r).
  Proof. cbn [rs]. f_equal. f_equal. apply join_mts. Qed.

  Notation PV := (pg_value None allnum).
  Notation PM := (pg_members None allnum).
  Notation PE := (pg_elements None allnum).

  Lemma rs_head d v : wfp v = true -> exists c r, rs d v = c :: r /\ opener c = true.
  Proof.
    destruct v as [t|l|l]; intro H.
    - exact (render_head (JLeaf t) H).
    - destruct l; cbn [rs]; eexists _, _; (split; [reflexivity|reflexivity]).
    - destruct l; cbn [rs]; eexists _, _; (split; [reflexivity|reflexivity]).
  Qed.

  Definition complete_ws (v : jv) : Prop :=
    forall f d k w rest, (vb v <= f)%nat -> all_ws w = true -> delim rest = true ->
      PV f d (w ++ rs k v ++ rest) = Some (toks v, rest).

  Lemma elements_ws : forall l, l <> [] -> (forall x, In x l -> wfp x = true /\ complete_ws x) ->
    forall f d k w rest, (eb l <= f)%nat -> all_ws w = true -> PE f d (w ++ ets k l ++ rest) = Some (etoks l, rest).
  Proof.
    induction l as [|x r IH]; intros Hne Hall f d k w rest Hf Hw; [congruence|].
    unfold eb in Hf. cbn [fold_right] in Hf. destruct f as [|f]; [lia|]. fold (eb r) in Hf.
    destruct (Hall x (or_introl eq_refl)) as [Hwx Hcx].
    rewrite pe_step. destruct r as [|y r'].
    - cbn [ets etoks]. norm.
      rewrite (Hcx f d (S k) w (cg k ++ 93 :: rest) ltac:(lia) Hw (delim_ws_app (cg k) 93 rest (Hcg k) eq_refl)).
      rewrite (skip_ws_app (cg k) (Hcg k)). rewrite skip_ws_nonws by reflexivity.
      change (93 =? 93) with true. cbv iota. reflexivity.
    - change (ets k (x :: y :: r')) with (rs (S k) x ++ 44 :: sg k ++ ets k (y :: r')).
      change (etoks (x :: y :: r')) with (toks x ++ TComma :: etoks (y :: r')).
      norm.
      rewrite (Hcx f d (S k) w (44 :: sg k ++ ets k (y :: r') ++ rest) ltac:(lia) Hw eq_refl). rewrite skip_ws_nonws by reflexivity.
      change (44 =? 93) with false. change (44 =? 44) with true. cbv iota.
      rewrite (IH ltac:(discriminate) (fun z Hz => Hall z (or_intror Hz)) f d k (sg k) rest ltac:(lia) (Hsg k)). reflexivity.
  Qed.

  Lemma members_ws : forall l, l <> [] ->
    (forall m, In m l -> strbody_ok (fst (fst m)) = true /\ wfp (snd m) = true /\ complete_ws (snd m)) ->
    forall f d k w rest, (mb l <= f)%nat -> all_ws w = true -> PM f d (w ++ mts k l ++ rest) = Some (mtoks l, rest).
  Proof.
    induction l as [|[[key om] x] r IH]; intros Hne Hall f d k w rest Hf Hw; [congruence|].
    unfold mb in Hf. cbn [fold_right snd] in Hf. destruct f as [|f]; [lia|]. fold (mb r) in Hf.
    destruct (Hall (key, om, x) (or_introl eq_refl)) as (Hk & Hwx & Hcx). cbn [fst snd] in *.
    rewrite pm_step. rewrite (skip_ws_app w Hw). cbn [mts]. norm. rewrite skip_ws_nonws by reflexivity.
    change (34 =? 34) with true. cbn [negb]. cbv iota.
    rewrite (strbody_parse key Hk). rewrite skip_ws_nonws by reflexivity.
    change (58 =? 58) with true. cbn [negb]. cbv iota.
    destruct r as [|y r'].
    - norm.
      rewrite (Hcx f d (S k) kg (cg k ++ 125 :: rest) ltac:(lia) Hkg (delim_ws_app (cg k) 125 rest (Hcg k) eq_refl)).
      rewrite (skip_ws_app (cg k) (Hcg k)). rewrite skip_ws_nonws by reflexivity.
      change (125 =? 125) with true. cbv iota. reflexivity.
    - norm.
      rewrite (Hcx f d (S k) kg (44 :: sg k ++ mts k (y :: r') ++ rest) ltac:(lia) Hkg eq_refl). rewrite skip_ws_nonws by reflexivity.
      change (44 =? 125) with false. change (44 =? 44) with true. cbv iota.
      rewrite (IH ltac:(discriminate) (fun z Hz => Hall z (or_intror Hz)) f d k (sg k) rest ltac:(lia) (Hsg k)). reflexivity.
  Qed.

  Theorem value_ws_n : forall n v, (size v <= n)%nat -> wfp v = true -> complete_ws v.
  Proof.
    induction n as [|n IH]; intros v Hs Hw; [destruct v; cbn in Hs; lia|].
    destruct v as [t|l|l]; intros f d k w rest Hf Hww Hd.
    - (* a leaf: the compact theorem after the leading white space *)
      cbn [rs]. destruct f as [|f]; [cbn [vb] in Hf; lia|].
      pose proof (value_complete_n (size (JLeaf t)) (JLeaf t) (le_n _) Hw (S f) d rest Hf Hd) as H. cbn [render toks] in *.
      rewrite pv_step in *. rewrite (skip_ws_app w Hww). exact H.
    - cbn [wfp] in Hw. rewrite forallb_forall in Hw. cbn [size] in Hs. destruct l as [|x r].
      + cbn [vb fold_right] in Hf. destruct f as [|f]; [lia|]. cbn [rs toks]. rewrite pv_step. rewrite (skip_ws_app w Hww). reflexivity.
      + cbn [vb] in Hf. destruct f as [|f]; [lia|]. fold (eb (x :: r)) in Hf.
        rewrite rs_arr, toks_arr. rewrite pv_step. rewrite (skip_ws_app w Hww). cbn [app]. rewrite skip_ws_nonws by reflexivity.
        change (91 =? 123) with false. change (91 =? 91) with true. cbv iota.
        rewrite <- app_assoc. rewrite (skip_ws_app (og k) (Hog k)).
        destruct (rs_head (S k) x (Hw x (or_introl eq_refl))) as (c & tl & Hr & Ho).
        assert (Hex : exists tl', ets k (x :: r) ++ rest = c :: tl').
        { cbn [ets]. rewrite Hr. cbn [app]. eexists. reflexivity. }
        destruct Hex as [tl' Htl]. unfold opener in Ho. apply andb_true_iff in Ho. destruct Ho as [Ho H125]. apply andb_true_iff in Ho. destruct Ho as [Hws H93].
        apply negb_true_iff in Hws. apply negb_true_iff in H93.
        rewrite Htl. rewrite skip_ws_nonws by exact Hws. rewrite H93. rewrite <- Htl.
        change (ets k (x :: r) ++ rest) with ([] ++ ets k (x :: r) ++ rest).
        pose proof (elements_ws (x :: r) ltac:(discriminate)) as E.
        rewrite (E (fun z Hz => conj (Hw z Hz) (IH z ltac:(pose proof (size_in z (x :: r) Hz); lia) (Hw z Hz))) f (S d) k [] rest ltac:(lia) eq_refl). reflexivity.
    - cbn [wfp] in Hw. rewrite forallb_forall in Hw. cbn [size] in Hs. destruct l as [|m r].
      + cbn [vb fold_right] in Hf. destruct f as [|f]; [lia|]. cbn [rs toks]. rewrite pv_step. rewrite (skip_ws_app w Hww). reflexivity.
      + cbn [vb] in Hf. destruct f as [|f]; [lia|]. fold (mb (m :: r)) in Hf.
        assert (Hshown : allshown (m :: r) = true).
        { unfold allshown. apply forallb_forall. intros [[k0 om] z] Hz. specialize (Hw _ Hz). cbn beta iota in Hw.
          apply andb_true_iff in Hw. destruct Hw as [Hw _]. apply andb_true_iff in Hw. destruct Hw as [Hw _]. exact Hw. }
        rewrite rs_obj, (toks_obj m r Hshown). rewrite pv_step. rewrite (skip_ws_app w Hww). cbn [app]. rewrite skip_ws_nonws by reflexivity.
        change (123 =? 123) with true. cbv iota.
        rewrite <- app_assoc. rewrite (skip_ws_app (og k) (Hog k)).
        destruct m as [[key om] x]. cbn [mts]. cbn [app]. rewrite skip_ws_nonws by reflexivity. change (34 =? 125) with false. cbv iota.
        match goal with |- match PM f (S d) ?t with _ => _ end = _ => change t with ([] ++ mts k ((key, om, x) :: r) ++ rest) end.
        pose proof (members_ws ((key, om, x) :: r) ltac:(discriminate)) as E.
        rewrite (E (fun z Hz => ltac:(destruct z as [[k' om'] z']; cbn [fst snd]; specialize (Hw _ Hz); cbn beta iota in Hw;
                     apply andb_true_iff in Hw; destruct Hw as [Hw1 Hz']; apply andb_true_iff in Hw1; destruct Hw1 as [_ Hk'];
                     exact (conj Hk' (conj Hz' (IH z' ltac:(pose proof (size_in_snd (k', om', z') _ Hz) as Hsz; cbn [snd] in Hsz; lia) Hz')))))
                   f (S d) k [] rest ltac:(lia) eq_refl). reflexivity.
  Qed.

  (* the length of the text bounds the fuel (white space only adds bytes) *)
  Lemma vb_le_rs_n : forall n v d, (size v <= n)%nat -> wfp v = true -> (vb v <= 2 * length (rs d v))%nat.
  Proof.
    induction n as [|n IH]; intros v d Hs Hw; [destruct v; cbn in Hs; lia|].
    destruct v as [t|l|l].
    - destruct (render_head (JLeaf t) Hw) as (c & r & Hr & _). cbn [rs]. cbn [render] in Hr. rewrite Hr. cbn [vb length]. lia.
    - cbn [wfp] in Hw. rewrite forallb_forall in Hw. cbn [size] in Hs. destruct l as [|x r]; [cbn; lia|].
      rewrite rs_arr. cbn [vb length]. rewrite app_length.
      assert (H : forall l, (forall z, In z l -> wfp z = true /\ (size z <= n)%nat) -> l <> [] -> (S (eb l) <= 2 * length (ets d l))%nat).
      { induction l as [|y l' IHl]; intros Hall Hne; [congruence|]. destruct (Hall y (or_introl eq_refl)) as [Hwy Hsy].
        pose proof (IH y (S d) Hsy Hwy) as Hy. unfold eb. cbn [fold_right ets]. fold (eb l'). rewrite app_length.
        destruct l' as [|y' l'']; [cbn [eb fold_right]; rewrite app_length; cbn [length]; lia|].
        specialize (IHl (fun z Hz => Hall z (or_intror Hz)) ltac:(discriminate)). cbn [length]. rewrite app_length. lia. }
      specialize (H (x :: r)). unfold eb in H.
      assert (Hall : forall z, In z (x :: r) -> wfp z = true /\ (size z <= n)%nat).
      { intros z Hz. split; [apply Hw; exact Hz|pose proof (size_in z (x :: r) Hz); lia]. }
      specialize (H Hall ltac:(discriminate)). lia.
    - cbn [wfp] in Hw. rewrite forallb_forall in Hw. cbn [size] in Hs. destruct l as [|m r]; [cbn; lia|].
      rewrite rs_obj. cbn [vb length]. rewrite app_length.
      assert (H : forall l, (forall z, In z l -> wfp (snd z) = true /\ (size (snd z) <= n)%nat) -> l <> [] -> (S (mb l) <= 2 * length (mts d l))%nat).
      { induction l as [|[[k om] y] l' IHl]; intros Hall Hne; [congruence|]. destruct (Hall (k, om, y) (or_introl eq_refl)) as [Hwy Hsy]. cbn [snd] in *.
        pose proof (IH y (S d) Hsy Hwy) as Hy. unfold mb. cbn [fold_right mts snd]. fold (mb l'). cbn [length]. rewrite !app_length. cbn [length].
        destruct l' as [|y' l'']; [cbn [mb fold_right]; rewrite app_length; cbn [length]; lia|].
        specialize (IHl (fun z Hz => Hall z (or_intror Hz)) ltac:(discriminate)). cbn [length]. rewrite app_length. lia. }
      specialize (H (m :: r)). unfold mb in H.
      assert (Hall : forall z, In z (m :: r) -> wfp (snd z) = true /\ (size (snd z) <= n)%nat).
      { intros [[k om] z] Hz. cbn [snd]. specialize (Hw _ Hz). cbn beta iota in Hw. apply andb_true_iff in Hw. destruct Hw as [_ Hz'].
        split; [exact Hz'|pose proof (size_in_snd (k, om, z) _ Hz) as Hsz; cbn [snd] in Hsz; lia]. }
      specialize (H Hall ltac:(discriminate)). lia.
  Qed.

  Theorem parse_spaced v : wfp v = true -> parse_json (rs 0 v) = Some (toks v, []).
  Proof.
    intro Hw. unfold parse_json, parse_g.
    pose proof (value_ws_n (size v) v (le_n _) Hw (2 * length (rs 0 v) + 4)%nat 0%nat 0%nat (@nil N) (@nil N)) as H.
    cbn [app] in H. rewrite app_nil_r in H. rewrite H; [reflexivity| |reflexivity|reflexivity].
    pose proof (vb_le_rs_n (size v) v 0%nat (le_n _) Hw). lia.
  Qed.
End Spaced.
