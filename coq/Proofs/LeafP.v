(* The leaves the encoder computes itself are leaves the recogniser reads back:
   string bodies that satisfy body_ok (what AppendString emits, C17) and the
   canonical decimal texts (what AppendInt / AppendUint emit, C16). *)
From Coq Require Import NArith ZArith List Bool Arith Lia.
From GJ Require Import Base.Bytes Spec.Json Proofs.IntEncP Proofs.StrBodyP Proofs.ParseP.
Import ListNotations.
Open Scope N_scope.

Lemma body_ok_parse html : forall n b, (length b <= n)%nat -> body_ok html b = true ->
  forall rest, p_string_body (b ++ 34 :: rest) = Some (b, rest).
Proof.
  induction n as [|n IH]; intros b Hl H rest.
  - destruct b; [reflexivity|cbn in Hl; lia].
  - destruct b as [|c r]; [reflexivity|]. cbn [length] in Hl. cbn [app]. cbn [body_ok] in H. cbn [p_string_body].
    destruct (c =? 92) eqn:E92.
    + apply N.eqb_eq in E92. subst c. change (92 =? 34) with false. cbv iota.
      destruct r as [|e r1]; [discriminate|]. cbn [app]. cbn [length] in Hl.
      change (simple_esc_b e) with (simple_esc e). destruct (simple_esc e).
      * rewrite (IH r1 ltac:(lia) H rest). reflexivity.
      * destruct (e =? 117); [|discriminate].
        destruct r1 as [|h1 [|h2 [|h3 [|h4 r2]]]]; try discriminate. cbn [app]. cbn [length] in Hl.
        change (hex_b h1) with (is_hex h1). change (hex_b h2) with (is_hex h2). change (hex_b h3) with (is_hex h3). change (hex_b h4) with (is_hex h4).
        destruct (is_hex h1 && is_hex h2 && is_hex h3 && is_hex h4) eqn:Eh; [|discriminate].
        cbn [andb] in H. rewrite (IH r2 ltac:(lia) H rest). reflexivity.
    + apply andb_true_iff in H. destruct H as [Hraw Hr]. unfold raw_ok in Hraw.
      apply andb_true_iff in Hraw. destruct Hraw as [Hraw _]. apply andb_true_iff in Hraw. destruct Hraw as [Hraw _].
      apply andb_true_iff in Hraw. destruct Hraw as [H32 H34]. apply negb_true_iff in H34. rewrite H34.
      apply N.leb_le in H32. assert (Hlt : c <? 32 = false) by (apply N.ltb_ge; exact H32). rewrite Hlt.
      rewrite (IH r ltac:(lia) Hr rest). reflexivity.
Qed.

Lemma body_ok_strbody html b : body_ok html b = true -> strbody_ok b = true.
Proof.
  intro H. unfold strbody_ok. rewrite (body_ok_parse html (length b) b (le_n _) H []). apply list_eqb_eq. reflexivity.
Qed.

Lemma digit_b_of c : is_digit c -> digit_b c = true.
Proof. unfold is_digit, digit_b. intros [H1 H2]. apply andb_true_iff. split; apply N.leb_le; assumption. Qed.

Lemma span_digits d : Forall is_digit d -> span digit_b d = (d, []).
Proof.
  induction d as [|c r IH]; intro H; [reflexivity|]. inversion H as [|? ? Hc Hr]; subst.
  cbn [span]. rewrite (digit_b_of c Hc). rewrite (IH Hr). reflexivity.
Qed.

Lemma digits_numchar d : Forall is_digit d -> forallb numchar_b d = true.
Proof.
  induction d as [|c r IH]; intro H; [reflexivity|]. inversion H as [|? ? Hc Hr]; subst.
  cbn [forallb]. unfold numchar_b. rewrite (digit_b_of c Hc). cbn [orb]. apply IH. exact Hr.
Qed.

Lemma canonical_json_number d n : canonical d n -> json_number d = true.
Proof.
  intros (Hd & _ & Hne & Hz). destruct d as [|c r]; [congruence|]. inversion Hd as [|? ? Hc Hr]; subst.
  unfold json_number. assert (E45 : c =? 45 = false) by (apply N.eqb_neq; unfold is_digit in Hc; lia). rewrite E45.
  unfold p_int. destruct (c =? 48) eqn:E48.
  - apply N.eqb_eq in E48. subst c. specialize (Hz eq_refl). inversion Hz; subst. reflexivity.
  - assert (E : (49 <=? c) && (c <=? 57) = true).
    { apply N.eqb_neq in E48. unfold is_digit in Hc. apply andb_true_iff. split; apply N.leb_le; lia. }
    rewrite E. rewrite (span_digits r Hr). reflexivity.
Qed.

Theorem canonical_num_ok d n : canonical d n -> num_ok d = true.
Proof.
  intro H. pose proof H as (Hd & _ & Hne & _). unfold num_ok. rewrite (canonical_json_number d n H), (digits_numchar d Hd).
  destruct d as [|c r]; [congruence|]. inversion Hd as [|? ? Hc Hr]; subst. cbn [starts_num]. rewrite (digit_b_of c Hc). rewrite orb_true_r. reflexivity.
Qed.

Theorem canonical_neg_num_ok d n : canonical d n -> num_ok (45 :: d) = true.
Proof.
  intro H. pose proof H as (Hd & _ & Hne & _). unfold num_ok.
  assert (Hj : json_number (45 :: d) = true).
  { pose proof (canonical_json_number d n H) as J. unfold json_number in *. change (45 =? 45) with true. cbv iota.
    destruct d as [|c r]; [congruence|]. inversion Hd as [|? ? Hc Hr]; subst.
    assert (E45 : c =? 45 = false) by (apply N.eqb_neq; unfold is_digit in Hc; lia). rewrite E45 in J. exact J. }
  rewrite Hj. cbn [forallb]. rewrite (digits_numchar d Hd). reflexivity.
Qed.

Theorem canonical_int_num_ok s z : canonical_int s z -> num_ok s = true.
Proof.
  unfold canonical_int. destruct (z <? 0)%Z.
  - intros (d & -> & H). exact (canonical_neg_num_ok d _ H).
  - intro H. exact (canonical_num_ok s _ H).
Qed.
