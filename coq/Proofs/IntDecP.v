(* Proofs about the integer decoder model (Model/Int.v, decoder part). *)
From Coq Require Import NArith ZArith List Bool Lia.
From Coq Require Import ZifyN ZifyNat ZifyBool.
From GJ Require Import Base.Bytes Base.Word64 Gen.Tables Model.Int Proofs.IntEncP.
Import ListNotations.
Open Scope N_scope.
Ltac Zify.zify_post_hook ::= Z.div_mod_to_equations.

(* ---------- table facts read from the source ---------- *)
Definition pow10_table_ok (pow : list N) : Prop :=
  forall i, i < N.of_nat (length pow) -> tbl pow i = Some (10 ^ i).

Lemma pow10u64_ok : pow10_table_ok dec_pow10u64 /\ length dec_pow10u64 = 20%nat.
Proof.
  split; [|reflexivity]. intros i Hi.
  pose (P := fun i => match tbl dec_pow10u64 i with Some v => v =? 10 ^ i | None => false end).
  assert (HP : forallb P (upto_nat 20) = true) by (vm_compute; reflexivity).
  assert (H : P i = true) by (apply (forall_upto P 20 HP); exact Hi).
  unfold P in H. destruct (tbl dec_pow10u64 i); [|discriminate].
  apply N.eqb_eq in H. subst. reflexivity.
Qed.

Lemma pow10i64_ok : pow10_table_ok dec_pow10i64 /\ length dec_pow10i64 = 19%nat.
Proof.
  split; [|reflexivity]. intros i Hi.
  pose (P := fun i => match tbl dec_pow10i64 i with Some v => v =? 10 ^ i | None => false end).
  assert (HP : forallb P (upto_nat 19) = true) by (vm_compute; reflexivity).
  assert (H : P i = true) by (apply (forall_upto P 19 HP); exact Hi).
  unfold P in H. destruct (tbl dec_pow10i64 i); [|discriminate].
  apply N.eqb_eq in H. subst. reflexivity.
Qed.

Lemma numTable_fact c : c < 256 -> tblb dec_numTable c = ((48 <=? c) && (c <=? 57)).
Proof.
  intro Hc.
  pose (P := fun c => Bool.eqb (tblb dec_numTable c) ((48 <=? c) && (c <=? 57))).
  assert (HP : forallb P all_bytes = true) by (vm_compute; reflexivity).
  pose proof (forall_bytes P HP c Hc) as H. unfold P in H.
  apply Bool.eqb_prop in H. exact H.
Qed.

Lemma numTable_out c : 256 <= c -> tblb dec_numTable c = false.
Proof.
  intro Hc. unfold tblb, tbl.
  assert (E : nth_error dec_numTable (N.to_nat c) = None).
  { apply nth_error_None. change (length dec_numTable) with 256%nat. lia. }
  rewrite E. reflexivity.
Qed.

Lemma numTable_digit c : tblb dec_numTable c = true <-> is_digit c.
Proof.
  unfold is_digit. destruct (N.lt_ge_cases c 256) as [H|H].
  - rewrite (numTable_fact c H). lia.
  - rewrite (numTable_out c H). lia.
Qed.

(* ---------- digit accumulation = value, modulo 2^64 ---------- *)
Lemma wsub_digit c : is_digit c -> wsub c 48 = c - 48.
Proof. unfold is_digit, wsub, W. intro H. lia. Qed.

Lemma acc_digits_value pow : pow10_table_ok pow ->
  forall b sum, Forall is_digit b -> (length b <= length pow)%nat -> sum < W ->
  exists s q, acc_digits pow b sum = Some s /\ s < W /\ sum + value b 0 = q * W + s.
Proof.
  intros Hpow b. induction b as [|c r IH]; intros sum Hd Hlen Hsum.
  - exists sum, 0. cbn. repeat split; try lia.
  - inversion Hd as [|? ? Hc Hr]; subst.
    cbn [length] in Hlen.
    assert (Epow : tbl pow (N.of_nat (length r)) = Some (10 ^ N.of_nat (length r))) by (apply Hpow; lia).
    set (sum' := wadd sum (wmul (wsub c 48) (10 ^ N.of_nat (length r)))).
    assert (Hs' : sum' < W) by (unfold sum', wadd, W; lia).
    destruct (IH sum' Hr ltac:(lia) Hs') as (s & q & E & Hs & Heq).
    assert (Hv : value (c :: r) 0 = (c - 48) * 10 ^ N.of_nat (length r) + value r 0).
    { cbn [value]. rewrite value_acc by assumption. lia. }
    set (t := (c - 48) * 10 ^ N.of_nat (length r)) in *.
    assert (Ht : exists q1 q2, sum + t = (q1 + q2) * W + sum').
    { unfold sum', wadd, wmul. rewrite (wsub_digit c Hc). fold t. unfold W.
      exists ((sum + t mod 18446744073709551616) / 18446744073709551616), (t / 18446744073709551616). lia. }
    destruct Ht as (q1 & q2 & Ht).
    exists s, (q + q1 + q2). split; [cbn [acc_digits]; rewrite Epow; exact E|].
    split; [exact Hs|]. rewrite Hv. lia.
Qed.

Lemma acc_digits_exact pow b : pow10_table_ok pow ->
  Forall is_digit b -> (length b <= length pow)%nat -> value b 0 < W ->
  acc_digits pow b 0 = Some (value b 0).
Proof.
  intros Hpow Hd Hlen Hv.
  destruct (acc_digits_value pow Hpow b 0 Hd Hlen ltac:(unfold W; lia)) as (s & q & E & Hs & Heq).
  rewrite E. f_equal. assert (q = 0) by (unfold W in *; nia). subst. lia.
Qed.

(* ---------- lexicographic = numeric on equal-length digit strings ---------- *)
Lemma bytes_gtb_value a : forall b, Forall is_digit a -> Forall is_digit b -> length a = length b ->
  bytes_gtb a b = (value b 0 <? value a 0).
Proof.
  induction a as [|x a IH]; intros [|y b] Ha Hb Hl; try discriminate.
  - reflexivity.
  - inversion Ha as [|? ? Hx Ha']; inversion Hb as [|? ? Hy Hb']; subst.
    cbn [length] in Hl. injection Hl as Hl.
    cbn [bytes_gtb value]. rewrite (value_acc a), (value_acc b) by assumption.
    pose proof (value_bound a Ha') as Ba. pose proof (value_bound b Hb') as Bb.
    rewrite <- Hl in *. set (p := 10 ^ N.of_nat (length a)) in *.
    unfold is_digit in Hx, Hy.
    destruct (N.ltb_spec y x) as [H1|H1].
    + symmetry. apply N.ltb_lt. nia.
    + destruct (N.ltb_spec x y) as [H2|H2].
      * symmetry. apply N.ltb_ge. nia.
      * assert (x = y) by lia. subst y. rewrite (IH b Ha' Hb' Hl).
        destruct (N.ltb_spec (value b 0) (value a 0)); symmetry; [apply N.ltb_lt|apply N.ltb_ge]; nia.
Qed.

Lemma max_u64_fact : Forall is_digit max_u64_digits /\ value max_u64_digits 0 = W - 1 /\ length max_u64_digits = 20%nat.
Proof.
  split; [|split; vm_compute; reflexivity].
  repeat constructor; unfold is_digit; cbn; lia.
Qed.

(* ---------- parse_uint / parse_int: exact or error ---------- *)
Definition u64_max : N := 18446744073709551615.

Theorem parse_uint_spec b : Forall is_digit b ->
  parse_uint b =
    if (Nat.leb (length b) 20) && (value b 0 <=? u64_max) then PVal (Z.of_N (value b 0)) else PErr.
Proof.
  intro Hd. unfold parse_uint. destruct pow10u64_ok as [Hpow Hlen]. rewrite Hlen.
  destruct (N.ltb_spec (N.of_nat 20) (N.of_nat (length b))) as [H|H].
  - destruct (Nat.leb_spec (length b) 20); [lia|]. reflexivity.
  - destruct (Nat.leb_spec (length b) 20) as [H20|H20]; [|lia]. cbn [andb].
    destruct (N.eqb_spec (N.of_nat (length b)) (N.of_nat 20)) as [E|E]; cbn [andb].
    + destruct max_u64_fact as (Md & Mv & Ml).
      rewrite (bytes_gtb_value b max_u64_digits Hd Md) by lia. rewrite Mv.
      unfold u64_max, W.
      destruct (N.ltb_spec (18446744073709551616 - 1) (value b 0)) as [G|G].
      * destruct (N.leb_spec (value b 0) 18446744073709551615); [lia|reflexivity].
      * destruct (N.leb_spec (value b 0) 18446744073709551615); [|lia].
        rewrite (acc_digits_exact _ b Hpow Hd) by (unfold W; lia). reflexivity.
    + assert (L19 : (length b <= 19)%nat) by lia.
      pose proof (value_bound b Hd) as Bv.
      assert (10 ^ N.of_nat (length b) <= 10 ^ 19) by (apply N.pow_le_mono_r; lia).
      change (10 ^ 19) with 10000000000000000000 in *.
      unfold u64_max. destruct (N.leb_spec (value b 0) 18446744073709551615); [|lia].
      rewrite (acc_digits_exact _ b Hpow Hd) by (unfold W; lia). reflexivity.
Qed.

(* the digit string a scanner hands to parse_int: optional '-' then digits *)
Definition split_sign (b : list N) : bool * list N :=
  match b with 45 :: r => (true, r) | _ => (false, b) end.

Definition int_literal_ok (d : list N) : bool :=
  negb (Nat.eqb (length d) 0) && negb (Nat.ltb 1 (length d) && (hd 0 d =? 48)).

Theorem parse_int_spec b : let '(neg, d) := split_sign b in Forall is_digit d ->
  parse_int b =
    if int_literal_ok d && Nat.leb (length d) 19 &&
       (if neg then value d 0 <=? 9223372036854775808 else value d 0 <=? 9223372036854775807)
    then PVal (if neg then (- Z.of_N (value d 0))%Z else Z.of_N (value d 0)) else PErr.
Proof.
  unfold parse_int, split_sign.
  set (nd := match b with 45 :: r => (true, r) | _ => (false, b) end).
  destruct nd as [neg d]. intro Hd.
  destruct pow10i64_ok as [Hpow Hlen]. rewrite Hlen. unfold int_literal_ok.
  destruct (N.eqb_spec (N.of_nat (length d)) 0) as [E0|E0].
  - destruct (Nat.eqb_spec (length d) 0); [reflexivity|lia].
  - destruct (Nat.eqb_spec (length d) 0); [lia|]. cbn [negb andb].
    destruct (N.ltb_spec 1 (N.of_nat (length d))) as [L1|L1];
    destruct (Nat.ltb_spec 1 (length d)) as [L1'|L1']; try lia; cbn [andb].
    + destruct (hd 0 d =? 48); cbn [negb andb]; [reflexivity|].
      destruct (N.ltb_spec (N.of_nat 19) (N.of_nat (length d))) as [H|H];
      destruct (Nat.leb_spec (length d) 19) as [H'|H']; try lia; cbn [andb]; [reflexivity|].
      pose proof (value_bound d Hd) as Bv.
      assert (10 ^ N.of_nat (length d) <= 10 ^ 19) by (apply N.pow_le_mono_r; lia).
      change (10 ^ 19) with 10000000000000000000 in *.
      rewrite (acc_digits_exact _ d Hpow Hd) by (unfold W; lia).
      destruct neg.
      * destruct (N.ltb_spec 9223372036854775808 (value d 0)); destruct (N.leb_spec (value d 0) 9223372036854775808); try lia; [reflexivity|].
        f_equal. unfold to_signed64, wneg, W.
        destruct (N.ltb_spec ((18446744073709551616 - value d 0 mod 18446744073709551616) mod 18446744073709551616) 9223372036854775808); lia.
      * destruct (N.ltb_spec 9223372036854775807 (value d 0)); destruct (N.leb_spec (value d 0) 9223372036854775807); try lia; [reflexivity|].
        f_equal. unfold to_signed64. destruct (N.ltb_spec (value d 0) 9223372036854775808); lia.
    + cbn [negb andb].
      destruct (N.ltb_spec (N.of_nat 19) (N.of_nat (length d))) as [H|H];
      destruct (Nat.leb_spec (length d) 19) as [H'|H']; try lia; cbn [andb].
      pose proof (value_bound d Hd) as Bv.
      assert (10 ^ N.of_nat (length d) <= 10 ^ 19) by (apply N.pow_le_mono_r; lia).
      change (10 ^ 19) with 10000000000000000000 in *.
      rewrite (acc_digits_exact _ d Hpow Hd) by (unfold W; lia).
      destruct neg.
      * destruct (N.ltb_spec 9223372036854775808 (value d 0)); destruct (N.leb_spec (value d 0) 9223372036854775808); try lia; [reflexivity|].
        f_equal. unfold to_signed64, wneg, W.
        destruct (N.ltb_spec ((18446744073709551616 - value d 0 mod 18446744073709551616) mod 18446744073709551616) 9223372036854775808); lia.
      * destruct (N.ltb_spec 9223372036854775807 (value d 0)); destruct (N.leb_spec (value d 0) 9223372036854775807); try lia; [reflexivity|].
        f_equal. unfold to_signed64. destruct (N.ltb_spec (value d 0) 9223372036854775808); lia.
Qed.
