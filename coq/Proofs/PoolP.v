From Coq Require Import NArith List Bool Arith Lia.
From GJ Require Import Model.Pool.
Import ListNotations.

Definition holds (i : nat) (st : pstate) (th : pthread) : Prop :=
  let '(x, p) := th in
  match p with
  | PTake => True
  | PWrite c => owner st c = Some i
  | PRead c => owner st c = Some i /\ bufs st c = x
  | PRelease c res => owner st c = Some i /\ res = x
  | PReleaseEarly c => False
  | PReadAfter c => False
  | PDone res => res = x
  end.

Definition PInv (s : psys) : Prop :=
  let '(st, ths) := s in
  NoDup (free st) /\
  (forall c, In c (free st) -> owner st c = None /\ c < next st) /\
  (forall c j, owner st c = Some j -> c < next st) /\
  (forall i th, nth_error ths i = Some th -> holds i st th).

Lemma nth_error_pset_nth_eq {A} (l : list A) : forall n x th, nth_error l n = Some th -> nth_error (pset_nth l n x) n = Some x.
Proof.
  induction l as [|y r IH]; intros n x th H; destruct n; try discriminate; cbn in *; [reflexivity|eapply IH; exact H].
Qed.

Lemma nth_error_pset_nth_neq {A} (l : list A) : forall n m x, n <> m -> nth_error (pset_nth l n x) m = nth_error l m.
Proof.
  induction l as [|y r IH]; intros n m x H; destruct n, m; cbn; try reflexivity; try congruence. apply IH. congruence.
Qed.

Lemma nth_error_pset_nth_inv {A} (l : list A) n x m th :
  nth_error (pset_nth l n x) m = Some th -> (m = n /\ th = x) \/ (m <> n /\ nth_error l m = Some th).
Proof.
  revert n m. induction l as [|y r IH]; intros n m H.
  - destruct n, m; discriminate.
  - destruct n, m; cbn in H.
    + left. inversion H. split; reflexivity.
    + right. split; [discriminate|exact H].
    + right. split; [discriminate|exact H].
    + destruct (IH _ _ H) as [[-> ->]|[Hne Hn]]; [left; split; reflexivity|right; split; [congruence|exact Hn]].
Qed.

Lemma updf_same {A} (f : nat -> A) k v : updf f k v k = v.
Proof. unfold updf. rewrite Nat.eqb_refl. reflexivity. Qed.
Lemma updf_other {A} (f : nat -> A) k v j : j <> k -> updf f k v j = f j.
Proof. unfold updf. intro H. destruct (Nat.eqb_spec j k); [contradiction|reflexivity]. Qed.

(* thread j's facts survive a step of thread i (i <> j) *)
Lemma holds_frame j st st' th :
  (forall c, owner st c = Some j -> owner st' c = Some j /\ bufs st' c = bufs st c) ->
  holds j st th -> holds j st' th.
Proof.
  intros F. destruct th as [x p]. destruct p as [|c|c|c res|c|c|res]; cbn; try tauto.
  - intro H. exact (proj1 (F c H)).
  - intros [H1 H2]. destruct (F c H1) as [H3 H4]. split; [exact H3|congruence].
  - intros [H1 H2]. split; [exact (proj1 (F c H1))|exact H2].
Qed.

Lemma pstep_inv i st ths th :
  PInv (st, ths) -> nth_error ths i = Some th ->
  PInv (fst (pstep false i st th), pset_nth ths i (snd (pstep false i st th))).
Proof.
  intros (Hnd & Hfree & Hown & Hth) Hi. pose proof (Hth i th Hi) as Hme. destruct th as [x p].
  destruct p as [|c|c|c res|c|c|res]; cbn [pstep fst snd]; try (cbn in Hme; contradiction).
  - (* take *)
    destruct (free st) as [|c r] eqn:Ef; cbn [fst snd].
    + (* fresh context *)
      (split; [|split; [|split]]); cbn [free next owner bufs].
      * constructor.
      * intros d [].
      * intros d j. unfold updf. destruct (Nat.eqb_spec d (next st)); [lia|]. intro H. specialize (Hown d j H). lia.
      * intros m th' Hm. apply nth_error_pset_nth_inv in Hm. destruct Hm as [[-> ->]|[Hne Hm]].
        -- cbn. apply updf_same.
        -- apply (holds_frame m st); [|exact (Hth m th' Hm)]. intros d Hd. cbn [owner bufs]. split; [|reflexivity].
           rewrite updf_other; [exact Hd|]. specialize (Hown d m Hd). lia.
    + (* reuse c *)
      inversion Hnd as [|? ? Hnotin Hnd']; subst.
      destruct (Hfree c (or_introl eq_refl)) as [Hnone Hlt].
      (split; [|split; [|split]]); cbn [free next owner bufs].
      * exact Hnd'.
      * intros d Hd. destruct (Hfree d (or_intror Hd)) as [H1 H2]. split; [|exact H2].
        rewrite updf_other; [exact H1|]. intro E; subst. contradiction.
      * intros d j. unfold updf. destruct (Nat.eqb_spec d c); [subst; intros _; exact Hlt|apply Hown].
      * intros m th' Hm. apply nth_error_pset_nth_inv in Hm. destruct Hm as [[-> ->]|[Hne Hm]].
        -- cbn. apply updf_same.
        -- apply (holds_frame m st); [|exact (Hth m th' Hm)]. intros d Hd. cbn [owner bufs]. split; [|reflexivity].
           rewrite updf_other; [exact Hd|]. intro E; subst. congruence.
  - (* write *)
    cbn in Hme. (split; [|split; [|split]]); cbn [free next owner bufs]; try assumption.
    intros m th' Hm. apply nth_error_pset_nth_inv in Hm. destruct Hm as [[-> ->]|[Hne Hm]].
    + cbn. split; [exact Hme|apply updf_same].
    + apply (holds_frame m st); [|exact (Hth m th' Hm)]. intros d Hd. cbn [owner bufs]. split; [exact Hd|].
      apply updf_other. intro E; subst. congruence.
  - (* read *)
    cbn in Hme. destruct Hme as [Ho Hb]. (split; [|split; [|split]]); try assumption.
    intros m th' Hm. apply nth_error_pset_nth_inv in Hm. destruct Hm as [[-> ->]|[Hne Hm]].
    + cbn. split; [exact Ho|exact Hb].
    + exact (Hth m th' Hm).
  - (* release *)
    cbn in Hme. destruct Hme as [Ho Hres]. (split; [|split; [|split]]); cbn [free next owner bufs].
    + constructor; [|exact Hnd]. intro Hin. destruct (Hfree c Hin) as [Hn _]. congruence.
    + intros d [<-|Hd].
      * split; [apply updf_same|exact (Hown c i Ho)].
      * destruct (Hfree d Hd) as [H1 H2]. split; [|exact H2]. unfold updf. destruct (Nat.eqb d c); [reflexivity|exact H1].
    + intros d j. unfold updf. destruct (Nat.eqb_spec d c); [discriminate|apply Hown].
    + intros m th' Hm. apply nth_error_pset_nth_inv in Hm. destruct Hm as [[-> ->]|[Hne Hm]].
      * cbn. exact Hres.
      * apply (holds_frame m st); [|exact (Hth m th' Hm)]. intros d Hd. cbn [owner bufs]. split; [|reflexivity].
        rewrite updf_other; [exact Hd|]. intro E; subst. congruence.
  - (* done *)
    cbn in Hme. (split; [|split; [|split]]); try assumption.
    intros m th' Hm. apply nth_error_pset_nth_inv in Hm. destruct Hm as [[-> ->]|[Hne Hm]]; [cbn; exact Hme|exact (Hth m th' Hm)].
Qed.

Lemma psys_step_inv s i : PInv s -> PInv (psys_step false s i).
Proof.
  destruct s as [st ths]. intro H. unfold psys_step. destruct (nth_error ths i) as [th|] eqn:E; [|exact H].
  pose proof (pstep_inv i st ths th H E) as H'. destruct (pstep false i st th) as [st' th']. exact H'.
Qed.

Lemma prun_inv schedule : forall s, PInv s -> PInv (prun false s schedule).
Proof. induction schedule as [|i r IH]; intros s H; [exact H|]. cbn [prun fold_left]. apply IH, psys_step_inv, H. Qed.

Lemma pstart_inv inputs : PInv (pstart inputs).
Proof.
  unfold pstart, PInv, pstate0. cbn [free next owner bufs]. split; [|split; [|split]].
  - constructor.
  - intros c [].
  - intros c j H. discriminate.
  - intros i th H. rewrite nth_error_map in H. destruct (nth_error inputs i); [|discriminate]. inversion H. cbn. exact I.
Qed.

(* with the discipline, under every schedule every finished call returns its own data *)
Theorem pool_exclusive inputs schedule x res :
  In (x, PDone res) (snd (prun false (pstart inputs) schedule)) -> res = x.
Proof.
  intro Hin. pose proof (prun_inv schedule _ (pstart_inv inputs)) as H.
  destruct (prun false (pstart inputs) schedule) as [st ths]. destruct H as (_ & _ & _ & Hth).
  cbn [snd] in Hin. apply In_nth_error in Hin. destruct Hin as [i Hi]. exact (Hth i _ Hi).
Qed.

(* without it there is a schedule on which a call returns another call's data *)
Theorem early_release_refuted :
  exists inputs schedule x res, In (x, PDone res) (snd (prun true (pstart inputs) schedule)) /\ res <> x.
Proof.
  exists [[1%N]; [2%N]], [0; 0; 0; 1; 1; 0]%nat, [1%N], [2%N]. split; [vm_compute; left; reflexivity|discriminate].
Qed.
