From Coq Require Import NArith List Bool Arith Lia.
From GJ Require Import Base.Bytes Spec.Json Model.Enc Proofs.EncP Proofs.ParseP Model.TreeRead.
Import ListNotations.

Lemma rd_step f ts : rd (S f) ts =
  match ts with
  | TLBrack :: TRBrack :: r => Some (JArr [], r)
  | TLBrack :: r => match rd_elems f r with Some (l, r') => Some (JArr l, r') | None => None end
  | TLBrace :: TRBrace :: r => Some (JObj [], r)
  | TLBrace :: r => match rd_members f r with Some (l, r') => Some (JObj l, r') | None => None end
  | TStr b :: r => Some (JLeaf (TStr b), r)
  | TNum n :: r => Some (JLeaf (TNum n), r)
  | TTrue :: r => Some (JLeaf TTrue, r)
  | TFalse :: r => Some (JLeaf TFalse, r)
  | TNull :: r => Some (JLeaf TNull, r)
  | _ => None
  end.
Proof. reflexivity. Qed.

Lemma rde_step f ts : rd_elems (S f) ts =
  match rd f ts with
  | Some (x, TRBrack :: r) => Some ([x], r)
  | Some (x, TComma :: r) => match rd_elems f r with Some (l, r') => Some (x :: l, r') | None => None end
  | _ => None
  end.
Proof. reflexivity. Qed.

Lemma rdm_step f ts : rd_members (S f) ts =
  match ts with
  | TStr k :: TColon :: r =>
      match rd f r with
      | Some (x, TRBrace :: r') => Some ([(k, false, x)], r')
      | Some (x, TComma :: r') => match rd_members f r' with Some (l, r'') => Some ((k, false, x) :: l, r'') | None => None end
      | _ => None
      end
  | _ => None
  end.
Proof. reflexivity. Qed.

Definition reads_back (v : jv) : Prop :=
  forall f rest, (vb v <= f)%nat -> rd f (toks v ++ rest) = Some (v, rest).

(* the first token of a value is an opener or a scalar: never a closer *)
Lemma toks_head v : wfp v = true -> exists t r, toks v = t :: r /\ t <> TRBrack /\ t <> TRBrace.
Proof.
  destruct v as [t|l|l]; intro H.
  - cbn [wfp] in H. exists t, []. split; [reflexivity|]. destruct t; try discriminate H; split; discriminate.
  - cbn [toks]. eexists _, _. split; [reflexivity|split; discriminate].
  - cbn [toks]. eexists _, _. split; [reflexivity|split; discriminate].
Qed.

Lemma elems_back : forall l, l <> [] -> (forall x, In x l -> reads_back x) ->
  forall f rest, (eb l <= f)%nat -> rd_elems f (etoks l ++ rest) = Some (l, rest).
Proof.
  induction l as [|x r IH]; intros Hne Hall f rest Hf; [congruence|].
  unfold eb in Hf. cbn [fold_right] in Hf. destruct f as [|f]; [lia|]. fold (eb r) in Hf.
  rewrite rde_step. destruct r as [|y r'].
  - cbn [etoks]. rewrite <- app_assoc. cbn [app]. rewrite (Hall x (or_introl eq_refl) f (TRBrack :: rest) ltac:(lia)). reflexivity.
  - change (etoks (x :: y :: r')) with (toks x ++ TComma :: etoks (y :: r')). rewrite <- app_assoc. cbn [app].
    rewrite (Hall x (or_introl eq_refl) f (TComma :: etoks (y :: r') ++ rest) ltac:(lia)).
    rewrite (IH ltac:(discriminate) (fun z Hz => Hall z (or_intror Hz)) f rest ltac:(lia)). reflexivity.
Qed.

Lemma members_back : forall l, l <> [] -> allshown l = true -> (forall m, In m l -> reads_back (snd m)) ->
  forall f rest, (mb l <= f)%nat -> rd_members f (mtoks l ++ rest) = Some (l, rest).
Proof.
  induction l as [|[[k om] x] r IH]; intros Hne Hsh Hall f rest Hf; [congruence|].
  unfold mb in Hf. cbn [fold_right snd] in Hf. destruct f as [|f]; [lia|]. fold (mb r) in Hf.
  unfold allshown in Hsh. cbn [forallb fst snd] in Hsh. apply andb_true_iff in Hsh. destruct Hsh as [Ho Hsh]. apply negb_true_iff in Ho. subst om.
  pose proof (Hall (k, false, x) (or_introl eq_refl)) as Hx. cbn [snd] in Hx.
  rewrite rdm_step. cbn [mtoks]. cbn [app]. destruct r as [|y r'].
  - rewrite <- app_assoc. cbn [app]. rewrite (Hx f (TRBrace :: rest) ltac:(lia)). reflexivity.
  - rewrite <- app_assoc. cbn [app].
    rewrite (Hx f (TComma :: mtoks (y :: r') ++ rest) ltac:(lia)).
    rewrite (IH ltac:(discriminate) Hsh (fun z Hz => Hall z (or_intror Hz)) f rest ltac:(lia)). reflexivity.
Qed.

Theorem reads_back_n : forall n v, (size v <= n)%nat -> wfp v = true -> reads_back v.
Proof.
  induction n as [|n IH]; intros v Hs Hw; [destruct v; cbn in Hs; lia|].
  destruct v as [t|l|l]; intros f rest Hf.
  - cbn [vb] in Hf. destruct f as [|f]; [lia|]. cbn [wfp] in Hw. cbn [toks app]. rewrite rd_step.
    destruct t; try discriminate Hw; reflexivity.
  - cbn [wfp] in Hw. rewrite forallb_forall in Hw. cbn [size] in Hs. destruct l as [|x r].
    + cbn [vb fold_right] in Hf. destruct f as [|f]; [lia|]. reflexivity.
    + cbn [vb] in Hf. destruct f as [|f]; [lia|]. fold (eb (x :: r)) in Hf. rewrite toks_arr. cbn [app]. rewrite rd_step.
      destruct (toks_head x (Hw x (or_introl eq_refl))) as (t & tl & Ht & Hnb & _).
      assert (Hex : exists tl', etoks (x :: r) ++ rest = t :: tl') by (cbn [etoks]; rewrite Ht; cbn [app]; eexists; reflexivity).
      destruct Hex as [tl' Htl]. rewrite Htl.
      assert (Hgo : rd_elems f (t :: tl') = Some (x :: r, rest)).
      { rewrite <- Htl. apply elems_back; [discriminate| |lia]. intros z Hz. apply IH; [pose proof (size_in z (x :: r) Hz); lia|apply Hw; exact Hz]. }
      destruct t; try (rewrite Hgo; reflexivity). congruence.
  - cbn [wfp] in Hw. rewrite forallb_forall in Hw. cbn [size] in Hs. destruct l as [|m r].
    + cbn [vb fold_right] in Hf. destruct f as [|f]; [lia|]. reflexivity.
    + cbn [vb] in Hf. destruct f as [|f]; [lia|]. fold (mb (m :: r)) in Hf.
      assert (Hshown : allshown (m :: r) = true).
      { unfold allshown. apply forallb_forall. intros [[k om] z] Hz. specialize (Hw _ Hz). cbn beta iota in Hw.
        apply andb_true_iff in Hw. destruct Hw as [Hw _]. apply andb_true_iff in Hw. destruct Hw as [Hw _]. exact Hw. }
      rewrite (toks_obj m r Hshown). cbn [app]. rewrite rd_step.
      assert (Hgo : rd_members f (mtoks (m :: r) ++ rest) = Some (m :: r, rest)).
      { apply members_back; [discriminate|exact Hshown| |lia]. intros [[k' om'] z] Hz. cbn [snd]. specialize (Hw _ Hz). cbn beta iota in Hw.
        apply andb_true_iff in Hw. destruct Hw as [_ Hz']. apply IH; [pose proof (size_in_snd (k', om', z) _ Hz) as Hsz; cbn [snd] in Hsz; lia|exact Hz']. }
      destruct m as [[k om] x]. cbn [mtoks] in *. cbn [app] in *. rewrite Hgo. reflexivity.
Qed.

Lemma vb_le_toks_n : forall n v, (size v <= n)%nat -> wfp v = true -> (vb v <= length (toks v))%nat.
Proof.
  induction n as [|n IH]; intros v Hs Hw; [destruct v; cbn in Hs; lia|].
  destruct v as [t|l|l]; [cbn; lia| |]; cbn [size] in Hs; cbn [wfp] in Hw; rewrite forallb_forall in Hw.
  - destruct l as [|x r]; [cbn; lia|]. rewrite toks_arr. cbn [vb length]. fold (eb (x :: r)).
    assert (H : forall l, (forall z, In z l -> (size z <= n)%nat /\ wfp z = true) -> l <> [] -> (eb l <= length (etoks l))%nat).
    { induction l as [|y l' IHl]; intros Hall Hne; [congruence|]. destruct (Hall y (or_introl eq_refl)) as [Hsy Hwy]. pose proof (IH y Hsy Hwy) as Hy.
      unfold eb. cbn [fold_right etoks]. fold (eb l'). rewrite app_length. destruct l' as [|y' l'']; [cbn [eb fold_right length]; lia|].
      specialize (IHl (fun z Hz => Hall z (or_intror Hz)) ltac:(discriminate)). cbn [length]. lia. }
    assert (Hall : forall z, In z (x :: r) -> (size z <= n)%nat /\ wfp z = true).
    { intros z Hz. split; [pose proof (size_in z (x :: r) Hz); lia|apply Hw; exact Hz]. }
    specialize (H (x :: r) Hall ltac:(discriminate)). lia.
  - destruct l as [|m r]; [cbn; lia|].
    assert (Hshown : allshown (m :: r) = true).
    { unfold allshown. apply forallb_forall. intros [[k om] z] Hz. specialize (Hw _ Hz). cbn beta iota in Hw.
      apply andb_true_iff in Hw. destruct Hw as [Hw _]. apply andb_true_iff in Hw. destruct Hw as [Hw _]. exact Hw. }
    rewrite (toks_obj m r Hshown). cbn [vb length]. fold (mb (m :: r)).
    assert (H : forall l, (forall z, In z l -> (size (snd z) <= n)%nat /\ wfp (snd z) = true) -> l <> [] -> (mb l <= length (mtoks l))%nat).
    { induction l as [|[[k om] y] l' IHl]; intros Hall Hne; [congruence|]. destruct (Hall (k, om, y) (or_introl eq_refl)) as [Hsy Hwy]. cbn [snd] in *.
      pose proof (IH y Hsy Hwy) as Hy. unfold mb. cbn [fold_right mtoks snd]. fold (mb l'). cbn [length]. rewrite app_length.
      destruct l' as [|y' l'']; [cbn [mb fold_right length]; lia|].
      specialize (IHl (fun z Hz => Hall z (or_intror Hz)) ltac:(discriminate)). cbn [length]. lia. }
    assert (Hall : forall z, In z (m :: r) -> (size (snd z) <= n)%nat /\ wfp (snd z) = true).
    { intros [[k om] z] Hz. cbn [snd]. specialize (Hw _ Hz). cbn beta iota in Hw. apply andb_true_iff in Hw. destruct Hw as [_ Hz'].
      split; [pose proof (size_in_snd (k, om, z) _ Hz) as Hsz; cbn [snd] in Hsz; lia|exact Hz']. }
    specialize (H (m :: r) Hall ltac:(discriminate)). lia.
Qed.

(* reading the token sequence of a value gives the value back *)
Theorem read_tree_toks v : wfp v = true -> read_tree (toks v) = Some v.
Proof.
  intro Hw. unfold read_tree. pose proof (reads_back_n (size v) v (le_n _) Hw (S (length (toks v))) []) as H.
  rewrite app_nil_r in H. rewrite H; [reflexivity|]. pose proof (vb_le_toks_n (size v) v (le_n _) Hw). lia.
Qed.

(* ... and for a value with members that are left out: the value without them *)
Theorem read_tree_marshal v : wfp (strip v) = true ->
  match parse_json (marshal v) with Some (ts, _) => read_tree ts | None => None end = Some (strip v).
Proof.
  intro Hw. rewrite (parse_marshal v Hw). destruct (strip_same_n (size v) v (le_n _)) as [_ Ht]. rewrite <- Ht. apply read_tree_toks. exact Hw.
Qed.
