(* Field resolution (Model/FieldRes.v) is exactly Go's rule, stated declaratively:
   a name selects the candidate that is alone at the smallest depth, or alone
   among the tagged ones there; anything else selects nothing.  The candidates
   of a struct are pairwise distinct (their index paths differ).  The
   level-by-level resolution the code used before the repair is refuted. *)
From Coq Require Import NArith List Bool Arith Lia.
From GJ Require Import Base.Bytes Model.FieldRes.
Import ListNotations.
Local Open Scope nat_scope.

(* Go's rule (encoding/json: dominantField after sorting by name, depth, tagged) *)
Definition Selected (cs : list cand) (n : list N) (c : cand) : Prop :=
  In c cs /\ c_name c = n /\
  (forall c', In c' cs -> c_name c' = n -> c_depth c <= c_depth c') /\
  ((forall c', In c' cs -> c_name c' = n -> c_depth c' = c_depth c -> c' = c) \/
   (c_tagged c = true /\
    forall c', In c' cs -> c_name c' = n -> c_depth c' = c_depth c -> c_tagged c' = true -> c' = c)).

Lemma fold_min_le l : forall d0, fold_left Nat.min l d0 <= d0 /\ forall x, In x l -> fold_left Nat.min l d0 <= x.
Proof.
  induction l as [|a l IH]; intro d0; cbn [fold_left]; [split; [lia|intros x []]|].
  destruct (IH (Nat.min d0 a)) as [A B]. split; [lia|]. intros x [E|H]; [subst; lia|apply B, H].
Qed.
Lemma fold_min_in l : forall d0, fold_left Nat.min l d0 = d0 \/ In (fold_left Nat.min l d0) l.
Proof.
  induction l as [|a l IH]; intro d0; cbn [fold_left]; [left; reflexivity|].
  destruct (IH (Nat.min d0 a)) as [E|H]; [|right; right; exact H].
  rewrite E. destruct (Nat.min_spec d0 a) as [[_ M]|[_ M]]; rewrite M; [left; reflexivity|right; left; reflexivity].
Qed.

Lemma named_in n cs c : In c (named n cs) <-> In c cs /\ c_name c = n.
Proof. unfold named. rewrite filter_In, list_eqb_eq. reflexivity. Qed.
Lemma at_depth_in d cs c : In c (at_depth d cs) <-> In c cs /\ c_depth c = d.
Proof. unfold at_depth. rewrite filter_In, Nat.eqb_eq. reflexivity. Qed.

Lemma filter_singleton {A} (p : A -> bool) (l : list A) c :
  NoDup l -> In c l -> p c = true -> (forall c', In c' l -> p c' = true -> c' = c) -> filter p l = [c].
Proof.
  induction l as [|a l IH]; intros ND I Pc U; [destruct I|].
  inversion ND as [|? ? Na ND']; subst. cbn [filter].
  destruct I as [E|I].
  - subst a. rewrite Pc. f_equal.
    assert (F : forall x, In x l -> p x = false).
    { intros x Hx. destruct (p x) eqn:Px; [|reflexivity]. exfalso. apply Na. rewrite <- (U x (or_intror Hx) Px). exact Hx. }
    clear - F. induction l as [|x l IHl]; [reflexivity|]. cbn [filter]. rewrite (F x (or_introl eq_refl)). apply IHl. intros y Hy. apply F. right. exact Hy.
  - destruct (p a) eqn:Pa.
    + exfalso. apply Na. rewrite (U a (or_introl eq_refl) Pa). exact I.
    + apply IH; auto. intros c' Hc'. apply U. right. exact Hc'.
Qed.

(* the smallest depth among the candidates of a name is attained and bounds all of them *)
Lemma min_depth_spec m c0 : In c0 m ->
  (forall c, In c m -> min_depth m (c_depth c0) <= c_depth c) /\ exists c, In c m /\ c_depth c = min_depth m (c_depth c0).
Proof.
  intro H0. unfold min_depth. destruct (fold_min_le (map c_depth m) (c_depth c0)) as [A B]. split.
  - intros c Hc. apply B. apply in_map. exact Hc.
  - destruct (fold_min_in (map c_depth m) (c_depth c0)) as [E|H].
    + exists c0. split; [exact H0|]. symmetry. exact E.
    + apply in_map_iff in H. destruct H as (c & E & Hc). exists c. split; [exact Hc|exact E].
Qed.

Theorem resolve_sound cs n c : resolve cs n = Some c -> Selected cs n c.
Proof.
  unfold resolve. destruct (named n cs) as [|c0 m'] eqn:Em; [discriminate|].
  remember (c0 :: m') as m eqn:Dm. assert (H0 : In c0 m) by (rewrite Dm; left; reflexivity).
  destruct (min_depth_spec m c0 H0) as [LB _]. remember (min_depth m (c_depth c0)) as d eqn:Dd.
  assert (Min : forall x, In x (at_depth d m) -> In x cs /\ c_name x = n /\ c_depth x = d /\
                                               forall c', In c' cs -> c_name c' = n -> c_depth x <= c_depth c').
  { intros x Hx. apply at_depth_in in Hx. destruct Hx as [Hm Hd]. rewrite <- Em in Hm. apply named_in in Hm. destruct Hm as [Hc Hn].
    repeat split; auto. intros c' Hc' Hn'. rewrite Hd. apply LB. rewrite <- Em. apply named_in. split; assumption. }
  assert (Same : forall c', In c' cs -> c_name c' = n -> c_depth c' = d -> In c' (at_depth d m)).
  { intros c' Hc' Hn' Hd'. apply at_depth_in. split; [|exact Hd']. rewrite <- Em. apply named_in. split; assumption. }
  destruct (at_depth d m) as [|x [|y r]] eqn:Es.
  - intro E. cbn in E. discriminate E.
  - intro E. injection E as E. subst x. destruct (Min c (or_introl eq_refl)) as (Hc & Hn & Hd & Hmin).
    repeat split; auto. left. intros c' Hc' Hn' Hd'. rewrite Hd in Hd'.
    specialize (Same c' Hc' Hn' Hd'). destruct Same as [E1|[]]. symmetry. exact E1.
  - destruct (filter c_tagged (x :: y :: r)) as [|t [|t2 r2]] eqn:Et; try discriminate.
    intro E. injection E as E. subst t.
    assert (Hin : In c (filter c_tagged (x :: y :: r))) by (rewrite Et; left; reflexivity).
    apply filter_In in Hin. destruct Hin as [Hsh Htag].
    destruct (Min c Hsh) as (Hc & Hn & Hd & Hmin). repeat split; auto. right. split; [exact Htag|].
    intros c' Hc' Hn' Hd' Ht'. rewrite Hd in Hd'. specialize (Same c' Hc' Hn' Hd').
    assert (Hin' : In c' (filter c_tagged (x :: y :: r))) by (apply filter_In; split; assumption).
    rewrite Et in Hin'. destruct Hin' as [E1|[]]. symmetry. exact E1.
Qed.

Theorem resolve_complete cs n c : NoDup cs -> Selected cs n c -> resolve cs n = Some c.
Proof.
  intros ND (Hc & Hn & Hmin & Huniq). unfold resolve.
  assert (Hm : In c (named n cs)) by (apply named_in; split; assumption).
  destruct (named n cs) as [|c0 m'] eqn:Em; [destruct Hm|].
  remember (c0 :: m') as m eqn:Dm. assert (H0 : In c0 m) by (rewrite Dm; left; reflexivity).
  destruct (min_depth_spec m c0 H0) as [LB (w & Hw & Ew)]. remember (min_depth m (c_depth c0)) as d eqn:Dd.
  assert (Ed : c_depth c = d).
  { apply Nat.le_antisymm; [|apply LB; exact Hm]. rewrite <- Ew. rewrite <- Em in Hw. apply named_in in Hw. apply Hmin; tauto. }
  assert (NDm : NoDup m) by (rewrite <- Em; apply NoDup_filter; exact ND).
  assert (NDs : NoDup (at_depth d m)) by (apply NoDup_filter; exact NDm).
  assert (Hs : In c (at_depth d m)) by (apply at_depth_in; split; assumption).
  assert (Back : forall x, In x (at_depth d m) -> In x cs /\ c_name x = n /\ c_depth x = c_depth c).
  { intros x Hx. apply at_depth_in in Hx. destruct Hx as [Hxm Hxd]. rewrite <- Em in Hxm. apply named_in in Hxm. rewrite Ed. tauto. }
  destruct Huniq as [U|[Tc U]].
  - assert (E : at_depth d m = [c]).
    { unfold at_depth. apply filter_singleton; auto.
      - apply Nat.eqb_eq. exact Ed.
      - intros c' Hc' Hd'. apply Nat.eqb_eq in Hd'. rewrite <- Em in Hc'. apply named_in in Hc'. apply U; try tauto. lia. }
    rewrite E. reflexivity.
  - destruct (at_depth d m) as [|x [|y r]] eqn:Es; [destruct Hs| |].
    + destruct Hs as [E|[]]. subst x. reflexivity.
    + assert (E : filter c_tagged (x :: y :: r) = [c]).
      { apply filter_singleton; auto. intros c' Hc' Ht'. destruct (Back c' Hc') as (A & B & C). apply U; auto. }
      rewrite E. reflexivity.
Qed.

(* at most one field per name, the shallowest one; nothing deeper when the shallowest are ambiguous *)
Corollary resolve_shallowest cs n c : resolve cs n = Some c ->
  forall c', In c' cs -> c_name c' = n -> c_depth c <= c_depth c'.
Proof. intros H. destruct (resolve_sound cs n c H) as (_ & _ & M & _). exact M. Qed.

(* ---------- the candidates of a struct are pairwise distinct ---------- *)
Section fld_ind2.
  Variable P : fld -> Prop.
  Hypothesis HP : forall n t, P (FPlain n t).
  Hypothesis HI : P FIgnored.
  Hypothesis HE : forall fs, Forall P fs -> P (FEmbed fs).
  Fixpoint fld_ind2 (f : fld) : P f :=
    match f with
    | FPlain n t => HP n t
    | FIgnored => HI
    | FEmbed fs => HE fs ((fix go (l : list fld) : Forall P l :=
                             match l with [] => Forall_nil _ | x :: r => Forall_cons x (fld_ind2 x) (go r) end) fs)
    end.
End fld_ind2.

Definition go_cands (depth : nat) (path : list nat) :=
  fix go (fs : list fld) (i : nat) : list cand :=
    match fs with
    | [] => []
    | f :: r => cands_of f (S depth) (path ++ [i]) ++ go r (S i)
    end.
Lemma cands_of_embed fs depth path : cands_of (FEmbed fs) depth path = go_cands depth path fs 0.
Proof. reflexivity. Qed.

Lemma NoDup_app' {A} (l1 l2 : list A) : NoDup l1 -> NoDup l2 -> (forall x, In x l1 -> ~ In x l2) -> NoDup (l1 ++ l2).
Proof.
  induction l1 as [|a l1 IH]; intros N1 N2 D; [exact N2|].
  inversion N1; subst. cbn. constructor.
  - intro H. apply in_app_or in H. destruct H as [H|H]; [contradiction|]. apply (D a (or_introl eq_refl) H).
  - apply IH; auto. intros x Hx. apply D. right. exact Hx.
Qed.

Definition Good (f : fld) : Prop :=
  forall depth path, NoDup (cands_of f depth path) /\ forall c, In c (cands_of f depth path) -> exists s, c_path c = path ++ s.

Lemma good_all : forall f, Good f.
Proof.
  apply fld_ind2.
  - intros n t depth path. cbn. split; [repeat constructor; intros []|]. intros c [E|[]]. subst c. exists []. cbn. rewrite app_nil_r. reflexivity.
  - intros depth path. cbn. split; [constructor|intros c []].
  - intros fs F depth path. rewrite cands_of_embed.
    assert (G : forall i, NoDup (go_cands depth path fs i) /\
                          forall c, In c (go_cands depth path fs i) -> exists j s, i <= j /\ c_path c = path ++ [j] ++ s).
    { induction F as [|f r Hf Hr IH]; intro i; cbn [go_cands]; [split; [constructor|intros c []]|].
      destruct (Hf (S depth) (path ++ [i])) as [Nf Pf]. destruct (IH (S i)) as [Nr Pr]. split.
      - apply NoDup_app'; auto. intros x Hx Hx'. destruct (Pf x Hx) as [s Es]. destruct (Pr x Hx') as (j & s' & Lj & Ej).
        rewrite Es in Ej. rewrite <- app_assoc in Ej. apply app_inv_head in Ej. cbn in Ej. inversion Ej. lia.
      - intros c Hc. apply in_app_or in Hc. destruct Hc as [Hc|Hc].
        + destruct (Pf c Hc) as [s Es]. exists i, s. split; [lia|]. rewrite Es, <- app_assoc. reflexivity.
        + destruct (Pr c Hc) as (j & s & Lj & Ej). exists j, s. split; [lia|exact Ej]. }
    destruct (G 0) as [N Pp]. split; [exact N|]. intros c Hc. destruct (Pp c Hc) as (j & s & _ & E). exists ([j] ++ s). exact E.
Qed.

Theorem cands_nodup fs : NoDup (cands fs).
Proof. exact (proj1 (good_all (FEmbed fs) 0 [])). Qed.

(* Go's rule, for every struct shape and every name *)
Theorem select_iff fs n c : resolve (cands fs) n = Some c <-> Selected (cands fs) n c.
Proof. split; [apply resolve_sound|apply resolve_complete, cands_nodup]. Qed.

(* ---------- the level-by-level resolution is not Go's rule ---------- *)
(* struct{ struct{ struct{X}; struct{X} }; struct{ struct{X} } }: X is ambiguous at depth 3, nothing is selected;
   settled level by level, the first embedded struct gives up its X and the second one's gets through *)
Definition w_amb : list fld :=
  [FEmbed [FEmbed [FPlain [88%N] false]; FEmbed [FPlain [88%N] false]]; FEmbed [FEmbed [FPlain [88%N] false]]].
Lemma hier_refuted : select w_amb [88%N] = None /\ hier_select w_amb [88%N] = Some [1; 0; 0].
Proof. vm_compute. split; reflexivity. Qed.
(* a tag two levels down wins among the fields of that depth *)
Definition w_tag : list fld :=
  [FEmbed [FEmbed [FPlain [88%N] true]; FEmbed [FPlain [88%N] false]]; FEmbed [FEmbed [FPlain [88%N] false]]].
Lemma tag_at_depth : select w_tag [88%N] = Some [0; 0; 0].
Proof. vm_compute. reflexivity. Qed.
