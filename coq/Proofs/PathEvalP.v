(* Path evaluation (Model/PathEval.v): purity under reuse when extractFromPath
   evaluates on a copy, the counterexample when it does not, and agreement with
   the reference evaluation wherever the recorded deviations stay silent. *)
From Coq Require Import NArith ZArith List Bool Lia.
From GJ Require Import Base.Bytes Spec.Json Model.Enc Proofs.EncP Proofs.EncColorP Model.Path Gen.PathShape Model.PathEval.
Import ListNotations.

(* what path.go is expected to say *)
Definition std_sems : node_sems :=
  {| sel_field := FEqChild; sel_index := INone; idx_field := FNone; idx_index := IEqChild;
     all_field := FNone; all_index := IAlwaysChild; rec_field := FEqChild; rec_index := IAlwaysSelf |}.
(* before the repair: a selector applied to an array or object of the other kind was an error *)
Definition old_sems : node_sems :=
  {| sel_field := FEqChild; sel_index := IErr; idx_field := FErr; idx_index := IEqChild;
     all_field := FErr; all_index := IAlwaysChild; rec_field := FEqChild; rec_index := IAlwaysSelf |}.

(* ---------- purity ---------- *)
Lemma extract_call_copy_state sems sc ro st d : snd (extract_call sems sc true ro st d) = st.
Proof. unfold extract_call. destruct ro; [reflexivity|]. destruct (ev sems sc d st); reflexivity. Qed.

Lemma run_copy_pure sems sc ro st docs :
  run sems sc true ro st docs = map (fun d => fst (extract_call sems sc true ro st d)) docs.
Proof.
  induction docs as [|d r IH]; cbn [run map]; [reflexivity|].
  pose proof (extract_call_copy_state sems sc ro st d) as E.
  destruct (extract_call sems sc true ro st d) as [o st'] eqn:C. cbn [snd fst] in *. subst st'.
  rewrite IH. reflexivity.
Qed.

(* whatever documents one Path value met before, valid or not, answered or
   failed: the answer for the next document is the answer of a fresh Path *)
Theorem extract_pure sems sc ro st before d :
  last (run sems sc true ro st (before ++ [d])) None = fst (extract_call sems sc true ro st d).
Proof.
  rewrite run_copy_pure, map_app. cbn [map]. apply last_last.
Qed.

(* without the copy the cursor stays where a failed descent left it *)
Definition w_path : list pnode := [NSel [97]; NSel [98]].
Definition w_bad : jv := JObj [([97], false, JArr [JLeaf (TNum [49])])].               (* {"a":[1]} *)
Definition w_good : jv := JObj [([97], false, JObj [([98], false, JLeaf (TNum [50]))])]. (* {"a":{"b":2}} *)
Lemma extract_shared_cursor_refuted :
  last (run old_sems false false false (expand w_path) ([w_bad] ++ [w_good])) None
  <> fst (extract_call old_sems false false false (expand w_path) w_good).
Proof. vm_compute. discriminate. Qed.

(* ---------- agreement with the reference evaluation ---------- *)
Lemma expand_nil ns : expand ns = [] <-> ns = [].
Proof. destruct ns as [|[n|i| |n] r]; cbn; split; intro H; try discriminate; reflexivity. Qed.

Notation EV := (ev std_sems true).
Definition Ref (ns : list pnode) (v : jv) : list res := map RTree (ref_eval ns v).

Section Ref.
  Variable r : list pnode.
  Hypothesis IH : forall x, r <> [] -> exists s, EV x (expand r) = (Some (Ref r x), s).

  (* what one found member / element contributes *)
  Lemma found_contrib x :
    match expand r with
    | [] => [RTree x] = Ref r x
    | _ :: _ => exists s, EV x (expand r) = (Some (Ref r x), s)
    end.
  Proof.
    destruct (expand r) as [|c cs] eqn:E.
    - apply expand_nil in E. subst r. reflexivity.
    - assert (N : r <> []) by (intro Z; subst r; discriminate).
      destruct (IH x N) as [s H]. exists s. exact H.
  Qed.

  Lemma obj_sel n ms : forall acc,
    obj_loop std_sems EV (XSel n :: expand r) ms acc
    = (Some (acc ++ map RTree (flat_map (ref_eval r) (members_named n ms))), XSel n :: expand r).
  Proof.
    induction ms as [|[[k b] x] ms IHm]; intro acc.
    - cbn. rewrite app_nil_r. reflexivity.
    - cbn [obj_loop do_field by_field std_sems sel_field is_rec].
      unfold members_named. cbn [flat_map]. fold (members_named n ms).
      destruct (list_eqb n k).
      + rewrite flat_map_app. cbn [flat_map]. rewrite app_nil_r, map_app.
        pose proof (found_contrib x) as C.
        destruct (expand r) as [|c cs].
        * rewrite IHm. fold (Ref r x). rewrite <- C, <- app_assoc. reflexivity.
        * destruct C as [s C]. rewrite C. rewrite IHm. unfold Ref. rewrite <- app_assoc. reflexivity.
      + cbn [app]. rewrite IHm. rewrite app_nil_r. reflexivity.
  Qed.

  Lemma arr_all es : forall idx acc,
    arr_loop std_sems EV (XAll :: expand r) es idx acc
    = (Some (acc ++ map RTree (flat_map (ref_eval r) es)), XAll :: expand r).
  Proof.
    induction es as [|e es IHe]; intros idx acc.
    - cbn. rewrite app_nil_r. reflexivity.
    - cbn [arr_loop do_index by_index std_sems all_index].
      cbn [flat_map]. rewrite map_app.
      pose proof (found_contrib e) as C.
      destruct (expand r) as [|c cs].
      + rewrite IHe. fold (Ref r e). rewrite <- C, <- app_assoc. reflexivity.
      + destruct C as [s C]. rewrite C. rewrite IHe. unfold Ref. rewrite <- app_assoc. reflexivity.
  Qed.

  (* the element a non-negative index i selects from es when the loop stands at position idx *)
  Definition pick (i : Z) (idx : nat) (es : list jv) : option jv :=
    if (i <? Z.of_nat idx)%Z then None else nth_error es (Z.to_nat i - idx).

  Lemma arr_idx i es : forall idx acc,
    arr_loop std_sems EV (XIdx i :: expand r) es idx acc
    = (Some (acc ++ map RTree (match pick i idx es with Some e => ref_eval r e | None => [] end)), XIdx i :: expand r).
  Proof.
    induction es as [|e es IHe]; intros idx acc.
    - cbn [arr_loop]. unfold pick. destruct (i <? Z.of_nat idx)%Z; [|destruct (Z.to_nat i - idx)%nat]; cbn; rewrite app_nil_r; reflexivity.
    - cbn [arr_loop do_index by_index std_sems idx_index].
      destruct (Z.eqb_spec i (Z.of_nat idx)) as [E|E].
      + assert (P : pick i idx (e :: es) = Some e).
        { unfold pick. rewrite E, Z.ltb_irrefl, Nat2Z.id, Nat.sub_diag. reflexivity. }
        rewrite P.
        assert (Q : pick i (S idx) es = None).
        { unfold pick. destruct (Z.ltb_spec i (Z.of_nat (S idx))); [reflexivity|lia]. }
        pose proof (found_contrib e) as C.
        destruct (expand r) as [|c cs].
        * rewrite IHe. rewrite Q. cbn [map]. rewrite app_nil_r. fold (Ref r e). rewrite <- C. reflexivity.
        * destruct C as [s C]. rewrite C. rewrite IHe. rewrite Q. cbn [map]. rewrite app_nil_r. reflexivity.
      + assert (P : pick i idx (e :: es) = pick i (S idx) es).
        { unfold pick. destruct (Z.ltb_spec i (Z.of_nat idx)) as [L|L].
          - destruct (Z.ltb_spec i (Z.of_nat (S idx))); [reflexivity|lia].
          - destruct (Z.ltb_spec i (Z.of_nat (S idx))) as [L2|L2]; [lia|].
            replace (Z.to_nat i - idx)%nat with (S (Z.to_nat i - S idx)) by lia. reflexivity. }
        rewrite P. apply IHe.
  Qed.

  (* ---- recursive descent: ..n followed by r ---- *)
  Definition Below (n : list N) (x : jv) : list res := map RTree (flat_map (ref_eval r) (desc n x)).
  Definition Own (x : jv) : list res := Ref r x.

  Lemma obj_rec n ms : forall acc,
    (forall k b x, In (k, b, x) ms -> exists s, EV x (XRec n :: expand r) = (Some (Below n x), s)) ->
    obj_loop std_sems EV (XRec n :: expand r) ms acc
    = (Some (acc ++ flat_map (fun m : list N * bool * jv => match m with (k, _, x) => (if list_eqb n k then Own x else []) ++ Below n x end) ms),
       XRec n :: expand r).
  Proof.
    induction ms as [|[[k b] x] ms IHm]; intros acc H.
    - cbn. rewrite app_nil_r. reflexivity.
    - cbn [obj_loop do_field by_field std_sems rec_field is_rec flat_map].
      destruct (H k b x (or_introl eq_refl)) as [sb Hb].
      assert (Hr : forall k b x, In (k, b, x) ms -> exists s, EV x (XRec n :: expand r) = (Some (Below n x), s)).
      { intros k' b' x' Hin. apply (H k' b' x'). right. exact Hin. }
      destruct (list_eqb n k).
      + pose proof (found_contrib x) as C.
        destruct (expand r) as [|c cs].
        * rewrite Hb. rewrite IHm by exact Hr. unfold Own. rewrite <- C. rewrite <- !app_assoc. reflexivity.
        * destruct C as [s C]. rewrite C. rewrite Hb. rewrite IHm by exact Hr. unfold Own. rewrite <- !app_assoc. reflexivity.
      + rewrite Hb. rewrite IHm by exact Hr. cbn [app]. rewrite <- !app_assoc. reflexivity.
  Qed.

  Lemma arr_rec n es : forall idx acc,
    (forall e, In e es -> exists s, EV e (XRec n :: expand r) = (Some (Below n e), s)) ->
    arr_loop std_sems EV (XRec n :: expand r) es idx acc
    = (Some (acc ++ flat_map (Below n) es), XRec n :: expand r).
  Proof.
    induction es as [|e es IHe]; intros idx acc H.
    - cbn. rewrite app_nil_r. reflexivity.
    - cbn [arr_loop do_index by_index std_sems rec_index flat_map].
      destruct (H e (or_introl eq_refl)) as [s He]. rewrite He.
      rewrite IHe by (intros e' Hin; apply H; right; exact Hin). rewrite <- app_assoc. reflexivity.
  Qed.

  Lemma below_obj n ms :
    Below n (JObj ms) = flat_map (fun m : list N * bool * jv => match m with (k, _, x) => (if list_eqb n k then Own x else []) ++ Below n x end) ms.
  Proof.
    unfold Below, Own, Ref. cbn [desc]. induction ms as [|[[k b] x] ms IHm]; [reflexivity|].
    cbn [flat_map]. rewrite !flat_map_app, !map_app, IHm. destruct (list_eqb n k); cbn [flat_map app]; rewrite ?app_nil_r; reflexivity.
  Qed.
  Lemma below_arr n es : Below n (JArr es) = flat_map (Below n) es.
  Proof.
    unfold Below. cbn [desc]. induction es as [|e es IHe]; [reflexivity|].
    cbn [flat_map]. rewrite flat_map_app, map_app, IHe. reflexivity.
  Qed.

  Lemma rec_all n : forall sz v, (size v <= sz)%nat -> exists s, EV v (XRec n :: expand r) = (Some (Below n v), s).
  Proof.
    induction sz as [|sz IHs]; intros v Hs; [destruct v; cbn in Hs; lia|].
    destruct v as [t|es|ms].
    - cbn [ev]. destruct t; eexists; reflexivity.
    - cbn [ev]. rewrite arr_rec.
      + rewrite below_arr. eexists; reflexivity.
      + intros e Hin. apply IHs. pose proof (in_size_le e es Hin). cbn [size] in Hs. lia.
    - cbn [ev]. rewrite obj_rec.
      + rewrite below_obj. eexists; reflexivity.
      + intros k b x Hin. apply IHs.
        assert (L : (size x <= fold_right (fun kv a => size (snd kv) + a) 0 ms)%nat).
        { clear - Hin. induction ms as [|[[k' b'] x'] ms IH]; [destruct Hin|]. cbn [fold_right snd]. destruct Hin as [E|Hin]; [inversion E; subst; lia|]. specialize (IH Hin). lia. }
        cbn [size] in Hs. lia.
  Qed.
End Ref.

Lemma pick0 i es : pick i 0 es = if (i <? 0)%Z then None else nth_error es (Z.to_nat i).
Proof. unfold pick. cbn [Z.of_nat]. rewrite Nat.sub_0_r. reflexivity. Qed.

(* a selector of the other kind selects nothing *)
Lemma arr_sel_none evk n c es : forall idx acc, arr_loop std_sems evk (XSel n :: c) es idx acc = (Some acc, XSel n :: c).
Proof. induction es as [|e r IH]; intros idx acc; [reflexivity|]. cbn [arr_loop do_index by_index std_sems sel_index]. apply IH. Qed.
Lemma obj_idx_none evk i c ms : forall acc, obj_loop std_sems evk (XIdx i :: c) ms acc = (Some acc, XIdx i :: c).
Proof. induction ms as [|[[k b] x] r IH]; intro acc; [reflexivity|]. cbn [obj_loop do_field by_field std_sems idx_field is_rec]. rewrite app_nil_r. apply IH. Qed.
Lemma obj_all_none evk c ms : forall acc, obj_loop std_sems evk (XAll :: c) ms acc = (Some acc, XAll :: c).
Proof. induction ms as [|[[k b] x] r IH]; intro acc; [reflexivity|]. cbn [obj_loop do_field by_field std_sems all_field is_rec]. rewrite app_nil_r. apply IH. Qed.

(* Extract = reference evaluation: every selector, recursive descent included, every document *)
Lemma ev_ref : forall ns v, ns <> [] -> exists s, EV v (expand ns) = (Some (Ref ns v), s).
Proof.
  induction ns as [|nd r IHr]; intros v NE; [contradiction|].
  assert (IH : forall x, r <> [] -> exists s, EV x (expand r) = (Some (Ref r x), s)) by (intros x N; apply IHr; exact N).
  destruct nd as [n|i| |n].
  - destruct v as [t|es|ms]; cbn [expand ev].
    + destruct t; eexists; reflexivity.
    + rewrite arr_sel_none. eexists; reflexivity.
    + rewrite (obj_sel r IH). eexists; reflexivity.
  - destruct v as [t|es|ms]; cbn [expand ev].
    + destruct t; eexists; reflexivity.
    + rewrite (arr_idx r IH). rewrite pick0. unfold Ref. cbn [ref_eval].
      destruct (i <? 0)%Z; [eexists; reflexivity|]. cbn [orb].
      destruct (Z.leb_spec (Z.of_nat (length es)) i) as [L|L].
      * assert (E : nth_error es (Z.to_nat i) = None) by (apply nth_error_None; lia). rewrite E. eexists; reflexivity.
      * eexists; reflexivity.
    + rewrite obj_idx_none. eexists; reflexivity.
  - destruct v as [t|es|ms]; cbn [expand ev].
    + destruct t; eexists; reflexivity.
    + rewrite (arr_all r IH). eexists; reflexivity.
    + rewrite obj_all_none. eexists; reflexivity.
  - cbn [expand]. destruct (rec_all r IH n (size v) v (le_n _)) as [s H]. exists s. rewrite H. reflexivity.
Qed.

Theorem extract_ref copies ns doc :
  fst (extract_call std_sems true copies (is_root ns) (expand ns) doc) = Some (map RTree (ref_eval ns doc)).
Proof.
  unfold extract_call. destruct ns as [|nd r] eqn:E.
  - reflexivity.
  - cbn [is_root]. rewrite <- E in *. assert (NE : ns <> []) by (subst ns; discriminate).
    destruct (ev_ref ns doc NE) as [s H]. rewrite H. reflexivity.
Qed.

(* ---------- the repaired deviations, each refuted for the old code ---------- *)
(* $.x on 1 : before the repair the scalar itself *)
Lemma selector_on_scalar_refuted :
  fst (ev std_sems false (JLeaf (TNum [49])) (expand [NSel [120]])) <> Some (map RTree (ref_eval [NSel [120]] (JLeaf (TNum [49])))).
Proof. vm_compute. discriminate. Qed.

(* $[*].a on [{"a":1},[2]] : before the repair an error where the reference skips the element *)
Lemma wildcard_then_selector_refuted :
  let d := JArr [JObj [([97], false, JLeaf (TNum [49]))]; JArr [JLeaf (TNum [50])]] in
  fst (ev old_sems false d (expand [NAll; NSel [97]])) = None /\ ref_eval [NAll; NSel [97]] d = [JLeaf (TNum [49])].
Proof. vm_compute. split; reflexivity. Qed.
