(* Path evaluation (Model/PathEval.v): purity under reuse when extractFromPath
   evaluates on a copy, the counterexample when it does not, and agreement with
   the reference evaluation wherever the recorded deviations stay silent. *)
From Coq Require Import NArith ZArith List Bool Lia.
From GJ Require Import Base.Bytes Spec.Json Model.Enc Model.Path Gen.PathShape Model.PathEval.
Import ListNotations.

(* what path.go is expected to say *)
Definition std_sems : node_sems :=
  {| sel_field := FEqChild; sel_index := IErr; idx_field := FErr; idx_index := IEqChild;
     all_field := FErr; all_index := IAlwaysChild; rec_field := FEqChild; rec_index := IAlwaysSelf |}.

(* ---------- purity ---------- *)
Lemma extract_call_copy_state sems ro st d : snd (extract_call sems true ro st d) = st.
Proof. unfold extract_call. destruct ro; [reflexivity|]. destruct (ev sems d st); reflexivity. Qed.

Lemma run_copy_pure sems ro st docs :
  run sems true ro st docs = map (fun d => fst (extract_call sems true ro st d)) docs.
Proof.
  induction docs as [|d r IH]; cbn [run map]; [reflexivity|].
  pose proof (extract_call_copy_state sems ro st d) as E.
  destruct (extract_call sems true ro st d) as [o st'] eqn:C. cbn [snd fst] in *. subst st'.
  rewrite IH. reflexivity.
Qed.

(* whatever documents one Path value met before, valid or not, answered or
   failed: the answer for the next document is the answer of a fresh Path *)
Theorem extract_pure sems ro st before d :
  last (run sems true ro st (before ++ [d])) None = fst (extract_call sems true ro st d).
Proof.
  rewrite run_copy_pure, map_app. cbn [map]. apply last_last.
Qed.

(* without the copy the cursor stays where a failed descent left it *)
Definition w_path : list pnode := [NSel [97]; NSel [98]].
Definition w_bad : jv := JObj [([97], false, JArr [JLeaf (TNum [49])])].               (* {"a":[1]} *)
Definition w_good : jv := JObj [([97], false, JObj [([98], false, JLeaf (TNum [50]))])]. (* {"a":{"b":2}} *)
Lemma extract_shared_cursor_refuted :
  last (run std_sems false false (expand w_path) ([w_bad] ++ [w_good])) None
  <> fst (extract_call std_sems false false (expand w_path) w_good).
Proof. vm_compute. discriminate. Qed.

(* ---------- agreement with the reference evaluation ---------- *)
Lemma expand_nil ns : expand ns = [] <-> ns = [].
Proof. destruct ns as [|[n|i| |n] r]; cbn; split; intro H; try discriminate; reflexivity. Qed.

Section Ref.
  Variable r : list pnode.
  Hypothesis IH : forall x, r <> [] -> fits r x = true ->
                            fst (ev std_sems x (expand r)) = Some (map RTree (ref_eval r x)).

  (* what one found member / element contributes *)
  Lemma found_contrib x : fits r x = true ->
    match expand r with
    | [] => [RTree x] = map RTree (ref_eval r x)
    | _ :: _ => exists s, ev std_sems x (expand r) = (Some (map RTree (ref_eval r x)), s)
    end.
  Proof.
    intro F. destruct (expand r) as [|c cs] eqn:E.
    - apply expand_nil in E. subst r. reflexivity.
    - assert (N : r <> []) by (intro Z; subst r; discriminate).
      pose proof (IH x N F) as H.
      destruct (ev std_sems x (c :: cs)) as [o s]. cbn [fst] in H. subst o. eexists; reflexivity.
  Qed.

  Lemma obj_sel n ms : forall acc,
    forallb (fits r) (members_named n ms) = true ->
    fst (obj_loop std_sems (ev std_sems) (XSel n :: expand r) ms acc)
    = Some (acc ++ map RTree (flat_map (ref_eval r) (members_named n ms))).
  Proof.
    induction ms as [|[[k b] x] ms IHm]; intros acc F.
    - cbn. rewrite app_nil_r. reflexivity.
    - cbn [obj_loop do_field by_field std_sems sel_field].
      unfold members_named in F |- *. cbn [flat_map] in F |- *. fold (members_named n ms) in F |- *.
      destruct (list_eqb n k).
      + cbn [app] in F. cbn [forallb] in F. apply andb_true_iff in F as [Fx Fr].
        rewrite flat_map_app. cbn [flat_map]. rewrite app_nil_r, map_app.
        pose proof (found_contrib x Fx) as C.
        destruct (expand r) as [|c cs].
        * rewrite IHm by exact Fr. rewrite C, <- app_assoc. reflexivity.
        * destruct C as [s C]. rewrite C. rewrite IHm by exact Fr. rewrite <- app_assoc. reflexivity.
      + cbn [app] in F |- *. apply IHm. exact F.
  Qed.

  Lemma arr_all es : forall idx acc,
    forallb (fits r) es = true ->
    fst (arr_loop std_sems (ev std_sems) (XAll :: expand r) es idx acc)
    = Some (acc ++ map RTree (flat_map (ref_eval r) es)).
  Proof.
    induction es as [|e es IHe]; intros idx acc F.
    - cbn. rewrite app_nil_r. reflexivity.
    - cbn [arr_loop do_index by_index std_sems all_index]. cbn [forallb] in F. apply andb_true_iff in F as [Fx Fr].
      cbn [flat_map]. rewrite map_app.
      pose proof (found_contrib e Fx) as C.
      destruct (expand r) as [|c cs].
      + rewrite IHe by exact Fr. rewrite C, <- app_assoc. reflexivity.
      + destruct C as [s C]. rewrite C. rewrite IHe by exact Fr. rewrite <- app_assoc. reflexivity.
  Qed.

  (* the element a non-negative index i selects from es when the loop stands at position idx *)
  Definition pick (i : Z) (idx : nat) (es : list jv) : option jv :=
    if (i <? Z.of_nat idx)%Z then None else nth_error es (Z.to_nat i - idx).

  Lemma arr_idx i es : forall idx acc,
    match pick i idx es with Some e => fits r e = true | None => True end ->
    fst (arr_loop std_sems (ev std_sems) (XIdx i :: expand r) es idx acc)
    = Some (acc ++ map RTree (match pick i idx es with Some e => ref_eval r e | None => [] end)).
  Proof.
    induction es as [|e es IHe]; intros idx acc F.
    - cbn [arr_loop fst]. unfold pick. destruct (i <? Z.of_nat idx)%Z; [|destruct (Z.to_nat i - idx)%nat]; cbn; rewrite app_nil_r; reflexivity.
    - cbn [arr_loop do_index by_index std_sems idx_index].
      destruct (Z.eqb_spec i (Z.of_nat idx)) as [E|E].
      + assert (P : pick i idx (e :: es) = Some e).
        { unfold pick. rewrite E, Z.ltb_irrefl, Nat2Z.id, Nat.sub_diag. reflexivity. }
        rewrite P in F |- *.
        assert (Q : pick i (S idx) es = None).
        { unfold pick. destruct (Z.ltb_spec i (Z.of_nat (S idx))); [reflexivity|lia]. }
        pose proof (found_contrib e F) as C.
        destruct (expand r) as [|c cs].
        * rewrite IHe by (rewrite Q; exact I). rewrite Q. cbn [map]. rewrite app_nil_r, C. reflexivity.
        * destruct C as [s C]. rewrite C. rewrite IHe by (rewrite Q; exact I). rewrite Q. cbn [map]. rewrite app_nil_r. reflexivity.
      + assert (P : pick i idx (e :: es) = pick i (S idx) es).
        { unfold pick. destruct (Z.ltb_spec i (Z.of_nat idx)) as [L|L].
          - destruct (Z.ltb_spec i (Z.of_nat (S idx))); [reflexivity|lia].
          - destruct (Z.ltb_spec i (Z.of_nat (S idx))) as [L2|L2]; [lia|].
            replace (Z.to_nat i - idx)%nat with (S (Z.to_nat i - S idx)) by lia. reflexivity. }
        rewrite P in F |- *. apply IHe. exact F.
  Qed.
End Ref.

Lemma pick0 i es : pick i 0 es = if (i <? 0)%Z then None else nth_error es (Z.to_nat i).
Proof. unfold pick. cbn [Z.of_nat]. rewrite Nat.sub_0_r. reflexivity. Qed.

Lemma ev_ref : forall ns v, ns <> [] -> fits ns v = true ->
  fst (ev std_sems v (expand ns)) = Some (map RTree (ref_eval ns v)).
Proof.
  induction ns as [|nd r IHr]; intros v NE F; [contradiction|].
  destruct nd as [n|i| |n]; cbn [fits] in F; try discriminate;
    destruct v as [t|es|ms]; try discriminate.
  - (* .name on an object *)
    cbn [expand ev ref_eval]. rewrite (obj_sel r IHr n ms [] F). reflexivity.
  - (* [i] on an array *)
    cbn [expand ev ref_eval]. rewrite (arr_idx r IHr i es 0 []).
    + rewrite pick0. destruct (i <? 0)%Z; [reflexivity|]. cbn [orb].
      destruct (Z.leb_spec (Z.of_nat (length es)) i) as [L|L].
      * assert (E : nth_error es (Z.to_nat i) = None) by (apply nth_error_None; lia). rewrite E. reflexivity.
      * destruct (nth_error es (Z.to_nat i)); reflexivity.
    + rewrite pick0. destruct (i <? 0)%Z; [exact I|]. cbn [orb] in F.
      destruct (Z.leb_spec (Z.of_nat (length es)) i) as [L|L].
      * assert (E : nth_error es (Z.to_nat i) = None) by (apply nth_error_None; lia). rewrite E. exact I.
      * destruct (nth_error es (Z.to_nat i)); [exact F|exact I].
  - (* [*] on an array *)
    cbn [expand ev ref_eval]. rewrite (arr_all r IHr es 0 [] F). reflexivity.
Qed.

(* Extract = reference evaluation, in document order, for every path without
   recursive descent and every document whose values have the kinds the
   selectors expect *)
Theorem extract_ref copies ns doc : fits ns doc = true ->
  fst (extract_call std_sems copies (is_root ns) (expand ns) doc) = Some (map RTree (ref_eval ns doc)).
Proof.
  intro F. unfold extract_call. destruct ns as [|nd r] eqn:E.
  - reflexivity.
  - cbn [is_root]. rewrite <- E in *. assert (NE : ns <> []) by (subst ns; discriminate).
    pose proof (ev_ref ns doc NE F) as H. destruct (ev std_sems doc (expand ns)) as [o s]. exact H.
Qed.

(* ---------- the recorded deviations, each with a witness outside `fits` ---------- *)
(* $.x on 1 : the scalar itself *)
Lemma selector_on_scalar_refuted :
  fst (ev std_sems (JLeaf (TNum [49])) (expand [NSel [120]])) <> Some (map RTree (ref_eval [NSel [120]] (JLeaf (TNum [49])))).
Proof. vm_compute. discriminate. Qed.

(* $..a on {"b":{"a":1}} : members that are not called a are skipped, not searched *)
Lemma recursive_descent_shallow_refuted :
  let d := JObj [([98], false, JObj [([97], false, JLeaf (TNum [49]))])] in
  fst (ev std_sems d (expand [NRec [97]])) <> Some (map RTree (ref_eval [NRec [97]] d)).
Proof. vm_compute. discriminate. Qed.

(* $[*].a on [{"a":1},[2]] : an error where the reference skips the element *)
Lemma wildcard_then_selector_refuted :
  let d := JArr [JObj [([97], false, JLeaf (TNum [49]))]; JArr [JLeaf (TNum [50])]] in
  fst (ev std_sems d (expand [NAll; NSel [97]])) = None /\ ref_eval [NAll; NSel [97]] d = [JLeaf (TNum [49])].
Proof. vm_compute. split; reflexivity. Qed.
