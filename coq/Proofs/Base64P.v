(* Base64 as Marshal writes and Unmarshal reads []byte values: for EVERY byte string the decoder gives back what the
   encoder was given; what the encoder writes consists of the 65 characters of the padded standard alphabet, none of
   which needs an escape in a JSON string; its length is the library's EncodedLen. *)
From Coq Require Import NArith ZArith List Bool Lia.
From Coq Require Import ZifyN ZifyNat ZifyBool.
From GJ Require Import Base.Bytes Model.Base64.
Import ListNotations.
Open Scope N_scope.
Ltac Zify.zify_post_hook ::= Z.div_mod_to_equations.

Lemma val_chr v : v < 64 -> b64val (b64chr v) = Some v.
Proof.
  intro H. unfold b64chr.
  destruct (N.ltb_spec v 26); [unfold b64val|destruct (N.ltb_spec v 52); [unfold b64val|destruct (N.ltb_spec v 62); [unfold b64val|]]].
  - replace ((65 <=? 65 + v) && (65 + v <=? 90)) with true by lia. f_equal. lia.
  - replace ((65 <=? 71 + v) && (71 + v <=? 90)) with false by lia.
    replace ((97 <=? 71 + v) && (71 + v <=? 122)) with true by lia. f_equal. lia.
  - replace ((65 <=? v - 4) && (v - 4 <=? 90)) with false by lia.
    replace ((97 <=? v - 4) && (v - 4 <=? 122)) with false by lia.
    replace ((48 <=? v - 4) && (v - 4 <=? 57)) with true by lia. f_equal. lia.
  - destruct (N.eqb_spec v 62) as [->|Hn]; [reflexivity|]. assert (v = 63) by lia. subst v. reflexivity.
Qed.

Lemma chr_not_nl v : v < 64 -> is_nl (b64chr v) = false.
Proof.
  intro H. unfold is_nl, b64chr.
  destruct (N.ltb_spec v 26); [lia|]. destruct (N.ltb_spec v 52); [lia|]. destruct (N.ltb_spec v 62); [lia|].
  destruct (N.eqb_spec v 62); reflexivity.
Qed.

(* one character of the alphabet in front of the decoder: it joins the quantum *)
Lemma dec_step v r q out : v < 64 ->
  b64dec_go (b64chr v :: r) q out =
  if Nat.eqb (length (q ++ [v])) 4 then b64dec_go r [] (rev (quantum_bytes (q ++ [v])) ++ out) else b64dec_go r (q ++ [v]) out.
Proof. intro H. cbn [b64dec_go]. rewrite (chr_not_nl v H), (val_chr v H). reflexivity. Qed.

Lemma pad_facts : is_nl PAD = false /\ b64val PAD = None /\ (PAD =? PAD) = true.
Proof. repeat split. Qed.

(* whole groups *)
Lemma dec_group a b c r out : a < 256 -> b < 256 -> c < 256 ->
  b64dec_go (b64chr (a / 4) :: b64chr ((a mod 4) * 16 + b / 16) :: b64chr ((b mod 16) * 4 + c / 64) :: b64chr (c mod 64) :: r) [] out
  = b64dec_go r [] (c :: b :: a :: out).
Proof.
  intros Ha Hb Hc.
  rewrite dec_step by lia. cbn [app length Nat.eqb].
  rewrite dec_step by lia. cbn [app length Nat.eqb].
  rewrite dec_step by lia. cbn [app length Nat.eqb].
  rewrite dec_step by lia. cbn [app length Nat.eqb quantum_bytes rev].
  replace ((a / 4 * 4 + ((a mod 4) * 16 + b / 16) / 16) mod 256) with a by lia.
  replace (((((a mod 4) * 16 + b / 16) mod 16) * 16 + ((b mod 16) * 4 + c / 64) / 4) mod 256) with b by lia.
  replace (((((b mod 16) * 4 + c / 64) mod 4) * 64 + c mod 64) mod 256) with c by lia.
  reflexivity.
Qed.

Lemma dec_enc_go : forall n bs out, (length bs <= n)%nat -> Forall (fun b => b < 256) bs ->
  b64dec_go (b64enc bs) [] out = Some (rev out ++ bs).
Proof.
  induction n as [|n IH]; intros bs out Hn Hok.
  - destruct bs; [|cbn in Hn; lia]. cbn. rewrite app_nil_r. reflexivity.
  - destruct bs as [|a [|b [|c r]]].
    + cbn. rewrite app_nil_r. reflexivity.
    + inversion Hok as [|? ? Ha _]; subst. cbn [b64enc].
      rewrite dec_step by lia. cbn [app length Nat.eqb].
      rewrite dec_step by lia. cbn [app length Nat.eqb].
      cbn [b64dec_go]. destruct pad_facts as (P1 & P2 & P3). rewrite P1, P2, P3. cbn [negb length skip_nl].
      rewrite P1, P3. cbn [skip_nl quantum_bytes rev app].
      replace ((a / 4 * 4 + (a mod 4) * 16 / 16) mod 256) with a by lia.
      cbn [rev app]. reflexivity.
    + inversion Hok as [|? ? Ha Hr]; subst. inversion Hr as [|? ? Hb _]; subst. cbn [b64enc].
      rewrite dec_step by lia. cbn [app length Nat.eqb].
      rewrite dec_step by lia. cbn [app length Nat.eqb].
      rewrite dec_step by lia. cbn [app length Nat.eqb].
      cbn [b64dec_go]. destruct pad_facts as (P1 & P2 & P3). rewrite P1, P2, P3. cbn [negb length app skip_nl quantum_bytes rev].
      replace ((a / 4 * 4 + ((a mod 4) * 16 + b / 16) / 16) mod 256) with a by lia.
      replace (((((a mod 4) * 16 + b / 16) mod 16) * 16 + (b mod 16) * 4 / 4) mod 256) with b by lia.
      cbn [rev app]. rewrite <- app_assoc. reflexivity.
    + inversion Hok as [|? ? Ha Hr]; subst. inversion Hr as [|? ? Hb Hr2]; subst. inversion Hr2 as [|? ? Hc Hr3]; subst.
      cbn [b64enc]. rewrite dec_group by assumption.
      rewrite IH; [|cbn [length] in Hn; lia|exact Hr3].
      cbn [rev]. rewrite <- !app_assoc. reflexivity.
Qed.

Theorem b64_round_trip bs : Forall (fun b => b < 256) bs -> b64dec (b64enc bs) = Some bs.
Proof. intro H. unfold b64dec. rewrite (dec_enc_go (length bs) bs [] (le_n _) H). reflexivity. Qed.

(* what Encode writes: characters of the alphabet, and as many as EncodedLen says *)
Lemma chr_char v : v < 64 -> b64char (b64chr v) = true.
Proof. intro H. unfold b64char. rewrite (val_chr v H). reflexivity. Qed.

Lemma enc_chars : forall n bs, (length bs <= n)%nat -> Forall (fun b => b < 256) bs -> forallb b64char (b64enc bs) = true.
Proof.
  induction n as [|n IH]; intros bs Hn Hok.
  - destruct bs; [reflexivity|cbn in Hn; lia].
  - destruct bs as [|a [|b [|c r]]]; [reflexivity| | |].
    + inversion Hok as [|? ? Ha _]; subst. cbn [b64enc forallb]. rewrite !chr_char by lia. reflexivity.
    + inversion Hok as [|? ? Ha Hr]; subst. inversion Hr as [|? ? Hb _]; subst. cbn [b64enc forallb]. rewrite !chr_char by lia. reflexivity.
    + inversion Hok as [|? ? Ha Hr]; subst. inversion Hr as [|? ? Hb Hr2]; subst. inversion Hr2 as [|? ? Hc Hr3]; subst.
      cbn [b64enc forallb]. rewrite !chr_char by lia. rewrite IH; [reflexivity|cbn [length] in Hn; lia|exact Hr3].
Qed.
Theorem b64enc_alphabet bs : Forall (fun b => b < 256) bs -> forallb b64char (b64enc bs) = true.
Proof. exact (enc_chars (length bs) bs (le_n _)). Qed.

(* a character of the alphabet is printable ASCII and none of: quote, backslash, <, >, & -- it stands for itself in a JSON string *)
Definition plain_char (c : N) : bool := (32 <=? c) && (c <? 127) && negb (c =? 34) && negb (c =? 92) && negb (c =? 60) && negb (c =? 62) && negb (c =? 38).
Lemma b64char_plain c : b64char c = true -> plain_char c = true.
Proof.
  unfold b64char, b64val, plain_char, PAD.
  destruct (N.leb_spec 65 c), (N.leb_spec c 90); cbn [andb]; try lia;
  destruct (N.leb_spec 97 c), (N.leb_spec c 122); cbn [andb]; try lia;
  destruct (N.leb_spec 48 c), (N.leb_spec c 57); cbn [andb]; try lia;
  destruct (N.eqb_spec c 43); try lia; destruct (N.eqb_spec c 47); try lia; intro H; try discriminate H; lia.
Qed.

Lemma enc_length : forall n bs, (length bs <= n)%nat -> length (b64enc bs) = (4 * ((length bs + 2) / 3))%nat.
Proof.
  induction n as [|n IH]; intros bs Hn.
  - destruct bs; [reflexivity|cbn in Hn; lia].
  - destruct bs as [|a [|b [|c r]]]; [reflexivity|reflexivity|reflexivity|].
    cbn [b64enc length]. rewrite IH by (cbn [length] in Hn; lia).
    replace (S (S (S (length r))) + 2)%nat with (length r + 2 + 1 * 3)%nat by lia.
    rewrite Nat.div_add by lia. lia.
Qed.
Theorem b64enc_length bs : length (b64enc bs) = (4 * ((length bs + 2) / 3))%nat.
Proof. exact (enc_length (length bs) bs (le_n _)). Qed.

(* whatever the decoder accepts, it returns bytes *)
Lemma quantum_bytes_ok q : Forall (fun b => b < 256) (quantum_bytes q).
Proof.
  destruct q as [|s0 [|s1 [|s2 [|s3 [|s4 r]]]]]; cbn [quantum_bytes]; repeat constructor; apply N.mod_lt; discriminate.
Qed.
Lemma dec_go_bytes : forall l q out bs, Forall (fun b => b < 256) out -> b64dec_go l q out = Some bs -> Forall (fun b => b < 256) bs.
Proof.
  assert (R : forall a b : list N, Forall (fun b => b < 256) a -> Forall (fun b => b < 256) b -> Forall (fun b => b < 256) (rev a ++ b)).
  { intros a b Ha Hb. apply Forall_app. split; [apply Forall_rev; exact Ha|exact Hb]. }
  induction l as [|c r IH]; intros q out bs Ho H; cbn [b64dec_go] in H.
  - destruct q; [|discriminate H]. inversion H; subst. apply Forall_rev. exact Ho.
  - destruct (is_nl c); [exact (IH _ _ _ Ho H)|].
    destruct (b64val c) as [v|].
    + destruct (Nat.eqb (length (q ++ [v])) 4).
      * apply (IH _ _ _ (R _ _ (quantum_bytes_ok _) Ho) H).
      * exact (IH _ _ _ Ho H).
    + destruct (negb (c =? PAD)); [discriminate H|].
      destruct (length q) as [|[|[|[|n]]]]; try discriminate H.
      * destruct (skip_nl r) as [|c2 r2]; [discriminate H|]. destruct (c2 =? PAD); [|discriminate H].
        destruct (skip_nl r2); [|discriminate H]. inversion H; subst. apply Forall_rev. exact (R _ _ (quantum_bytes_ok _) Ho).
      * destruct (skip_nl r); [|discriminate H]. inversion H; subst. apply Forall_rev. exact (R _ _ (quantum_bytes_ok _) Ho).
Qed.
Theorem b64dec_bytes s bs : b64dec s = Some bs -> Forall (fun b => b < 256) bs.
Proof. exact (dec_go_bytes s [] [] bs (Forall_nil _)). Qed.

(* the decoder is not the inverse of the encoder only: CR and LF anywhere change nothing *)
Lemma dec_skips_nl c r q out : is_nl c = true -> b64dec_go (c :: r) q out = b64dec_go r q out.
Proof. intro H. cbn [b64dec_go]. rewrite H. reflexivity. Qed.

Example b64_ex :
  b64enc [102; 111; 111; 98] = [90; 109; 57; 118; 89; 103; 61; 61] /\
  b64dec [90; 109; 57; 118; 10; 89; 103; 61; 13; 61; 10] = Some [102; 111; 111; 98] /\
  b64dec [90; 109; 57; 118; 89; 103; 61] = None /\ b64dec [90; 109; 57; 118; 89] = None /\
  b64dec [90; 109; 57; 118; 89; 104; 61; 61] = Some [102; 111; 111; 98].
Proof. repeat split. Qed.
