(* Proofs about the integer printer model (Model/Int.v, encoder part). *)
From Coq Require Import NArith ZArith List Bool Lia.
From Coq Require Import ZifyN ZifyNat ZifyBool.
From GJ Require Import Base.Bytes Base.Word64 Gen.Tables Model.Int.
Import ListNotations.
Open Scope N_scope.
Ltac Zify.zify_post_hook ::= Z.div_mod_to_equations.

(* ---------- canonical decimal text, specified by value ---------- *)
Definition is_digit (c : N) : Prop := 48 <= c <= 57.
Fixpoint value (s : list N) (acc : N) : N :=
  match s with [] => acc | c :: r => value r (10 * acc + (c - 48)) end.
Definition canonical (s : list N) (n : N) : Prop :=
  Forall is_digit s /\ value s 0 = n /\ s <> [] /\ (hd 0 s = 48 -> s = [48]).

Lemma value_app s t a : value (s ++ t) a = value t (value s a).
Proof. revert a; induction s as [|c s IH]; intro a; cbn; [reflexivity|apply IH]. Qed.

Lemma value_acc s a : Forall is_digit s -> value s a = a * 10 ^ N.of_nat (length s) + value s 0.
Proof.
  revert a. induction s as [|c s IH]; intros a H; cbn [value length].
  - cbn. lia.
  - inversion H as [|? ? Hc Hs]; subst. rewrite (IH (10 * a + (c - 48)) Hs), (IH (10*0 + (c-48)) Hs).
    rewrite Nat2N.inj_succ, N.pow_succ_r'. lia.
Qed.

Lemma value_bound s : Forall is_digit s -> value s 0 < 10 ^ N.of_nat (length s).
Proof.
  induction s as [|c s IH] using rev_ind; intro H.
  - cbn. lia.
  - apply Forall_app in H. destruct H as [Hs Hc]. inversion Hc as [|? ? Hd _]; subst.
    rewrite value_app. cbn [value]. rewrite app_length. cbn [length].
    rewrite Nat.add_1_r, Nat2N.inj_succ, N.pow_succ_r'. specialize (IH Hs).
    unfold is_digit in Hd. lia.
Qed.

(* canonical texts are unique: same value -> same text *)
Lemma canonical_length_lower s n : canonical s n -> n <> 0 -> 10 ^ N.of_nat (length s - 1) <= n.
Proof.
  intros (Hd & Hv & Hne & Hz) Hn. destruct s as [|c r]; [congruence|].
  cbn [length]. rewrite Nat.sub_succ, Nat.sub_0_r.
  inversion Hd as [|? ? Hc Hr]; subst. cbn [value]. rewrite value_acc by assumption.
  cbn [hd] in Hz. unfold is_digit in Hc.
  assert (c <> 48).
  { intro E. specialize (Hz E). inversion Hz; subst. cbn in Hn. lia. }
  nia.
Qed.

(* ---------- the two-digit table, read from the source ---------- *)
Lemma lookup_fact : forall j, j < 100 ->
  tbl0 enc_intLELookup j = (48 + j / 10) + 256 * (48 + j mod 10).
Proof.
  intros j Hj.
  pose (P := fun j => tbl0 enc_intLELookup j =? (48 + j / 10) + 256 * (48 + j mod 10)).
  assert (HP : forallb P (upto_nat 100) = true) by (vm_compute; reflexivity).
  assert (H : P j = true) by (apply (forall_upto P 100 HP); exact Hj).
  unfold P in H.
  apply N.eqb_eq in H. exact H.
Qed.

Lemma pair_digits j : j < 100 ->
  Forall is_digit (pair_bytes (tbl0 enc_intLELookup j)) /\
  value (pair_bytes (tbl0 enc_intLELookup j)) 0 = j /\
  length (pair_bytes (tbl0 enc_intLELookup j)) = 2%nat /\
  pair_bytes (tbl0 enc_intLELookup j) = [48 + j / 10; 48 + j mod 10].
Proof.
  intro H. rewrite (lookup_fact j H). unfold pair_bytes.
  assert (E1: ((48 + j / 10) + 256 * (48 + j mod 10)) mod 256 = 48 + j / 10) by lia.
  assert (E2: ((48 + j / 10) + 256 * (48 + j mod 10)) / 256 = 48 + j mod 10) by lia.
  rewrite E1, E2. split; [|split; [|split]].
  - constructor; [unfold is_digit; lia|]. constructor; [unfold is_digit; lia|]. constructor.
  - cbn [value]. lia.
  - reflexivity.
  - reflexivity.
Qed.

(* ---------- loop invariant ---------- *)
Lemma loop_inv fuel : forall n acc m acc',
  digit_loop fuel n acc = (m, acc') ->
  Forall is_digit acc ->
  Forall is_digit acc' /\
  m * 10 ^ N.of_nat (length acc') + value acc' 0 = n * 10 ^ N.of_nat (length acc) + value acc 0 /\
  (n < 100 ^ N.of_nat fuel -> m < 100) /\ (length acc <= length acc')%nat /\
  (100 <= n -> fuel <> O -> (length acc < length acc')%nat) /\ (1 <= n -> 1 <= m).
Proof.
  induction fuel as [|f IH]; intros n acc m acc' H Hd; cbn [digit_loop] in H.
  - inversion H; subst. repeat split; auto; try lia.
  - destruct (N.leb_spec 100 n) as [Hge|Hlt].
    + destruct (pair_digits (n mod 100)) as (P1 & P2 & P3 & _); [lia|].
      apply IH in H; [|apply Forall_app; split; assumption].
      destruct H as (A & B & C & D & E & F). rewrite app_length, P3 in D. split; [assumption|]. split; [|split; [|split; [|split]]].
      * rewrite B. rewrite app_length, P3. rewrite value_app, (value_acc acc) by assumption.
        rewrite P2. rewrite Nat2N.inj_add. change (N.of_nat 2) with 2. rewrite N.pow_add_r.
        change (10^2) with 100.
        assert (n = 100 * (n / 100) + n mod 100) by (apply N.div_mod'; lia). nia.
      * intro Hn. apply C. rewrite Nat2N.inj_succ, N.pow_succ_r' in Hn.
        apply N.div_lt_upper_bound; lia.
      * lia.
      * intros _ _. lia.
      * intros _. apply F. apply N.div_le_lower_bound; lia.
    + inversion H; subst. repeat split; auto; try lia.
Qed.

Lemma digits_slow_canonical n : 1 <= n -> n < 2^64 -> canonical (digits_slow n) n.
Proof.
  intros H100 Hn. unfold digits_slow.
  destruct (digit_loop 11 n []) as [m acc] eqn:EL.
  apply loop_inv in EL; [|constructor]. destruct EL as (A & B & C & D & E & F).
  assert (Hm: m < 100). { apply C. change (N.of_nat 11) with 11. change (100^11) with 10000000000000000000000. lia. }
  cbn [length value] in B.
  destruct (pair_digits m Hm) as (P1 & P2 & P3 & P4).
  destruct (N.ltb_spec m 10) as [Hm10|Hm10].
  - rewrite P4. cbn [tl]. unfold canonical. repeat split.
    + constructor; [unfold is_digit; lia|assumption].
    + cbn [app value]. rewrite value_acc by assumption.
      assert (m mod 10 = m) by (apply N.mod_small; lia). lia.
    + discriminate.
    + cbn [app hd]. intro E0. assert (m = 0) by lia. subst m.
      exfalso. assert (1 <= 0) by (apply F; lia). lia.
  - unfold canonical. repeat split.
    + apply Forall_app; split; assumption.
    + rewrite value_app, P2, value_acc by assumption. lia.
    + intro E0. apply app_eq_nil in E0. destruct E0 as [E0 _]. rewrite E0 in P3. discriminate.
    + rewrite P4. cbn [app hd]. intro E0. exfalso.
      assert (m / 10 = 0) by lia. apply N.div_small_iff in H; lia.
Qed.

Lemma small_canonical n : n < 100 ->
  canonical (if n <? 10 then [n + 48] else pair_bytes (tbl0 enc_intLELookup n)) n.
Proof.
  intro H. destruct (N.ltb_spec n 10) as [H10|H10].
  - unfold canonical. cbn [value hd]. repeat split.
    + constructor; [unfold is_digit; lia|constructor].
    + lia.
    + discriminate.
    + intro E. f_equal. exact E.
  - destruct (pair_digits n H) as (P1 & P2 & P3 & P4). unfold canonical. repeat split; try assumption.
    + intro E. rewrite E in P3. discriminate.
    + rewrite P4. cbn [hd]. intro E. exfalso.
      assert (n / 10 = 0) by lia. apply N.div_small_iff in H0; lia.
Qed.

Definition width_ok (bits : N) : Prop := bits = 8 \/ bits = 16 \/ bits = 32 \/ bits = 64.

Lemma num_mask_ones bits : width_ok bits -> num_mask bits = N.ones bits.
Proof. intros [E|[E|[E|E]]]; subst; vm_compute; reflexivity. Qed.

Lemma pow_le_64 bits : width_ok bits -> 2 ^ bits <= 2 ^ 64.
Proof. intros [E|[E|[E|E]]]; subst; vm_compute; discriminate. Qed.

Theorem append_uint_canonical bits u :
  width_ok bits -> canonical (append_uint bits u) (u mod 2 ^ bits).
Proof.
  intro Hw. unfold append_uint. rewrite (num_mask_ones bits Hw), N.land_ones.
  set (n := u mod 2 ^ bits).
  assert (Hn : n < 2 ^ 64).
  { pose proof (pow_le_64 bits Hw). assert (n < 2 ^ bits) by (apply N.mod_lt; apply N.pow_nonzero; lia). lia. }
  destruct (N.ltb_spec n 10) as [H10|H10].
  - pose proof (small_canonical n ltac:(lia)) as S. destruct (N.ltb_spec n 10); [exact S|lia].
  - destruct (N.ltb_spec n 100) as [H100|H100].
    + pose proof (small_canonical n H100) as S. destruct (N.ltb_spec n 10); [lia|exact S].
    + apply digits_slow_canonical; [lia|assumption].
Qed.

(* signed: the printer receives the zero-extended two's-complement pattern *)
Definition twos (bits : N) (z : Z) : N := Z.to_N (z mod 2 ^ Z.of_N bits).

Definition canonical_int (s : list N) (z : Z) : Prop :=
  if (z <? 0)%Z then exists d, s = 45 :: d /\ canonical d (Z.to_N (- z))
  else canonical s (Z.to_N z).

Lemma sign_test bits u : width_ok bits -> u < 2 ^ bits ->
  (N.land (N.shiftr u (bits - 1)) 1 =? 1) = (2 ^ (bits - 1) <=? u).
Proof.
  intros Hw Hu. rewrite N.shiftr_div_pow2. change 1 with (N.ones 1) at 2.
  rewrite N.land_ones. change (2 ^ 1) with 2.
  assert (Hp : 2 ^ bits = 2 * 2 ^ (bits - 1)).
  { destruct Hw as [E|[E|[E|E]]]; subst; vm_compute; reflexivity. }
  assert (Hpos : 0 < 2 ^ (bits - 1)) by (apply N.neq_0_lt_0, N.pow_nonzero; lia).
  destruct (N.leb_spec (2 ^ (bits - 1)) u) as [H|H].
  - apply N.eqb_eq. assert (u / 2 ^ (bits - 1) = 1).
    { symmetry. apply (N.div_unique u (2 ^ (bits-1)) 1 (u - 2 ^ (bits-1))); lia. }
    rewrite H0. reflexivity.
  - apply N.eqb_neq. rewrite (N.div_small u) by lia. cbn. discriminate.
Qed.

Theorem append_int_canonical bits z :
  width_ok bits -> (- 2 ^ (Z.of_N bits - 1) <= z < 2 ^ (Z.of_N bits - 1))%Z ->
  canonical_int (append_int bits (twos bits z)) z.
Proof.
  intros Hw Hz. unfold append_int, canonical_int.
  rewrite (num_mask_ones bits Hw).
  set (u := twos bits z).
  assert (HpZ : (2 ^ Z.of_N bits = 2 * 2 ^ (Z.of_N bits - 1))%Z).
  { destruct Hw as [E|[E|[E|E]]]; subst; vm_compute; reflexivity. }
  assert (HpN : Z.of_N (2 ^ bits) = (2 ^ Z.of_N bits)%Z) by (rewrite N2Z.inj_pow; reflexivity).
  assert (HhN : Z.of_N (2 ^ (bits - 1)) = (2 ^ (Z.of_N bits - 1))%Z).
  { destruct Hw as [E|[E|[E|E]]]; subst; vm_compute; reflexivity. }
  assert (Hpos : (0 < 2 ^ (Z.of_N bits - 1))%Z) by lia.
  assert (Hu : u < 2 ^ bits).
  { unfold u, twos. pose proof (Z.mod_pos_bound z (2 ^ Z.of_N bits)). lia. }
  assert (Hland : N.land u (N.ones bits) = u).
  { rewrite N.land_ones. apply N.mod_small. exact Hu. }
  rewrite Hland. rewrite (sign_test bits u Hw Hu).
  pose proof (pow_le_64 bits Hw) as H64.
  destruct (Z.ltb_spec z 0) as [Hneg|Hnn].
  - (* negative *)
    assert (Eu : Z.of_N u = (z + 2 ^ Z.of_N bits)%Z).
    { unfold u, twos. rewrite Z2N.id by (apply Z.mod_pos_bound; lia).
      symmetry. apply (Z.mod_unique z (2 ^ Z.of_N bits) (-1) (z + 2 ^ Z.of_N bits)); lia. }
    destruct (N.leb_spec (2 ^ (bits - 1)) u) as [H|H]; [|lia].
    eexists. split; [reflexivity|].
    assert (En : N.land (wneg u) (N.ones bits) = Z.to_N (- z)).
    { rewrite N.land_ones. unfold wneg, W.
      rewrite (N.mod_small u) by (change 18446744073709551616 with (2^64); lia).
      assert (0 < u) by lia.
      rewrite (N.mod_small (18446744073709551616 - u)) by lia.
      change 18446744073709551616 with (2^64).
      assert (Hdiv : exists k, 2 ^ 64 = k * 2 ^ bits).
      { destruct Hw as [E|[E|[E|E]]]; subst; [exists (2^56)|exists (2^48)|exists (2^32)|exists 1]; vm_compute; reflexivity. }
      destruct Hdiv as [k Hk].
      assert (Hm2 : Z.to_N (- z) = 2 ^ bits - u) by lia.
      assert (Hk1 : 1 <= k) by (destruct k; [cbn in Hk; discriminate|lia]).
      symmetry. apply (N.mod_unique _ _ (k - 1)); [lia|].
      rewrite Hm2, Hk. generalize dependent (2 ^ bits). intros. nia. }
    rewrite En.
    set (m := Z.to_N (- z)).
    assert (Hm : m < 2 ^ 64) by lia.
    apply digits_slow_canonical; [lia|exact Hm].
  - destruct (N.leb_spec (2 ^ (bits - 1)) u) as [H|H].
    + exfalso. unfold u, twos in H. rewrite Z.mod_small in H by lia. lia.
    + assert (Eu : u = Z.to_N z). { unfold u, twos. rewrite Z.mod_small by lia. reflexivity. }
      rewrite <- Eu.
      assert (Hn : u < 2 ^ 64) by lia.
      destruct (N.ltb_spec u 10) as [H10|H10].
      * pose proof (small_canonical u ltac:(lia)) as S. destruct (N.ltb_spec u 10); [exact S|lia].
      * destruct (N.ltb_spec u 100) as [H100|H100].
        -- pose proof (small_canonical u H100) as S. destruct (N.ltb_spec u 10); [lia|exact S].
        -- apply digits_slow_canonical; [lia|assumption].
Qed.
