(* What the slow loop emits is a well-formed JSON string body: no raw control
   character, quote or backslash outside an escape; with HTML escaping no raw
   <, >, &; with normalisation no U+2028/U+2029. *)
From Coq Require Import NArith ZArith List Bool Lia.
From Coq Require Import ZifyN ZifyNat ZifyBool.
From GJ Require Import Base.Bytes Base.Word64 Gen.Tables Gen.Swar Model.StrEnc Proofs.WordP Proofs.SwarP.
Import ListNotations.
Open Scope N_scope.

Definition is_hex (c : N) : bool :=
  ((48 <=? c) && (c <=? 57)) || ((97 <=? c) && (c <=? 102)) || ((65 <=? c) && (c <=? 70)).

Definition raw_ok (html : bool) (c : N) : bool :=
  (32 <=? c) && negb (c =? 34) && negb (c =? 92) &&
  (if html then negb ((c =? 60) || (c =? 62) || (c =? 38)) else true).

Definition simple_esc (e : N) : bool :=
  (e =? 34) || (e =? 92) || (e =? 47) || (e =? 98) || (e =? 102) || (e =? 110) || (e =? 114) || (e =? 116).

(* recogniser of JSON string bodies (RFC 8259 section 7), plus the HTML rule *)
Fixpoint body_ok (html : bool) (l : list N) : bool :=
  match l with
  | [] => true
  | c :: r =>
      if c =? 92 then
        match r with
        | [] => false
        | e :: r1 =>
            if simple_esc e then body_ok html r1
            else if e =? 117 then
              match r1 with
              | h1 :: h2 :: h3 :: h4 :: r2 =>
                  is_hex h1 && is_hex h2 && is_hex h3 && is_hex h4 && body_ok html r2
              | _ => false
              end
            else false
        end
      else raw_ok html c && body_ok html r
  end.

Lemma body_ok_raw html c r : raw_ok html c = true -> body_ok html (c :: r) = body_ok html r.
Proof.
  intro H. cbn [body_ok].
  destruct (N.eqb_spec c 92) as [E|E]; [exfalso; unfold raw_ok in H; destruct html; lia|].
  rewrite H. reflexivity.
Qed.

Lemma body_ok_raws html p : forall r, forallb (raw_ok html) p = true -> body_ok html (p ++ r) = body_ok html r.
Proof.
  induction p as [|c p IH]; intros r H; [reflexivity|]. cbn [forallb] in H. apply andb_true_iff in H.
  destruct H as [H1 H2]. cbn [app]. rewrite body_ok_raw by exact H1. apply IH. exact H2.
Qed.

Lemma hexdig_is_hex n : n < 16 -> is_hex (hexdig n) = true.
Proof.
  intro H. pose (P := fun n => is_hex (hexdig n)).
  assert (HP : forallb P (upto_nat 16) = true) by (vm_compute; reflexivity).
  exact (forall_upto P 16 HP n H).
Qed.

Lemma body_ok_u00 html c r : c < 256 -> body_ok html (u00 c ++ r) = body_ok html r.
Proof.
  intro Hc. unfold u00. cbn [app body_ok]. change (92 =? 92) with true. cbn iota.
  change (simple_esc 117) with false. change (117 =? 117) with true. cbn iota.
  change (is_hex 48) with true.
  rewrite (hexdig_is_hex (N.shiftr c 4)) by (rewrite N.shiftr_div_pow2; change (2^4) with 16; apply N.div_lt_upper_bound; lia).
  rewrite (hexdig_is_hex (N.land c 15)) by (change 15 with (N.ones 4); rewrite N.land_ones; apply N.mod_lt; discriminate).
  reflexivity.
Qed.

Lemma if_match_sep {A} (h : bool) (o : option N) (F : N -> A) (B : A) :
  (if h then match o with Some y => F y | None => B end else B) =
  match (if h then o else None) with Some y => F y | None => B end.
Proof. destruct h; reflexivity. Qed.

Lemma body_ok_u202 html y r : body_ok html ([92; 117; 50; 48; 50; hexdig (N.land y 15)] ++ r) = body_ok html r.
Proof.
  cbn [app body_ok]. change (92 =? 92) with true. cbn iota.
  change (simple_esc 117) with false. change (117 =? 117) with true. cbn iota.
  change (is_hex 50) with true. change (is_hex 48) with true.
  rewrite (hexdig_is_hex (N.land y 15)) by (change 15 with (N.ones 4); rewrite N.land_ones; apply N.mod_lt; discriminate).
  reflexivity.
Qed.

Section Variant.
  Variable need : list N.
  Variable html normalize : bool.

  (* table facts, decided by a sweep over the 256 bytes for each variant *)
  Definition table_ok : bool :=
    forallb (fun c =>
      (if tblb need c then
         match escape_of html c with
         | Some _ => true
         | None => 128 <=? c          (* only non-ASCII bytes reach the rune decoder *)
         end
       else raw_ok html c)) all_bytes.
  Hypothesis Htable : table_ok = true.

  Lemma unflagged_raw c : c < 256 -> tblb need c = false -> raw_ok html c = true.
  Proof.
    intros Hc T. pose proof (forall_bytes _ Htable c Hc) as E. cbv beta in E. rewrite T in E. exact E.
  Qed.

  Lemma flagged_noesc c : c < 256 -> tblb need c = true -> escape_of html c = None -> 128 <= c.
  Proof.
    intros Hc T Ee. pose proof (forall_bytes _ Htable c Hc) as E. cbv beta in E. rewrite T, Ee in E. lia.
  Qed.

  Lemma escape_ok c e r : c < 256 -> escape_of html c = Some e -> body_ok html (e ++ r) = body_ok html r.
  Proof.
    intros Hc. unfold escape_of.
    destruct ((c =? 92) || (c =? 34)) eqn:E1.
    { intro H; inversion H; subst. cbn [app body_ok]. change (92 =? 92) with true. cbn iota.
      assert (S : simple_esc c = true) by (unfold simple_esc; lia). rewrite S. reflexivity. }
    destruct (c =? 10); [intro H; inversion H; subst; reflexivity|].
    destruct (c =? 13); [intro H; inversion H; subst; reflexivity|].
    destruct (c =? 9); [intro H; inversion H; subst; reflexivity|].
    destruct (html && ((c =? 60) || (c =? 62) || (c =? 38))).
    { intro H; inversion H; subst. apply body_ok_u00. exact Hc. }
    destruct (c <? 32); [|discriminate].
    intro H; inversion H; subst. apply body_ok_u00. exact Hc.
  Qed.

  Lemma high_raw c : 128 <= c -> raw_ok html c = true.
  Proof. intro H. unfold raw_ok. destruct html; lia. Qed.

  (* bytes the rune decoder passes through raw are all >= 0x80 *)
  Lemma decode_rune_valid_high s size : ok s -> hd 0 s >= 128 ->
    decode_rune s = (RValid, size) -> forallb (raw_ok html) (firstn (N.to_nat size) s) = true.
  Proof.
    intros Hs Hh. unfold decode_rune.
    destruct s as [|s0 r]; [intro H; inversion H|]. cbn [hd] in Hh.
    set (x := tbl0 enc_first s0).
    destruct (Z.to_N enc_as <=? x) eqn:EA0.
    { destruct (x =? Z.to_N enc_xx); intro H; inversion H; subst.
      change (N.to_nat 1) with 1%nat; change (N.to_nat 2) with 2%nat; change (N.to_nat 3) with 3%nat; change (N.to_nat 4) with 4%nat; cbn [firstn forallb]. rewrite high_raw by lia. reflexivity. }
    destruct (N.of_nat (length (s0 :: r)) <? N.land x 7); [intro H; inversion H|].
    destruct r as [|s1 r1]; [intro H; inversion H|].
    set (ok1 := if N.shiftr x 4 =? 0 then in_rng (Z.to_N enc_locb) (Z.to_N enc_hicb) s1
                else if N.shiftr x 4 =? 1 then in_rng 160 (Z.to_N enc_hicb) s1
                else if N.shiftr x 4 =? 2 then in_rng (Z.to_N enc_locb) 159 s1
                else if N.shiftr x 4 =? 3 then in_rng 144 (Z.to_N enc_hicb) s1
                else if N.shiftr x 4 =? 4 then in_rng (Z.to_N enc_locb) 143 s1 else true).
    destruct ok1 eqn:O1; cbn [negb]; [|intro H; inversion H].
    assert (H1 : N.shiftr x 4 <= 4 -> 128 <= s1).
    { intro L. unfold ok1, in_rng in O1. change (Z.to_N enc_locb) with 128 in O1. change (Z.to_N enc_hicb) with 191 in O1.
      destruct (N.shiftr x 4 =? 0) eqn:A0; [lia|]. destruct (N.shiftr x 4 =? 1) eqn:A1; [lia|].
      destruct (N.shiftr x 4 =? 2) eqn:A2; [lia|]. destruct (N.shiftr x 4 =? 3) eqn:A3; [lia|].
      destruct (N.shiftr x 4 =? 4) eqn:A4; [lia|]. lia. }
    assert (Hx : N.shiftr x 4 <= 4).
    { (* every multi-byte entry of `first` has accept index 0..4 *)
      inversion Hs as [|? ? Hs0 _]; subst.
      pose (P := fun c => (Z.to_N enc_as <=? tbl0 enc_first c) || (N.shiftr (tbl0 enc_first c) 4 <=? 4)).
      assert (HP : forallb P all_bytes = true) by (vm_compute; reflexivity).
      pose proof (forall_bytes P HP s0 Hs0) as E. unfold P in E. fold x in E.
      rewrite EA0 in E. cbn [orb] in E. lia. }
    specialize (H1 Hx).
    destruct (N.land x 7 <=? 2).
    { intro H; inversion H; subst. change (N.to_nat 1) with 1%nat; change (N.to_nat 2) with 2%nat; change (N.to_nat 3) with 3%nat; change (N.to_nat 4) with 4%nat; cbn [firstn forallb].
      rewrite !high_raw by lia. reflexivity. }
    destruct r1 as [|s2 r2]; [intro H; inversion H|].
    destruct (in_rng (Z.to_N enc_locb) (Z.to_N enc_hicb) s2) eqn:O2; cbn [negb]; [|intro H; inversion H].
    assert (H2 : 128 <= s2) by (unfold in_rng in O2; change (Z.to_N enc_locb) with 128 in O2; lia).
    destruct (N.land x 7 <=? 3).
    { destruct ((s0 =? 226) && (s1 =? 128)).
      - destruct (s2 =? 168); [intro H; inversion H|]. destruct (s2 =? 169); [intro H; inversion H|].
        intro H; inversion H; subst. change (N.to_nat 1) with 1%nat; change (N.to_nat 2) with 2%nat; change (N.to_nat 3) with 3%nat; change (N.to_nat 4) with 4%nat; cbn [firstn forallb]. rewrite !high_raw by lia. reflexivity.
      - intro H; inversion H; subst. change (N.to_nat 1) with 1%nat; change (N.to_nat 2) with 2%nat; change (N.to_nat 3) with 3%nat; change (N.to_nat 4) with 4%nat; cbn [firstn forallb]. rewrite !high_raw by lia. reflexivity. }
    destruct r2 as [|s3 r3]; [intro H; inversion H|].
    destruct (in_rng (Z.to_N enc_locb) (Z.to_N enc_hicb) s3) eqn:O3; cbn [negb]; [|intro H; inversion H].
    assert (H3 : 128 <= s3) by (unfold in_rng in O3; change (Z.to_N enc_locb) with 128 in O3; lia).
    intro H; inversion H; subst. change (N.to_nat 1) with 1%nat; change (N.to_nat 2) with 2%nat; change (N.to_nat 3) with 3%nat; change (N.to_nat 4) with 4%nat; cbn [firstn forallb]. rewrite !high_raw by lia. reflexivity.
  Qed.

  Theorem slow_body_ok f : forall s, ok s -> body_ok html (slow need html normalize f s) = true.
  Proof.
    induction f as [|f IH]; intros s Hs; [reflexivity|].
    destruct s as [|c r]; [reflexivity|]. inversion Hs as [|? ? Hc Hr]; subst.
    cbn [slow]. destruct (tblb need c) eqn:T; cbn [negb].
    2:{ rewrite body_ok_raw by (apply unflagged_raw; assumption). apply IH. exact Hr. }
    destruct (escape_of html c) as [e|] eqn:Ee.
    { rewrite (escape_ok c e _ Hc Ee). apply IH. exact Hr. }
    pose proof (flagged_noesc c Hc T Ee) as Hhigh.
    destruct normalize.
    2:{ rewrite if_match_sep. destruct (if html then sep3 (c :: r) else None) as [y|].
        - rewrite body_ok_u202. apply IH. apply SwarP.ok_skipn. exact Hs.
        - rewrite body_ok_raw by (apply high_raw; exact Hhigh). apply IH. exact Hr. }
    destruct (decode_rune (c :: r)) as [st size] eqn:D.
    destruct st.
    - rewrite body_ok_raws by (apply (decode_rune_valid_high (c :: r) size Hs); [cbn; lia|exact D]).
      apply IH. apply SwarP.ok_skipn. exact Hs.
    - cbn [app body_ok]. apply IH. exact Hr.
    - cbn [app body_ok]. apply IH. apply SwarP.ok_skipn. exact Hs.
    - cbn [app body_ok]. apply IH. apply SwarP.ok_skipn. exact Hs.
  Qed.
End Variant.
