(* The number recogniser as the translator reads it from the source (a program of Base/ScanProg.v) computes, on
   every byte string, what the hand-written model valid_number computes -- which Proofs/CompactLeafP.v proves equal
   to the RFC 8259 number grammar.  Proved for the program text `vn_prog`; Properties/C18.v and C03.v check that
   the two recognisers in the source (internal/encoder/compact.go and internal/decoder/number.go) are that text. *)
From Coq Require Import NArith List Bool Lia.
From GJ Require Import Base.ScanProg Model.Compact.
Import ListNotations.
Open Scope N_scope.
Open Scope prog_scope.

Definition digit_c : cnd := And InRange (And (AtGe 48) (AtLe 57)).
Definition not_digit_c : cnd := Or AtEnd (Or (AtLt 48) (AtGt 57)).
Definition digits1 : stms := {{ If not_digit_c {{ RetB false }} {{ }} ; While digit_c {{ Inc }} }}.
Definition opt_sign : stm := If (And InRange (Or (AtEq 43) (AtEq 45))) {{ Inc }} {{ }}.

Definition vn_prog : stms := {{
  If (And InRange (AtEq 45)) {{ Inc }} {{ }} ;
  If AtEnd {{ RetB false }} {{ }} ;
  If (AtEq 48) {{ Inc }} {{ If (And (AtGe 49) (AtLe 57)) {{ While digit_c {{ Inc }} }} {{ RetB false }} }} ;
  If (And InRange (AtEq 46)) (Seq Inc digits1) {{ }} ;
  If (And InRange (Or (AtEq 101) (AtEq 69))) (Seq Inc (Seq opt_sign digits1)) {{ }} ;
  Ret AtEnd }}.

(* unfolding one step at a time *)
Lemma exec_seq fuel x r rest : exec fuel (Seq x r) rest = match exec1 fuel x rest with Fell rest' => exec fuel r rest' | y => y end.
Proof. reflexivity. Qed.
Lemma exec_done fuel rest : exec fuel Done rest = Fell rest.
Proof. reflexivity. Qed.
Lemma exec1_if fuel c t e rest :
  exec1 fuel (If c t e) rest = match eval c rest with None => Stuck | Some true => exec fuel t rest | Some false => exec fuel e rest end.
Proof. reflexivity. Qed.
Lemma exec1_inc fuel x r : exec1 fuel Inc (x :: r) = Fell r.
Proof. reflexivity. Qed.
Lemma exec1_retb fuel b rest : exec1 fuel (RetB b) rest = Returned b.
Proof. reflexivity. Qed.

(* the digit loop *)
Fixpoint dloop (k : nat) (rest : list N) : res :=
  match k with
  | O => OutOfFuel
  | S k' => match eval digit_c rest with
            | None => Stuck
            | Some false => Fell rest
            | Some true => match rest with _ :: r => dloop k' r | [] => Stuck end
            end
  end.
Lemma while_is_dloop fuel rest : exec1 fuel (While digit_c {{ Inc }}) rest = dloop fuel rest.
Proof.
  change (exec1 fuel (While digit_c {{ Inc }}) rest) with
    ((fix loop (k : nat) (rest : list N) {struct k} : res :=
        match k with
        | O => OutOfFuel
        | S k' => match eval digit_c rest with
                  | None => Stuck
                  | Some false => Fell rest
                  | Some true => match exec fuel {{ Inc }} rest with Fell rest' => loop k' rest' | y => y end
                  end
        end) fuel rest).
  generalize fuel at 2 3 as k. intro k. revert rest. induction k as [|k IH]; intro rest; [reflexivity|].
  cbn [dloop]. destruct (eval digit_c rest) as [[|]|]; try reflexivity.
  destruct rest as [|x r]; [reflexivity|]. rewrite exec_seq, exec1_inc, exec_done. apply IH.
Qed.
Lemma digit_c_spec x r : eval digit_c (x :: r) = Some (isdig x).
Proof. cbn [eval digit_c]. unfold isdig. destruct (48 <=? x); reflexivity. Qed.
Lemma dloop_spec k : forall rest, (length rest < k)%nat -> dloop k rest = Fell (drop_digits rest).
Proof.
  induction k as [|k IH]; intros rest L; [lia|]. cbn [dloop]. destruct rest as [|x r]; [reflexivity|].
  rewrite digit_c_spec. cbn [drop_digits]. destruct (isdig x); [|reflexivity]. apply IH. cbn [length] in L. lia.
Qed.
Lemma while_digits fuel rest : (length rest < fuel)%nat -> exec1 fuel (While digit_c {{ Inc }}) rest = Fell (drop_digits rest).
Proof. intro L. rewrite while_is_dloop. apply dloop_spec. exact L. Qed.
Lemma drop_digits_len l : (length (drop_digits l) <= length l)%nat.
Proof. induction l as [|x r IH]; cbn [drop_digits length]; [lia|]. destruct (isdig x); cbn [length]; lia. Qed.

Lemma not_digit_c_spec x r : eval not_digit_c (x :: r) = Some (negb (isdig x)).
Proof.
  cbn [eval not_digit_c]. unfold isdig.
  destruct (N.ltb_spec x 48), (N.ltb_spec 57 x), (N.leb_spec 48 x), (N.leb_spec x 57); cbn; try reflexivity; lia.
Qed.

(* "at least one digit, then all digits": what follows a '.', an 'e' or an exponent sign *)
Definition d1 (rest : list N) : option (list N) :=
  match rest with x :: _ => if isdig x then Some (drop_digits rest) else None | [] => None end.
Definition out (o : option (list N)) : res := match o with Some x => Fell x | None => Returned false end.
Lemma digits1_spec fuel rest : (length rest < fuel)%nat -> exec fuel digits1 rest = out (d1 rest).
Proof.
  intro L. unfold digits1. rewrite exec_seq, exec1_if. destruct rest as [|x r]; [reflexivity|].
  rewrite not_digit_c_spec. unfold d1. destruct (isdig x) eqn:D; cbn [negb].
  - rewrite exec_done, exec_seq, while_digits by exact L. reflexivity.
  - rewrite exec_seq, exec1_retb. reflexivity.
Qed.
Lemma d1_len rest : match d1 rest with Some x => (length x <= length rest)%nat | None => True end.
Proof. unfold d1. destruct rest as [|x r]; [exact I|]. destruct (isdig x); [apply drop_digits_len|exact I]. Qed.

Definition strip_sign (r2 : list N) : list N := match r2 with sg :: r' => if (sg =? 43) || (sg =? 45) then r' else r2 | [] => r2 end.
Lemma opt_sign_spec fuel r2 : exec1 fuel opt_sign r2 = Fell (strip_sign r2).
Proof.
  unfold opt_sign. rewrite exec1_if. destruct r2 as [|sg r']; [reflexivity|]. cbn [eval strip_sign].
  destruct (sg =? 43); [reflexivity|]. destruct (sg =? 45); reflexivity.
Qed.

(* the stages of valid_number *)
Definition st_int (c : N) (r : list N) : option (list N) :=
  if c =? 48 then Some r else if (49 <=? c) && (c <=? 57) then Some (drop_digits (c :: r)) else None.
Definition st_frac (s2 : list N) : option (list N) :=
  match s2 with d :: r1 => if d =? 46 then d1 r1 else Some s2 | [] => Some s2 end.
Definition st_exp (s3 : list N) : option (list N) :=
  match s3 with e :: r2 => if (e =? 101) || (e =? 69) then d1 (strip_sign r2) else Some s3 | [] => Some s3 end.
Lemma valid_number_stages s :
  valid_number s =
  let s1 := match s with c :: r => if c =? 45 then r else s | [] => s end in
  match s1 with
  | [] => false
  | c :: r => match st_int c r with
              | None => false
              | Some s2 => match st_frac s2 with
                           | None => false
                           | Some s3 => match st_exp s3 with Some [] => true | _ => false end
                           end
              end
  end.
Proof.
  unfold valid_number, st_int, st_frac, st_exp, d1, strip_sign. cbv zeta.
  destruct (match s with c :: r => if c =? 45 then r else s | [] => s end) as [|c r]; reflexivity.
Qed.

Theorem vn_prog_is_valid_number s : run_scanner vn_prog s = Returned (valid_number s).
Proof.
  rewrite valid_number_stages. unfold run_scanner. set (fuel := S (length s)). cbv zeta.
  unfold vn_prog.
  (* 1. the optional sign *)
  rewrite exec_seq, exec1_if.
  set (s1 := match s with c :: r => if c =? 45 then r else s | [] => s end).
  assert (E1 : match eval (And InRange (AtEq 45)) s with
               | None => Stuck | Some true => exec fuel {{ Inc }} s | Some false => exec fuel {{ }} s end = Fell s1).
  { unfold s1. destruct s as [|c r]; [reflexivity|]. cbn [eval]. destruct (c =? 45); reflexivity. }
  rewrite E1. clear E1.
  assert (L1 : (length s1 < fuel)%nat).
  { unfold s1, fuel. destruct s as [|c r]; cbn [length]; [lia|]. destruct (c =? 45); cbn [length]; lia. }
  clearbody s1.
  (* 2. nothing after the sign *)
  rewrite exec_seq, exec1_if. destruct s1 as [|c r]; [reflexivity|]. cbn [eval]. rewrite exec_done.
  (* 3. the integer part *)
  rewrite exec_seq, exec1_if.
  assert (E3 : match eval (AtEq 48) (c :: r) with
               | None => Stuck
               | Some true => exec fuel {{ Inc }} (c :: r)
               | Some false => exec fuel {{ If (And (AtGe 49) (AtLe 57)) {{ While digit_c {{ Inc }} }} {{ RetB false }} }} (c :: r)
               end = out (st_int c r)).
  { unfold st_int. cbn [eval]. destruct (c =? 48); [reflexivity|].
    rewrite exec_seq, exec1_if. cbn [eval]. destruct (49 <=? c); [|reflexivity]. cbn [andb]. destruct (c <=? 57); [|reflexivity].
    rewrite exec_seq, while_digits by exact L1. reflexivity. }
  rewrite E3. clear E3.
  assert (Li : match st_int c r with Some x => (length x < fuel)%nat | None => True end).
  { unfold st_int. destruct (c =? 48); [cbn [length] in L1; lia|]. destruct ((49 <=? c) && (c <=? 57)); [|exact I].
    pose proof (drop_digits_len (c :: r)). lia. }
  destruct (st_int c r) as [s2|]; [|reflexivity]. cbn [out].
  (* 4. the fraction *)
  rewrite exec_seq, exec1_if.
  assert (E4 : match eval (And InRange (AtEq 46)) s2 with
               | None => Stuck | Some true => exec fuel (Seq Inc digits1) s2 | Some false => exec fuel {{ }} s2 end = out (st_frac s2)).
  { unfold st_frac. destruct s2 as [|d r1]; [reflexivity|]. cbn [eval]. destruct (d =? 46); [|reflexivity].
    rewrite exec_seq, exec1_inc. apply digits1_spec. cbn [length] in Li. lia. }
  rewrite E4. clear E4.
  assert (Lf : match st_frac s2 with Some x => (length x < fuel)%nat | None => True end).
  { unfold st_frac. destruct s2 as [|d r1]; [exact Li|]. destruct (d =? 46); [|exact Li].
    pose proof (d1_len r1) as D. destruct (d1 r1); [|exact I]. cbn [length] in Li. lia. }
  destruct (st_frac s2) as [s3|]; [|reflexivity]. cbn [out].
  (* 5. the exponent *)
  rewrite exec_seq, exec1_if.
  assert (E5 : match eval (And InRange (Or (AtEq 101) (AtEq 69))) s3 with
               | None => Stuck | Some true => exec fuel (Seq Inc (Seq opt_sign digits1)) s3 | Some false => exec fuel {{ }} s3 end = out (st_exp s3)).
  { unfold st_exp. destruct s3 as [|e r2]; [reflexivity|]. cbn [eval].
    assert (Q : match (if e =? 101 then Some true else Some (e =? 69)) with Some true => Some true | r0 => r0 end = Some ((e =? 101) || (e =? 69))).
    { destruct (e =? 101); [reflexivity|]. destruct (e =? 69); reflexivity. }
    assert (Q2 : match Some (e =? 101) with Some false => Some (e =? 69) | r0 => r0 end = Some ((e =? 101) || (e =? 69))).
    { destruct (e =? 101); reflexivity. }
    rewrite Q2. destruct ((e =? 101) || (e =? 69)); [|reflexivity].
    rewrite exec_seq, exec1_inc, exec_seq, opt_sign_spec. apply digits1_spec.
    unfold strip_sign. cbn [length] in Lf. destruct r2 as [|sg r']; [cbn; lia|]. destruct ((sg =? 43) || (sg =? 45)); cbn [length] in *; lia. }
  rewrite E5. clear E5.
  destruct (st_exp s3) as [s4|]; [|reflexivity]. cbn [out].
  (* 6. the end *)
  rewrite exec_seq. destruct s4; reflexivity.
Qed.
