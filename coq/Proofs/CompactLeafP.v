(* Leaf lemmas relating the sentinel/table-driven scanners of compact.go
   (Model/Compact.v) to the strict grammar of Spec/Json.v. *)
From Coq Require Import NArith ZArith List Bool Lia.
From Coq Require Import ZifyN ZifyNat ZifyBool.
From GJ Require Import Base.Bytes Gen.Tables Model.Int Model.Compact Spec.Json.
Import ListNotations.
Open Scope N_scope.

(* ---------- tables, for every N (not only bytes) ---------- *)
Lemma tblb_out t c : N.of_nat (length t) <= c -> tblb t c = false.
Proof.
  intro H. unfold tblb, tbl. assert (E : nth_error t (N.to_nat c) = None) by (apply nth_error_None; lia).
  rewrite E. reflexivity.
Qed.

Lemma ws_table c : tblb enc_isWhiteSpace c = ws_b c.
Proof.
  destruct (N.lt_ge_cases c 256) as [H|H].
  - pose (P := fun c => Bool.eqb (tblb enc_isWhiteSpace c) (ws_b c)).
    assert (HP : forallb P all_bytes = true) by (vm_compute; reflexivity).
    pose proof (forall_bytes P HP c H) as E. apply Bool.eqb_prop in E. exact E.
  - rewrite tblb_out by (change (length enc_isWhiteSpace) with 256%nat; lia). unfold ws_b. lia.
Qed.

Lemma float_table c : tblb enc_floatTable c = numchar_b c.
Proof.
  destruct (N.lt_ge_cases c 256) as [H|H].
  - pose (P := fun c => Bool.eqb (tblb enc_floatTable c) (numchar_b c)).
    assert (HP : forallb P all_bytes = true) by (vm_compute; reflexivity).
    pose proof (forall_bytes P HP c H) as E. apply Bool.eqb_prop in E. exact E.
  - rewrite tblb_out by (change (length enc_floatTable) with 256%nat; lia). unfold numchar_b, digit_b. lia.
Qed.

Lemma is_ws_ws_b c : is_ws c = ws_b c.
Proof. unfold is_ws, ws_b. lia. Qed.

(* ---------- white space ---------- *)
Lemma c_skip_ws_sentinel ls : c_skip_ws (ls ++ [0]) = skip_ws ls ++ [0].
Proof.
  induction ls as [|c r IH]; [reflexivity|]. cbn [app c_skip_ws skip_ws].
  rewrite ws_table. destruct (ws_b c); [exact IH|reflexivity].
Qed.

Lemma c_value_ws_sentinel ls : c_value_ws (ls ++ [0]) = skip_ws ls ++ [0].
Proof.
  induction ls as [|c r IH]; [reflexivity|]. cbn [app c_value_ws skip_ws].
  rewrite is_ws_ws_b. destruct (ws_b c); [exact IH|reflexivity].
Qed.

Lemma skip_ws_length l : (length (skip_ws l) <= length l)%nat.
Proof. induction l as [|c r IH]; cbn; [lia|]. destruct (ws_b c); cbn; lia. Qed.

Lemma skip_ws_idem l : skip_ws (skip_ws l) = skip_ws l.
Proof.
  induction l as [|c r IH]; [reflexivity|]. cbn [skip_ws]. destruct (ws_b c) eqn:E; [exact IH|].
  cbn [skip_ws]. rewrite E. reflexivity.
Qed.

Lemma skip_ws_head l c r : skip_ws l = c :: r -> ws_b c = false.
Proof.
  induction l as [|x l IH]; cbn [skip_ws]; [discriminate|].
  destruct (ws_b x) eqn:E; [exact IH|]. intro H. inversion H; subst. exact E.
Qed.

(* ---------- numbers ---------- *)
Lemma span_float_sentinel ls : forall a b, span numchar_b ls = (a, b) ->
  span_float (ls ++ [0]) = Some (a, b ++ [0]).
Proof.
  induction ls as [|c r IH]; intros a b H; cbn [span app span_float] in *.
  - inversion H; subst. reflexivity.
  - rewrite float_table. destruct (numchar_b c).
    + destruct (span numchar_b r) as [a' b'] eqn:E. inversion H; subst.
      rewrite (IH a' b eq_refl). reflexivity.
    + inversion H; subst. reflexivity.
Qed.

Lemma drop_digits_span l : drop_digits l = snd (span digit_b l).
Proof.
  induction l as [|c r IH]; [reflexivity|]. cbn [drop_digits span]. unfold isdig. fold (digit_b c).
  destruct (digit_b c); [|reflexivity].
  rewrite IH. destruct (span digit_b r). reflexivity.
Qed.

Lemma digits1_model l :
  match l with x :: _ => if isdig x then Some (drop_digits l) else None | [] => None end = digits1 l.
Proof.
  unfold digits1. rewrite drop_digits_span. destruct l as [|x r]; [reflexivity|].
  cbn [span]. unfold isdig. fold (digit_b x). destruct (digit_b x); [|reflexivity].
  destruct (span digit_b r). reflexivity.
Qed.

Theorem valid_number_spec s : valid_number s = json_number s.
Proof.
  unfold valid_number, json_number.
  set (s1 := match s with c :: r => if c =? 45 then r else s | [] => s end).
  generalize s1. clear s s1. intro s.
  destruct s as [|c r]; [reflexivity|].
  assert (Ei : (if c =? 48 then Some r else if (49 <=? c) && (c <=? 57) then Some (drop_digits (c :: r)) else None)
               = p_int (c :: r)).
  { unfold p_int. destruct (c =? 48); [reflexivity|].
    destruct ((49 <=? c) && (c <=? 57)) eqn:Q; [|reflexivity].
    cbn [drop_digits]. unfold isdig. assert (Q2 : (48 <=? c) && (c <=? 57) = true) by lia. rewrite Q2.
    rewrite drop_digits_span. reflexivity. }
  rewrite Ei. destruct (p_int (c :: r)) as [s1|]; [|reflexivity].
  assert (Ef : match s1 with
               | d :: r1 => if d =? 46 then match r1 with x :: _ => if isdig x then Some (drop_digits r1) else None | [] => None end else Some s1
               | [] => Some s1 end = p_frac s1).
  { unfold p_frac. destruct s1 as [|d r1]; [reflexivity|]. destruct (d =? 46); [|reflexivity]. apply digits1_model. }
  rewrite Ef. destruct (p_frac s1) as [s2|]; [|reflexivity].
  assert (Ee : match s2 with
               | e :: r2 => if (e =? 101) || (e =? 69) then
                   let r3 := match r2 with sg :: r' => if (sg =? 43) || (sg =? 45) then r' else r2 | [] => r2 end in
                   match r3 with x :: _ => if isdig x then Some (drop_digits r3) else None | [] => None end
                 else Some s2
               | [] => Some s2 end = p_exp s2).
  { unfold p_exp. destruct s2 as [|e r2]; [reflexivity|]. destruct ((e =? 101) || (e =? 69)); [|reflexivity].
    cbv zeta. apply digits1_model. }
  cbv zeta in Ee |- *. rewrite Ee. reflexivity.
Qed.

(* ---------- strings (escape = false) ---------- *)
Definition str_rel (S : option (list N * list N)) (R : cres (list N * list N)) : Prop :=
  match S with
  | Some (b, rest) => R = COk (b ++ [34], rest ++ [0])
  | None => R = CErr
  end.

Lemma is_esc_same e : is_esc_c e = simple_esc_b e.
Proof. reflexivity. Qed.
Lemma is_hexc_same c : is_hexc_c c = hex_b c.
Proof. unfold is_hexc_c, hex_b, digit_b. reflexivity. Qed.

Lemma string_body_rel n : forall ls, (length ls <= n)%nat ->
  str_rel (p_string_body ls) (c_string_body false (ls ++ [0])).
Proof.
  induction n as [|n IH]; intros ls Hn.
  - destruct ls; [|cbn in Hn; lia]. cbn. reflexivity.
  - destruct ls as [|c r]; [cbn; reflexivity|]. cbn [length] in Hn.
    cbn [app p_string_body c_string_body andb].
    destruct (N.eqb_spec c 34) as [E34|E34].
    { subst. cbn. reflexivity. }
    destruct (N.eqb_spec c 92) as [E92|E92].
    + subst c. destruct r as [|e r1].
      * cbn. reflexivity.
      * cbn [app]. change (is_esc_c e) with (simple_esc_b e). destruct (simple_esc_b e) eqn:Se.
        -- pose proof (IH r1 ltac:(cbn [length] in Hn; lia)) as R. unfold str_rel in *.
           destruct (p_string_body r1) as [[b rest]|]; rewrite R; reflexivity.
        -- destruct (N.eqb_spec e 117) as [Eu|Eu]; [|cbn; reflexivity]. subst e.
           destruct r1 as [|h1 r2]; [cbn; reflexivity|]. cbn [app]. change (is_hexc_c h1) with (hex_b h1).
           destruct (hex_b h1) eqn:H1; cbn [negb andb].
           2:{ destruct r2 as [|h2 [|h3 [|h4 r5]]]; cbn; reflexivity. }
           destruct r2 as [|h2 r3]; [cbn; reflexivity|]. cbn [app]. change (is_hexc_c h2) with (hex_b h2).
           destruct (hex_b h2) eqn:H2; cbn [negb andb].
           2:{ destruct r3 as [|h3 [|h4 r5]]; cbn; reflexivity. }
           destruct r3 as [|h3 r4]; [cbn; reflexivity|]. cbn [app]. change (is_hexc_c h3) with (hex_b h3).
           destruct (hex_b h3) eqn:H3; cbn [negb andb].
           2:{ destruct r4 as [|h4 r5]; cbn; reflexivity. }
           destruct r4 as [|h4 r5]; [cbn; reflexivity|]. cbn [app]. change (is_hexc_c h4) with (hex_b h4).
           destruct (hex_b h4) eqn:H4; cbn [negb andb]; [|cbn; reflexivity].
           pose proof (IH r5 ltac:(cbn [length] in Hn; lia)) as R. unfold str_rel in *.
           destruct (p_string_body r5) as [[b rest]|]; rewrite R; reflexivity.
    + destruct (N.eqb_spec c 0) as [E0|E0].
      { subst. cbn. reflexivity. }
      destruct (N.ltb_spec c 32) as [L|L]; [cbn; reflexivity|].
      pose proof (IH r ltac:(lia)) as R. unfold str_rel in *.
      destruct (p_string_body r) as [[b rest]|]; rewrite R; reflexivity.
Qed.

Lemma string_body_shorter ls b rest : p_string_body ls = Some (b, rest) -> (length rest < length ls)%nat.
Proof.
  remember (length ls) as n eqn:Hn. assert (Hle : (length ls <= n)%nat) by lia. clear Hn.
  revert ls b rest Hle. induction n as [|n IH]; intros ls b rest Hle H.
  - destruct ls; [discriminate|cbn in Hle; lia].
  - destruct ls as [|c r]; [discriminate|]. cbn [length] in *. cbn [p_string_body] in H.
    destruct (c =? 34); [inversion H; subst; lia|].
    destruct (c =? 92).
    + destruct r as [|e r1]; [discriminate|]. destruct (simple_esc_b e).
      * destruct (p_string_body r1) as [[b' rest']|] eqn:E; [|discriminate]. inversion H; subst.
        pose proof (IH r1 b' rest ltac:(cbn [length] in Hle; lia) E). cbn [length]. lia.
      * destruct (e =? 117); [|discriminate]. destruct r1 as [|h1 [|h2 [|h3 [|h4 r2]]]]; try discriminate.
        destruct (hex_b h1 && hex_b h2 && hex_b h3 && hex_b h4); [|discriminate].
        destruct (p_string_body r2) as [[b' rest']|] eqn:E; [|discriminate]. inversion H; subst.
        pose proof (IH r2 b' rest ltac:(cbn [length] in Hle; lia) E). cbn [length]. lia.
    + destruct (c <? 32); [discriminate|].
      destruct (p_string_body r) as [[b' rest']|] eqn:E; [|discriminate]. inversion H; subst.
      pose proof (IH r b' rest ltac:(lia) E). lia.
Qed.

(* ---------- literals ---------- *)
Local Opaque N.eqb.
Ltac lit_solve :=
  cbn [length Nat.leb Nat.sub firstn skipn list_eqb app andb];
  repeat (rewrite ?N.eqb_refl; cbn [andb];
    match goal with
    | |- context [N.eqb ?x ?y] => destruct (N.eqb_spec x y); subst; cbn [andb]
    end);
  rewrite ?N.eqb_refl; cbn [andb]; try reflexivity; try congruence.

Lemma literal_true r : c_literal [116; 114; 117; 101] ((116 :: r) ++ [0]) =
  match starts [114; 117; 101] r with Some rest => COk ([116; 114; 117; 101], rest ++ [0]) | None => CErr end.
Proof. unfold c_literal, starts. destruct r as [|a [|b [|c [|d r']]]]; lit_solve. Qed.

Lemma literal_false r : c_literal [102; 97; 108; 115; 101] ((102 :: r) ++ [0]) =
  match starts [97; 108; 115; 101] r with Some rest => COk ([102; 97; 108; 115; 101], rest ++ [0]) | None => CErr end.
Proof. unfold c_literal, starts. destruct r as [|a [|b [|c [|d [|e r']]]]]; lit_solve. Qed.

Lemma literal_null r : c_literal [110; 117; 108; 108] ((110 :: r) ++ [0]) =
  match starts [117; 108; 108] r with Some rest => COk ([110; 117; 108; 108], rest ++ [0]) | None => CErr end.
Proof. unfold c_literal, starts. destruct r as [|a [|b [|c [|d r']]]]; lit_solve. Qed.
Local Transparent N.eqb.

Lemma starts_shorter p : forall l rest, starts p l = Some rest -> (length rest <= length l)%nat.
Proof.
  unfold starts. induction p as [|x p IH]; intros l rest H.
  - inversion H; subst. lia.
  - destruct l as [|y l]; [discriminate|]. destruct (x =? y); [|discriminate].
    pose proof (IH l rest H). cbn. lia.
Qed.
