(* Every store of decoding into a pointer-free destination lies inside the destination: for every sound layout,
   every document and every base address.  And a field that no key of the object selects is in no store. *)
From Coq Require Import NArith Arith List Bool Lia.
From Coq Require Import ZifyN ZifyNat ZifyBool.
From GJ Require Import Base.Bytes Spec.Json Model.Enc Model.Layout.
Import ListNotations.
Open Scope N_scope.

Section lty_ind2.
  Variable P : lty -> Prop.
  Hypothesis HS : forall s, P (LScalar s).
  Hypothesis HA : forall n st e, P e -> P (LArr n st e).
  Hypothesis HT : forall s fs, Forall (fun f => P (snd f)) fs -> P (LStruct s fs).
  Fixpoint lty_ind2 (t : lty) : P t :=
    match t with
    | LScalar s => HS s
    | LArr n st e => HA n st e (lty_ind2 e)
    | LStruct s fs => HT s fs ((fix go (l : list (list N * N * lty)) : Forall (fun f => P (snd f)) l :=
                                  match l with [] => Forall_nil _ | x :: r => Forall_cons x (lty_ind2 (snd x)) (go r) end) fs)
    end.
End lty_ind2.

Lemma inside_weaken b s b' s' w : inside b' s' w -> b <= b' -> b' + s' <= b + s -> inside b s w.
Proof. unfold inside. intros [A B] C D. lia. Qed.

Lemma fill_inside base st : forall count i n, (i + count = n)%nat -> Forall (inside base (N.of_nat n * st)) (fill base st i count).
Proof.
  induction count as [|c IH]; intros i n E; cbn [fill]; constructor.
  - unfold inside. cbn [fst snd]. nia.
  - apply IH. lia.
Qed.

Theorem stores_inside : forall t, wf t = true -> forall d base, Forall (inside base (lsize t)) (stores t d base).
Proof.
  apply (lty_ind2 (fun t => wf t = true -> forall d base, Forall (inside base (lsize t)) (stores t d base))).
  - intros s _ d base. cbn [stores lsize]. destruct d as [t| |]; try constructor. destruct t; repeat constructor; unfold inside; cbn; lia.
  - intros n st e IH W d base. cbn [wf] in W. apply andb_true_iff in W. destruct W as [We Ws]. apply N.leb_le in Ws.
    cbn [stores lsize]. destruct d as [|xs|]; try constructor.
    assert (G : forall xs i, (i <= n)%nat ->
                Forall (inside base (N.of_nat n * st))
                  ((fix go (xs : list jv) (i : nat) : list (N * N) :=
                      match xs with
                      | [] => fill base st i (n - i)
                      | x :: r => if Nat.ltb i n then stores e x (base + N.of_nat i * st) ++ go r (S i) else []
                      end) xs i)).
    { induction xs0 as [|x r IHx]; intros i Li.
      - apply fill_inside. lia.
      - destruct (Nat.ltb_spec i n) as [L|L]; [|constructor]. apply Forall_app. split.
        + eapply Forall_impl; [|apply (IH We x (base + N.of_nat i * st))].
          intros w Hw. eapply inside_weaken; [exact Hw| |]; nia.
        + apply IHx. lia. }
    apply G. lia.
  - intros s fs F W d base. cbn [stores lsize]. destruct d as [| |ms]; try constructor.
    cbn [wf] in W. revert W. induction F as [|[[name off] ft] r Hf Hr IHr]; intro W; [constructor|].
    apply andb_true_iff in W. destruct W as [W1 Wr]. apply andb_true_iff in W1. destruct W1 as [Wf Wo]. apply N.leb_le in Wo.
    apply Forall_app. split; [|apply IHr; exact Wr].
    apply Forall_forall. intros w Hw. apply in_flat_map in Hw. destruct Hw as ([[k b] v] & _ & Hin).
    destruct (key_selects k name); [|destruct Hin].
    cbn [snd] in Hf. pose proof (Hf Wf v (base + off)) as G. rewrite Forall_forall in G.
    eapply inside_weaken; [apply G; exact Hin| |]; lia.
Qed.

(* a field that none of the object's keys selects stays as it was: no store of the struct touches its bytes
   (the fields of a sound layout that do not overlap it are the only ones written) *)
Definition disjoint (a sa b sb : N) : Prop := a + sa <= b \/ b + sb <= a.
Theorem unselected_field_untouched s fs ms base name off ft :
  wf (LStruct s fs) = true ->
  In (name, off, ft) fs ->
  (forall k b v, In (k, b, v) ms -> key_selects k name = false) ->
  (forall name' off' ft', In (name', off', ft') fs -> (name', off', ft') = (name, off, ft) \/ disjoint off' (lsize ft') off (lsize ft)) ->
  Forall (fun w => disjoint (fst w) (snd w) (base + off) (lsize ft)) (stores (LStruct s fs) (JObj ms) base).
Proof.
  intros W Hin Hno Hdis. cbn [stores]. cbn [wf] in W.
  assert (G : forall l, (forall x, In x l -> In x fs) ->
              (fix go (fs : list (list N * N * lty)) : bool :=
                 match fs with [] => true | (_, off, ft) :: r => wf ft && (off + lsize ft <=? s) && go r end) l = true ->
              Forall (fun w => disjoint (fst w) (snd w) (base + off) (lsize ft))
                ((fix go (fs : list (list N * N * lty)) : list (N * N) :=
                    match fs with
                    | [] => []
                    | (name, off, ft) :: r =>
                        flat_map (fun m : list N * bool * jv => match m with (k, _, v) => if key_selects k name then stores ft v (base + off) else [] end) ms ++ go r
                    end) l)).
  { induction l as [|[[n' o'] t'] r IH]; intros Sub Wl; [constructor|].
    apply andb_true_iff in Wl. destruct Wl as [W1 Wr]. apply andb_true_iff in W1. destruct W1 as [Wt Wo].
    apply Forall_app. split; [|apply IH; [intros x Hx; apply Sub; right; exact Hx|exact Wr]].
    apply Forall_forall. intros w Hw. apply in_flat_map in Hw. destruct Hw as ([[k b] v] & Hm & Hw).
    destruct (key_selects k n') eqn:K; [|destruct Hw].
    destruct (Hdis n' o' t' (Sub _ (or_introl eq_refl))) as [E|D].
    - inversion E; subst. rewrite (Hno k b v Hm) in K. discriminate.
    - pose proof (stores_inside t' Wt v (base + o')) as I. rewrite Forall_forall in I. specialize (I w Hw).
      unfold inside in I. unfold disjoint in *. lia. }
  apply G; [auto|exact W].
Qed.

(* what the repaired array defect looked like in these terms: a fill of whole words for one-byte elements *)
Example short_array_stores :
  stores (LStruct 16 [([65], 0, LArr 4 1 (LScalar 1)); ([66], 4, LArr 4 1 (LScalar 1)); ([67], 8, LScalar 8)])
         (JObj [([65], false, JArr [JLeaf (TNum [57])])]) 1000
  = [(1000, 1); (1001, 1); (1002, 1); (1003, 1)].
Proof. vm_compute. reflexivity. Qed.
