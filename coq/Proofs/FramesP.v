From Coq Require Import List Bool Arith Lia.
From GJ Require Import Gen.Frames Model.Frames.
Import ListNotations.

(* the arithmetic facts about the constants that make frames safe *)
Definition consts_ok (c : fconst) : Prop :=
  c_rec_end c < c_next c /\ c_if_end c <= c_if_next c /\ c_next c <= c_cur c /\
  (exists k, c_rec_iface c = Some k /\ c_next c <= k + c_if_total c) /\
  c_if_next c <= c_if_total c /\ c_if_next c <= c_cur c.

Lemma the_consts_ok : consts_ok the_consts.
Proof.
  unfold consts_ok, the_consts. vm_compute.
  split; [lia|]. split; [lia|]. split; [lia|]. split; [exists 1; split; [reflexivity|lia]|split; lia].
Qed.

Definition wf_frame (f : frame) : Prop := 0 < f_len f /\ f_end f < f_len f.

(* a frame's code stays inside the slots reserved for it *)
Lemma top_slot_in_alloc c f : consts_ok c -> wf_frame f -> top_slot c f < alloc c f.
Proof.
  intros (H1 & H2 & _) [Hl He]. unfold top_slot, alloc. destruct (f_kind f); [lia|lia|].
  apply Nat.max_lub_lt; lia.
Qed.

(* a nested frame starts behind the slots reserved for its parent *)
Lemma push_beyond c f p : consts_ok c -> f_kind f <> KTop \/ True -> f_base f + alloc c f <= f_base (do_push c f p).
Proof.
  intros (H1 & H2 & H3 & (k & Hk & H4) & H5 & H6) _. destruct p as [l e|l e]; cbn [do_push push_rec push_iface f_base]; unfold alloc, iface_length.
  - destruct (f_kind f); lia.
  - destruct (f_kind f); rewrite ?Hk; lia.
Qed.

Lemma push_wf c f p : wf_push p -> wf_frame (do_push c f p).
Proof. destruct p; cbn; intros [H1 H2]; split; assumption. Qed.

(* all frames of a stack: in bounds of their own reservation, and ordered without overlap *)
Fixpoint separated (c : fconst) (l : list frame) : Prop :=
  match l with
  | [] => True
  | f :: r => top_slot c f < alloc c f /\
              match r with [] => True | g :: _ => f_base f + alloc c f <= f_base g end /\
              separated c r
  end.

Theorem frames_separated c : consts_ok c -> forall ps f, wf_frame f -> Forall wf_push ps -> separated c (stack c f ps).
Proof.
  intro Hc. induction ps as [|p r IH]; intros f Hf Hps.
  - cbn. split; [apply top_slot_in_alloc; assumption|split; exact I].
  - inversion Hps; subst. cbn [stack separated]. split; [apply top_slot_in_alloc; assumption|]. split.
    + destruct r; cbn [stack]; apply push_beyond; auto.
    + apply IH; [apply push_wf; assumption|assumption].
Qed.

(* no slot is shared by two frames of a stack *)
Lemma separated_bases c : forall l f g, separated c (f :: l) -> In g l -> f_base f + alloc c f <= f_base g.
Proof.
  induction l as [|h r IH]; intros f g Hs Hin; [destruct Hin|].
  cbn [separated] in Hs. destruct Hs as (_ & Hfh & Hrest). destruct Hin as [<-|Hin]; [exact Hfh|].
  pose proof (IH h g Hrest Hin) as H. cbn [separated] in Hrest. lia.
Qed.

(* the two repaired defects, as facts about the constants the unrepaired source had *)
Definition consts_before_fix_indent : fconst :=
  {| c_rec_end := 3; c_cur := 3; c_next := 3; c_rec_iface := Some 1; c_if_end := 3; c_if_total := 3; c_if_next := 3 |}.
Definition consts_before_fix_iface : fconst :=
  {| c_rec_end := 3; c_cur := 4; c_next := 4; c_rec_iface := None; c_if_end := 3; c_if_total := 3; c_if_next := 3 |}.

Theorem saved_indent_slot_outside_frame_refuted :
  exists f, wf_frame f /\ ~ top_slot consts_before_fix_indent f < alloc consts_before_fix_indent f.
Proof. exists {| f_kind := KRec; f_base := 0; f_len := 5; f_end := 4 |}. split; [vm_compute; split; repeat constructor|vm_compute; intro H; lia]. Qed.

Theorem iface_frame_inside_recursive_frame_refuted :
  exists f p, wf_frame f /\ wf_push p /\ ~ f_base f + alloc consts_before_fix_iface f <= f_base (do_push consts_before_fix_iface f p).
Proof.
  exists {| f_kind := KRec; f_base := 10; f_len := 5; f_end := 4 |}, (PIface 3 2).
  split; [vm_compute; split; repeat constructor|]. split; [vm_compute; split; repeat constructor|vm_compute; intro H; lia].
Qed.
