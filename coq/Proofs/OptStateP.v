From Coq Require Import NArith List Bool String.
From GJ Require Import Gen.OptState Model.OptState.
Import ListNotations.


(* the options never touch the context and indent bits, and set the colour bit only together with a scheme *)
Lemma fold_context opts : forall fl, fl_context (fold_left opt_flags opts fl) = fl_context fl.
Proof. induction opts as [|o r IH]; intro fl; [reflexivity|]. cbn [fold_left]. rewrite IH. destruct o; reflexivity. Qed.
Lemma fold_indent opts : forall fl, fl_indent (fold_left opt_flags opts fl) = fl_indent fl.
Proof. induction opts as [|o r IH]; intro fl; [reflexivity|]. cbn [fold_left]. rewrite IH. destruct o; reflexivity. Qed.

Definition pick_color (o : eopt) : option N := match o with OColorize sc => Some sc | _ => None end.
Lemma last_opt_some pick opts : forall acc, acc <> None -> last_opt pick opts acc <> None.
Proof.
  induction opts as [|o r IH]; intros acc H; [exact H|]. cbn [last_opt]. apply IH. destruct (pick o); [discriminate|exact H].
Qed.
Lemma fold_color opts : forall fl acc, (fl_color fl = true -> acc <> None) ->
  fl_color (fold_left opt_flags opts fl) = true -> last_opt pick_color opts acc <> None.
Proof.
  induction opts as [|o r IH]; intros fl acc H Hc; [exact (H Hc)|]. cbn [fold_left last_opt] in *.
  apply (IH (opt_flags fl o)); [|exact Hc]. destruct o; cbn [opt_flags fl_color pick_color]; try exact H. intros _. discriminate.
Qed.

Definition all_true (sf : srcfacts) : bool :=
  sf_init_flag sf && sf_init_debugout sf && sf_init_debugdot sf && sf_all_init sf && sf_color_scheme sf &&
  sf_prefix sf && sf_indentstr sf && sf_keeprefs sf && sf_seenptr sf && sf_baseindent sf.

(* Results depend only on the arguments: whatever two earlier histories left in
   the pooled context, the interpreter observes the same thing. *)
Theorem result_independent_of_leftovers sf c left1 left2 :
  all_true sf = true -> result_inputs sf c left1 = result_inputs sf c left2.
Proof.
  intro H. unfold all_true in H.
  destruct sf as [b1 b2 b3 b4 b5 b6 b7 b8 b9 b10]. cbn [sf_init_flag sf_init_debugout sf_init_debugdot sf_all_init sf_color_scheme sf_prefix sf_indentstr sf_keeprefs sf_seenptr sf_baseindent] in H.
  destruct b1, b2, b3, b4, b5, b6, b7, b8, b9, b10; try discriminate H. clear H.
  unfold result_inputs. f_equal. unfold observe, prepare. cbn [st_flags st_val].
  unfold final_flags, assigned. cbn [sf_init_flag sf_init_debugout sf_init_debugdot sf_all_init sf_color_scheme sf_prefix sf_indentstr sf_keeprefs sf_seenptr sf_baseindent andb].
  set (fl := fold_left opt_flags (ec_opts c) (entry_flags c flags0)).
  f_equal. f_equal; [|f_equal; [|f_equal; [|f_equal; [|f_equal; [|f_equal]]]]].
  - (* context *)
    destruct (fl_context fl) eqn:E; [|reflexivity]. unfold fl in E. rewrite fold_context in E.
    cbn [entry_flags fl_context flags0] in E. destruct (ec_context c); [reflexivity|discriminate E].
  - (* colour scheme *)
    destruct (fl_color fl) eqn:E; [|reflexivity].
    assert (last_opt pick_color (ec_opts c) None <> None) as Hn.
    { apply (fold_color (ec_opts c) (entry_flags c flags0)); [|exact E]. cbn. intro; discriminate. }
    change (fun o : eopt => match o with OColorize sc => Some sc | _ => None end) with pick_color.
    destruct (last_opt pick_color (ec_opts c) None); [reflexivity|contradiction].
  - (* debug writer *)
    destruct (fl_debug fl); [|reflexivity].
    match goal with |- context [last_opt ?p ?o (Some ?x)] =>
      pose proof (last_opt_some p o (Some x) ltac:(discriminate)) as Hn; destruct (last_opt p o (Some x)); [reflexivity|contradiction] end.
  - (* DOT writer *)
    destruct (fl_debug fl); [|reflexivity].
    match goal with |- context [last_opt ?p ?o (Some ?x)] =>
      pose proof (last_opt_some p o (Some x) ltac:(discriminate)) as Hn; destruct (last_opt p o (Some x)); [reflexivity|contradiction] end.
  - (* prefix *)
    destruct (fl_indent fl) eqn:E; [|reflexivity]. unfold fl in E. rewrite fold_indent in E.
    cbn [entry_flags fl_indent flags0] in E. destruct (ec_indent c); [reflexivity|discriminate E].
  - (* indent string *)
    destruct (fl_indent fl) eqn:E; [|reflexivity]. unfold fl in E. rewrite fold_indent in E.
    cbn [entry_flags fl_indent flags0] in E. destruct (ec_indent c); [reflexivity|discriminate E].
Qed.

Lemma the_source_all_true : all_true the_source = true.
Proof. vm_compute. reflexivity. Qed.

(* each fact is needed: two witnesses *)
Definition sf_ok : srcfacts := {| sf_init_flag := true; sf_init_debugout := true; sf_init_debugdot := true; sf_all_init := true; sf_color_scheme := true;
  sf_prefix := true; sf_indentstr := true; sf_keeprefs := true; sf_seenptr := true; sf_baseindent := true |}.
Definition left_of (f : fld) (v : N) : cstate :=
  {| st_flags := flags0; st_val := fun g => if fld_eqb g f then v else 0%N |}.

(* the DOT writer of an earlier call survives if initOption does not clear it (a later Debug() call writes into it) *)
Definition sf_no_dot_reset : srcfacts := {| sf_init_flag := true; sf_init_debugout := true; sf_init_debugdot := false; sf_all_init := true; sf_color_scheme := true;
      sf_prefix := true; sf_indentstr := true; sf_keeprefs := true; sf_seenptr := true; sf_baseindent := true |}.
Definition sf_no_prefix_assign : srcfacts := {| sf_init_flag := true; sf_init_debugout := true; sf_init_debugdot := true; sf_all_init := true; sf_color_scheme := true;
      sf_prefix := false; sf_indentstr := true; sf_keeprefs := true; sf_seenptr := true; sf_baseindent := true |}.
Theorem stale_dot_writer_refuted :
  exists c l1 l2, result_inputs sf_no_dot_reset c l1 <> result_inputs sf_no_dot_reset c l2.
Proof.
  exists {| ec_context := None; ec_indent := None; ec_html := true; ec_opts := [ODebug]; ec_arg := 0%N |}, (left_of FDebugDOT 7%N), (left_of FDebugDOT 0%N).
  vm_compute. intro H. discriminate H.
Qed.

(* the indent prefix of an earlier call survives if the indent entry assigns it only conditionally *)
Theorem stale_prefix_refuted :
  exists c l1 l2, result_inputs sf_no_prefix_assign c l1 <> result_inputs sf_no_prefix_assign c l2.
Proof.
  exists {| ec_context := None; ec_indent := Some (0%N, 2%N); ec_html := true; ec_opts := []; ec_arg := 0%N |}, (left_of FPrefix 7%N), (left_of FPrefix 0%N).
  vm_compute. intro H. discriminate H.
Qed.
