(* The bitmap key matcher selects a field exactly when the lower-cased key
   equals the (lower-cased) field name: never for a prefix, never for an
   extension; and it never indexes outside its tables. *)
From Coq Require Import NArith List Bool Lia Arith.
From GJ Require Import Base.Bytes Model.KeyBitmap.
Import ListNotations.
Open Scope N_scope.

Definition hit (names : list (list N)) (k j : nat) (c : N) : bool :=
  match nth_error names k with
  | Some nm => match nth_error nm j with Some x => x =? c | None => false end
  | None => false
  end.

Lemma pow2_testbit i k : N.testbit (N.shiftl 1 (N.of_nat i)) (N.of_nat k) = Nat.eqb i k.
Proof.
  rewrite N.shiftl_1_l, N.pow2_bits_eqb.
  destruct (Nat.eqb_spec i k) as [E|E]; [subst; apply N.eqb_refl|].
  apply N.eqb_neq. lia.
Qed.

Lemma row_aux_testbit names j c : forall i0 k,
  N.testbit (row_aux names i0 j c) (N.of_nat k) = Nat.leb i0 k && hit names (k - i0) j c.
Proof.
  induction names as [|nm r IH]; intros i0 k; cbn [row_aux].
  - rewrite N.bits_0. unfold hit. destruct (k - i0)%nat; cbn; rewrite andb_false_r; reflexivity.
  - rewrite N.lor_spec, IH.
    destruct (Nat.leb_spec i0 k) as [L|L].
    + destruct (Nat.eq_dec i0 k) as [E|E].
      * subst k. rewrite Nat.sub_diag. unfold hit at 2. cbn [nth_error].
        destruct (Nat.leb_spec (S i0) i0); [lia|]. cbn [andb]. rewrite orb_false_r.
        destruct (nth_error nm j) as [x|]; [|apply N.bits_0].
        destruct (x =? c); [rewrite pow2_testbit; apply Nat.eqb_refl|apply N.bits_0].
      * destruct (Nat.leb_spec (S i0) k); [|lia]. cbn [andb].
        replace (k - i0)%nat with (S (k - S i0)) by lia. unfold hit at 2. cbn [nth_error]. fold (hit r (k - S i0) j c).
        assert (Z : N.testbit (match nth_error nm j with Some x => if x =? c then N.shiftl 1 (N.of_nat i0) else 0 | None => 0 end) (N.of_nat k) = false).
        { destruct (nth_error nm j) as [x|]; [|apply N.bits_0]. destruct (x =? c); [|apply N.bits_0].
          rewrite pow2_testbit. apply Nat.eqb_neq. exact E. }
        rewrite Z. reflexivity.
    + destruct (Nat.leb_spec (S i0) k); [lia|]. cbn [andb]. rewrite orb_false_r.
      destruct (nth_error nm j) as [x|]; [|apply N.bits_0]. destruct (x =? c); [|apply N.bits_0].
      rewrite pow2_testbit. apply Nat.eqb_neq. lia.
Qed.

Lemma max_len_ge names : forall k nm, nth_error names k = Some nm -> (length nm <= max_len names)%nat.
Proof.
  induction names as [|x r IH]; intros k nm H; [destruct k; discriminate|].
  unfold max_len. cbn [fold_right]. fold (max_len r). destruct k as [|k]; cbn in H.
  - inversion H; subst. lia.
  - pose proof (IH k nm H). lia.
Qed.

Lemma hit_lt names k j c : hit names k j c = true -> (j < max_len names)%nat.
Proof.
  unfold hit. destruct (nth_error names k) as [nm|] eqn:E; [|discriminate].
  destruct (nth_error nm j) eqn:E2; [|discriminate]. intros _.
  pose proof (max_len_ge names k nm E). assert (j < length nm)%nat by (apply nth_error_Some; congruence). lia.
Qed.

Fixpoint matches_from (names : list (list N)) (k j : nat) (key : list N) : bool :=
  match key with
  | [] => true
  | c :: r => hit names k j (lower c) && matches_from names k (S j) r
  end.

Lemma nonzero_bit x : x <> 0 -> exists k, N.testbit x (N.of_nat k) = true.
Proof.
  intro H. destruct (N.eq_dec x 0) as [|_]; [congruence|].
  assert (E : exists n, N.testbit x n = true).
  { destruct x as [|p]; [congruence|]. exists (N.log2 (N.pos p)). apply N.bit_log2. discriminate. }
  destruct E as [n Hn]. exists (N.to_nat n). rewrite N2Nat.id. exact Hn.
Qed.

Lemma zero_bits x : x = 0 -> forall k, N.testbit x k = false.
Proof. intros E k. subst. apply N.bits_0. Qed.

(* the loop never leaves the table, and its result is the candidate set *)
Lemma walk_spec names : forall key cur j, (j <= max_len names)%nat ->
  match walk names cur j key with
  | None => False
  | Some None => forall k, N.testbit cur (N.of_nat k) && matches_from names k j key = false
  | Some (Some cur') => forall k, N.testbit cur' (N.of_nat k) = N.testbit cur (N.of_nat k) && matches_from names k j key
  end.
Proof.
  induction key as [|c r IH]; intros cur j Hj; cbn [walk matches_from].
  - intro k. rewrite andb_true_r. reflexivity.
  - unfold row. destruct (Nat.ltb_spec j (S (max_len names))) as [L|L]; [|lia].
    set (bits := row_aux names 0 j (lower c)).
    assert (Hb : forall k, N.testbit (N.land cur bits) (N.of_nat k) = N.testbit cur (N.of_nat k) && hit names k j (lower c)).
    { intro k. rewrite N.land_spec. unfold bits. rewrite row_aux_testbit. cbn [Nat.leb andb]. rewrite Nat.sub_0_r. reflexivity. }
    destruct (N.eqb_spec (N.land cur bits) 0) as [Z|Z].
    + intro k. pose proof (zero_bits _ Z (N.of_nat k)) as B. rewrite Hb in B.
      rewrite andb_assoc, B. reflexivity.
    + (* some candidate survives, hence j < max_len: the next row exists *)
      destruct (nonzero_bit _ Z) as [k0 Hk0]. rewrite Hb in Hk0. apply andb_true_iff in Hk0. destruct Hk0 as [_ Hh].
      pose proof (hit_lt _ _ _ _ Hh) as Hlt.
      specialize (IH (N.land cur bits) (S j) ltac:(lia)).
      destruct (walk names (N.land cur bits) (S j) r) as [[cur'|]|]; [| |exact IH].
      * intro k. rewrite IH, Hb, andb_assoc. reflexivity.
      * intro k. specialize (IH k). rewrite Hb in IH. rewrite andb_assoc. exact IH.
Qed.

(* matches_from at row 0 means: the lower-cased key is a prefix of the name *)
Lemma matches_prefix names k : forall key j, matches_from names k j key = true ->
  exists nm, (nth_error names k = Some nm \/ key = []) /\
    forall t, (t < length key)%nat -> nth_error names k = Some nm /\ nth_error nm (j + t) = Some (lower (nth t key 0)).
Proof.
  induction key as [|c r IH]; intros j H.
  - exists []. split; [right; reflexivity|]. intros t Ht. cbn in Ht. lia.
  - cbn [matches_from] in H. apply andb_true_iff in H. destruct H as [H1 H2].
    unfold hit in H1. destruct (nth_error names k) as [nm|] eqn:E; [|discriminate].
    destruct (nth_error nm j) as [x|] eqn:E2; [|discriminate]. apply N.eqb_eq in H1. subst x.
    destruct (IH (S j) H2) as (nm' & _ & Hn).
    exists nm. split; [left; reflexivity|]. intros t Ht. destruct t as [|t].
    + rewrite Nat.add_0_r. cbn [nth]. split; [reflexivity|exact E2].
    + cbn [length] in Ht. destruct (Hn t ltac:(lia)) as [A B]. rewrite ?E in A. inversion A; subst nm'.
      replace (j + S t)%nat with (S j + t)%nat by lia. cbn [nth]. split; [reflexivity|exact B].
Qed.

Lemma prefix_full (nm key : list N) : (forall t, (t < length key)%nat -> nth_error nm t = Some (lower (nth t key 0))) ->
  (length nm <= length key)%nat -> nm = map lower key.
Proof.
  revert nm. induction key as [|c r IH]; intros nm H L.
  - destruct nm; [reflexivity|cbn in L; lia].
  - destruct nm as [|x nm].
    + specialize (H 0%nat ltac:(cbn; lia)). discriminate.
    + cbn [map]. pose proof (H 0%nat ltac:(cbn; lia)) as H0. cbn in H0. inversion H0; subst x. f_equal.
      apply IH; [|cbn in L; lia]. intros t Ht. specialize (H (S t) ltac:(cbn; lia)). cbn in H. exact H.
Qed.

Lemma lowest_spec fuel : forall i x,
  (exists k, (i <= k < i + fuel)%nat /\ N.testbit x (N.of_nat k) = true) ->
  N.testbit x (N.of_nat (lowest fuel i x)) = true /\
  forall k, (i <= k < lowest fuel i x)%nat -> N.testbit x (N.of_nat k) = false.
Proof.
  induction fuel as [|f IH]; intros i x (k & Hk & Hb); [lia|].
  cbn [lowest]. destruct (N.testbit x (N.of_nat i)) eqn:T.
  - split; [exact T|]. intros; lia.
  - assert (k <> i) by (intro; subst; congruence).
    destruct (IH (S i) x) as [A B]; [exists k; split; [lia|exact Hb]|].
    split; [exact A|]. intros k' Hk'. destruct (Nat.eq_dec k' i); [subst; exact T|]. apply B. lia.
Qed.

Lemma ones_testbit w k : N.testbit (N.ones (N.of_nat w)) (N.of_nat k) = Nat.ltb k w.
Proof.
  destruct (Nat.ltb_spec k w) as [L|L].
  - apply N.ones_spec_low. lia.
  - apply N.ones_spec_high. lia.
Qed.

Lemma walk_nonzero names : forall key cur j cur', key <> [] ->
  walk names cur j key = Some (Some cur') -> cur' <> 0.
Proof.
  induction key as [|c r IH]; intros cur j cur' Hne H; [congruence|]. cbn [walk] in H.
  destruct (row names j (lower c)) as [bits|]; [|discriminate].
  destruct (N.eqb_spec (N.land cur bits) 0) as [Z|Z]; [discriminate|].
  destruct r as [|c2 r2]; [cbn in H; inversion H; subst; exact Z|].
  apply (IH (N.land cur bits) (S j) cur'); [discriminate|exact H].
Qed.

(* lexicographic order of byte strings (Go's string comparison, sort.Strings) *)
Fixpoint lex_ltb (a b : list N) : bool :=
  match a, b with
  | [], [] => false
  | [], _ :: _ => true
  | _ :: _, [] => false
  | x :: a', y :: b' => if x <? y then true else if y <? x then false else lex_ltb a' b'
  end.

Lemma lex_prefix_lt p : forall r, r <> [] -> lex_ltb p (p ++ r) = true.
Proof.
  induction p as [|x p IH]; intros r Hr; cbn [app lex_ltb].
  - destruct r; [congruence|reflexivity].
  - rewrite N.ltb_irrefl. apply IH. exact Hr.
Qed.

Lemma lex_asym a : forall b, lex_ltb a b = true -> lex_ltb b a = false.
Proof.
  induction a as [|x a IH]; intros [|y b] H; cbn [lex_ltb] in *; try reflexivity; try discriminate.
  destruct (N.ltb_spec x y); destruct (N.ltb_spec y x); try lia; try reflexivity; try discriminate;
    try (apply IH; exact H).
Qed.

Definition sorted (names : list (list N)) : Prop :=
  forall i j a b, (i < j)%nat -> nth_error names i = Some a -> nth_error names j = Some b -> lex_ltb a b = true.

Section Match.
  Variable width : nat.
  Variable names : list (list N).
  Hypothesis Hfit : (length names <= width)%nat.

  Lemma candidate key cur k : key <> [] ->
    (forall k, N.testbit cur (N.of_nat k) = N.testbit (N.ones (N.of_nat width)) (N.of_nat k) && matches_from names k 0 key) ->
    N.testbit cur (N.of_nat k) = true ->
    (k < width)%nat /\ exists nm, nth_error names k = Some nm /\
      forall t, (t < length key)%nat -> nth_error nm t = Some (lower (nth t key 0)).
  Proof.
    intros Hne W Hb. rewrite W in Hb. apply andb_true_iff in Hb. destruct Hb as [H1 H2].
    rewrite ones_testbit in H1. apply Nat.ltb_lt in H1. split; [exact H1|].
    destruct (matches_prefix names k key 0 H2) as (nm & [E|E] & Hn); [|congruence].
    exists nm. split; [exact E|]. intros t Ht. destruct (Hn t Ht) as [_ B]. exact B.
  Qed.

  (* 1. no table is ever indexed out of range *)
  Theorem bm_never_stuck key : bm_match width names key <> MStuck.
  Proof.
    unfold bm_match. destruct key as [|c r]; [discriminate|].
    pose proof (walk_spec names (c :: r) (N.ones (N.of_nat width)) 0 ltac:(lia)) as W.
    destruct (walk names (N.ones (N.of_nat width)) 0 (c :: r)) as [[cur|]|] eqn:Ew; [|discriminate|contradiction].
    pose proof (walk_nonzero names (c :: r) _ _ cur ltac:(discriminate) Ew) as NZ.
    destruct (nonzero_bit _ NZ) as [k0 Hk0].
    destruct (candidate (c :: r) cur k0 ltac:(discriminate) W Hk0) as [Hkw _].
    destruct (lowest_spec width 0 cur) as [A _]; [exists k0; split; [lia|exact Hk0]|].
    destruct (candidate (c :: r) cur _ ltac:(discriminate) W A) as [_ (nm & E & _)].
    rewrite E. destruct (Nat.ltb (length (c :: r)) (length nm)); discriminate.
  Qed.

  (* 2. a selected field carries exactly the lower-cased key as its name:
        never a prefix, never an extension *)
  Theorem bm_sound key i : bm_match width names key = MField i ->
    nth_error names i = Some (map lower key).
  Proof.
    unfold bm_match. destruct key as [|c r]; [discriminate|].
    pose proof (walk_spec names (c :: r) (N.ones (N.of_nat width)) 0 ltac:(lia)) as W.
    destruct (walk names (N.ones (N.of_nat width)) 0 (c :: r)) as [[cur|]|] eqn:Ew; [|discriminate|contradiction].
    pose proof (walk_nonzero names (c :: r) _ _ cur ltac:(discriminate) Ew) as NZ.
    destruct (nonzero_bit _ NZ) as [k0 Hk0].
    destruct (candidate (c :: r) cur k0 ltac:(discriminate) W Hk0) as [Hkw _].
    destruct (lowest_spec width 0 cur) as [A _]; [exists k0; split; [lia|exact Hk0]|].
    destruct (candidate (c :: r) cur _ ltac:(discriminate) W A) as [_ (nm & E & Hn)].
    rewrite E. destruct (Nat.ltb_spec (length (c :: r)) (length nm)) as [L|L]; [discriminate|].
    intro H. inversion H; subst i. rewrite E. f_equal. apply prefix_full; assumption.
  Qed.

  (* 3. with the names in sort.Strings order, the field whose name is the
        lower-cased key is found *)
  Theorem bm_complete key i : sorted names -> key <> [] ->
    nth_error names i = Some (map lower key) -> bm_match width names key = MField i.
  Proof.
    intros Hs Hne Hi. unfold bm_match. destruct key as [|c r]; [congruence|].
    pose proof (walk_spec names (c :: r) (N.ones (N.of_nat width)) 0 ltac:(lia)) as W.
    assert (Hiw : (i < width)%nat).
    { assert (i < length names)%nat by (apply nth_error_Some; congruence). lia. }
    assert (Hm : matches_from names i 0 (c :: r) = true).
    { assert (G : forall key j nm, nth_error names i = Some nm -> (forall t, (t < length key)%nat -> nth_error nm (j + t) = Some (lower (nth t key 0))) -> matches_from names i j key = true).
      { induction key as [|x key IHk]; intros j nm En Hn; [reflexivity|]. cbn [matches_from]. apply andb_true_iff. split.
        - unfold hit. rewrite En. specialize (Hn 0%nat ltac:(cbn; lia)). rewrite Nat.add_0_r in Hn. cbn in Hn. rewrite Hn. apply N.eqb_refl.
        - apply (IHk (S j) nm En). intros t Ht. specialize (Hn (S t) ltac:(cbn; lia)). replace (S j + t)%nat with (j + S t)%nat by lia. exact Hn. }
      apply (G (c :: r) 0%nat (map lower (c :: r)) Hi). intros t Ht. cbn [Nat.add].
      rewrite nth_error_map. rewrite (nth_error_nth' (c :: r) 0 Ht). reflexivity. }
    assert (Hbit : forall cur, (forall k, N.testbit cur (N.of_nat k) = N.testbit (N.ones (N.of_nat width)) (N.of_nat k) && matches_from names k 0 (c :: r)) -> N.testbit cur (N.of_nat i) = true).
    { intros cur Hc. rewrite Hc, ones_testbit, Hm. apply andb_true_iff. split; [apply Nat.ltb_lt; exact Hiw|reflexivity]. }
    destruct (walk names (N.ones (N.of_nat width)) 0 (c :: r)) as [[cur|]|] eqn:Ew; [| |contradiction].
    2:{ specialize (W i). rewrite ones_testbit, Hm in W. apply andb_false_iff in W. destruct W as [W|W]; [apply Nat.ltb_ge in W; lia|discriminate]. }
    pose proof (Hbit cur W) as Bi.
    destruct (lowest_spec width 0 cur) as [A B]; [exists i; split; [lia|exact Bi]|].
    set (m := lowest width 0 cur) in *.
    destruct (candidate (c :: r) cur m ltac:(discriminate) W A) as [_ (nm & E & Hn)].
    (* m <= i, and the name at m has the key as prefix: it cannot be smaller than the key itself *)
    assert (Hmi : (m <= i)%nat).
    { destruct (Nat.le_gt_cases m i) as [L|L]; [exact L|]. specialize (B i ltac:(lia)). congruence. }
    destruct (Nat.eq_dec m i) as [Em|Em].
    - rewrite Em in *. rewrite Hi. rewrite map_length. rewrite Nat.ltb_irrefl. reflexivity.
    - exfalso. assert (Lt : (m < i)%nat) by lia.
      pose proof (Hs m i nm (map lower (c :: r)) Lt E Hi) as S1.
      (* nm has the lower-cased key as a prefix *)
      assert (P : exists rest, nm = map lower (c :: r) ++ rest).
      { clear -Hn. revert nm Hn. generalize (c :: r) as key. induction key as [|x key IHk]; intros nm Hn.
        - exists nm. reflexivity.
        - destruct nm as [|y nm]; [specialize (Hn 0%nat ltac:(cbn; lia)); discriminate|].
          pose proof (Hn 0%nat ltac:(cbn; lia)) as H0. cbn in H0. inversion H0; subst y.
          destruct (IHk nm) as [rest Er]. { intros t Ht. specialize (Hn (S t) ltac:(cbn; lia)). exact Hn. }
          exists rest. cbn [map app]. f_equal. exact Er. }
      destruct P as [rest Er]. destruct rest as [|z rest].
      + rewrite app_nil_r in Er. subst nm.
        assert (X : lex_ltb (map lower (c :: r)) (map lower (c :: r)) = false).
        { generalize (map lower (c :: r)). induction l as [|x l IHl]; [reflexivity|]. cbn. rewrite N.ltb_irrefl. exact IHl. }
        congruence.
      + pose proof (lex_prefix_lt (map lower (c :: r)) (z :: rest) ltac:(discriminate)) as S2. rewrite <- Er in S2.
        pose proof (lex_asym _ _ S2). congruence.
  Qed.
End Match.
