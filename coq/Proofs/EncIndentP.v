(* The indenting interpreter writes, for every value, the text in which the
   tokens of the value are separated by newline + prefix + depth x indent (and
   one space after a colon); with a prefix and an indent made of white space
   that text is read back by the RFC 8259 recogniser as the token sequence of
   the value -- the same sequence the compact interpreter writes. *)
From Coq Require Import NArith List Bool Arith Lia.
From GJ Require Import Base.Bytes Spec.Json Model.Enc Model.EncIndent Proofs.EncP Proofs.ParseP Proofs.ParseWsP.
Import ListNotations.
Open Scope N_scope.

Section IndentProof.
  Variables pre ind : list N.

  Definition nl (k : nat) : list N := 10 :: pre ++ repeat_bytes k ind.
  Definition og (d : nat) := nl (S d).
  Definition sg (d : nat) := nl (S d).
  Definition cg (d : nat) := nl d.
  Definition kg : list N := [32].

  (* the indented text of a value at depth d *)
  Definition ri (d : nat) (v : jv) : list N := rs og sg cg kg d v.

  Notation ENC := (enc_i pre ind).

  Lemma drop2_snoc2 (z : list N) a b : drop2 (z ++ [a; b]) = z.
  Proof.
    unfold drop2. change (z ++ [a; b]) with (z ++ [a] ++ [b]). rewrite app_assoc. rewrite removelast_last. rewrite removelast_last. reflexivity.
  Qed.

  Lemma join_flat (sep : list N) x r : join sep (x :: r) = x ++ flat_map (fun y => sep ++ y) r.
  Proof.
    revert x. induction r as [|y r IH]; intro x; [cbn; rewrite app_nil_r; reflexivity|].
    change (join sep (x :: y :: r)) with (x ++ sep ++ join sep (y :: r)). rewrite IH. cbn [flat_map]. rewrite <- !app_assoc. reflexivity.
  Qed.

  Lemma flat_map_map {A B C} (f : B -> list C) (g : A -> B) l : flat_map f (map g l) = flat_map (fun x => f (g x)) l.
  Proof. induction l as [|x l IH]; [reflexivity|]. cbn [map flat_map]. rewrite IH. reflexivity. Qed.

  Lemma arr_fold d (T : jv -> list N) : forall r A,
    (forall y, In y r -> forall b', ENC (S d) y b' = b' ++ T y ++ [44; 10]) ->
    fold_left (fun acc y => ENC (S d) y (i_appendArrayElemIndent pre ind acc d)) r (A ++ [44; 10]) =
    A ++ flat_map (fun y => (44 :: nl (S d)) ++ T y) r ++ [44; 10].
  Proof.
    induction r as [|y r IH]; intros A H; [reflexivity|].
    cbn [fold_left flat_map]. rewrite (H y (or_introl eq_refl)).
    unfold i_appendArrayElemIndent, appendIndent.
    replace ((A ++ [44; 10]) ++ pre ++ repeat_bytes (S d) ind) with (A ++ 44 :: nl (S d)) by (unfold nl; rewrite <- !app_assoc; reflexivity).
    replace ((A ++ 44 :: nl (S d)) ++ T y ++ [44; 10]) with ((A ++ (44 :: nl (S d)) ++ T y) ++ [44; 10]) by (rewrite <- !app_assoc; reflexivity).
    rewrite IH by (intros z Hz; apply H; right; exact Hz). rewrite <- !app_assoc. reflexivity.
  Qed.

  (* members written so far: each on its own line, each followed by ",\n" *)
  Definition line (d : nat) (m : list N) : list N := pre ++ repeat_bytes (S d) ind ++ m ++ [44; 10].
  Definition mtext_i (d : nat) (k : list N) (x : jv) : list N := 34 :: k ++ [34; 58] ++ kg ++ ri (S d) x.

  Lemma obj_fold d : forall l acc,
    (forall m, In m l -> forall b', ENC (S d) (snd m) b' = b' ++ ri (S d) (strip (snd m)) ++ [44; 10]) ->
    fold_left (fun acc kv => match kv with
                             | (k, false, x) => ENC (S d) x (i_appendStructKey pre ind acc d k)
                             | (_, true, _) => acc end) l acc =
    acc ++ flat_map (fun kv : list N * bool * jv => match kv with
                                                    | (k, false, x) => line d (mtext_i d k (strip x))
                                                    | (_, true, _) => [] end) l.
  Proof.
    induction l as [|[[k om] x] l IH]; intros acc H; [cbn; rewrite app_nil_r; reflexivity|].
    cbn [fold_left flat_map]. destruct om.
    - rewrite IH by (intros z Hz; apply H; right; exact Hz). reflexivity.
    - pose proof (H (k, false, x) (or_introl eq_refl)) as Hx. cbn [snd] in Hx. rewrite Hx.
      rewrite IH by (intros z Hz; apply H; right; exact Hz).
      unfold i_appendStructKey, appendIndent, line, mtext_i, kg, SP, COLON. rewrite <- !app_assoc. cbn [app]. rewrite <- !app_assoc. reflexivity.
  Qed.

  Lemma lines_join d m r :
    [123; 10] ++ flat_map (line d) (m :: r) = (123 :: nl (S d) ++ join (44 :: nl (S d)) (m :: r)) ++ [44; 10].
  Proof.
    rewrite join_flat. revert m. induction r as [|y r IH]; intro m.
    - cbn [flat_map]. unfold line, nl. rewrite !app_nil_r. cbn [app]. rewrite <- !app_assoc. reflexivity.
    - cbn [flat_map] in *. specialize (IH y).
      unfold line at 1. unfold nl at 1.
      (* peel the first line off, then use the statement for the tail with its own first line *)
      transitivity ((123 :: nl (S d) ++ m) ++ [44; 10] ++ line d y ++ flat_map (line d) r).
      { unfold nl. cbn [app]. rewrite <- !app_assoc. reflexivity. }
      assert (E : [44; 10] ++ line d y ++ flat_map (line d) r = (44 :: nl (S d)) ++ y ++ flat_map (fun z => (44 :: nl (S d)) ++ z) r ++ [44; 10]).
      { assert (E0 : line d y ++ flat_map (line d) r = (pre ++ repeat_bytes (S d) ind) ++ (y ++ flat_map (fun z => (44 :: nl (S d)) ++ z) r) ++ [44; 10]).
        { assert (E1 : [123; 10] ++ line d y ++ flat_map (line d) r = [123; 10] ++ ((pre ++ repeat_bytes (S d) ind) ++ (y ++ flat_map (fun z => (44 :: nl (S d)) ++ z) r) ++ [44; 10])).
          { rewrite IH. unfold nl. cbn [app]. rewrite <- !app_assoc. reflexivity. }
          apply app_inv_head in E1. exact E1. }
        rewrite E0. unfold nl. cbn [app]. rewrite <- !app_assoc. reflexivity. }
      rewrite E. unfold nl. norm. reflexivity.
  Qed.

  Lemma shown_lines d : forall l,
    flat_map (fun kv : list N * bool * jv => match kv with
                                             | (k, false, x) => line d (mtext_i d k (strip x))
                                             | (_, true, _) => [] end) l =
    flat_map (line d) (map (fun m : list N * bool * jv => match m with (k, _, x) => 34 :: k ++ [34; 58] ++ kg ++ ri (S d) x end)
                           (flat_map (fun m : list N * bool * jv => match m with (k, om, x) => if om then [] else [(k, false, strip x)] end) l)).
  Proof.
    induction l as [|[[k om] x] l IH]; [reflexivity|]. cbn [flat_map]. destruct om; [exact IH|].
    cbn [app map flat_map]. rewrite IH. reflexivity.
  Qed.

  Theorem enc_i_denotes_n : forall n v, (size v <= n)%nat -> forall d b, ENC d v b = b ++ ri d (strip v) ++ [44; 10].
  Proof.
    induction n as [|n IH]; intros v Hs d b; [destruct v; cbn in Hs; lia|].
    destruct v as [t|l|l].
    - cbn [enc_i strip]. unfold i_appendComma, ri. cbn [rs]. unfold COMMA, NL. rewrite <- app_assoc. reflexivity.
    - cbn [size] in Hs. destruct l as [|x r].
      + cbn [enc_i strip map]. unfold i_appendEmptyArray, ri. cbn [rs]. reflexivity.
      + assert (Hall : forall y, In y (x :: r) -> forall d' b', ENC d' y b' = b' ++ ri d' (strip y) ++ [44; 10]).
        { intros y Hy d' b'. apply IH. pose proof (size_in y (x :: r) Hy). lia. }
        cbn [enc_i]. rewrite (Hall x (or_introl eq_refl)).
        unfold i_appendArrayHead, appendIndent.
        replace (((b ++ [LBR; NL]) ++ pre ++ repeat_bytes (S d) ind) ++ ri (S d) (strip x) ++ [44; 10])
          with ((b ++ 91 :: nl (S d) ++ ri (S d) (strip x)) ++ [44; 10]) by (unfold nl, LBR, NL; rewrite <- !app_assoc; cbn [app]; rewrite <- !app_assoc; reflexivity).
        rewrite (arr_fold d (fun y => ri (S d) (strip y)) r _ (fun y Hy b' => Hall y (or_intror Hy) (S d) b')).
        unfold i_appendArrayEnd, appendIndent.
        match goal with |- context [drop2 (?Z ++ ?F ++ [44; 10])] => replace (Z ++ F ++ [44; 10]) with ((Z ++ F) ++ [44; 10]) by (rewrite <- !app_assoc; reflexivity) end.
        rewrite drop2_snoc2.
        assert (Er : ri d (strip (JArr (x :: r))) =
                     91 :: og d ++ join (44 :: sg d) (ri (S d) (strip x) :: map (ri (S d)) (map strip r)) ++ cg d ++ [93]) by reflexivity.
        rewrite Er. rewrite join_flat. rewrite !flat_map_map.
        unfold og, sg, cg, nl, RBR, COMMA, NL. norm. reflexivity.
    - cbn [size] in Hs.
      assert (Hall : forall m, In m l -> forall d' b', ENC d' (snd m) b' = b' ++ ri d' (strip (snd m)) ++ [44; 10]).
      { intros m Hm d' b'. apply IH. pose proof (size_in_snd m l Hm). lia. }
      cbn [enc_i]. rewrite (obj_fold d l _ (fun m Hm b' => Hall m Hm (S d) b')). rewrite shown_lines.
      cbn [strip]. set (sl := flat_map (fun m : list N * bool * jv => match m with (k, om, x) => if om then [] else [(k, false, strip x)] end) l).
      unfold ri at 2. cbn [rs]. change (rs og sg cg kg (S d)) with (ri (S d)).
      destruct sl as [|m0 sr].
      + cbn [map flat_map]. rewrite app_nil_r. unfold i_appendStructHead, i_appendStructEndSkipLast.
        replace (removelast (b ++ [LBC; NL])) with (b ++ [LBC]) by (change (b ++ [LBC; NL]) with (b ++ [LBC] ++ [NL]); rewrite app_assoc, removelast_last; reflexivity).
        rewrite last_last. change (LBC =? LBC) with true. cbv iota. unfold i_appendComma, RBC, COMMA, NL, LBC. rewrite <- !app_assoc. reflexivity.
      + set (ms := map (fun m : list N * bool * jv => match m with (k, _, x) => 34 :: k ++ [34; 58] ++ kg ++ ri (S d) x end) (m0 :: sr)).
        assert (Hms : exists m1 mr, ms = m1 :: mr) by (unfold ms; cbn [map]; eexists _, _; reflexivity).
        destruct Hms as (m1 & mr & Ems). rewrite Ems.
        unfold i_appendStructHead. rewrite <- app_assoc. unfold LBC, NL. rewrite (lines_join d m1 mr).
        set (Z := 123 :: nl (S d) ++ join (44 :: nl (S d)) (m1 :: mr)).
        unfold i_appendStructEndSkipLast.
        replace (b ++ Z ++ [44; 10]) with ((b ++ Z) ++ [44] ++ [10]) by (rewrite <- !app_assoc; reflexivity).
        rewrite (app_assoc (b ++ Z) [44] [10]). rewrite removelast_last, last_last, last_last.
        change (44 =? LBC) with false. change (10 =? NL) with true. cbv iota.
        replace (((b ++ Z) ++ [44]) ++ [10]) with ((b ++ Z) ++ [44; 10]) by (rewrite <- !app_assoc; reflexivity).
        rewrite drop2_snoc2. unfold i_appendComma, appendIndent, Z, og, sg, cg, nl, RBC, COMMA, NL. norm. reflexivity.
  Qed.

  Theorem marshal_indent_is_ri v : marshal_indent pre ind v = ri 0 (strip v).
  Proof. unfold marshal_indent. rewrite (enc_i_denotes_n (size v) v (le_n _)). cbn [app]. apply drop2_snoc2. Qed.

  (* with white space as prefix and indent, the indented text reads as the same token sequence as the compact text *)
  Hypothesis Hpre : all_ws pre = true.
  Hypothesis Hind : all_ws ind = true.

  Lemma all_ws_app a b : all_ws a = true -> all_ws b = true -> all_ws (a ++ b) = true.
  Proof. induction a as [|c a IH]; intros Ha Hb; [exact Hb|]. cbn [all_ws app] in *. apply andb_true_iff in Ha. destruct Ha as [Hc Ha]. rewrite Hc. apply IH; assumption. Qed.
  Lemma all_ws_rep k : all_ws (repeat_bytes k ind) = true.
  Proof. induction k as [|k IH]; [reflexivity|]. cbn [repeat_bytes]. apply all_ws_app; assumption. Qed.
  Lemma nl_ws k : all_ws (nl k) = true.
  Proof. unfold nl. cbn [all_ws]. change (ws_b 10) with true. cbn [andb]. apply all_ws_app; [exact Hpre|apply all_ws_rep]. Qed.

  Theorem parse_marshal_indent v : wfp (strip v) = true -> parse_json (marshal_indent pre ind v) = Some (toks v, []).
  Proof.
    intro Hw. rewrite marshal_indent_is_ri. unfold ri.
    rewrite (parse_spaced og sg cg kg (fun d => nl_ws (S d)) (fun d => nl_ws (S d)) (fun d => nl_ws d) eq_refl (strip v) Hw).
    destruct (strip_same_n (size v) v (le_n _)) as [_ Ht]. rewrite Ht. reflexivity.
  Qed.
End IndentProof.
