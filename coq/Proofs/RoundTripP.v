(* Typed round trip: decoding what the typed encoder writes gives the value
   back, for every type of the fragment and every round-trippable value
   (integers in range, strings that survive UTF-8 normalisation, no pointer to a
   nil nilable, maps with their members in key order, interface{} = nil). *)
From Coq Require Import NArith ZArith List Bool Arith Lia.
From GJ Require Import Base.Bytes Base.Word64 Gen.Tables Gen.Swar Spec.Json Model.Int Model.StrEnc Model.StrDec Model.Enc Model.Decode Model.EncTyped
  Proofs.WordP Proofs.IntEncP Proofs.IntDecP Proofs.IntScanP Proofs.StrBodyP Proofs.StrDecP Proofs.DecodeP
  Model.Base64 Proofs.Base64P Proofs.Base64JsonP.
From GJ Require Properties.C17.
Import ListNotations.
Open Scope N_scope.

(* ---------- leaves ---------- *)
Definition width (bits : N) : bool := (bits =? 8) || (bits =? 16) || (bits =? 32) || (bits =? 64).

Lemma width_ok_of bits : width bits = true -> width_ok bits.
Proof.
  unfold width. intro H. assert (E : bits = 8 \/ bits = 16 \/ bits = 32 \/ bits = 64).
  { repeat (apply orb_true_iff in H; destruct H as [H|H]); apply N.eqb_eq in H; auto. }
  unfold width_ok. destruct E as [E|[E|[E|E]]]; subst; auto.
Qed.

Lemma int_round_trip bits z : width bits = true -> in_range true bits z = true ->
  int_of true bits (append_int bits (twos_c bits z)) = Some z.
Proof.
  intros Hw Hr. pose proof (width_ok_of bits Hw) as W. unfold in_range in Hr. apply andb_true_iff in Hr. destruct Hr as [H1 H2].
  apply Z.leb_le in H1. apply Z.ltb_lt in H2.
  pose proof (append_int_canonical bits z W (conj H1 H2)) as Hc. unfold canonical_int in Hc. change (twos bits z) with (twos_c bits z) in Hc.
  assert (Hr : in_range true bits z = true) by (unfold in_range; apply andb_true_iff; split; [apply Z.leb_le|apply Z.ltb_lt]; lia).
  unfold int_of. destruct (z <? 0)%Z eqn:En.
  - destruct Hc as (d & E & Hd). rewrite E. apply Z.ltb_lt in En.
    assert (Ha : Z.abs_N z = Z.to_N (- z)) by lia. rewrite <- Ha in Hd.
    pose proof (unmarshal_int_accepts true bits [] true d [] z W) as A. cbn [app] in A. rewrite app_nil_r in A.
    rewrite A; [reflexivity|constructor|constructor|exact Hd|lia|intro; discriminate|exact Hr].
  - apply Z.ltb_ge in En. assert (Ha : Z.abs_N z = Z.to_N z) by lia. rewrite <- Ha in Hc.
    pose proof (unmarshal_int_accepts true bits [] false (append_int bits (twos_c bits z)) [] z W) as A. cbn [app] in A. rewrite app_nil_r in A.
    rewrite A; [reflexivity|constructor|constructor|exact Hc|lia|intro; discriminate|exact Hr].
Qed.

Lemma uint_round_trip bits z : width bits = true -> in_range false bits z = true ->
  int_of false bits (append_uint bits (Z.to_N z)) = Some z.
Proof.
  intros Hw Hr. pose proof (width_ok_of bits Hw) as W. pose proof Hr as Hr0. unfold in_range in Hr. apply andb_true_iff in Hr. destruct Hr as [H1 H2].
  apply Z.leb_le in H1. apply Z.ltb_lt in H2.
  assert (Hu : Z.to_N z < 2 ^ bits).
  { apply N2Z.inj_lt. rewrite Z2N.id by lia. rewrite N2Z.inj_pow. exact H2. }
  pose proof (append_uint_canonical bits (Z.to_N z) W) as Hc. rewrite N.mod_small in Hc by exact Hu.
  assert (Ha : Z.abs_N z = Z.to_N z) by lia.
  assert (Hc' : canonical (append_uint bits (Z.to_N z)) (Z.abs_N z)) by (rewrite Ha; exact Hc).
  unfold int_of.
  pose proof (unmarshal_int_accepts false bits [] false (append_uint bits (Z.to_N z)) [] z W) as A. cbn [app] in A. rewrite app_nil_r in A.
  rewrite A; [reflexivity|constructor|constructor|exact Hc'|lia|reflexivity|exact Hr0].
Qed.

(* a string the encoder writes and the decoder reads back unchanged: bytes, and fixed by UTF-8 normalisation *)
Definition str_clean (s : list N) : bool := forallb (fun c => c <? 256) s && list_eqb (sanitize (length s) s) s.

Lemma str_round_trip s : str_clean s = true -> unq (esc s) = Some s.
Proof.
  unfold str_clean. intro H. apply andb_true_iff in H. destruct H as [Hb Hs]. apply list_eqb_eq in Hs.
  assert (Hok : ok s). { unfold ok. apply Forall_forall. intros c Hc. rewrite forallb_forall in Hb. apply N.ltb_lt. apply Hb. exact Hc. }
  pose proof (C17.C17_swar_fast_path_sound true true s Hok) as E.
  unfold unq, esc. rewrite E. cbn [tl].
  replace (removelast (slow_v true true s ++ [34])) with (slow_v true true s) by (rewrite removelast_last; reflexivity).
  rewrite <- E. rewrite (C17.C17_string_roundtrip true true s Hok). rewrite Hs. reflexivity.
Qed.

(* ---------- round-trippable values ---------- *)
Definition is_vnil (v : gv) : bool := match v with VNil => true | _ => false end.

Fixpoint nodup_keys (ks : list (list N)) : bool :=
  match ks with [] => true | k :: r => negb (existsb (list_eqb k) r) && nodup_keys r end.
Fixpoint sorted_keys (ks : list (list N)) : bool :=
  match ks with
  | k1 :: ((k2 :: _) as r) => bytes_leb k1 k2 && sorted_keys r
  | _ => true
  end.

Fixpoint rt (t : ty) (v : gv) : bool :=
  match t, v with
  | TBool, VBool _ => true
  | TInt bits, VInt z => width bits && in_range true bits z
  | TUint bits, VInt z => width bits && in_range false bits z
  | TString, VStr s => str_clean s
  | TIface, VNil => true
  | TPtr _, VNil => true
  | TPtr e, VPtr x => negb (is_vnil x) && rt e x
  | TSlice _, VNil => true
  | TSlice e, VSlice l => forallb (rt e) l
  | TArr n e, VArr l => Nat.eqb (length l) n && forallb (rt e) l
  | TMap _, VNil => true
  | TMap e, VMap l => nodup_keys (map fst l) && sorted_keys (map fst l) && forallb (fun kv : list N * gv => str_clean (fst kv) && rt e (snd kv)) l
  | TStruct fs, VStruct l =>
      nodup_keys (map fst fs) && forallb (fun kt : list N * ty => str_clean (fst kt)) fs &&
      (fix all (fs : list (list N * ty)) (l : list gv) : bool :=
         match fs, l with
         | [], [] => true
         | (_, ft) :: fr, x :: lr => rt ft x && all fr lr
         | _, _ => false
         end) fs l
  | TBytes, VNil => true
  | TBytes, VSlice l => forallb (fun x => match x with VInt z => (0 <=? z)%Z && (z <? 256)%Z | _ => false end) l
  | TMapI _ _ _, VNil => true
  | TMapI signed bits e, VMap l =>
      width bits && nodup_keys (map fst l) && sorted_keys (map fst l) &&
      forallb (fun kv : list N * gv => canon_key signed bits (fst kv) && rt e (snd kv)) l
  | _, _ => false
  end.

(* a byte slice as a value: the bytes it holds, and back *)
Definition bytes_of (l : list gv) : list N := map (fun x => match x with VInt z => Z.to_N z | _ => 0 end) l.
Lemma bytes_of_ok l : forallb (fun x => match x with VInt z => (0 <=? z)%Z && (z <? 256)%Z | _ => false end) l = true ->
  Forall (fun b => b < 256) (bytes_of l) /\ map (fun x => VInt (Z.of_N x)) (bytes_of l) = l.
Proof.
  induction l as [|x l IH]; intro H; [split; [constructor|reflexivity]|].
  cbn [forallb] in H. apply andb_true_iff in H. destruct H as [Hx Hl]. destruct (IH Hl) as [A B].
  destruct x; try discriminate Hx. apply andb_true_iff in Hx. destruct Hx as [H0 H1]. apply Z.leb_le in H0. apply Z.ltb_lt in H1.
  cbn [bytes_of map]. split; [constructor; [lia|exact A]|]. fold (bytes_of l). rewrite B. rewrite Z2N.id by lia. reflexivity.
Qed.

Fixpoint fields_rt (fs : list (list N * ty)) (l : list gv) : bool :=
  match fs, l with
  | [], [] => true
  | (_, ft) :: fr, x :: lr => rt ft x && fields_rt fr lr
  | _, _ => false
  end.

Lemma rt_struct fs l : rt (TStruct fs) (VStruct l) =
  nodup_keys (map fst fs) && forallb (fun kt : list N * ty => str_clean (fst kt)) fs && fields_rt fs l.
Proof.
  cbn [rt]. f_equal.
Qed.

Fixpoint vn (v : gv) : nat :=
  match v with
  | VPtr x => S (vn x)
  | VSlice l | VArr l | VStruct l => S (fold_right (fun x a => (vn x + a)%nat) O l)
  | VMap l => S (fold_right (fun kv a => (vn (snd kv) + a)%nat) O l)
  | _ => 1%nat
  end.

Lemma vn_in x : forall l, In x l -> (vn x <= fold_right (fun x a => vn x + a) 0 l)%nat.
Proof. induction l as [|y r IH]; intros H; [destruct H|]. cbn [fold_right]. destruct H as [->|H]; [lia|specialize (IH H); lia]. Qed.
Lemma vn_in_snd (kv : list N * gv) : forall l, In kv l -> (vn (snd kv) <= fold_right (fun kv a => vn (snd kv) + a) 0 l)%nat.
Proof. induction l as [|y r IH]; intros H; [destruct H|]. cbn [fold_right]. destruct H as [->|H]; [lia|specialize (IH H); lia]. Qed.

(* a value that is written as something else than null *)
Lemma encj_not_null t v : rt t v = true -> is_vnil v = false -> is_null (encj t v) = false.
Proof.
  revert v. induction t as [ |bits|bits| | |e IH|e IH|n e IH|e IH|fs| |sg bits e IH]; intros v Hr Hn; destruct v; try discriminate Hr; try discriminate Hn; try reflexivity.
  - cbn [encj]. destruct b; reflexivity.
  - cbn [rt] in Hr. apply andb_true_iff in Hr. destruct Hr as [Hv Hr]. cbn [encj]. apply IH; [exact Hr|]. apply negb_true_iff. exact Hv.
Qed.

Definition round_trips (t : ty) (v : gv) : Prop := forall f, (vn v <= f)%nat -> dec f t (encj t v) (zero t) = DOk v.

(* ---------- containers ---------- *)
Lemma slice_back e (decf : jv -> gv -> dres) : forall l acc,
  (forall x, In x l -> decf (encj e x) (zero e) = DOk x) ->
  slice_loop decf (zero e) (map (encj e) l) [] acc = DOk (VSlice (rev acc ++ l)).
Proof.
  induction l as [|x l IH]; intros acc H; cbn [map slice_loop tl]; [rewrite app_nil_r; reflexivity|].
  rewrite (H x (or_introl eq_refl)). rewrite IH by (intros y Hy; apply H; right; exact Hy). cbn [rev]. rewrite <- app_assoc. reflexivity.
Qed.

Lemma array_back e (decf : jv -> gv -> dres) : forall l acc,
  (forall x, In x l -> decf (encj e x) (zero e) = DOk x) ->
  array_loop decf (zero e) (map (encj e) l) (repeat (zero e) (length l)) acc = DOk (VArr (rev acc ++ l)).
Proof.
  induction l as [|x l IH]; intros acc H.
  - cbn [map length repeat array_loop]. rewrite app_nil_r. reflexivity.
  - cbn [map length repeat array_loop]. rewrite (H x (or_introl eq_refl)).
    rewrite IH by (intros y Hy; apply H; right; exact Hy). cbn [rev]. rewrite <- app_assoc. reflexivity.
Qed.

Lemma sort_sorted {A} : forall (l : list (list N * A)), sorted_keys (map fst l) = true -> sort_keys l = l.
Proof.
  induction l as [|[k a] r IH]; intro H; [reflexivity|].
  unfold sort_keys in *. cbn [fold_right fst snd]. cbn [map fst] in H.
  destruct r as [|[k2 a2] r2]; [reflexivity|]. cbn [map fst sorted_keys] in H. apply andb_true_iff in H. destruct H as [H1 H2].
  rewrite IH by exact H2. cbn [insert_key]. rewrite H1. reflexivity.
Qed.

Lemma set_key_fresh {A} k (a : A) : forall m, existsb (list_eqb k) (map fst m) = false -> set_key k a m = m ++ [(k, a)].
Proof.
  induction m as [|[k' a'] m IH]; intro H; [reflexivity|]. cbn [map fst existsb] in H. apply orb_false_iff in H. destruct H as [H1 H2].
  cbn [set_key]. rewrite H1. rewrite IH by exact H2. reflexivity.
Qed.

Lemma existsb_app_false {A} (p : A -> bool) a b : existsb p a = false -> existsb p b = false -> existsb p (a ++ b) = false.
Proof. intros Ha Hb. rewrite existsb_app, Ha, Hb. reflexivity. Qed.

Lemma list_eqb_sym a b : list_eqb a b = list_eqb b a.
Proof.
  destruct (list_eqb a b) eqn:E1; destruct (list_eqb b a) eqn:E2; try reflexivity.
  - apply list_eqb_eq in E1. subst. assert (list_eqb b b = true) by (apply list_eqb_eq; reflexivity). congruence.
  - apply list_eqb_eq in E2. subst. assert (list_eqb a a = true) by (apply list_eqb_eq; reflexivity). congruence.
Qed.

Lemma map_back e (decf : jv -> gv -> dres) : forall l m,
  nodup_keys (map fst l) = true ->
  (forall kv, In kv l -> existsb (list_eqb (fst kv)) (map fst m) = false) ->
  (forall kv, In kv l -> str_clean (fst kv) = true /\ decf (encj e (snd kv)) (zero e) = DOk (snd kv)) ->
  map_loop decf (zero e)
    (map (fun kv : list N * jv => (esc (fst kv), false, snd kv)) (map (fun kx : list N * gv => (fst kx, encj e (snd kx))) l)) m =
  DOk (VMap (m ++ l)).
Proof.
  induction l as [|[k x] l IH]; intros m Hnd Hfresh H; cbn [map map_loop fst snd]; [rewrite app_nil_r; reflexivity|].
  destruct (H (k, x) (or_introl eq_refl)) as [Hk Hx]. cbn [fst snd] in Hk, Hx.
  rewrite (str_round_trip k Hk). rewrite Hx.
  pose proof (Hfresh (k, x) (or_introl eq_refl)) as Hf. cbn [fst] in Hf. rewrite (set_key_fresh k x m Hf).
  cbn [map fst nodup_keys] in Hnd. apply andb_true_iff in Hnd. destruct Hnd as [Hk1 Hnd]. apply negb_true_iff in Hk1.
  rewrite IH; [rewrite <- app_assoc; reflexivity|exact Hnd| |intros kv Hkv; apply H; right; exact Hkv].
  intros kv Hkv. rewrite map_app. apply existsb_app_false; [apply Hfresh; right; exact Hkv|].
  cbn [map fst existsb]. rewrite orb_false_r.
  (* kv's key differs from k: k is not among the later keys *)
  destruct (list_eqb (fst kv) k) eqn:E; [|reflexivity]. apply list_eqb_eq in E. subst k.
  assert (Hin : existsb (list_eqb (fst kv)) (map fst l) = true).
  { apply existsb_exists. exists (fst kv). split; [apply in_map; exact Hkv|apply list_eqb_eq; reflexivity]. }
  congruence.
Qed.

(* integer keys: a canonical key is digits behind an optional sign -- the string scanner leaves it as it is *)
Lemma canon_key_plain signed bits k : canon_key signed bits k = true -> forallb plain_char k = true.
Proof.
  unfold canon_key, key_int. intro H.
  assert (D : forall body, all_digits body = true -> forallb plain_char body = true).
  { intros body Hb. unfold all_digits in Hb. destruct body as [|c r]; [discriminate|]. rewrite forallb_forall in Hb |- *. intros x Hx. specialize (Hb x Hx).
    apply andb_true_iff in Hb. destruct Hb as [H1 H2]. apply N.leb_le in H1. apply N.leb_le in H2. unfold plain_char.
    destruct (N.leb_spec 32 x), (N.ltb_spec x 127), (N.eqb_spec x 34), (N.eqb_spec x 92), (N.eqb_spec x 60), (N.eqb_spec x 62), (N.eqb_spec x 38); try reflexivity; lia. }
  destruct k as [|c r]; [discriminate H|].
  destruct (N.eq_dec c 45) as [->|N1]; [|destruct (N.eq_dec c 43) as [->|N2]].
  - destruct signed.
    + destruct (all_digits r) eqn:A; [|discriminate H]. cbn [forallb]. rewrite (D r A). reflexivity.
    + destruct (all_digits (45 :: r)) eqn:A; [|discriminate H]. exact (D _ A).
  - destruct signed.
    + destruct (all_digits r) eqn:A; [|discriminate H]. cbn [forallb]. rewrite (D r A). reflexivity.
    + destruct (all_digits (43 :: r)) eqn:A; [|discriminate H]. exact (D _ A).
  - assert (Hsame : match c :: r with 45 :: r0 => if signed then (true, r0) else (false, c :: r) | 43 :: r0 => if signed then (false, r0) else (false, c :: r) | _ => (false, c :: r) end = (false, c :: r)).
    { destruct c as [|p]; [reflexivity|]. repeat (destruct p as [p|p|]; try reflexivity; try congruence). }
    rewrite Hsame in H. destruct (all_digits (c :: r)) eqn:A; [|discriminate H]. exact (D _ A).
Qed.
Lemma canon_key_back signed bits k : canon_key signed bits k = true ->
  match key_int signed bits k with Some z => Some (int_key signed bits z) | None => None end = Some k.
Proof. unfold canon_key. destruct (key_int signed bits k) as [z|]; [|discriminate]. intro H. apply list_eqb_eq in H. rewrite <- H. reflexivity. Qed.

Lemma map_back_k signed bits e (decf : jv -> gv -> dres) : forall l m,
  nodup_keys (map fst l) = true ->
  (forall kv, In kv l -> existsb (list_eqb (fst kv)) (map fst m) = false) ->
  (forall kv, In kv l -> canon_key signed bits (fst kv) = true /\ decf (encj e (snd kv)) (zero e) = DOk (snd kv)) ->
  map_loop_k decf (zero e) (fun k' => match key_int signed bits k' with Some z => Some (int_key signed bits z) | None => None end)
    (map (fun kv : list N * jv => (fst kv, false, snd kv)) (map (fun kx : list N * gv => (fst kx, encj e (snd kx))) l)) m =
  DOk (VMap (m ++ l)).
Proof.
  induction l as [|[k x] l IH]; intros m Hnd Hfresh H; cbn [map map_loop_k fst snd]; [rewrite app_nil_r; reflexivity|].
  destruct (H (k, x) (or_introl eq_refl)) as [Hk Hx]. cbn [fst snd] in Hk, Hx.
  rewrite (unq_plain k (canon_key_plain signed bits k Hk)). rewrite (canon_key_back signed bits k Hk). rewrite Hx.
  pose proof (Hfresh (k, x) (or_introl eq_refl)) as Hf. cbn [fst] in Hf. rewrite (set_key_fresh k x m Hf).
  cbn [map fst nodup_keys] in Hnd. apply andb_true_iff in Hnd. destruct Hnd as [Hk1 Hnd]. apply negb_true_iff in Hk1.
  rewrite IH; [rewrite <- app_assoc; reflexivity|exact Hnd| |intros kv Hkv; apply H; right; exact Hkv].
  intros kv Hkv. rewrite map_app. apply existsb_app_false; [apply Hfresh; right; exact Hkv|].
  cbn [map fst existsb]. rewrite orb_false_r.
  destruct (list_eqb (fst kv) k) eqn:E; [|reflexivity]. apply list_eqb_eq in E. subst k.
  assert (Hin : existsb (list_eqb (fst kv)) (map fst l) = true).
  { apply existsb_exists. exists (fst kv). split; [apply in_map; exact Hkv|apply list_eqb_eq; reflexivity]. }
  congruence.
Qed.

(* the i-th field name finds the i-th field *)
Lemma field_index_nth : forall pre k t fs i, existsb (list_eqb k) (map fst pre) = false ->
  field_index k (pre ++ (k, t) :: fs) i = Some ((i + length pre)%nat, t).
Proof.
  induction pre as [|[k' t'] pre IH]; intros k t fs i H.
  - cbn [app field_index]. assert (E : list_eqb k k = true) by (apply list_eqb_eq; reflexivity). rewrite E. cbn [length]. rewrite Nat.add_0_r. reflexivity.
  - cbn [map fst existsb] in H. apply orb_false_iff in H. destruct H as [H1 H2]. cbn [app field_index]. rewrite H1.
    rewrite (IH k t fs (S i) H2). cbn [length]. f_equal. f_equal. lia.
Qed.

Lemma nth_mid {A} (a : list A) x b d : nth (length a) (a ++ x :: b) d = x.
Proof. induction a as [|y a IH]; [reflexivity|exact IH]. Qed.
Lemma set_nth_mid (a : list gv) x y b : set_nth (length a) y (a ++ x :: b) = a ++ y :: b.
Proof. induction a as [|z a IH]; [reflexivity|]. cbn [length app set_nth]. rewrite IH. reflexivity. Qed.

Lemma nodup_split_fresh : forall (pre : list (list N * ty)) k t fs, nodup_keys (map fst (pre ++ (k, t) :: fs)) = true ->
  existsb (list_eqb k) (map fst pre) = false.
Proof.
  induction pre as [|[k' t'] pre IH]; intros k t fs H; [reflexivity|].
  cbn [app map fst nodup_keys] in H. apply andb_true_iff in H. destruct H as [H1 H2]. apply negb_true_iff in H1.
  cbn [map fst existsb]. rewrite (IH k t fs H2). rewrite orb_false_r.
  rewrite map_app, existsb_app in H1. apply orb_false_iff in H1. destruct H1 as [_ H1]. cbn [map fst existsb] in H1. apply orb_false_iff in H1. destruct H1 as [H1 _].
  rewrite list_eqb_sym. exact H1.
Qed.

Fixpoint fields_j (fs : list (list N * ty)) (l : list gv) : list (list N * bool * jv) :=
  match fs, l with
  | (k, ft) :: fr, x :: lr => (esc k, false, encj ft x) :: fields_j fr lr
  | _, _ => []
  end.

Lemma encj_struct fs l : encj (TStruct fs) (VStruct l) = JObj (fields_j fs l).
Proof. cbn [encj]. f_equal. Qed.

Lemma struct_back (decf : ty -> jv -> gv -> dres) (all : list (list N * ty)) :
  nodup_keys (map fst all) = true -> forallb (fun kt : list N * ty => str_clean (fst kt)) all = true ->
  forall fs l pre done, all = pre ++ fs -> length done = length pre -> length l = length fs ->
  (forall (k : list N) (ft : ty) (x : gv), In ((k, ft), x) (combine fs l) -> decf ft (encj ft x) (zero ft) = DOk x) ->
  struct_loop decf all (fields_j fs l) (done ++ map (fun kt : list N * ty => zero (snd kt)) fs) = DOk (VStruct (done ++ l)).
Proof.
  intros Hnd Hcl. induction fs as [|[k ft] fs IH]; intros l pre done Hall Hd Hl H; destruct l as [|x l]; try discriminate Hl.
  - cbn [fields_j struct_loop map]. reflexivity.
  - cbn [fields_j struct_loop map snd].
    assert (Hk : str_clean k = true).
    { rewrite forallb_forall in Hcl. apply (Hcl (k, ft)). rewrite Hall. apply in_or_app. right. left. reflexivity. }
    rewrite (str_round_trip k Hk).
    assert (Hfresh : existsb (list_eqb k) (map fst pre) = false) by (apply (nodup_split_fresh pre k ft fs); rewrite <- Hall; exact Hnd).
    unfold field_lookup. rewrite Hall. rewrite (field_index_nth pre k ft fs 0 Hfresh). cbn [Nat.add]. rewrite <- Hd.
    rewrite nth_mid. rewrite (H k ft x (or_introl eq_refl)). rewrite set_nth_mid.
    replace (done ++ x :: map (fun kt : list N * ty => zero (snd kt)) fs) with ((done ++ [x]) ++ map (fun kt : list N * ty => zero (snd kt)) fs) by (rewrite <- app_assoc; reflexivity).
    rewrite <- Hall.
    rewrite (IH l (pre ++ [(k, ft)]) (done ++ [x])); [rewrite <- app_assoc; reflexivity|rewrite <- app_assoc; exact Hall|rewrite !app_length; cbn [length]; lia|cbn [length] in Hl; lia|].
    intros k' ft' x' Hin. apply (H k' ft' x'). right. exact Hin.
Qed.

Lemma fields_rt_combine : forall fs l, fields_rt fs l = true -> length l = length fs /\ forall (k : list N) (ft : ty) (x : gv), In ((k, ft), x) (combine fs l) -> rt ft x = true.
Proof.
  induction fs as [|[k ft] fs IH]; intros [|x l] H; try discriminate H; [split; [reflexivity|intros k0 ft0 x0 Hin; destruct Hin]|].
  cbn [fields_rt] in H. apply andb_true_iff in H. destruct H as [H1 H2]. destruct (IH l H2) as [Hl Hc]. split; [cbn [length]; lia|].
  intros k' ft' x' [E|Hin]; [inversion E; subst; exact H1|apply (Hc k' ft' x' Hin)].
Qed.

Lemma vn_combine : forall (fs : list (list N * ty)) (l : list gv) (k : list N) (ft : ty) (x : gv), In ((k, ft), x) (combine fs l) -> In x l.
Proof. intros fs l k ft x H. exact (in_combine_r fs l (k, ft) x H). Qed.

(* ---------- the theorem ---------- *)
Theorem round_trip_n : forall n v, (vn v <= n)%nat -> forall t, rt t v = true -> round_trips t v.
Proof.
  induction n as [|n IH]; intros v Hn t Hr f Hf; [destruct v; cbn in Hn; lia|].
  destruct f as [|f]; [destruct v; cbn in Hf; lia|].
  destruct t as [ |bits|bits| | |e|e|k e|e|fs| |sg bits e]; destruct v as [ |b|z|s|x|l|l|l|l|g]; try discriminate Hr; cbn [rt] in Hr.
  - (* bool *) cbn [encj dec]. destruct b; reflexivity.
  - (* int *) apply andb_true_iff in Hr. destruct Hr as [Hw Hr]. cbn [encj dec is_null]. rewrite (int_round_trip bits z Hw Hr). reflexivity.
  - (* uint *) apply andb_true_iff in Hr. destruct Hr as [Hw Hr]. cbn [encj dec is_null]. rewrite (uint_round_trip bits z Hw Hr). reflexivity.
  - (* string *) cbn [encj dec is_null]. rewrite (str_round_trip s Hr). reflexivity.
  - (* nil interface *) reflexivity.
  - (* nil pointer *) reflexivity.
  - (* pointer *) apply andb_true_iff in Hr. destruct Hr as [Hv Hr]. apply negb_true_iff in Hv.
    cbn [encj]. cbn [dec]. rewrite (encj_not_null e x Hr Hv). cbn [zero]. cbn [vn] in Hn, Hf.
    rewrite (IH x ltac:(lia) e Hr f ltac:(lia)). reflexivity.
  - (* nil slice *) reflexivity.
  - (* slice *) cbn [encj dec is_null]. cbn [zero]. cbn [vn] in Hn, Hf. rewrite forallb_forall in Hr.
    rewrite (slice_back e (dec f e) l []); [reflexivity|].
    intros x Hx. pose proof (vn_in x l Hx) as Hle. apply (IH x ltac:(lia) e (Hr x Hx) f). lia.
  - (* array *) apply andb_true_iff in Hr. destruct Hr as [Hlen Hr]. apply Nat.eqb_eq in Hlen. subst k.
    cbn [encj dec is_null]. cbn [zero]. cbn [vn] in Hn, Hf. rewrite forallb_forall in Hr.
    rewrite (array_back e (dec f e) l []); [reflexivity|].
    intros x Hx. pose proof (vn_in x l Hx) as Hle. apply (IH x ltac:(lia) e (Hr x Hx) f). lia.
  - (* nil map *) reflexivity.
  - (* map *) apply andb_true_iff in Hr. destruct Hr as [Hr Hall]. apply andb_true_iff in Hr. destruct Hr as [Hnd Hso].
    cbn [encj dec is_null]. cbn [zero]. cbn [vn] in Hn, Hf. rewrite forallb_forall in Hall.
    rewrite (sort_sorted (map (fun kx : list N * gv => (fst kx, encj e (snd kx))) l)) by (rewrite map_map; cbn [fst]; exact Hso).
    rewrite (map_back e (dec f e) l [] Hnd); [reflexivity|intros kv _; reflexivity|].
    intros kv Hkv. specialize (Hall kv Hkv). apply andb_true_iff in Hall. destruct Hall as [Hk Hx]. split; [exact Hk|].
    pose proof (vn_in_snd kv l Hkv) as Hle. apply (IH (snd kv) ltac:(lia) e Hx f). lia.
  - (* struct *) change (rt (TStruct fs) (VStruct l) = true) in Hr. rewrite rt_struct in Hr.
    apply andb_true_iff in Hr. destruct Hr as [Hr Hfr]. apply andb_true_iff in Hr. destruct Hr as [Hnd Hcl].
    destruct (fields_rt_combine fs l Hfr) as [Hlen Hc].
    rewrite encj_struct. cbn [dec is_null]. cbn [vn] in Hn, Hf. cbn [zero].
    pose proof (struct_back (dec f) fs Hnd Hcl fs l [] [] eq_refl eq_refl Hlen) as SB. cbn [app] in SB. rewrite SB; [reflexivity|].
    intros k' ft x Hin. pose proof (vn_in x l (vn_combine fs l k' ft x Hin)) as Hle. apply (IH x ltac:(lia) ft (Hc k' ft x Hin) f). lia.
  - (* nil byte slice *) reflexivity.
  - (* byte slice: base64 there and back *) destruct (bytes_of_ok l Hr) as [Hb Hm].
    cbn [encj dec is_null]. fold (bytes_of l).
    pose proof (b64_json_round_trip (bytes_of l) Hb) as E. destruct (unq (b64enc (bytes_of l))) as [s0|]; [|discriminate E].
    rewrite E, Hm. reflexivity.
  - (* nil integer-keyed map *) reflexivity.
  - (* integer-keyed map *) apply andb_true_iff in Hr. destruct Hr as [Hr Hall]. apply andb_true_iff in Hr. destruct Hr as [Hr Hso].
    apply andb_true_iff in Hr. destruct Hr as [Hwd Hnd].
    cbn [encj dec is_null]. cbn [zero]. cbn [vn] in Hn, Hf. rewrite forallb_forall in Hall.
    rewrite (sort_sorted (map (fun kx : list N * gv => (fst kx, encj e (snd kx))) l)) by (rewrite map_map; cbn [fst]; exact Hso).
    rewrite (map_back_k sg bits e (dec f e) l [] Hnd); [reflexivity|intros kv _; reflexivity|].
    intros kv Hkv. specialize (Hall kv Hkv). apply andb_true_iff in Hall. destruct Hall as [Hk Hx]. split; [exact Hk|].
    pose proof (vn_in_snd kv l Hkv) as Hle. apply (IH (snd kv) ltac:(lia) e Hx f). lia.
Qed.

Theorem round_trip t v : rt t v = true -> forall f, (vn v <= f)%nat -> dec f t (encj t v) (zero t) = DOk v.
Proof. intros H f Hf. exact (round_trip_n (vn v) v (le_n _) t H f Hf). Qed.

(* ---------- what the typed encoder writes is a tree with well-formed leaves and no member left out ---------- *)
From GJ Require Import Proofs.EncP Proofs.ParseP Proofs.LeafP Proofs.TreeReadP Model.TreeRead.

Lemma esc_leaf s : str_clean s = true -> strbody_ok (esc s) = true.
Proof.
  unfold str_clean. intro H. apply andb_true_iff in H. destruct H as [Hb _].
  assert (Hok : ok s). { unfold ok. apply Forall_forall. intros c Hc. rewrite forallb_forall in Hb. apply N.ltb_lt. apply Hb. exact Hc. }
  destruct (C17.C17_literal_well_formed true true s Hok) as (body & E & B).
  unfold esc. rewrite E. cbn [tl]. rewrite removelast_last. exact (body_ok_strbody true body B).
Qed.

Lemma int_leaf bits z : width bits = true -> in_range true bits z = true -> num_ok (append_int bits (twos_c bits z)) = true.
Proof.
  intros Hw Hr. pose proof (width_ok_of bits Hw) as W. unfold in_range in Hr. apply andb_true_iff in Hr. destruct Hr as [H1 H2].
  apply Z.leb_le in H1. apply Z.ltb_lt in H2. exact (canonical_int_num_ok _ z (append_int_canonical bits z W (conj H1 H2))).
Qed.

Lemma uint_leaf bits z : width bits = true -> num_ok (append_uint bits (Z.to_N z)) = true.
Proof. intros Hw. exact (canonical_num_ok _ _ (append_uint_canonical bits (Z.to_N z) (width_ok_of bits Hw))). Qed.

Lemma fields_j_wfp : forall fs l, forallb (fun kt : list N * ty => str_clean (fst kt)) fs = true ->
  (forall (k : list N) (ft : ty) (x : gv), In ((k, ft), x) (combine fs l) -> wfp (encj ft x) = true) ->
  forallb (fun m : list N * bool * jv => match m with (k, om, x) => negb om && strbody_ok k && wfp x end) (fields_j fs l) = true.
Proof.
  induction fs as [|[k ft] fs IH]; intros [|x l] Hcl H; try reflexivity.
  cbn [forallb fst] in Hcl. apply andb_true_iff in Hcl. destruct Hcl as [Hk Hcl]. cbn [fields_j forallb negb andb].
  rewrite (esc_leaf k Hk). rewrite (H k ft x (or_introl eq_refl)). cbn [andb]. apply IH; [exact Hcl|]. intros k' ft' x' Hin. apply (H k' ft' x'). right. exact Hin.
Qed.

Theorem encj_wfp_n : forall n v, (vn v <= n)%nat -> forall t, rt t v = true -> wfp (encj t v) = true.
Proof.
  induction n as [|n IH]; intros v Hn t Hr; [destruct v; cbn in Hn; lia|].
  destruct t as [ |bits|bits| | |e|e|k e|e|fs| |sg bits e]; destruct v as [ |b|z|s|x|l|l|l|l|g]; try discriminate Hr; cbn [rt] in Hr; try reflexivity.
  - cbn [encj wfp leaf_ok]. destruct b; reflexivity.
  - apply andb_true_iff in Hr. destruct Hr as [Hw Hr]. cbn [encj wfp leaf_ok]. exact (int_leaf bits z Hw Hr).
  - apply andb_true_iff in Hr. destruct Hr as [Hw Hr]. cbn [encj wfp leaf_ok]. exact (uint_leaf bits z Hw).
  - cbn [encj wfp leaf_ok]. exact (esc_leaf s Hr).
  - apply andb_true_iff in Hr. destruct Hr as [_ Hr]. cbn [encj]. cbn [vn] in Hn. apply (IH x ltac:(lia) e Hr).
  - cbn [encj wfp]. cbn [vn] in Hn. rewrite forallb_forall in Hr. apply forallb_forall. intros j Hj. apply in_map_iff in Hj. destruct Hj as (x & <- & Hx).
    pose proof (vn_in x l Hx). apply (IH x ltac:(lia) e (Hr x Hx)).
  - apply andb_true_iff in Hr. destruct Hr as [_ Hr]. cbn [encj wfp]. cbn [vn] in Hn. rewrite forallb_forall in Hr. apply forallb_forall. intros j Hj. apply in_map_iff in Hj. destruct Hj as (x & <- & Hx).
    pose proof (vn_in x l Hx). apply (IH x ltac:(lia) e (Hr x Hx)).
  - apply andb_true_iff in Hr. destruct Hr as [Hr Hall]. apply andb_true_iff in Hr. destruct Hr as [_ Hso].
    cbn [encj wfp]. cbn [vn] in Hn. rewrite forallb_forall in Hall.
    rewrite (sort_sorted (map (fun kx : list N * gv => (fst kx, encj e (snd kx))) l)) by (rewrite map_map; cbn [fst]; exact Hso).
    apply forallb_forall. intros m Hm. apply in_map_iff in Hm. destruct Hm as ([k' j] & <- & Hkj). apply in_map_iff in Hkj. destruct Hkj as ([k2 x] & E & Hx).
    inversion E; subst. cbn [fst snd negb andb]. specialize (Hall (k', x) Hx). cbn [fst snd] in Hall. apply andb_true_iff in Hall. destruct Hall as [Hk Hrx].
    rewrite (esc_leaf k' Hk). cbn [andb]. pose proof (vn_in_snd (k', x) l Hx) as Hle. cbn [snd] in Hle. apply (IH x ltac:(lia) e Hrx).
  - change (rt (TStruct fs) (VStruct l) = true) in Hr. rewrite rt_struct in Hr.
    apply andb_true_iff in Hr. destruct Hr as [Hr Hfr]. apply andb_true_iff in Hr. destruct Hr as [_ Hcl].
    destruct (fields_rt_combine fs l Hfr) as [_ Hc]. rewrite encj_struct. cbn [wfp]. cbn [vn] in Hn.
    apply fields_j_wfp; [exact Hcl|]. intros k' ft x Hin. pose proof (vn_in x l (vn_combine fs l k' ft x Hin)) as Hle. apply (IH x ltac:(lia) ft (Hc k' ft x Hin)).
  - destruct (bytes_of_ok l Hr) as [Hb _]. cbn [encj wfp leaf_ok]. fold (bytes_of l).
    destruct (plain_body_ok false _ (b64_text_is_plain (bytes_of l) Hb)) as [B _]. exact (body_ok_strbody false _ B).
  - apply andb_true_iff in Hr. destruct Hr as [Hr Hall]. apply andb_true_iff in Hr. destruct Hr as [_ Hso].
    cbn [encj wfp]. cbn [vn] in Hn. rewrite forallb_forall in Hall.
    rewrite (sort_sorted (map (fun kx : list N * gv => (fst kx, encj e (snd kx))) l)) by (rewrite map_map; cbn [fst]; exact Hso).
    apply forallb_forall. intros m Hm. apply in_map_iff in Hm. destruct Hm as ([k' j] & <- & Hkj). apply in_map_iff in Hkj. destruct Hkj as ([k2 x] & E & Hx).
    inversion E; subst. cbn [fst snd negb andb]. specialize (Hall (k', x) Hx). cbn [fst snd] in Hall. apply andb_true_iff in Hall. destruct Hall as [Hk Hrx].
    destruct (plain_body_ok false _ (canon_key_plain sg bits k' Hk)) as [B _]. rewrite (body_ok_strbody false _ B). cbn [andb].
    pose proof (vn_in_snd (k', x) l Hx) as Hle. cbn [snd] in Hle. apply (IH x ltac:(lia) e Hrx).
Qed.

Lemma wfp_strip_n : forall n v, (size v <= n)%nat -> wfp v = true -> strip v = v.
Proof.
  induction n as [|n IH]; intros v Hs Hw; [destruct v; cbn in Hs; lia|].
  destruct v as [t|l|l]; [reflexivity| |]; cbn [size] in Hs; cbn [wfp] in Hw; rewrite forallb_forall in Hw; cbn [strip]; f_equal.
  - rewrite <- (map_id l) at 2. apply map_ext_in. intros x Hx. apply IH; [pose proof (size_in x l Hx); lia|apply Hw; exact Hx].
  - assert (H : forall l', (forall m, In m l' -> In m l) ->
             flat_map (fun m : list N * bool * jv => match m with (k, om, x) => if om then [] else [(k, false, strip x)] end) l' = l').
    { induction l' as [|[[k om] x] l' IHl]; intro Hin; [reflexivity|]. cbn [flat_map].
      pose proof (Hw (k, om, x) (Hin _ (or_introl eq_refl))) as Hm. cbn beta iota in Hm. apply andb_true_iff in Hm. destruct Hm as [Hm Hx].
      apply andb_true_iff in Hm. destruct Hm as [Ho _]. apply negb_true_iff in Ho. subst om. cbn [app].
      rewrite (IH x); [|pose proof (size_in_snd (k, false, x) l (Hin _ (or_introl eq_refl))) as Hsz; cbn [snd] in Hsz; lia|exact Hx].
      f_equal. apply IHl. intros m Hm'. apply Hin. right. exact Hm'. }
    apply H. auto.
Qed.

(* Unmarshal(Marshal(v)) = v through the text: the text the typed encoder writes is one RFC 8259 text, reading it gives
   the tree the encoder wrote, and decoding that tree into a fresh value gives v *)
Theorem text_round_trip t v : rt t v = true ->
  exists d, match parse_json (marshal_typed t v) with Some (ts, _) => read_tree ts | None => None end = Some d /\
            forall f, (vn v <= f)%nat -> dec f t d (zero t) = DOk v.
Proof.
  intro Hr. pose proof (encj_wfp_n (vn v) v (le_n _) t Hr) as Hw. exists (encj t v). split.
  - unfold marshal_typed. pose proof (wfp_strip_n (size (encj t v)) (encj t v) (le_n _) Hw) as Hs.
    pose proof (read_tree_marshal (encj t v)) as R. rewrite Hs in R. apply R. exact Hw.
  - intros f Hf. exact (round_trip t v Hr f Hf).
Qed.
