(* Every store of the array decoder stays inside the array; the in-place
   unescape never writes ahead of what it has read. *)
From Coq Require Import NArith ZArith List Bool Lia.
From Coq Require Import ZifyN ZifyNat ZifyBool.
From GJ Require Import Base.Bytes Gen.Tables Gen.Resets Model.Mem Model.StrDec.
Import ListNotations.
Open Scope N_scope.

Lemma seqN_bounds len : forall start i, In i (seqN start len) -> start <= i < start + N.of_nat len.
Proof.
  induction len as [|k IH]; intros start i H; [destruct H|].
  cbn [seqN] in H. destruct H as [E|H]; [subst; lia|]. apply IH in H. lia.
Qed.

Theorem array_writes_inside base sz n m :
  Forall (inside base (N.of_nat n * sz)) (array_writes true base sz n m).
Proof.
  unfold array_writes. apply Forall_app. split; apply Forall_forall; intros w Hw;
    apply in_map_iff in Hw; destruct Hw as (i & E & Hi); subst w; apply seqN_bounds in Hi;
    unfold inside, fill_width; cbn [fst snd]; nia.
Qed.

(* with a one-word store instead, elements narrower than a word are overrun *)
Theorem array_word_fill_overruns :
  exists base sz n m, ~ Forall (inside base (N.of_nat n * sz)) (array_writes false base sz n m).
Proof.
  exists 0, 1, 4%nat, 1%nat. intro H. cbn in H.
  inversion H as [|? ? _ H1]; subst. inversion H1 as [|? ? _ H2]; subst. inversion H2 as [|? ? _ H3]; subst.
  inversion H3 as [|? ? H4 _]; subst. unfold inside in H4. cbn in H4. lia.
Qed.

(* in-place unescape: the output is never longer than the text consumed, so
   the write index never passes the read index (dst <= src at every step) *)
Lemma encode_rune_len r : (length (encode_rune r) <= 4)%nat.
Proof.
  unfold encode_rune.
  repeat match goal with |- context [if ?b then _ else _] => destruct b end; cbn; lia.
Qed.

Theorem unescape_not_longer F : forall l o, unescape F l = Some o -> (length o <= length l)%nat.
Proof.
  induction F as [|F IH]; intros l o H; [discriminate|].
  destruct l as [|c r]; [inversion H; subst; cbn; lia|]. cbn [unescape] in H.
  destruct (c =? 92).
  - destruct r as [|e r1]; [discriminate|]. destruct (negb (e =? 117)).
    + destruct (unescape F r1) as [o1|] eqn:E; [|discriminate]. inversion H; subst.
      pose proof (IH _ _ E). cbn [length]. lia.
    + destruct r1 as [|h1 [|h2 [|h3 [|h4 r2]]]]; try discriminate.
      match type of H with context [if ?g then _ else None] => destruct g end.
      * destruct r2 as [|b1 [|u1 [|g1 [|g2 [|g3 [|g4 r3]]]]]];
          try (match type of H with context [unescape F ?x] => destruct (unescape F x) as [o1|] eqn:E end; [|discriminate];
               inversion H; subst; pose proof (IH _ _ E); pose proof (encode_rune_len (hex4 h1 h2 h3 h4));
               rewrite app_length; cbn [length] in *; lia).
        destruct ((b1 =? 92) && (u1 =? 117) && (56320 <=? hex4 g1 g2 g3 g4) && (hex4 g1 g2 g3 g4 <? 57344)).
        -- destruct (unescape F r3) as [o1|] eqn:E; [|discriminate]. inversion H; subst.
           pose proof (IH _ _ E).
           pose proof (encode_rune_len (N.lor (N.shiftl (hex4 h1 h2 h3 h4 - 55296) 10) (hex4 g1 g2 g3 g4 - 56320) + 65536)).
           rewrite app_length. cbn [length] in *. lia.
        -- destruct (unescape F (b1 :: u1 :: g1 :: g2 :: g3 :: g4 :: r3)) as [o1|] eqn:E; [|discriminate]. inversion H; subst.
           pose proof (IH _ _ E). pose proof (encode_rune_len (hex4 h1 h2 h3 h4)).
           rewrite app_length. cbn [length] in *. lia.
      * destruct (unescape F r2) as [o1|] eqn:E; [|discriminate]. inversion H; subst.
        pose proof (IH _ _ E). pose proof (encode_rune_len (hex4 h1 h2 h3 h4)).
        rewrite app_length. cbn [length] in *. lia.
  - destruct (unescape F r) as [o1|] eqn:E; [|discriminate]. inversion H; subst.
    pose proof (IH _ _ E). cbn [length]. lia.
Qed.
