(* Unmarshal into interface{} (buffer mode) accepts exactly the RFC 8259
   texts whose nesting is within the limit and whose numbers fit float64. *)
From Coq Require Import NArith ZArith List Bool Lia.
From Coq Require Import ZifyN ZifyNat ZifyBool.
From GJ Require Import Base.Bytes Gen.Tables Model.Int Model.StrDec Model.Compact Model.Iface Spec.Json
  Proofs.CompactLeafP Proofs.JsonSpecP Proofs.CompactP Proofs.StrBodyP Proofs.StrDecP.
Import ListNotations.
Open Scope N_scope.

(* ---------- decoder tables ---------- *)
Lemma dws_table c : tblb dec_isWhiteSpace c = ws_b c.
Proof.
  destruct (N.lt_ge_cases c 256) as [H|H].
  - pose (P := fun c => Bool.eqb (tblb dec_isWhiteSpace c) (ws_b c)).
    assert (HP : forallb P all_bytes = true) by (vm_compute; reflexivity).
    pose proof (forall_bytes P HP c H) as E. apply Bool.eqb_prop in E. exact E.
  - rewrite tblb_out by (change (length dec_isWhiteSpace) with 256%nat; lia). unfold ws_b. lia.
Qed.

Lemma dfloat_table c : tblb dec_floatTable c = numchar_b c.
Proof.
  destruct (N.lt_ge_cases c 256) as [H|H].
  - pose (P := fun c => Bool.eqb (tblb dec_floatTable c) (numchar_b c)).
    assert (HP : forallb P all_bytes = true) by (vm_compute; reflexivity).
    pose proof (forall_bytes P HP c H) as E. apply Bool.eqb_prop in E. exact E.
  - rewrite tblb_out by (change (length dec_floatTable) with 256%nat; lia). unfold numchar_b, digit_b. lia.
Qed.

Definition vend (e : N) : bool :=
  (e =? 0) || ws_b e || (e =? 44) || (e =? 58) || (e =? 125) || (e =? 93).

Lemma vend_table e : tblb dec_validEndNumberChar e = vend e.
Proof.
  destruct (N.lt_ge_cases e 256) as [H|H].
  - pose (P := fun c => Bool.eqb (tblb dec_validEndNumberChar c) (vend c)).
    assert (HP : forallb P all_bytes = true) by (vm_compute; reflexivity).
    pose proof (forall_bytes P HP e H) as E. apply Bool.eqb_prop in E. exact E.
  - rewrite tblb_out by (change (length dec_validEndNumberChar) with 256%nat; lia). unfold vend, ws_b. lia.
Qed.

Lemma d_skip_ws_sentinel ls : d_skip_ws (ls ++ [0]) = skip_ws ls ++ [0].
Proof.
  induction ls as [|c r IH]; [reflexivity|]. cbn [app d_skip_ws skip_ws].
  rewrite dws_table. destruct (ws_b c); [exact IH|reflexivity].
Qed.

Lemma d_span_float_sentinel ls : forall a b, span numchar_b ls = (a, b) ->
  d_span_float (ls ++ [0]) = Some (a, b ++ [0]).
Proof.
  induction ls as [|c r IH]; intros a b H; cbn [span app d_span_float] in *.
  - inversion H; subst. reflexivity.
  - rewrite dfloat_table. destruct (numchar_b c).
    + destruct (span numchar_b r) as [a' b'] eqn:E. inversion H; subst.
      rewrite (IH a' b eq_refl). reflexivity.
    + inversion H; subst. reflexivity.
Qed.

(* ---------- strings ---------- *)
Lemma string_body_shape ls : forall b rest, p_string_body ls = Some (b, rest) ->
  ls = b ++ 34 :: rest /\ body_ok false b = true.
Proof.
  remember (length ls) as n eqn:Hn. assert (Hle : (length ls <= n)%nat) by lia. clear Hn.
  revert ls Hle. induction n as [|n IH]; intros ls Hle b rest H.
  - destruct ls; [discriminate|cbn in Hle; lia].
  - destruct ls as [|c r]; [discriminate|]. cbn [length] in Hle. cbn [p_string_body] in H.
    destruct (N.eqb_spec c 34) as [E34|E34].
    { inversion H; subst. split; reflexivity. }
    destruct (N.eqb_spec c 92) as [E92|E92].
    + subst c. destruct r as [|e r1]; [discriminate|]. destruct (simple_esc_b e) eqn:Se.
      * destruct (p_string_body r1) as [[b' rest']|] eqn:E; [|discriminate]. inversion H; subst.
        destruct (IH r1 ltac:(cbn [length] in Hle; lia) b' rest E) as [A B]. subst r1.
        split; [reflexivity|]. cbn [body_ok]. change (92 =? 92) with true. cbn iota.
        change (simple_esc e) with (simple_esc_b e). rewrite Se. exact B.
      * destruct (N.eqb_spec e 117) as [Eu|Eu]; [|discriminate]. subst e.
        destruct r1 as [|h1 [|h2 [|h3 [|h4 r2]]]]; try discriminate.
        destruct (hex_b h1 && hex_b h2 && hex_b h3 && hex_b h4) eqn:Hx; [|discriminate].
        destruct (p_string_body r2) as [[b' rest']|] eqn:E; [|discriminate]. inversion H; subst.
        destruct (IH r2 ltac:(cbn [length] in Hle; lia) b' rest E) as [A B]. subst r2.
        split; [reflexivity|]. cbn [body_ok]. change (92 =? 92) with true. cbn iota.
        change (simple_esc 117) with false. change (117 =? 117) with true. cbn iota.
        change (is_hex h1) with (hex_b h1). change (is_hex h2) with (hex_b h2).
        change (is_hex h3) with (hex_b h3). change (is_hex h4) with (hex_b h4).
        rewrite Hx. exact B.
    + destruct (N.ltb_spec c 32) as [L|L]; [discriminate|].
      destruct (p_string_body r) as [[b' rest']|] eqn:E; [|discriminate]. inversion H; subst.
      destruct (IH r ltac:(lia) b' rest E) as [A B]. subst r.
      split; [reflexivity|]. cbn [body_ok].
      destruct (N.eqb_spec c 92); [congruence|].
      assert (R : raw_ok false c = true) by (unfold raw_ok; lia). rewrite R. exact B.
Qed.

Lemma scan_none n : forall ls acc esc F, (length ls <= n)%nat -> (length ls < F)%nat ->
  p_string_body ls = None -> scan_string F (ls ++ [0]) acc esc = SSErr.
Proof.
  induction n as [|n IH]; intros ls acc esc F Hn HF H.
  - destruct ls; [|cbn in Hn; lia]. destruct F; [lia|]. reflexivity.
  - destruct F as [|F]; [lia|]. destruct ls as [|c r]; [reflexivity|].
    cbn [length] in *. cbn [p_string_body] in H. cbn [app scan_string].
    destruct (N.eqb_spec c 34) as [E34|E34]; [discriminate|].
    destruct (N.eqb_spec c 92) as [E92|E92].
    + subst c. destruct r as [|e r1].
      * cbn. reflexivity.
      * cbn [app]. change (is_simple_esc e) with (simple_esc_b e). destruct (simple_esc_b e).
        -- destruct (p_string_body r1) as [[? ?]|] eqn:E; [discriminate|].
           apply IH; [cbn [length] in Hn; lia|cbn [length] in HF; lia|exact E].
        -- destruct (N.eqb_spec e 117) as [Eu|Eu]; [|reflexivity]. subst e.
           cbn [app]. match goal with |- context [Nat.leb ?a 5] => destruct (Nat.leb_spec a 5) as [L5|L5] end; [reflexivity|].
           destruct r1 as [|h1 [|h2 [|h3 [|h4 r2]]]]; try (cbn in L5; lia).
           cbn [app]. change (is_hexc h1) with (hex_b h1). change (is_hexc h2) with (hex_b h2).
           change (is_hexc h3) with (hex_b h3). change (is_hexc h4) with (hex_b h4).
           destruct (hex_b h1 && hex_b h2 && hex_b h3 && hex_b h4); [|reflexivity].
           destruct (p_string_body r2) as [[? ?]|] eqn:E; [discriminate|].
           apply IH; [cbn [length] in Hn; lia|cbn [length] in HF; lia|exact E].
    + destruct (N.eqb_spec c 0); [reflexivity|].
      destruct (N.ltb_spec c 32); [reflexivity|].
      destruct (p_string_body r) as [[? ?]|] eqn:E; [discriminate|].
      apply IH; [lia|lia|exact E].
Qed.

(* the in-place unescape never reads outside a scanned literal *)
Lemma body_ok_skip6 b1 u1 g1 g2 g3 g4 r3 :
  body_ok false (b1 :: u1 :: g1 :: g2 :: g3 :: g4 :: r3) = true -> b1 = 92 -> u1 = 117 -> body_ok false r3 = true.
Proof.
  intros H E1 E2. subst. cbn [body_ok] in H. change (92 =? 92) with true in H. cbn iota in H.
  change (simple_esc 117) with false in H. change (117 =? 117) with true in H. cbn iota in H.
  apply andb_true_iff in H. destruct H as [_ H]. exact H.
Qed.

Lemma unescape_total F : forall b, body_ok false b = true -> (length b < F)%nat -> unescape F b <> None.
Proof.
  induction F as [|F IH]; intros b Hb HF; [lia|].
  destruct b as [|c r]; [cbn; discriminate|]. cbn [body_ok] in Hb. cbn [unescape].
  destruct (N.eqb_spec c 92) as [E|E].
  - destruct r as [|e r1]; [discriminate|]. destruct (simple_esc e) eqn:Se.
    + assert (e <> 117) by (unfold simple_esc in Se; lia).
      destruct (N.eqb_spec e 117); [congruence|]. cbn [negb].
      pose proof (IH r1 Hb ltac:(cbn [length] in HF; lia)) as T.
      destruct (unescape F r1); [discriminate|congruence].
    + destruct (N.eqb_spec e 117) as [Eu|Eu]; [|discriminate]. cbn [negb].
      destruct r1 as [|h1 [|h2 [|h3 [|h4 r2]]]]; try discriminate.
      apply andb_true_iff in Hb. destruct Hb as [_ Hb2].
      pose proof (IH r2 Hb2 ltac:(cbn [length] in HF; lia)) as T2.
      match goal with |- context [if ?g then _ else None] => destruct g end.
      * destruct r2 as [|b1 [|u1 [|g1 [|g2 [|g3 [|g4 r3]]]]]];
          try (match goal with |- context [unescape F ?x] => destruct (unescape F x) end; [discriminate|congruence]).
        destruct ((b1 =? 92) && (u1 =? 117) && (56320 <=? hex4 g1 g2 g3 g4) && (hex4 g1 g2 g3 g4 <? 57344)) eqn:G.
        -- assert (b1 = 92 /\ u1 = 117) as [B1 U1] by lia.
           pose proof (IH r3 (body_ok_skip6 _ _ _ _ _ _ _ Hb2 B1 U1) ltac:(cbn [length] in HF; lia)) as T3.
           destruct (unescape F r3); [discriminate|congruence].
        -- destruct (unescape F (b1 :: u1 :: g1 :: g2 :: g3 :: g4 :: r3)); [discriminate|congruence].
      * destruct (unescape F r2); [discriminate|congruence].
  - apply andb_true_iff in Hb. destruct Hb as [_ Hb].
    pose proof (IH r Hb ltac:(cbn [length] in HF; lia)) as T.
    destruct (unescape F r); [discriminate|congruence].
Qed.

Lemma d_string_rel r :
  d_string ((34 :: r) ++ [0]) =
  match p_string_body r with Some (_, rest) => COk (rest ++ [0]) | None => CErr end.
Proof.
  cbn [app d_string].
  destruct (p_string_body r) as [[b rest]|] eqn:E.
  - destruct (string_body_shape r b rest E) as [Er Hb].
    destruct (scan_body false (S (length (r ++ [0]))) b [] false (rest ++ [0]) Hb
                ltac:(subst r; rewrite !app_length; cbn [length]; lia)) as (esc' & E1 & E2).
    assert (Er2 : r ++ [0] = b ++ 34 :: rest ++ [0]) by (rewrite Er, <- app_assoc; reflexivity).
    rewrite Er2 at 2. rewrite E1. cbn [app].
    assert (U : unquote b esc' <> None).
    { unfold unquote. destruct esc'; [|discriminate].
      pose proof (split_bs_spec b) as S. destruct (split_bs b) as [pre rest'].
      destruct S as (Eb & Hp & _).
      pose proof (unescape_total (length pre + S (length rest')) b Hb ltac:(subst b; rewrite app_length; lia)) as T.
      subst b. rewrite (unescape_raws pre (S (length rest')) rest' Hp) in T.
      destruct (unescape (S (length rest')) rest'); [discriminate|congruence]. }
    destruct (unquote b esc'); [reflexivity|congruence].
  - rewrite (scan_none (length r) r [] false (S (length (r ++ [0]))) (le_n _) ltac:(rewrite app_length; cbn; lia) E).
    reflexivity.
Qed.

Lemma d_literal_c word l : d_literal word l =
  match c_literal word l with COk (_, rest) => COk rest | CErr => CErr | CFuel => CFuel | CStuck => CStuck end.
Proof.
  unfold d_literal, c_literal. destruct (Nat.leb (length l) (length word - 1)); [reflexivity|].
  destruct (list_eqb (firstn (length word) l) word); reflexivity.
Qed.

(* ---------- the relation ---------- *)
Section Rel.
  Variable range : list N -> bool.
  Let lim := Some (Iface.max_depth).

  Definition nf (rest : list N) : bool :=
    match rest with c :: _ => negb (vend c) | [] => false end.

  Definition irel (bound f : nat) (S : option (list tok * list N)) (R : cres (list N)) : Prop :=
    match S with
    | Some (ts, rest) => R = COk (rest ++ [0]) \/ (R = CErr /\ nf rest = true)
    | None => R = CErr \/ (R = CFuel /\ (f < bound)%nat)
    end.

  Lemma nf_skip rest : nf rest = true -> exists c r, skip_ws rest = c :: r /\ rest = c :: r /\
    (c =? 125) = false /\ (c =? 44) = false /\ (c =? 93) = false /\ ws_b c = false.
  Proof.
    destruct rest as [|c r]; cbn [nf]; [discriminate|]. intro H. exists c, r.
    unfold vend, ws_b in H. assert (W : ws_b c = false) by (unfold ws_b; lia). cbn [skip_ws]. rewrite W.
    split; [reflexivity|]. split; [reflexivity|]. repeat split; lia.
  Qed.

  Lemma number_irel c r : numchar_b c = true ->
    d_number range ((c :: r) ++ [0]) =
    let '(num, rest) := span numchar_b (c :: r) in
    if negb (vend (hd 0 (rest ++ [0]))) then CErr
    else if json_number num && range num then COk (rest ++ [0]) else CErr.
  Proof.
    intro Hc. cbn [app d_number span]. rewrite Hc.
    destruct (span numchar_b r) as [a b] eqn:E.
    rewrite (d_span_float_sentinel r a b E).
    destruct (b ++ [0]) as [|e t] eqn:Eb; [destruct b; discriminate|].
    cbn [hd]. rewrite vend_table. destruct (vend e); cbn [negb]; [|reflexivity].
    rewrite valid_number_spec. destruct (json_number (c :: a)); cbn [negb andb]; [|reflexivity].
    destruct (range (c :: a)); reflexivity.
  Qed.
End Rel.

Section Main.
  Variable range : list N -> bool.
  Let lim := Some (Iface.max_depth).

  Ltac useI H := let E := fresh "E" in let B := fresh "B" in
    destruct H as [E|[E B]]; rewrite E; [left; reflexivity|right; split; [reflexivity|cbn [length] in *; lia]].

  Theorem iface_rel f :
    (forall d ls, irel (2 * length ls + 2) f (pg_value lim range f d ls) (d_value range f d (ls ++ [0]))) /\
    (forall d ls, irel (2 * length ls + 3) f (pg_members lim range f d ls) (d_members range f d (ls ++ [0]))) /\
    (forall d ls, irel (2 * length ls + 3) f (pg_elements lim range f d ls) (d_elements range f d (ls ++ [0]))).
  Proof.
    induction f as [|f (IHv & IHm & IHe)].
    { split; [|split]; intros; cbn; right; (split; [reflexivity|lia]). }
    pose proof (spec_shorter lim range f) as (SHv & SHm & SHe).
    split; [|split].
    - (* value *)
      intros d ls. cbn [pg_value d_value]. rewrite d_skip_ws_sentinel.
      pose proof (skip_ws_length ls) as L0.
      destruct (skip_ws ls) as [|c r] eqn:Es.
      { cbn. left. reflexivity. }
      cbn [app]. cbn [length] in L0.
      assert (Dok : negb (depth_ok lim d) = Nat.ltb Iface.max_depth (S d)).
      { unfold depth_ok, lim. destruct (Nat.leb_spec (S d) Iface.max_depth); destruct (Nat.ltb_spec Iface.max_depth (S d)); try reflexivity; lia. }
      destruct (N.eqb_spec c 123) as [E|E].
      { subst c. rewrite Dok. destruct (Nat.ltb Iface.max_depth (S d)); [left; reflexivity|].
        rewrite d_skip_ws_sentinel. pose proof (skip_ws_length r) as L1.
        destruct (skip_ws r) as [|c1 r1] eqn:Er.
        - cbn [app]. destruct f; cbn; [right; split; [reflexivity|lia]|left; reflexivity].
        - cbn [app]. cbn [length] in L1. destruct (c1 =? 125); [left; reflexivity|].
          specialize (IHm (S d) (c1 :: r1)). cbn [app] in IHm. unfold irel in *.
          destruct (pg_members lim range f (S d) (c1 :: r1)) as [[ts rest]|].
          + destruct IHm as [H|[H N]]; rewrite H; [left; reflexivity|right; split; [reflexivity|exact N]].
          + useI IHm. }
      destruct (N.eqb_spec c 91) as [E2|E2].
      { subst c. rewrite Dok. destruct (Nat.ltb Iface.max_depth (S d)); [left; reflexivity|].
        rewrite d_skip_ws_sentinel. pose proof (skip_ws_length r) as L1.
        destruct (skip_ws r) as [|c1 r1] eqn:Er.
        - cbn [app]. destruct f as [|[|f']]; cbn; [right; split; [reflexivity|lia]|right; split; [reflexivity|lia]|left; reflexivity].
        - cbn [app]. cbn [length] in L1. destruct (c1 =? 93); [left; reflexivity|].
          specialize (IHe (S d) (c1 :: r1)). cbn [app] in IHe. unfold irel in *.
          destruct (pg_elements lim range f (S d) (c1 :: r1)) as [[ts rest]|].
          + destruct IHe as [H|[H N]]; rewrite H; [left; reflexivity|right; split; [reflexivity|exact N]].
          + useI IHe. }
      destruct ((c =? 45) || digit_b c) eqn:E5.
      { change (isdig c) with (digit_b c). rewrite E5.
        assert (c <> 34) by (unfold digit_b in E5; lia). destruct (N.eqb_spec c 34); [congruence|].
        assert (Hc : numchar_b c = true) by (unfold numchar_b, digit_b in *; lia).
        pose proof (number_irel range c r Hc) as R. cbn [app] in R. rewrite R.
        destruct (span numchar_b (c :: r)) as [num rest].
        destruct (json_number num && range num) eqn:J.
        - unfold irel, nf. destruct rest as [|e t].
          + left. reflexivity.
          + change (hd 0 ((e :: t) ++ [0])) with e.
            destruct (vend e); cbn [negb]; [left; reflexivity|right; split; reflexivity].
        - destruct (negb (vend (hd 0 (rest ++ [0])))); left; reflexivity. }
      change (isdig c) with (digit_b c). rewrite E5.
      destruct (N.eqb_spec c 34) as [E4|E4].
      { subst c. pose proof (d_string_rel r) as R. cbn [app] in R. rewrite R.
        destruct (p_string_body r) as [[b rest]|]; left; reflexivity. }
      destruct (N.eqb_spec c 116) as [E6|E6].
      { subst c. rewrite d_literal_c. pose proof (literal_true r) as R. cbn [app] in R. rewrite R.
        destruct (starts [114; 117; 101] r); left; reflexivity. }
      destruct (N.eqb_spec c 102) as [E7|E7].
      { subst c. rewrite d_literal_c. pose proof (literal_false r) as R. cbn [app] in R. rewrite R.
        destruct (starts [97; 108; 115; 101] r); left; reflexivity. }
      destruct (N.eqb_spec c 110) as [E8|E8].
      { subst c. rewrite d_literal_c. pose proof (literal_null r) as R. cbn [app] in R. rewrite R.
        destruct (starts [117; 108; 108] r); left; reflexivity. }
      left. reflexivity.
    - (* members *)
      intros d ls. cbn [pg_members d_members]. rewrite d_skip_ws_sentinel.
      pose proof (skip_ws_length ls) as L0.
      destruct (skip_ws ls) as [|q r] eqn:Es.
      { cbn. left. reflexivity. }
      cbn [app]. cbn [length] in L0.
      destruct (N.eqb_spec q 34) as [Eq|Eq]; cbn [negb]; [|left; reflexivity].
      subst q. pose proof (d_string_rel r) as R. cbn [app] in R. rewrite R.
      destruct (p_string_body r) as [[k r1]|] eqn:Ek; [|left; reflexivity].
      pose proof (string_body_shorter _ _ _ Ek) as L1.
      rewrite d_skip_ws_sentinel. pose proof (skip_ws_length r1) as L2.
      destruct (skip_ws r1) as [|c r2] eqn:E1.
      { cbn. left. reflexivity. }
      cbn [app]. cbn [length] in L2. destruct (N.eqb_spec c 58) as [Ec|Ec]; cbn [negb]; [|left; reflexivity].
      specialize (IHv d r2). unfold irel in IHv |- *.
      destruct (pg_value lim range f d r2) as [[vt r3]|] eqn:Ev.
      2:{ useI IHv. }
      pose proof (SHv _ _ _ _ Ev) as L3.
      destruct IHv as [H|[H N]]; rewrite H.
      2:{ (* the value was refused for what follows it: the grammar refuses too *)
          destruct (nf_skip range r3 N) as (c3 & r4 & Sk & _ & A & B & _). rewrite Sk, A, B. left. reflexivity. }
      rewrite d_skip_ws_sentinel. pose proof (skip_ws_length r3) as L4.
      destruct (skip_ws r3) as [|c3 r4] eqn:E3.
      { cbn. left. reflexivity. }
      cbn [app]. cbn [length] in L4. destruct (N.eqb_spec c3 125) as [E5|E5]; [left; reflexivity|].
      destruct (N.eqb_spec c3 44) as [E6|E6]; [|left; reflexivity].
      specialize (IHm d r4). unfold irel in IHm.
      destruct (pg_members lim range f d r4) as [[ts rest]|].
      + destruct IHm as [H2|[H2 N2]]; rewrite H2; [left; reflexivity|right; split; [reflexivity|exact N2]].
      + useI IHm.
    - (* elements *)
      intros d ls. cbn [pg_elements d_elements].
      specialize (IHv d ls). unfold irel in IHv |- *.
      destruct (pg_value lim range f d ls) as [[vt r1]|] eqn:Ev.
      2:{ useI IHv. }
      pose proof (SHv _ _ _ _ Ev) as L3.
      destruct IHv as [H|[H N]]; rewrite H.
      2:{ destruct (nf_skip range r1 N) as (c3 & r4 & Sk & _ & _ & B & C & _). rewrite Sk, B, C. left. reflexivity. }
      rewrite d_skip_ws_sentinel. pose proof (skip_ws_length r1) as L4.
      destruct (skip_ws r1) as [|c r2] eqn:E1.
      { cbn. left. reflexivity. }
      cbn [app]. cbn [length] in L4. destruct (N.eqb_spec c 93) as [E5|E5]; [left; reflexivity|].
      destruct (N.eqb_spec c 44) as [E6|E6]; [|left; reflexivity].
      specialize (IHe d r2). unfold irel in IHe.
      destruct (pg_elements lim range f d r2) as [[ts rest]|].
      + destruct IHe as [H2|[H2 N2]]; rewrite H2; [left; reflexivity|right; split; [reflexivity|exact N2]].
      + useI IHe.
  Qed.

  (* Unmarshal(data, &iface) accepts exactly the texts of the grammar with the
     nesting limit and the float64 range; no stuck read, no fuel exhaustion *)
  Theorem iface_unmarshal_spec data :
    iface_unmarshal range data =
    match parse_g lim range data with Some _ => COk tt | None => CErr end.
  Proof.
    unfold iface_unmarshal, parse_g, top_fuel.
    destruct (iface_rel (2 * length data + 4)) as (Hv & _ & _).
    specialize (Hv 0%nat data). unfold irel in Hv.
    destruct (pg_value lim range (2 * length data + 4) 0 data) as [[ts rest]|].
    - destruct Hv as [H|[H N]]; rewrite H.
      + rewrite validate_end_all_ws. destruct (all_ws rest); reflexivity.
      + destruct (nf_skip range rest N) as (c & r & _ & Er & _ & _ & _ & W). subst rest.
        cbn [all_ws]. rewrite W. reflexivity.
    - destruct Hv as [E|[E B]]; [rewrite E; reflexivity|exfalso; lia].
  Qed.
End Main.
