(* Byte-level view of 64-bit word operations: bitwise operations act bytewise,
   subtraction of a repeated byte is a bytewise subtract-with-borrow chain. *)
From Coq Require Import NArith ZArith List Bool Lia.
From Coq Require Import ZifyN ZifyNat ZifyBool.
From GJ Require Import Base.Bytes Base.Word64.
Import ListNotations.
Open Scope N_scope.
Ltac Zify.zify_post_hook ::= Z.div_mod_to_equations.

Definition ok (bs : list N) := Forall (fun b => b < 256) bs.

Lemma to_word_bound bs : ok bs -> to_word bs < 256 ^ N.of_nat (length bs).
Proof.
  induction 1 as [|b r Hb Hr IH]; cbn [to_word length]; [cbn; lia|].
  rewrite Nat2N.inj_succ, N.pow_succ_r'. lia.
Qed.

Lemma testbit_cons a x i : a < 256 ->
  N.testbit (a + 256 * x) i = if i <? 8 then N.testbit a i else N.testbit x (i - 8).
Proof.
  intro Ha. destruct (N.ltb_spec i 8) as [Hi|Hi].
  - rewrite <- (N.mod_pow2_bits_low (a + 256 * x) 8 i Hi).
    change (2 ^ 8) with 256. f_equal. lia.
  - replace i with ((i - 8) + 8) at 1 by lia. rewrite <- N.div_pow2_bits.
    change (2 ^ 8) with 256. f_equal. lia.
Qed.

Definition bitop_small (f : N -> N -> N) : Prop := forall a b, a < 256 -> b < 256 -> f a b < 256.

Lemma small_sweep (f : N -> N -> N) :
  forallb (fun a => forallb (fun b => f a b <? 256) all_bytes) all_bytes = true -> bitop_small f.
Proof.
  intros H a b Ha Hb.
  pose proof (forall_bytes _ H a Ha) as H1. cbv beta in H1.
  pose proof (forall_bytes _ H1 b Hb) as H2. cbv beta in H2. lia.
Qed.

Lemma lor_small : bitop_small N.lor.   Proof. apply small_sweep. vm_compute. reflexivity. Qed.
Lemma lxor_small : bitop_small N.lxor. Proof. apply small_sweep. vm_compute. reflexivity. Qed.
Lemma land_small : bitop_small N.land. Proof. apply small_sweep. vm_compute. reflexivity. Qed.

Lemma lor_bytes a b x y : a < 256 -> b < 256 ->
  N.lor (a + 256 * x) (b + 256 * y) = N.lor a b + 256 * N.lor x y.
Proof.
  intros Ha Hb. apply N.bits_inj. intro i.
  rewrite N.lor_spec, !testbit_cons by (try assumption; apply lor_small; assumption).
  destruct (i <? 8); rewrite N.lor_spec; reflexivity.
Qed.

Lemma lxor_bytes a b x y : a < 256 -> b < 256 ->
  N.lxor (a + 256 * x) (b + 256 * y) = N.lxor a b + 256 * N.lxor x y.
Proof.
  intros Ha Hb. apply N.bits_inj. intro i.
  rewrite N.lxor_spec, !testbit_cons by (try assumption; apply lxor_small; assumption).
  destruct (i <? 8); rewrite N.lxor_spec; reflexivity.
Qed.

Lemma land_bytes a b x y : a < 256 -> b < 256 ->
  N.land (a + 256 * x) (b + 256 * y) = N.land a b + 256 * N.land x y.
Proof.
  intros Ha Hb. apply N.bits_inj. intro i.
  rewrite N.land_spec, !testbit_cons by (try assumption; apply land_small; assumption).
  destruct (i <? 8); rewrite N.land_spec; reflexivity.
Qed.

(* pointwise combination of two byte lists of equal length *)
Fixpoint zipw (f : N -> N -> N) (xs ys : list N) : list N :=
  match xs, ys with
  | x :: xr, y :: yr => f x y :: zipw f xr yr
  | _, _ => []
  end.

Lemma zipw_length f xs : forall ys, length xs = length ys -> length (zipw f xs ys) = length xs.
Proof. induction xs as [|x xs IH]; intros [|y ys] H; cbn in *; try lia. rewrite IH; lia. Qed.

Lemma zipw_ok f xs : bitop_small f -> forall ys, ok xs -> ok ys -> ok (zipw f xs ys).
Proof.
  intros Hf. induction xs as [|x xs IH]; intros [|y ys] Hx Hy; cbn; try constructor.
  - inversion Hx; inversion Hy; subst. apply Hf; assumption.
  - inversion Hx; inversion Hy; subst. apply IH; assumption.
Qed.

Lemma to_word_lor xs : forall ys, ok xs -> ok ys -> length xs = length ys ->
  N.lor (to_word xs) (to_word ys) = to_word (zipw N.lor xs ys).
Proof.
  induction xs as [|x xs IH]; intros [|y ys] Hx Hy Hl; cbn in Hl; try lia; [reflexivity|].
  inversion Hx; inversion Hy; subst. cbn [to_word zipw].
  rewrite lor_bytes by assumption. rewrite IH by (try assumption; lia). reflexivity.
Qed.

Lemma to_word_lxor xs : forall ys, ok xs -> ok ys -> length xs = length ys ->
  N.lxor (to_word xs) (to_word ys) = to_word (zipw N.lxor xs ys).
Proof.
  induction xs as [|x xs IH]; intros [|y ys] Hx Hy Hl; cbn in Hl; try lia; [reflexivity|].
  inversion Hx; inversion Hy; subst. cbn [to_word zipw].
  rewrite lxor_bytes by assumption. rewrite IH by (try assumption; lia). reflexivity.
Qed.

Lemma to_word_land xs : forall ys, ok xs -> ok ys -> length xs = length ys ->
  N.land (to_word xs) (to_word ys) = to_word (zipw N.land xs ys).
Proof.
  induction xs as [|x xs IH]; intros [|y ys] Hx Hy Hl; cbn in Hl; try lia; [reflexivity|].
  inversion Hx; inversion Hy; subst. cbn [to_word zipw].
  rewrite land_bytes by assumption. rewrite IH by (try assumption; lia). reflexivity.
Qed.

Lemma rep_ok c n : c < 256 -> ok (rep c n).
Proof. intro H. induction n; cbn; constructor; assumption. Qed.

(* ---------- subtraction of a repeated byte ---------- *)
Definition sub_step (b t : N) : N * N :=
  if b <? t then (b + 256 - t, 1) else (b - t, 0).

Fixpoint subb (bs : list N) (c : N) (bin : N) : list N * N :=
  match bs with
  | [] => ([], bin)
  | b :: r =>
      let '(d, bo) := sub_step b (c + bin) in
      let '(rs, bout) := subb r c bo in (d :: rs, bout)
  end.

Lemma subb_spec bs : forall c bin, ok bs -> c < 256 -> bin <= 1 ->
  let '(rs, bout) := subb bs c bin in
  ok rs /\ length rs = length bs /\ bout <= 1 /\
  (Z.of_N (to_word rs) = Z.of_N (to_word bs) - Z.of_N (to_word (rep c (length bs))) - Z.of_N bin
                         + Z.of_N bout * 256 ^ Z.of_nat (length bs))%Z.
Proof.
  induction bs as [|b r IH]; intros c bin Hok Hc Hbin; cbn [subb].
  - cbn. repeat split; try constructor; lia.
  - inversion Hok as [|? ? Hb Hr]; subst. unfold sub_step.
    set (t := c + bin).
    destruct (N.ltb_spec b t) as [Hlt|Hge].
    + specialize (IH c 1 Hr Hc ltac:(lia)). destruct (subb r c 1) as [rs bout].
      destruct IH as (A & B & C & D).
      cbn [to_word length rep]. repeat split.
      * constructor; [unfold t in *; lia|assumption].
      * cbn [length]. lia.
      * assumption.
      * rewrite Nat2Z.inj_succ, Z.pow_succ_r by lia. unfold t in *. nia.
    + specialize (IH c 0 Hr Hc ltac:(lia)). destruct (subb r c 0) as [rs bout].
      destruct IH as (A & B & C & D).
      cbn [to_word length rep]. repeat split.
      * constructor; [unfold t in *; lia|assumption].
      * cbn [length]. lia.
      * assumption.
      * rewrite Nat2Z.inj_succ, Z.pow_succ_r by lia. unfold t in *. nia.
Qed.

Lemma sub_word8 bs c : ok bs -> c < 256 -> length bs = 8%nat ->
  wsub (to_word bs) (to_word (rep c 8)) = to_word (fst (subb bs c 0)).
Proof.
  intros Hok Hc Hl.
  pose proof (subb_spec bs c 0 Hok Hc ltac:(lia)) as H.
  destruct (subb bs c 0) as [rs bout]. destruct H as (A & B & C & D). cbn [fst].
  pose proof (to_word_bound rs A) as Hb. rewrite B, Hl in Hb.
  pose proof (to_word_bound (rep c 8) (rep_ok c 8 Hc)) as Hrep. rewrite rep_length in Hrep.
  pose proof (to_word_bound bs Hok) as Hbs. rewrite Hl in *.
  change (256 ^ N.of_nat 8) with W in *. change (256 ^ Z.of_nat 8)%Z with (Z.of_N W) in D.
  unfold wsub. rewrite (N.mod_small (to_word (rep c 8))) by exact Hrep.
  assert (bout = 0 \/ bout = 1) as [E|E] by lia; subst bout.
  - symmetry. apply N.mod_unique with (q := 1); lia.
  - symmetry. apply N.mod_unique with (q := 0); lia.
Qed.
