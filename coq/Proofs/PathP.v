(* CreatePath never indexes outside the path text (no panic) and the model's
   fuel always suffices, for every rune string. *)
From Coq Require Import NArith ZArith List Bool Lia.
From GJ Require Import Base.Bytes Model.Path.
Import ListNotations.
Open Scope N_scope.

Definition good (r : pres) : Prop := r <> PStuck /\ r <> PFuel.

Lemma good_shift k pre sq dq r : good r -> good (shift k pre sq dq r).
Proof. intros [A B]. destruct r; cbn; split; try discriminate; try congruence. Qed.

Lemma good_err : good PErr. Proof. split; discriminate. Qed.
Lemma good_ok o n s d : good (POk o n s d). Proof. split; discriminate. Qed.
#[local] Hint Resolve good_err good_ok good_shift : pathdb.

Definition kgood (n : nat) (k : list N -> pres) : Prop :=
  forall t, t <> [] -> (length t <= n)%nat -> good (k t).

Lemma sel_loop_good n ks ki kq whole : kgood n ks -> kgood n ki -> kgood n kq ->
  forall rest pre, (length rest <= S n)%nat -> good (sel_loop ks ki kq whole pre rest).
Proof.
  intros Hs Hi Hq. induction rest as [|x t IHt]; intros pre Hl; cbn [sel_loop]; [auto with pathdb|]. cbn [length] in Hl.
  destruct (is_in x [36; 42; 93]); [auto with pathdb|].
  destruct (x =? 46).
  { destruct t as [|y t']; [auto with pathdb|]. apply good_shift. apply Hs; [discriminate|lia]. }
  destruct (x =? 91).
  { destruct t as [|y t']; [auto with pathdb|]. apply good_shift. apply Hi; [discriminate|lia]. }
  destruct (x =? 34).
  { destruct t as [|y t']; [auto with pathdb|]. apply good_shift. apply Hq; [discriminate|lia]. }
  apply IHt. lia.
Qed.

Lemma quote_loop_good n kn sel : kgood n kn ->
  forall rest pre, (length rest <= S n)%nat -> good (quote_loop kn sel pre rest).
Proof.
  intros Hn. induction rest as [|x t IHt]; intros pre Hl; cbn [quote_loop]; [auto with pathdb|]. cbn [length] in Hl.
  destruct (x =? 39).
  { destruct sel; [|auto with pathdb]. destruct t as [|y t2]; [auto with pathdb|].
    destruct (negb (y =? 93)); [auto with pathdb|].
    destruct t2 as [|z t3]; [auto with pathdb|]. apply good_shift. apply Hn; [discriminate|cbn [length] in *; lia]. }
  destruct (x =? 34).
  { destruct sel; [auto with pathdb|]. destruct t as [|y t2]; [auto with pathdb|].
    apply good_shift. apply Hn; [discriminate|lia]. }
  apply IHt. lia.
Qed.

Lemma rec_loop_good n ks ki whole : kgood n ks -> kgood n ki ->
  forall rest pre, (length rest <= S n)%nat -> good (rec_loop ks ki whole pre rest).
Proof.
  intros Hs Hi. induction rest as [|x t IHt]; intros pre Hl; cbn [rec_loop]; [auto with pathdb|]. cbn [length] in Hl.
  destruct (is_in x [36; 42; 93]); [auto with pathdb|].
  destruct (x =? 46).
  { destruct t as [|y t']; [auto with pathdb|]. apply good_shift. apply Hs; [discriminate|lia]. }
  destruct (x =? 91).
  { destruct t as [|y t']; [auto with pathdb|]. apply good_shift. apply Hi; [discriminate|lia]. }
  apply IHt. lia.
Qed.

Lemma idx_loop_good n kn : kgood n kn ->
  forall rest pre, (length rest <= S n)%nat -> good (idx_loop kn pre rest).
Proof.
  intros Hn. induction rest as [|x t IHt]; intros pre Hl; cbn [idx_loop]; [auto with pathdb|]. cbn [length] in Hl.
  destruct (x =? 93).
  { destruct (parse_int64 pre); [|auto with pathdb]. destruct t as [|y t']; [auto with pathdb|].
    apply good_shift. apply Hn; [discriminate|lia]. }
  apply IHt. lia.
Qed.

Theorem build_parts_total f :
  forall buf, buf <> [] -> (length buf <= f)%nat ->
    good (build_next f buf) /\ good (build_selector f buf) /\
    (forall sel, good (build_quote f buf sel)) /\ good (build_rec f buf) /\ good (build_index f buf).
Proof.
  induction f as [|f IH]; intros buf Hne Hlen.
  { destruct buf; [congruence|cbn in Hlen; lia]. }
  destruct buf as [|c r]; [congruence|]. cbn [length] in Hlen.
  assert (Kn : kgood (length r) (build_next f)) by (intros t Ht Hl; apply IH; [exact Ht|lia]).
  assert (Ks : kgood (length r) (build_selector f)) by (intros t Ht Hl; apply IH; [exact Ht|lia]).
  assert (Kq : forall sel, kgood (length r) (fun t => build_quote f t sel)) by (intros sel t Ht Hl; apply IH; [exact Ht|lia]).
  assert (Kr : kgood (length r) (build_rec f)) by (intros t Ht Hl; apply IH; [exact Ht|lia]).
  assert (Ki : kgood (length r) (build_index f)) by (intros t Ht Hl; apply IH; [exact Ht|lia]).
  split; [|split; [|split; [|split]]].
  - cbn [build_next]. destruct (c =? 46).
    + destruct r as [|y r']; [auto with pathdb|]. apply good_shift. apply Ks; [discriminate|lia].
    + destruct (c =? 91); [|auto with pathdb].
      destruct r as [|y r']; [auto with pathdb|]. apply good_shift. apply Ki; [discriminate|lia].
  - cbn [build_selector]. destruct (c =? 46).
    { destruct r as [|y r']; [auto with pathdb|]. apply good_shift. apply Kr; [discriminate|lia]. }
    destruct (is_in c [91; 93; 36; 42]); [auto with pathdb|].
    apply (sel_loop_good (length r)); [exact Ks|exact Ki|apply Kq|cbn [length]; lia].
  - intro sel. cbn [build_quote]. destruct (is_in c [91; 93; 36; 46; 42; 39; 34]); [auto with pathdb|].
    apply (quote_loop_good (length r)); [exact Kn|cbn [length]; lia].
  - cbn [build_rec]. destruct (is_in c [46; 91; 93; 36; 42]); [auto with pathdb|].
    apply (rec_loop_good (length r)); [exact Ks|exact Ki|cbn [length]; lia].
  - cbn [build_index]. destruct (is_in c [46; 91; 93; 36]); [auto with pathdb|].
    destruct (c =? 39).
    { destruct r as [|y r']; [auto with pathdb|]. apply good_shift. apply (Kq QSingle); [discriminate|lia]. }
    destruct (c =? 42).
    { destruct r as [|y t]; [auto with pathdb|]. destruct (negb (y =? 93)); [auto with pathdb|].
      destruct t as [|z t']; [auto with pathdb|]. apply good_shift. apply Kn; [discriminate|cbn [length]; lia]. }
    apply (idx_loop_good (length r)); [exact Kn|cbn [length]; lia].
Qed.

Theorem build_total s : build s <> BStuck /\ build s <> BFuel.
Proof.
  unfold build. destruct s as [|c r]; [split; discriminate|].
  destruct (negb (c =? 36)); [split; discriminate|].
  destruct r as [|y r']; [split; discriminate|].
  destruct (build_parts_total (S (length (y :: r'))) (y :: r') ltac:(discriminate) ltac:(lia)) as ([A B] & _).
  destruct (build_next (S (length (y :: r'))) (y :: r')); try congruence; try (split; discriminate).
  destruct (Nat.ltb off (length (y :: r'))); split; discriminate.
Qed.
