From Coq Require Import NArith List Bool Arith.
From GJ Require Import Model.PathText.
Import ListNotations.

Lemma walk_copy_keeps buf : forall evs hands, fst (walk false buf evs hands) = buf.
Proof. induction evs as [|e r IH]; intro hands; [reflexivity|]. destruct e; cbn [walk]; apply IH. Qed.

(* with keys unescaped in a copy, whatever the walk reads and however often: every part is the document's own text *)
Theorem results_are_document_text buf evs : results false buf evs = expected buf evs.
Proof.
  unfold results, expected. pose proof (walk_copy_keeps buf evs []) as H.
  destruct (walk false buf evs []) as [final hands]. cbn [fst snd] in *. subst final. reflexivity.
Qed.

(* unescaping a key where it stands, below a part already handed out: {"a":{"k\ny":1}} with $..a *)
Definition doc_ex : list N := [123; 34; 97; 34; 58; 123; 34; 107; 92; 110; 121; 34; 58; 49; 125; 125]%N.
Definition walk_ex : list event := [ReadKey 2 [97%N]; HandOut 5 10; ReadKey 7 [107; 10; 121]%N].
Theorem in_place_refuted : results true doc_ex walk_ex <> expected doc_ex walk_ex.
Proof. vm_compute. discriminate. Qed.
Example in_place_ex : results true doc_ex walk_ex = [[123; 34; 107; 10; 121; 121; 34; 58; 49; 125]%N] /\
                      results false doc_ex walk_ex = [[123; 34; 107; 92; 110; 121; 34; 58; 49; 125]%N].
Proof. vm_compute. split; reflexivity. Qed.
