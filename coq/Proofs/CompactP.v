(* Compact = the specification: on every input the model of compact.go returns
   exactly the raw tokens of the RFC 8259 parse, or an error when there is none. *)
From Coq Require Import NArith ZArith List Bool Lia.
From Coq Require Import ZifyN ZifyNat ZifyBool.
From GJ Require Import Base.Bytes Gen.Tables Model.Int Model.Compact Spec.Json Proofs.CompactLeafP Proofs.JsonSpecP.
Import ListNotations.
Open Scope N_scope.

(* bound: running out of fuel is only possible below this fuel *)
Definition val_rel (bound f : nat) (S : option (list tok * list N)) (R : cres (list N * list N)) : Prop :=
  match S with
  | Some (ts, rest) => R = COk (render_compact ts, rest ++ [0])
  | None => R = CErr \/ (R = CFuel /\ (f < bound)%nat)
  end.

Ltac fin := first [left; reflexivity | right; split; [reflexivity|cbn [length] in *; lia]].
Ltac useIH H := let E := fresh "E" in let B := fresh "B" in
  destruct H as [E|[E B]]; rewrite E; [left; reflexivity|right; split; [reflexivity|cbn [length] in *; lia]].

Lemma render_app a b : render_compact (a ++ b) = render_compact a ++ render_compact b.
Proof. unfold render_compact. apply flat_map_app. Qed.

Lemma c_string_rel ls :
  match ls with
  | q :: r => if q =? 34 then
                match p_string_body r with
                | Some (b, rest) => c_string false (ls ++ [0]) = COk (34 :: b ++ [34], rest ++ [0])
                | None => c_string false (ls ++ [0]) = CErr
                end
              else c_string false (ls ++ [0]) = CErr
  | [] => c_string false (ls ++ [0]) = CErr
  end.
Proof.
  destruct ls as [|q r]; [reflexivity|]. cbn [app c_string].
  destruct (q =? 34); [|reflexivity].
  pose proof (string_body_rel (length r) r (le_n _)) as R. unfold str_rel in R.
  destruct (p_string_body r) as [[b rest]|]; rewrite R; reflexivity.
Qed.

Lemma number_rel c r : numchar_b c = true ->
  c_number ((c :: r) ++ [0]) =
  let '(num, rest) := span numchar_b (c :: r) in
  if json_number num then COk (num, rest ++ [0]) else CErr.
Proof.
  intro Hc. cbn [app c_number span]. rewrite Hc.
  destruct (span numchar_b r) as [a b] eqn:E.
  rewrite (span_float_sentinel r a b E). rewrite valid_number_spec. reflexivity.
Qed.

Definition clim : option nat := Some c_max_depth.

Theorem compact_rel f :
  (forall d ls, val_rel (2 * length ls + 2) f (pg_value clim allnum f d ls) (c_value None false f d (ls ++ [0]))) /\
  (forall d ls, val_rel (2 * length ls + 3) f (pg_members clim allnum f d ls) (c_members None false f d (ls ++ [0]))) /\
  (forall d ls, val_rel (2 * length ls + 3) f (pg_elements clim allnum f d ls) (c_elements None false f d (ls ++ [0]))).
Proof.
  induction f as [|f (IHv & IHm & IHe)].
  { split; [|split]; intros; cbn; right; (split; [reflexivity|lia]). }
  pose proof (spec_shorter clim allnum f) as (SHv & SHm & SHe).
  split; [|split].
  - (* value *)
    intros d ls. cbn [pg_value c_value].
    assert (Dok : negb (depth_ok clim d) = Nat.ltb c_max_depth (S d)).
    { unfold depth_ok, clim. destruct (Nat.leb_spec (S d) c_max_depth); destruct (Nat.ltb_spec c_max_depth (S d)); try reflexivity; lia. } rewrite c_value_ws_sentinel.
    pose proof (skip_ws_length ls) as L0.
    destruct (skip_ws ls) as [|c r] eqn:Es.
    { cbn. left. reflexivity. }
    cbn [app]. cbn [length] in L0.
    destruct (N.eqb_spec c 123) as [E|E].
    { subst c. rewrite Dok. destruct (Nat.ltb c_max_depth (S d)); [left; reflexivity|].
      rewrite c_skip_ws_sentinel. pose proof (skip_ws_length r) as L1.
      destruct (skip_ws r) as [|c1 r1] eqn:Er.
      - cbn [app]. destruct f; cbn; [right; split; [reflexivity|lia]|left; reflexivity].
      - cbn [app]. cbn [length] in L1. destruct (c1 =? 125); [reflexivity|].
        specialize (IHm (S d) (c1 :: r1)). cbn [app] in IHm. unfold val_rel in *.
        destruct (pg_members clim allnum f (S d) (c1 :: r1)) as [[ts rest]|].
        + rewrite IHm. reflexivity.
        + useIH IHm. }
    destruct (N.eqb_spec c 125) as [E1|E1].
    { subst c. cbn. left. reflexivity. }
    destruct (N.eqb_spec c 91) as [E2|E2].
    { subst c. rewrite Dok. destruct (Nat.ltb c_max_depth (S d)); [left; reflexivity|].
      rewrite c_skip_ws_sentinel. pose proof (skip_ws_length r) as L1.
      destruct (skip_ws r) as [|c1 r1] eqn:Er.
      - cbn [app]. destruct f as [|[|f']]; cbn; [right; split; [reflexivity|lia]|right; split; [reflexivity|lia]|left; reflexivity].
      - cbn [app]. cbn [length] in L1. destruct (c1 =? 93); [reflexivity|].
        specialize (IHe (S d) (c1 :: r1)). cbn [app] in IHe. unfold val_rel in *.
        destruct (pg_elements clim allnum f (S d) (c1 :: r1)) as [[ts rest]|].
        + rewrite IHe. reflexivity.
        + useIH IHe. }
    destruct (N.eqb_spec c 93) as [E3|E3].
    { subst c. cbn. left. reflexivity. }
    destruct (N.eqb_spec c 34) as [E4|E4].
    { subst c. pose proof (c_string_rel (34 :: r)) as R. cbn [app] in R. change (34 =? 34) with true in R. cbn iota in R.
      destruct (p_string_body r) as [[b rest]|]; rewrite R; [|left; reflexivity].
      cbn. rewrite app_nil_r. reflexivity. }
    destruct ((c =? 45) || digit_b c) eqn:E5.
    { change (isdig c) with (digit_b c). rewrite E5.
      assert (Hc : numchar_b c = true) by (unfold numchar_b; lia).
      pose proof (number_rel c r Hc) as R. cbn [app] in R. rewrite R.
      destruct (span numchar_b (c :: r)) as [num rest].
      unfold allnum. rewrite andb_true_r. destruct (json_number num); [|left; reflexivity]. cbn. rewrite app_nil_r. reflexivity. }
    change (isdig c) with (digit_b c). rewrite E5.
    destruct (N.eqb_spec c 116) as [E6|E6].
    { subst c. pose proof (literal_true r) as R. cbn [app] in R. rewrite R.
      destruct (starts [114; 117; 101] r); [reflexivity|left; reflexivity]. }
    destruct (N.eqb_spec c 102) as [E7|E7].
    { subst c. pose proof (literal_false r) as R. cbn [app] in R. rewrite R.
      destruct (starts [97; 108; 115; 101] r); [reflexivity|left; reflexivity]. }
    destruct (N.eqb_spec c 110) as [E8|E8].
    { subst c. pose proof (literal_null r) as R. cbn [app] in R. rewrite R.
      destruct (starts [117; 108; 108] r); [reflexivity|left; reflexivity]. }
    left. reflexivity.
  - (* members *)
    intros d ls. cbn [pg_members c_members]. rewrite c_skip_ws_sentinel.
    pose proof (c_string_rel (skip_ws ls)) as R. pose proof (skip_ws_length ls) as L0.
    destruct (skip_ws ls) as [|q r] eqn:Es.
    { rewrite R. left. reflexivity. }
    cbn [length] in L0.
    destruct (N.eqb_spec q 34) as [Eq|Eq]; cbn [negb].
    2:{ rewrite R. left. reflexivity. }
    destruct (p_string_body r) as [[k r1]|] eqn:Ek; [|rewrite R; left; reflexivity].
    pose proof (string_body_shorter _ _ _ Ek) as L1.
    rewrite R. rewrite c_skip_ws_sentinel. pose proof (skip_ws_length r1) as L2.
    destruct (skip_ws r1) as [|c r2] eqn:E1.
    { cbn. left. reflexivity. }
    cbn [app]. cbn [length] in L2. destruct (N.eqb_spec c 58) as [Ec|Ec]; cbn [negb]; [|left; reflexivity].
    specialize (IHv d r2). unfold val_rel in IHv |- *.
    destruct (pg_value clim allnum f d r2) as [[vt r3]|] eqn:Ev.
    2:{ useIH IHv. }
    pose proof (SHv _ _ _ _ Ev) as L3.
    rewrite IHv. rewrite c_skip_ws_sentinel. pose proof (skip_ws_length r3) as L4.
    destruct (skip_ws r3) as [|c3 r4] eqn:E3.
    { cbn. left. reflexivity. }
    cbn [app]. cbn [length] in L4. destruct (N.eqb_spec c3 125) as [E5|E5].
    { cbn [nl colon app]. unfold render_compact. f_equal. f_equal. cbn [flat_map raw_tok]. rewrite flat_map_app. cbn [flat_map raw_tok app]. rewrite <- ?app_assoc. cbn [app]. rewrite ?app_nil_r. reflexivity. }
    destruct (N.eqb_spec c3 44) as [E6|E6]; [|left; reflexivity].
    specialize (IHm d r4). unfold val_rel in IHm.
    destruct (pg_members clim allnum f d r4) as [[ts rest]|].
    2:{ useIH IHm. }
    rewrite IHm. cbn [nl colon app]. unfold render_compact. f_equal. f_equal. cbn [flat_map raw_tok]. rewrite flat_map_app. cbn [flat_map raw_tok app]. rewrite <- ?app_assoc. cbn [app]. rewrite ?app_nil_r. reflexivity.
  - (* elements *)
    intros d ls. cbn [pg_elements c_elements].
    specialize (IHv d ls). unfold val_rel in IHv |- *.
    destruct (pg_value clim allnum f d ls) as [[vt r1]|] eqn:Ev.
    2:{ useIH IHv. }
    pose proof (SHv _ _ _ _ Ev) as L3.
    rewrite IHv. rewrite c_skip_ws_sentinel. pose proof (skip_ws_length r1) as L4.
    destruct (skip_ws r1) as [|c r2] eqn:E1.
    { cbn. left. reflexivity. }
    cbn [app]. cbn [length] in L4. destruct (N.eqb_spec c 93) as [E5|E5].
    { cbn [nl app]. unfold render_compact. f_equal. f_equal. rewrite flat_map_app. cbn [flat_map raw_tok app]. rewrite <- ?app_assoc. cbn [app]. rewrite ?app_nil_r. reflexivity. }
    destruct (N.eqb_spec c 44) as [E6|E6]; [|left; reflexivity].
    specialize (IHe d r2). unfold val_rel in IHe.
    destruct (pg_elements clim allnum f d r2) as [[ts rest]|].
    2:{ useIH IHe. }
    rewrite IHe. cbn [nl app]. unfold render_compact. f_equal. f_equal. rewrite flat_map_app. cbn [flat_map raw_tok app]. rewrite <- ?app_assoc. cbn [app]. rewrite ?app_nil_r. reflexivity.
Qed.

(* validateEndBuf on a sentinel-terminated rest = "only white space follows" *)
Lemma validate_end_all_ws rest : validate_end (rest ++ [0]) = Some (all_ws rest).
Proof.
  induction rest as [|c r IH]; [reflexivity|]. cbn [app validate_end all_ws].
  rewrite is_ws_ws_b. destruct (ws_b c) eqn:W; [exact IH|]. cbn [andb].
  destruct (N.eqb_spec c 0) as [E|E]; [|reflexivity]. subst. destruct r; reflexivity.
Qed.

(* Compact(data): exactly the raw tokens of the RFC 8259 parse, or an error;
   never a read outside the buffer, never out of fuel *)
Theorem compact_run_spec data :
  compact_run false data =
  match parse_g clim allnum data with
  | Some (ts, _) => COk (render_compact ts)
  | None => CErr
  end.
Proof.
  unfold compact_run, run_value, parse_g, top_fuel.
  destruct data as [|d0 dr] eqn:Ed.
  { reflexivity. }
  rewrite <- Ed. assert (Hne : data <> []) by (rewrite Ed; discriminate). clear Ed d0 dr.
  destruct (compact_rel (2 * length data + 4)) as (Hv & _ & _).
  specialize (Hv 0%nat data). unfold val_rel in Hv.
  destruct (pg_value clim allnum (2 * length data + 4) 0 data) as [[ts rest]|].
  - destruct data as [|d0 dr]; [congruence|]. rewrite Hv. rewrite validate_end_all_ws.
    destruct (all_ws rest); reflexivity.
  - destruct data as [|d0 dr]; [congruence|].
    destruct Hv as [E|[E B]]; [rewrite E; reflexivity|exfalso; lia].
Qed.
