(* Cycle detection (Model/Cycle.v): a value without a cycle is encoded (shared
   sub-values included: only the path from the root is remembered); on ANY finite
   graph the recursion stops within threshold + number of nodes + 1 levels, i.e. a
   cyclic value gives the error and never unbounded recursion. *)
From Coq Require Import List Arith Bool Lia.
From GJ Require Import Model.Cycle.
Import ListNotations.

Section P.
  Variable T : nat.
  Variable succ : nat -> list nat.

  (* ---------- acyclic values ---------- *)
  Variable rank : nat -> nat.
  Hypothesis rank_decreases : forall n c, In c (succ n) -> rank c < rank n.

  Lemma not_in_existsb n seen : (forall s, In s seen -> rank n < rank s) -> existsb (Nat.eqb n) seen = false.
  Proof.
    intro H. destruct (existsb (Nat.eqb n) seen) eqn:E; [|reflexivity].
    apply existsb_exists in E. destruct E as (s & Hs & Es). apply Nat.eqb_eq in Es. subst s.
    specialize (H n Hs). lia.
  Qed.

  Theorem acyclic_ok : forall fuel level seen n,
    rank n < fuel -> (forall s, In s seen -> rank n < rank s) -> walk T succ fuel level seen n = WOk.
  Proof.
    induction fuel as [|f IH]; intros level seen n F P; [lia|].
    cbn [walk]. rewrite (not_in_existsb n seen P), andb_false_r.
    assert (G : forall cs, (forall c, In c cs -> In c (succ n)) -> each (walk T succ f (S level) (n :: seen)) cs = WOk).
    { induction cs as [|c r IHr]; intro Sub; [reflexivity|]. cbn [each].
      assert (Hc : In c (succ n)) by (apply Sub; left; reflexivity).
      pose proof (rank_decreases n c Hc) as R.
      rewrite IH.
      - apply IHr. intros x Hx. apply Sub. right. exact Hx.
      - lia.
      - intros s [E|Hs]; [subst s; exact R|]. specialize (P s Hs). lia. }
    apply G. auto.
  Qed.
End P.

(* ---------- any finite graph: never out of fuel ---------- *)
Lemma nodup_bounded_length (l : list nat) N : NoDup l -> (forall x, In x l -> x < N) -> length l <= N.
Proof.
  intros ND B. rewrite <- (seq_length N 0). apply NoDup_incl_length; [exact ND|].
  intros x Hx. apply in_seq. specialize (B x Hx). lia.
Qed.
Lemma nodup_full (l : list nat) N : NoDup l -> (forall x, In x l -> x < N) -> length l = N -> forall n, n < N -> In n l.
Proof.
  intros ND B L n Hn.
  assert (I : incl (seq 0 N) l).
  { apply NoDup_length_incl; [exact ND| |].
    - rewrite seq_length. lia.
    - intros x Hx. apply in_seq. specialize (B x Hx). lia. }
  apply I. apply in_seq. lia.
Qed.

Lemma in_firstn_in {A} (x : A) k : forall l, In x (firstn k l) -> In x l.
Proof. induction k as [|k IH]; intros [|a l] H; cbn in *; try contradiction. destruct H as [E|H]; [left; exact E|right; apply IH, H]. Qed.

Section Q.
  Variable T : nat.
  Variable succ : nat -> list nat.
  Variable N : nat.
  Hypothesis closed : forall n c, n < N -> In c (succ n) -> c < N.

  (* the addresses remembered above the threshold are pairwise distinct nodes *)
  Definition above (level : nat) (seen : list nat) : list nat := firstn (level - T - 1) seen.

  Theorem never_out_of_fuel : forall fuel level seen n,
    n < N -> length seen = level ->
    NoDup (above level seen) -> (forall x, In x (above level seen) -> x < N) ->
    T + N + 2 <= fuel + level ->
    walk T succ fuel level seen n <> WFuel.
  Proof.
    induction fuel as [|f IH]; intros level seen n Hn L ND B F.
    - (* no fuel left would mean more than N distinct nodes remembered above the threshold *)
      exfalso. pose proof (nodup_bounded_length _ N ND B) as Len. unfold above in Len.
      rewrite firstn_length, L in Len. lia.
    - cbn [walk].
      assert (Step : forall seen', length seen' = S level -> NoDup (above (S level) seen') ->
                                   (forall x, In x (above (S level) seen') -> x < N) ->
                                   each (walk T succ f (S level) seen') (succ n) <> WFuel).
      { intros seen' L' ND' B'.
        assert (G : forall cs, (forall c, In c cs -> c < N) -> each (walk T succ f (S level) seen') cs <> WFuel).
        { induction cs as [|c r IHr]; intro Sub; [discriminate|]. cbn [each].
          assert (W : walk T succ f (S level) seen' c <> WFuel).
          { apply IH; auto; [apply Sub; left; reflexivity|lia]. }
          destruct (walk T succ f (S level) seen' c); try discriminate; [|contradiction].
          apply IHr. intros x Hx. apply Sub. right. exact Hx. }
        apply G. intros c Hc. apply (closed n c Hn Hc). }
      destruct (Nat.ltb_spec T level) as [Deep|Shallow]; cbn [andb].
      + destruct (existsb (Nat.eqb n) seen) eqn:E; [discriminate|].
        assert (NotIn : ~ In n seen).
        { intro H. assert (X : existsb (Nat.eqb n) seen = true) by (apply existsb_exists; exists n; split; [exact H|apply Nat.eqb_refl]). congruence. }
        assert (A2 : above (S level) (n :: seen) = n :: above level seen).
        { unfold above. replace (S level - T - 1) with (S (level - T - 1)) by lia. reflexivity. }
        apply Step.
        * cbn [length]. lia.
        * rewrite A2. constructor; [|exact ND]. intro H. apply NotIn. unfold above in H. exact (in_firstn_in _ _ _ H).
        * rewrite A2. intros x [Ex|Hx]; [subst x; exact Hn|apply B, Hx].
      + assert (A2 : above (S level) (n :: seen) = []).
        { unfold above. replace (S level - T - 1) with 0 by lia. reflexivity. }
        apply Step.
        * cbn [length]. lia.
        * rewrite A2. constructor.
        * rewrite A2. intros x [].
  Qed.
End Q.

(* Marshal: on every finite graph (cyclic or not) the encoder returns, with the error or the text *)
Theorem encode_graph_returns T succ N root :
  (forall n c, n < N -> In c (succ n) -> c < N) -> root < N -> encode_graph T succ N root <> WFuel.
Proof.
  intros C R. unfold encode_graph. apply (never_out_of_fuel T succ N C); auto.
  - unfold above. cbn. constructor.
  - unfold above. cbn. intros x [].
  - lia.
Qed.

(* ... and a value without a cycle is never refused, however deep it is and however often a part of it is shared *)
Theorem encode_graph_acyclic_ok T succ N root (rank : nat -> nat) :
  (forall n c, In c (succ n) -> rank c < rank n) -> rank root < N -> encode_graph T succ N root = WOk.
Proof.
  intros RD R. unfold encode_graph. apply (acyclic_ok T succ rank RD); [lia|intros s []].
Qed.

(* a cycle is reported: the one-node loop, and a cycle entered after a long straight part *)
Example self_loop_is_reported : encode_graph 1000 (succ_of [[0]]) 1 0 = WCycle.
Proof. vm_compute. reflexivity. Qed.
(* the defect repaired earlier (e8682af): an address that stays remembered after its value was left makes a
   shared, acyclic value look cyclic.  With the path discipline of the model the diamond is fine. *)
Example diamond_is_fine : encode_graph 0 (succ_of [[1; 2]; [3]; [3]; []]) 4 0 = WOk.
Proof. vm_compute. reflexivity. Qed.
