(* One entry point for the OCaml runner: op name and byte-string arguments
   in, (result bytes, tag text) out.  All structure is decoded here, in Coq. *)
From Coq Require Import NArith ZArith List Bool String.
From GJ Require Import Base.Bytes Base.Show Model.Int Model.StrEnc Model.StrDec Model.Compact Model.Iface Model.Path Model.KeyBitmap Spec.Json Gen.Resets Model.Mem Base.TypeAddrBase Gen.TypeAddr Model.TypeCache Model.Stream Model.StreamInst Model.Enc Model.EncIndent Gen.Query Model.Query Model.Decode Model.EncTyped Model.Skip Model.PathEval Model.PathTags Gen.SliceShape Model.SlicePool Model.FieldRes Model.Cycle Gen.Tables Model.Layout Model.EncColor Model.Base64 Model.Emptiness Gen.Twins.
Import ListNotations.
Open Scope N_scope.
Open Scope string_scope.
Open Scope list_scope.

Definition arg (n : nat) (args : list (list N)) : list N := nth n args [].
Fixpoint bytes_to_string (l : list N) : string :=
  match l with [] => EmptyString | c :: r => String (Ascii.ascii_of_N c) (bytes_to_string r) end.

Definition show_ures (r : ures) : list N * list N :=
  match r with
  | UStuck => (str "stuck", [])
  | URes err st =>
      (str "err=" ++ show_bool err ++ str " stored=" ++
         match st with None => str "-" | Some z => show_Z z end,
       if err then match st with Some _ => str "PartialStoreBeforeError" | None => [] end else [])
  end.

Fixpoint split_on_aux (sep : N) (l cur : list N) : list (list N) :=
  match l with
  | [] => [rev cur]
  | c :: r => if N.eqb c sep then rev cur :: split_on_aux sep r [] else split_on_aux sep r (c :: cur)
  end.
Definition split_on (sep : N) (l : list N) : list (list N) := split_on_aux sep l [].

Definition show_cres (r : cres (list N)) : list N :=
  match r with
  | COk out => 79 :: out          (* 'O' ++ bytes *)
  | CErr => [69]                  (* 'E' *)
  | CFuel => str "fuel"
  | CStuck => str "stuck"
  end.

Definition nthl (k : nat) (l : list (list N)) : list N := nth k l [].
Definition parse_sample (line : list N) : sample :=
  let f := split_on 32 line in
  {| s_addr := dec_N (nthl 0 f); s_ptr := N.eqb (dec_N (nthl 1 f)) 1; s_elem := dec_N (nthl 2 f) |}.
Definition parse_ta (line : list N) : typeaddr :=
  let f := split_on 32 line in
  {| ta_base := dec_N (nthl 0 f); ta_max := dec_N (nthl 1 f); ta_range := dec_N (nthl 2 f); ta_shift := dec_N (nthl 3 f) |}.
Definition show_slot (s : slot) : list N :=
  match s with Slow => str "slow" | Fast i => show_N i | Panic => str "panic" end.

Fixpoint sep_by (sep : N) (l : list (list N)) : list N :=
  match l with [] => [] | [x] => x | x :: r => x ++ sep :: sep_by sep r end.
Definition show_path (p : list nat) : list N := sep_by 46 (map (fun i => show_N (N.of_nat i)) p).

Definition dispatch (op : list N) (args : list (list N)) : list N * list N :=
  if list_eqb op (str "c16.enc_int") then
    (append_int (dec_N (arg 0 args)) (dec_N (arg 1 args)), [])
  else if list_eqb op (str "c16.enc_uint") then
    (append_uint (dec_N (arg 0 args)) (dec_N (arg 1 args)), [])
  else if list_eqb op (str "c16.dec_int") then
    show_ures (unmarshal_int true (dec_N (arg 0 args)) (arg 1 args))
  else if list_eqb op (str "c16.dec_uint") then
    show_ures (unmarshal_int false (dec_N (arg 0 args)) (arg 1 args))
  else if list_eqb op (str "c16.sdec_int") || list_eqb op (str "c16.s1dec_int") then
    show_ures (unmarshal_int_stream true (dec_N (arg 0 args)) (arg 1 args))
  else if list_eqb op (str "c16.sdec_uint") || list_eqb op (str "c16.s1dec_uint") then
    show_ures (unmarshal_int_stream false (dec_N (arg 0 args)) (arg 1 args))
  else if list_eqb op (str "c17.enc") then
    (* arg0: "11" / "10" / "01" / "00" = html,normalize ; arg1: the Go string *)
    (append_string_v (N.eqb (nth 0 (arg 0 args) 48) 49) (N.eqb (nth 1 (arg 0 args) 48) 49) (arg 1 args), [])
  else if list_eqb op (str "c17.dec_buf") then
    match unmarshal_string (arg 0 args) with
    | StrStuck => (str "stuck", [])
    | StrRes err v =>
        (str "err=" ++ show_bool err ++ str " value=" ++
           match v with None => str "-" | Some x => show_hex x end,
         if err then match v with Some _ => str "PartialStoreBeforeError" | None => [] end else [])
    end
  else if list_eqb op (str "c18.compact") then
    (show_cres (compact_run (N.eqb (nth 0 (arg 0 args) 48) 49) (arg 1 args)), [])
  else if list_eqb op (str "c18.indent") then
    (show_cres (indent_run (arg 0 args) (arg 1 args) (arg 2 args)), [])
  else if list_eqb op (str "spec.compact") then
    (match parse_json (arg 0 args) with Some (ts, _) => 79 :: render_compact ts | None => [69] end, [])
  else if list_eqb op (str "spec.indent") then
    (match parse_json (arg 2 args) with
     | Some (ts, rest) => 79 :: render_indent (arg 0 args) (arg 1 args) 0 None ts ++ rest
     | None => [69] end, [])
  else if list_eqb op (str "c05.iface") then
    (* arg0 = "1" when every number of the text fits float64 (strconv oracle) *)
    (match iface_unmarshal (fun _ => N.eqb (nth 0 (arg 0 args) 48) 49) (arg 1 args) with
     | COk _ => [65] | CErr => [82] | CFuel => str "fuel" | CStuck => str "stuck" end, [])
  else if list_eqb op (str "c05.skip") then
    (* Unmarshal(data, &raw) with raw a RawMessage: skipWhiteSpace, skipValue at depth 0, validateEndBuf;
       on success the number of bytes handed to UnmarshalJSON *)
    (let s0 := d_skip_ws (arg 0 args ++ [0]) in
     match sk_value 0 s0 with
     | SOk rest => match validate_end rest with
                   | Some true => 65 :: show_N (N.of_nat (List.length s0 - List.length rest))
                   | Some false => [82]
                   | None => str "stuck"
                   end
     | SErr => [82]
     | SFuel => str "fuel"
     | SStuck => str "stuck"
     end, [])
  else if list_eqb op (str "c20.build") then
    (match Path.build (arg 0 args) with
     | BStuck => str "stuck" | BFuel => str "fuel" | BErr => [69]
     | BOk nodes sq dq => 79 :: print_path nodes ++ [32] ++ show_bool sq ++ show_bool dq
     end, [])
  else if list_eqb op (str "c20.eval") then
    (* arg0: the path text, arg1: the document as a tree (wire format of Model/Enc.v) *)
    (match parse_jv (S (List.length (arg 1 args))) (arg 1 args) with
     | Some (d, []) => (extract_text (arg 0 args) d, eval_tags (arg 0 args) d)
     | _ => (str "unparsed", [])
     end)
  else if list_eqb op (str "c20.hist") then
    (* arg0: the path text, arg1..: the documents one Path value meets, in order *)
    (let docs := map (fun a => parse_jv (S (List.length a)) a) (tl args) in
     if forallb (fun d => match d with Some (_, []) => true | _ => false end) docs
     then extract_history (arg 0 args) (flat_map (fun d => match d with Some (v, _) => [v] | None => [] end) docs)
     else str "unparsed", [])
  else if list_eqb op (str "c11.slice") then
    (* one slice decoder ([]int), a sequence of documents into fresh destinations.  Each argument: the elements
       separated by commas (n = null), then "]" when the array is closed, "!" when the text breaks off after the
       last element listed.  Result per call: the elements stored, or E *)
    (let parse_doc (a : list N) : list int_or_null * bool :=
       let closed := N.eqb (last a 0) 93 in
       let body := removelast a in
       (match body with
        | [] => []
        | _ => map (fun f => if list_eqb f [110] then None else Some (N.to_nat (dec_N f))) (split_on 44 body)
        end, closed) in
     let show_call (r : option (list nat)) : list N :=
       match r with
       | None => [69]
       | Some l => List.concat (map (fun x => show_N (N.of_nat x) ++ [44]) l)
       end in
     List.concat (map (fun r => show_call r ++ [59]) (calls slice_clears {| contents := fun _ => 0%nat; capacity := 2 |} (map parse_doc args))), [])
  else if list_eqb op (str "c15.resolve") then
    (* arg0: a struct shape (wire format of Model/FieldRes.v), arg1: a name; result: the index path of the field the
       name selects, or "-" *)
    (match parse_struct (arg 0 args) with
     | Some fs =>
         match select fs (arg 1 args) with
         | Some p => show_path p
         | None => [45]
         end
     | None => str "unparsed"
     end, [])
  else if list_eqb op (str "c15.members") then
    (* arg0: a struct shape; result: the members Marshal writes, name=path, in order *)
    (match parse_struct (arg 0 args) with
     | Some fs => sep_by 44 (map (fun m => fst m ++ [61] ++ show_path (snd m)) (members fs))
     | None => str "unparsed"
     end, [])
  else if list_eqb op (str "c08.cycle") then
    (* arg0: adjacency lists (successors separated by commas, nodes by semicolons), arg1: the root *)
    (let adj := map (fun nd => match nd with
                               | [] => []
                               | _ => map (fun f => N.to_nat (dec_N f)) (split_on 44 nd)
                               end) (split_on 59 (arg 0 args)) in
     match encode_graph (Z.to_nat enc_StartDetectingCyclesAfter) (succ_of adj) (List.length adj) (N.to_nat (dec_N (arg 1 args))) with
     | WOk => str "ok" | WCycle => str "cycle" | WFuel => str "fuel"
     end, [])
  else if list_eqb op (str "c07.stores") then
    (* arg0: layout (wire of Model/Layout.v), arg1: the document (wire of Model/Enc.v), arg2: the address of the
       destination inside its allocation, arg3: the byte ranges that changed, "offset:length" separated by commas *)
    (match parse_lty (S (List.length (arg 0 args))) (arg 0 args), parse_jv (S (List.length (arg 1 args))) (arg 1 args) with
     | Some (t, []), Some (d, []) =>
         let ws := stores t d (dec_N (arg 2 args)) in
         let ranges := match arg 3 args with
                       | [] => []
                       | a => map (fun f => let '(x, y) := take_until 58 f [] in (dec_N x, dec_N y)) (split_on 44 a)
                       end in
         match find (fun r => negb (covered ws 0 r)) ranges with
         | None => str "in"
         | Some r => str "out " ++ show_N (fst r)
         end
     | _, _ => str "unparsed"
     end, [])
  else if list_eqb op (str "c13.color") then
    (* arg0: a value (wire of Model/Enc.v); arg1..10: header and footer for numbers, strings, booleans, null, keys *)
    (match parse_jv (S (List.length (arg 0 args))) (arg 0 args) with
     | Some (v, []) =>
         let sch : scheme := fun k =>
           match k with
           | CNum => (arg 1 args, arg 2 args) | CStr => (arg 3 args, arg 4 args) | CBool => (arg 5 args, arg 6 args)
           | CNull => (arg 7 args, arg 8 args) | CKey => (arg 9 args, arg 10 args)
           end in
         marshal_color sch v
     | _ => str "unparsed"
     end, [])
  else if list_eqb op (str "c15.bitmap") then
    (* arg0 = sorted lower-cased names separated by LF, arg1 = decoded key *)
    (let names := split_on 10 (arg 0 args) in
     match bm_match (if Nat.leb (List.length names) 8 then 8 else 16)%nat names (arg 1 args) with
     | MStuck => str "stuck" | MNone => [78] | MField i => 70 :: show_N (N.of_nat i) end, [])
  else if list_eqb op (str "c07.array") then
    (* args: base, element size, array length, supplied elements (decimal) *)
    (let ws := array_writes dec_array_fill_typed (dec_N (arg 0 args)) (dec_N (arg 1 args))
                 (N.to_nat (dec_N (arg 2 args))) (N.to_nat (dec_N (arg 3 args))) in
     let ws := filter (fun w => negb (N.eqb (snd w) 0)) ws in
     match ws with
     | [] => str "none"
     | w :: _ =>
         show_N (fold_left (fun a w => N.min a (fst w)) ws (fst w)) ++ [32] ++
         show_N (fold_left (fun a w => N.max a (fst w + snd w)) ws 0)
     end, [])
  else if list_eqb op (str "c14.analyze") then
    (* arg0: one line "addr isptr elem" per typelinks entry, in visiting order *)
    (match analyze (map parse_sample (split_on 10 (arg 0 args))) with
     | None => str "nil"
     | Some ta => show_N (ta_base ta) ++ [32] ++ show_N (ta_max ta) ++ [32] ++ show_N (ta_range ta) ++ [32] ++ show_N (ta_shift ta)
     end, [])
  else if list_eqb op (str "c14.slot") then
    (* arg0: "base max range shift" as used by the caches, arg1: address of the type descriptor,
       arg2: build (race / norace), arg3: which sides looked the type up ("1"/"0" for encoder, decoder) *)
    (let ta := parse_ta (arg 0 args) in
     let p := dec_N (arg 1 args) in
     let race := list_eqb (arg 2 args) (str "race") in
     let e := if race then enc_race ta p else enc_norace ta p in
     let d := if race then dec_race ta p else dec_norace ta p in
     (if N.eqb (nth 0 (arg 3 args) 0) 49 then show_slot e else [45]) ++ [32] ++
     (if N.eqb (nth 1 (arg 3 args) 0) 49 then show_slot d else [45]), [])
  else if list_eqb op (str "c09.bool") then
    (* arg0: the document, arg1: ascending cut positions in decimal separated by spaces *)
    (let cuts := map (fun f => N.to_nat (dec_N f)) (filter (fun f => negb (Nat.eqb (List.length f) 0)) (split_on 32 (arg 1 args))) in
     match bool_decode (arg 0 args) cuts with
     | Value _ (BAccept None) n => str "A null @" ++ show_N (N.of_nat n)
     | Value _ (BAccept (Some true)) n => str "A true @" ++ show_N (N.of_nat n)
     | Value _ (BAccept (Some false)) n => str "A false @" ++ show_N (N.of_nat n)
     | Value _ BReject _ => [82]
     | ReaderError _ => str "reader-error"
     | OutOfFuel _ => str "fuel"
     end, [])
  else if list_eqb op (str "c01.enc") then
    (* arg0: a value in the wire format of Model/Enc.v *)
    (match parse_jv (S (List.length (arg 0 args))) (arg 0 args) with
     | Some (v, []) => marshal v
     | _ => str "unparsed"
     end, [])
  else if list_eqb op (str "c19.sel") then
    (* arg0: code, arg1: value, arg2: query or empty (no query) -- wire formats of Model/Query.v *)
    (match parse_code (S (List.length (arg 0 args))) (arg 0 args), parse_val (S (List.length (arg 1 args))) (arg 1 args) with
     | Some (c, []), Some (v, []) =>
         match arg 2 args with
         | [] => marshal (encode c v)
         | qw => match parse_fq (S (List.length qw)) qw with
                 | Some (q, []) => marshal (encode (filt c q) v)
                 | _ => str "unparsed query"
                 end
         end
     | _, _ => str "unparsed"
     end, [])
  else if list_eqb op (str "c19.qs") then
    (* arg0: query; result: its QueryString and whether Build gives the query back *)
    (match parse_fq (S (List.length (arg 0 args))) (arg 0 args) with
     | Some (q, []) =>
         let thr := match query_subfields_threshold with Some n => n | None => 99%nat end in
         marshal (qj_jv (qjson thr q)) ++ [32] ++
         match Query.build (qjson thr q) with
         | Some q' => if qj_eqb (qjson 0 q') (qjson 0 q) then str "same" else str "other"
         | None => str "unmodelled"
         end
     | _ => str "unparsed"
     end, [])
  else if list_eqb op (str "c02.dec") then
    (* arg0: type, arg1: the document, arg2: the value the destination holds before -- wire formats of Model/Decode.v *)
    (match parse_ty (S (List.length (arg 0 args))) (arg 0 args), parse_gv (S (List.length (arg 2 args))) (arg 2 args) with
     | Some (t, []), Some (v, []) => unmarshal_typed t (arg 1 args) v
     | _, _ => str "unparsed"
     end, [])
  else if list_eqb op (str "c13.indent") then
    (* arg0: a value in the wire format of Model/Enc.v, arg1: prefix, arg2: indent *)
    (match parse_jv (S (List.length (arg 0 args))) (arg 0 args) with
     | Some (v, []) => marshal_indent (arg 1 args) (arg 2 args) v
     | _ => str "unparsed"
     end, [])
  else if list_eqb op (str "c01.typed") then
    (* arg0: type, arg1: value -- wire formats of Model/Decode.v; result: what Marshal writes *)
    (match parse_ty (S (List.length (arg 0 args))) (arg 0 args), parse_gv (S (List.length (arg 1 args))) (arg 1 args) with
     | Some (t, []), Some (v, []) => marshal_typed t v
     | _, _ => str "unparsed"
     end, [])
  else if list_eqb op (str "c04.b64enc") then
    (b64enc (arg 0 args), [])
  else if list_eqb op (str "c04.b64dec") then
    (* what Unmarshal into []byte stores for the string with these contents: O<bytes> or E *)
    (match b64dec (arg 0 args) with Some bs => 79 :: bs | None => [69] end, [])
  else if list_eqb op (str "c01.omits") then
    (* omitempty on a member whose type implements a marshaler interface. arg 0: the kind's name; arg 1: one character
       per observation ('1' / '0'): first member, truth, num_zero, bits_zero, is_nil, len_zero *)
    (let f := arg 1 args in
     let b := fun k : nat => N.eqb (nth k f 0%N) 49%N in
     let pos := if b 0%nat then First else Later in
     let v := {| kind := bytes_to_string (arg 0 args); truth := b 1%nat; num_zero := b 2%nat; bits_zero := b 3%nat; is_nil := b 4%nat; len_zero := b 5%nat |} in
     (match impl_omits marshaler_field_empty_rules omitempty_marshaler_head_skips_nil_pointer omitempty_marshaler_field_skips_nil_pointer pos v with
      | Some true => str "omitted" | Some false => str "kept" | None => str "unknown-rule" end,
      if named_exception pos v then str "OmitemptyNilFuncOrChanMarshaler" else []))
  else (str "no-model", []).
