(* RFC 8259 as a strict recursive-descent recogniser over bytes, producing the
   token stream with the raw spelling of every scalar (Compact and Indent
   preserve spelling).  Deliberately free of sentinels and tables: this is the
   specification the models are compared with. *)
From Coq Require Import NArith List Bool.
Import ListNotations.
Open Scope N_scope.

Definition ws_b (c : N) : bool := (c =? 32) || (c =? 9) || (c =? 10) || (c =? 13).
Definition digit_b (c : N) : bool := (48 <=? c) && (c <=? 57).
Definition hex_b (c : N) : bool :=
  digit_b c || ((97 <=? c) && (c <=? 102)) || ((65 <=? c) && (c <=? 70)).

Fixpoint skip_ws (l : list N) : list N :=
  match l with
  | c :: r => if ws_b c then skip_ws r else l
  | [] => []
  end.

Fixpoint all_ws (l : list N) : bool :=
  match l with [] => true | c :: r => ws_b c && all_ws r end.

(* ---------- numbers: -? (0 | [1-9][0-9]* ) (. [0-9]+)? ([eE] [+-]? [0-9]+)? ---------- *)
Fixpoint span (p : N -> bool) (l : list N) : list N * list N :=
  match l with
  | c :: r => if p c then let '(a, b) := span p r in (c :: a, b) else ([], l)
  | [] => ([], [])
  end.

(* each part consumes a prefix and returns the rest, or None *)
Definition p_int (l : list N) : option (list N) :=
  match l with
  | c :: r => if c =? 48 then Some r
              else if (49 <=? c) && (c <=? 57) then Some (snd (span digit_b r)) else None
  | [] => None
  end.
Definition digits1 (l : list N) : option (list N) :=   (* one or more digits *)
  match span digit_b l with ([], _) => None | (_, r') => Some r' end.
Definition p_frac (l : list N) : option (list N) :=
  match l with
  | c :: r => if c =? 46 then digits1 r else Some l
  | [] => Some l
  end.
Definition p_exp (l : list N) : option (list N) :=
  match l with
  | c :: r =>
      if (c =? 101) || (c =? 69) then
        digits1 (match r with s :: r' => if (s =? 43) || (s =? 45) then r' else r | [] => r end)
      else Some l
  | [] => Some l
  end.
(* the whole of s is one JSON number *)
Definition json_number (s : list N) : bool :=
  let s1 := match s with c :: r => if c =? 45 then r else s | [] => s end in
  match p_int s1 with
  | None => false
  | Some r1 => match p_frac r1 with
               | None => false
               | Some r2 => match p_exp r2 with
                            | Some [] => true
                            | _ => false
                            end
               end
  end.

Definition numchar_b (c : N) : bool :=
  digit_b c || (c =? 46) || (c =? 101) || (c =? 69) || (c =? 43) || (c =? 45).

(* ---------- strings ---------- *)
Definition simple_esc_b (e : N) : bool :=
  (e =? 34) || (e =? 92) || (e =? 47) || (e =? 98) || (e =? 102) || (e =? 110) || (e =? 114) || (e =? 116).

(* body after the opening quote: returns (raw body, rest after the closing quote) *)
Fixpoint p_string_body (l : list N) : option (list N * list N) :=
  match l with
  | [] => None
  | c :: r =>
      if c =? 34 then Some ([], r)
      else if c =? 92 then
        match r with
        | e :: r1 =>
            if simple_esc_b e then
              match p_string_body r1 with Some (b, rest) => Some (c :: e :: b, rest) | None => None end
            else if e =? 117 then
              match r1 with
              | h1 :: h2 :: h3 :: h4 :: r2 =>
                  if hex_b h1 && hex_b h2 && hex_b h3 && hex_b h4 then
                    match p_string_body r2 with
                    | Some (b, rest) => Some (c :: e :: h1 :: h2 :: h3 :: h4 :: b, rest)
                    | None => None
                    end
                  else None
              | _ => None
              end
            else None
        | [] => None
        end
      else if c <? 32 then None
      else match p_string_body r with Some (b, rest) => Some (c :: b, rest) | None => None end
  end.

(* ---------- tokens ---------- *)
Inductive tok :=
| TLBrace | TRBrace | TLBrack | TRBrack | TComma | TColon
| TStr (body : list N)        (* raw body between the quotes *)
| TNum (raw : list N)
| TTrue | TFalse | TNull.

Definition starts (p l : list N) : option (list N) :=
  (fix go (p l : list N) : option (list N) :=
     match p, l with
     | [], _ => Some l
     | x :: p', y :: l' => if x =? y then go p' l' else None
     | _ :: _, [] => None
     end) p l.

(* value / members / elements with explicit fuel.
   Two parameters turn the pure RFC grammar into the language a particular
   implementation accepts: an optional nesting limit (an opener at nesting
   depth d is allowed when S d <= limit) and a predicate every number token
   must satisfy (e.g. "fits float64").  The RFC itself is lim = None,
   numok = fun _ => true. *)
Definition depth_ok (lim : option nat) (d : nat) : bool :=
  match lim with None => true | Some m => Nat.leb (S d) m end.

Fixpoint pg_value (lim : option nat) (numok : list N -> bool) (fuel : nat) (d : nat) (l : list N) : option (list tok * list N) :=
    match fuel with
    | O => None
    | S f =>
        match skip_ws l with
        | [] => None
        | c :: r =>
            if c =? 123 then (* { *)
              if negb (depth_ok lim d) then None else
              match skip_ws r with
              | c1 :: r' =>
                  if c1 =? 125 then Some ([TLBrace; TRBrace], r')
                  else match pg_members lim numok f (S d) (c1 :: r') with
                       | Some (ts, rest) => Some (TLBrace :: ts, rest)
                       | None => None
                       end
              | [] => None
              end
            else if c =? 91 then (* [ *)
              if negb (depth_ok lim d) then None else
              match skip_ws r with
              | c1 :: r' =>
                  if c1 =? 93 then Some ([TLBrack; TRBrack], r')
                  else match pg_elements lim numok f (S d) (c1 :: r') with
                       | Some (ts, rest) => Some (TLBrack :: ts, rest)
                       | None => None
                       end
              | [] => None
              end
            else if c =? 34 then
              match p_string_body r with Some (b, rest) => Some ([TStr b], rest) | None => None end
            else if (c =? 45) || digit_b c then
              let '(num, rest) := span numchar_b (c :: r) in
              if json_number num && numok num then Some ([TNum num], rest) else None
            else if c =? 116 then match starts [114; 117; 101] r with Some rest => Some ([TTrue], rest) | None => None end
            else if c =? 102 then match starts [97; 108; 115; 101] r with Some rest => Some ([TFalse], rest) | None => None end
            else if c =? 110 then match starts [117; 108; 108] r with Some rest => Some ([TNull], rest) | None => None end
            else None
        end
    end
  (* after the opening brace with at least one member: string : value (, string : value)* } *)
with pg_members (lim : option nat) (numok : list N -> bool) (fuel : nat) (d : nat) (l : list N) : option (list tok * list N) :=
    match fuel with
    | O => None
    | S f =>
        match skip_ws l with
        | q :: r =>
            if negb (q =? 34) then None else
            match p_string_body r with
            | None => None
            | Some (k, r1) =>
                match skip_ws r1 with
                | c :: r2 =>
                    if negb (c =? 58) then None else
                    match pg_value lim numok f d r2 with
                    | None => None
                    | Some (vt, r3) =>
                        match skip_ws r3 with
                        | c3 :: r4 =>
                            if c3 =? 125 then Some (TStr k :: TColon :: vt ++ [TRBrace], r4)
                            else if c3 =? 44 then
                              match pg_members lim numok f d r4 with
                              | Some (ts, rest) => Some (TStr k :: TColon :: vt ++ TComma :: ts, rest)
                              | None => None
                              end
                            else None
                        | [] => None
                        end
                    end
                | [] => None
                end
            end
        | [] => None
        end
    end
with pg_elements (lim : option nat) (numok : list N -> bool) (fuel : nat) (d : nat) (l : list N) : option (list tok * list N) :=
    match fuel with
    | O => None
    | S f =>
        match pg_value lim numok f d l with
        | None => None
        | Some (vt, r1) =>
            match skip_ws r1 with
            | c :: r2 =>
                if c =? 93 then Some (vt ++ [TRBrack], r2)
                else if c =? 44 then
                  match pg_elements lim numok f d r2 with
                  | Some (ts, rest) => Some (vt ++ TComma :: ts, rest)
                  | None => None
                  end
                else None
            | [] => None
            end
        end
    end.

  (* a JSON text: one value surrounded by white space.  Fuel 2*len+4 suffices. *)
Definition parse_g (lim : option nat) (numok : list N -> bool) (data : list N) : option (list tok * list N) :=
  match pg_value lim numok (2 * length data + 4) 0 data with
  | Some (ts, rest) => if all_ws rest then Some (ts, rest) else None
  | None => None
  end.

(* RFC 8259 *)
Definition allnum (_ : list N) : bool := true.
Definition p_value (f : nat) (l : list N) := pg_value None allnum f 0 l.
Definition parse_json (data : list N) : option (list tok * list N) := parse_g None allnum data.
Definition rfc_json (data : list N) : bool :=
  match parse_json data with Some _ => true | None => false end.

(* ---------- renderings ---------- *)
Definition raw_tok (t : tok) : list N :=
  match t with
  | TLBrace => [123] | TRBrace => [125] | TLBrack => [91] | TRBrack => [93]
  | TComma => [44] | TColon => [58]
  | TStr b => 34 :: b ++ [34]
  | TNum r => r
  | TTrue => [116; 114; 117; 101] | TFalse => [102; 97; 108; 115; 101] | TNull => [110; 117; 108; 108]
  end.

(* encoding/json.Compact *)
Definition render_compact (ts : list tok) : list N := flat_map raw_tok ts.

(* encoding/json.Indent: newline + prefix + depth*indent before every member /
   element and before a closer of a non-empty container; ": " after keys *)
Fixpoint repeat_bytes (n : nat) (s : list N) : list N :=
  match n with O => [] | S k => s ++ repeat_bytes k s end.
Definition newline (prefix ind : list N) (depth : nat) : list N :=
  10 :: prefix ++ repeat_bytes depth ind.

Fixpoint render_indent (prefix ind : list N) (depth : nat) (prev : option tok) (ts : list tok) : list N :=
  match ts with
  | [] => []
  | t :: r =>
      match t with
      | TLBrace | TLBrack =>
          (* an opener: if the container is not empty, its first item goes on a new line *)
          let empty := match r with TRBrace :: _ | TRBrack :: _ => true | _ => false end in
          raw_tok t ++ (if empty then [] else newline prefix ind (S depth)) ++
          render_indent prefix ind (S depth) (Some t) r
      | TRBrace | TRBrack =>
          let after_open := match prev with Some TLBrace | Some TLBrack => true | _ => false end in
          (if after_open then [] else newline prefix ind (pred depth)) ++ raw_tok t ++
          render_indent prefix ind (pred depth) (Some t) r
      | TComma => [44] ++ newline prefix ind depth ++ render_indent prefix ind depth (Some t) r
      | TColon => [58; 32] ++ render_indent prefix ind depth (Some t) r
      | _ => raw_tok t ++ render_indent prefix ind depth (Some t) r
      end
  end.
