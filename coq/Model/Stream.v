(* Stream mode as a lifting of a sentinel-terminated scanner: the window, the
   refill (Stream.read) and the retry-on-NUL pattern every stream scanner of
   internal/decoder follows.  A scanner is any step function that consumes one
   byte and continues, or stops without consuming; [atend] is what it does when
   the input is exhausted (buffer mode: the NUL sentinel behind the data). *)
From Coq Require Import NArith List Bool Arith.
Import ListNotations.
Open Scope N_scope.

Definition NUL : N := 0.

Section Lift.
  Variable St Res : Type.
  Variable step : St -> N -> St + Res.
  Variable atend : St -> Res.

  (* buffer mode: the whole document is in memory; result, bytes consumed, and whether the scanner stopped by itself *)
  Fixpoint brun (l : list N) (st : St) (n : nat) : Res * nat * bool :=
    match l with
    | [] => (atend st, n, false)
    | c :: r => match step st c with inl st' => brun r st' (S n) | inr res => (res, n, true) end
    end.

  (* what the reader will deliver: pieces of any sizes (empty ones included), possibly ending in a failure *)
  Inductive item := Piece (b : list N) | Fail.

  (* the window: valid bytes from its start; reading at its end yields NUL *)
  Record stream := { win : list N; cursor : nat; pending : list item; allRead : bool; failed : bool }.
  Definition char (s : stream) : N := nth (cursor s) (win s) NUL.

  (* Stream.read: false when nothing more can come; the call that meets EOF returns true once;
     a reader error is remembered (the repaired code keeps it in readErr) *)
  Definition read (s : stream) : stream * bool :=
    if allRead s || failed s then (s, false)
    else match pending s with
         | [] => ({| win := win s; cursor := cursor s; pending := []; allRead := true; failed := false |}, true)
         | Piece c :: r => ({| win := win s ++ c; cursor := cursor s; pending := r; allRead := false; failed := false |}, true)
         | Fail :: r => ({| win := win s; cursor := cursor s; pending := r; allRead := false; failed := true |}, false)
         end.
  Definition adv (s : stream) : stream :=
    {| win := win s; cursor := S (cursor s); pending := pending s; allRead := allRead s; failed := failed s |}.

  (* the stream version of the same scanner: at NUL refill and look again, otherwise as in buffer mode *)
  Fixpoint srun (fuel : nat) (s : stream) (st : St) (n : nat) : option (Res * nat * bool * stream) :=
    match fuel with
    | O => None
    | S f =>
        let c := char s in
        if c =? NUL then
          match read s with
          | (s', true) => srun f s' st n
          | (s', false) => Some (atend st, n, false, s')
          end
        else match step st c with
             | inl st' => srun f (adv s) st' (S n)
             | inr res => Some (res, n, true, s)
             end
    end.

  Definition start (items : list item) : stream := {| win := []; cursor := 0; pending := items; allRead := false; failed := false |}.

  (* Decoder.Decode: a reader error takes precedence over whatever the scanner made of the bytes that arrived *)
  Inductive outcome := Value (r : Res) (consumed : nat) | ReaderError | OutOfFuel.
  Definition decode (fuel : nat) (items : list item) (st : St) : outcome :=
    match srun fuel (start items) st 0 with
    | None => OutOfFuel
    | Some (r, n, _, s) => if failed s then ReaderError else Value r n
    end.

  (* the bytes the reader delivers before it fails or ends *)
  Fixpoint delivered (items : list item) : list N :=
    match items with
    | [] => []
    | Piece b :: r => b ++ delivered r
    | Fail :: _ => []
    end.
  Fixpoint fails (items : list item) : bool :=
    match items with [] => false | Piece _ :: r => fails r | Fail :: _ => true end.
End Lift.
