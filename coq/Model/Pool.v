(* The pooled RuntimeContext: goroutines take a context, fill its buffer with
   their own data, read it back (scan / copy out) and release it.  With
   early = true the release comes before the last read, which is what the
   translator's pool_use_after_release list reports. *)
From Coq Require Import NArith List Bool Arith.
Import ListNotations.

Inductive ppc :=
| PTake
| PWrite (c : nat)
| PRead (c : nat)
| PRelease (c : nat) (res : list N)
| PReleaseEarly (c : nat)
| PReadAfter (c : nat)
| PDone (res : list N).

Record pstate := { free : list nat; next : nat; owner : nat -> option nat; bufs : nat -> list N }.
Definition pstate0 : pstate := {| free := []; next := 0; owner := fun _ => None; bufs := fun _ => [] |}.

Definition pthread := (list N * ppc)%type.     (* the goroutine's own data, and where it is *)

Definition updf {A} (f : nat -> A) (k : nat) (v : A) : nat -> A := fun j => if Nat.eqb j k then v else f j.

Definition pstep (early : bool) (i : nat) (st : pstate) (th : pthread) : pstate * pthread :=
  let '(x, p) := th in
  match p with
  | PTake =>
      match free st with
      | c :: r => ({| free := r; next := next st; owner := updf (owner st) c (Some i); bufs := bufs st |}, (x, PWrite c))
      | [] => ({| free := []; next := S (next st); owner := updf (owner st) (next st) (Some i); bufs := bufs st |}, (x, PWrite (next st)))
      end
  | PWrite c =>
      ({| free := free st; next := next st; owner := owner st; bufs := updf (bufs st) c x |},
       (x, if early then PReleaseEarly c else PRead c))
  | PRead c => (st, (x, PRelease c (bufs st c)))
  | PRelease c res =>
      ({| free := c :: free st; next := next st; owner := updf (owner st) c None; bufs := bufs st |}, (x, PDone res))
  | PReleaseEarly c =>
      ({| free := c :: free st; next := next st; owner := updf (owner st) c None; bufs := bufs st |}, (x, PReadAfter c))
  | PReadAfter c => (st, (x, PDone (bufs st c)))
  | PDone res => (st, (x, PDone res))
  end.

Fixpoint pset_nth {A} (l : list A) (n : nat) (x : A) : list A :=
  match l, n with
  | [], _ => []
  | _ :: r, O => x :: r
  | y :: r, S k => y :: pset_nth r k x
  end.

Definition psys := (pstate * list pthread)%type.
Definition psys_step (early : bool) (s : psys) (i : nat) : psys :=
  let '(st, ths) := s in
  match nth_error ths i with
  | None => s
  | Some th => let '(st', th') := pstep early i st th in (st', pset_nth ths i th')
  end.
Definition prun (early : bool) (s : psys) (schedule : list nat) : psys := fold_left (psys_step early) schedule s.
Definition pstart (inputs : list (list N)) : psys := (pstate0, map (fun x => (x, PTake)) inputs).
