(* The options and scratch fields of the pooled encoder context: what a call
   may find there (left by any earlier call), what it overwrites before use and
   what it reads.  Which fields the entry points, the option functions, Init
   and the indent entry reset comes from Gen/OptState.v; the table of which
   interpreter reads which field under which flag is checked against the
   readers the translator lists. *)
From Coq Require Import NArith List Bool String.
From GJ Require Import Gen.OptState.
Import ListNotations.

Inductive fld := FFlagBits | FContext | FDebugOut | FDebugDOT | FColorScheme | FPrefix | FIndentStr | FBaseIndent | FKeepRefs | FSeenPtr.
Definition fld_eqb (a b : fld) : bool :=
  match a, b with
  | FFlagBits, FFlagBits | FContext, FContext | FDebugOut, FDebugOut | FDebugDOT, FDebugDOT | FColorScheme, FColorScheme
  | FPrefix, FPrefix | FIndentStr, FIndentStr | FBaseIndent, FBaseIndent | FKeepRefs, FKeepRefs | FSeenPtr, FSeenPtr => true
  | _, _ => false
  end.

(* flag bits *)
Record flags := { fl_html : bool; fl_norm : bool; fl_unordered : bool; fl_debug : bool; fl_color : bool; fl_context : bool; fl_indent : bool }.
Definition flags0 : flags := {| fl_html := false; fl_norm := false; fl_unordered := false; fl_debug := false; fl_color := false; fl_context := false; fl_indent := false |}.

(* values are opaque numbers; a context's state: the flag word and the other fields *)
Record cstate := { st_flags : flags; st_val : fld -> N }.
Definition setv (s : cstate) (f : fld) (v : N) : cstate :=
  {| st_flags := st_flags s; st_val := fun g => if fld_eqb g f then v else st_val s g |}.
Definition setf (s : cstate) (fl : flags) : cstate := {| st_flags := fl; st_val := st_val s |}.

Inductive eopt := OUnorderedMap | ODisableHTMLEscape | ODisableNormalizeUTF8 | ODebug | ODebugWith (w : N) | ODebugDOT (w : N) | OColorize (scheme : N).

(* what the source says (Gen/OptState.v) *)
Definition has (l : list string) (s : string) : bool := existsb (String.eqb s) l.
Definition init_resets_flag : bool := has init_option_assigns "opt.Flag =".
Definition init_resets_debugout : bool := has init_option_assigns "opt.DebugOut =".
Definition init_resets_debugdot : bool := has init_option_assigns "opt.DebugDOTOut =".
Definition all_entries_init : bool := match encode_entries_not_calling_init with [] => true | _ => false end.
Definition opt_stmts (name : string) : list string :=
  match find (fun p => String.eqb (fst p) name) encode_options with Some p => snd p | None => [] end.
Definition colorize_sets_scheme : bool := has (opt_stmts "Colorize") "opt.ColorScheme = scheme".
Definition indent_entry_sets_prefix : bool := has indent_vm_caller_assigns "ctx.Prefix =".
Definition indent_entry_sets_indentstr : bool := has indent_vm_caller_assigns "ctx.IndentStr =".
Definition rt_init_resets (s : string) : bool := has runtime_init_assigns s.

(* the facts about the source the model depends on *)
Record srcfacts := { sf_init_flag : bool; sf_init_debugout : bool; sf_init_debugdot : bool; sf_all_init : bool; sf_color_scheme : bool;
                     sf_prefix : bool; sf_indentstr : bool; sf_keeprefs : bool; sf_seenptr : bool; sf_baseindent : bool }.
Definition the_source : srcfacts :=
  {| sf_init_flag := init_resets_flag; sf_init_debugout := init_resets_debugout; sf_init_debugdot := init_resets_debugdot;
     sf_all_init := all_entries_init; sf_color_scheme := colorize_sets_scheme; sf_prefix := indent_entry_sets_prefix;
     sf_indentstr := indent_entry_sets_indentstr; sf_keeprefs := rt_init_resets "c.KeepRefs ="; sf_seenptr := rt_init_resets "c.SeenPtr =";
     sf_baseindent := rt_init_resets "c.BaseIndent =" |}.

(* an entry point: optional caller context, optional (prefix, indent), the options in order *)
Record ecall := { ec_context : option N; ec_indent : option (N * N); ec_html : bool; ec_opts : list eopt; ec_arg : N }.

Definition stdout_writer : N := 1.

(* ---- the flag word ---- *)
Definition entry_flags (c : ecall) (fl : flags) : flags :=
  {| fl_html := ec_html c; fl_norm := true; fl_unordered := fl_unordered fl; fl_debug := fl_debug fl; fl_color := fl_color fl;
     fl_context := match ec_context c with Some _ => true | None => fl_context fl end;
     fl_indent := match ec_indent c with Some _ => true | None => fl_indent fl end |}.

Definition opt_flags (fl : flags) (o : eopt) : flags :=
  match o with
  | OUnorderedMap => {| fl_html := fl_html fl; fl_norm := fl_norm fl; fl_unordered := true; fl_debug := fl_debug fl; fl_color := fl_color fl; fl_context := fl_context fl; fl_indent := fl_indent fl |}
  | ODisableHTMLEscape => {| fl_html := false; fl_norm := fl_norm fl; fl_unordered := fl_unordered fl; fl_debug := fl_debug fl; fl_color := fl_color fl; fl_context := fl_context fl; fl_indent := fl_indent fl |}
  | ODisableNormalizeUTF8 => {| fl_html := fl_html fl; fl_norm := false; fl_unordered := fl_unordered fl; fl_debug := fl_debug fl; fl_color := fl_color fl; fl_context := fl_context fl; fl_indent := fl_indent fl |}
  | ODebug => {| fl_html := fl_html fl; fl_norm := fl_norm fl; fl_unordered := fl_unordered fl; fl_debug := true; fl_color := fl_color fl; fl_context := fl_context fl; fl_indent := fl_indent fl |}
  | ODebugWith _ | ODebugDOT _ => fl
  | OColorize _ => {| fl_html := fl_html fl; fl_norm := fl_norm fl; fl_unordered := fl_unordered fl; fl_debug := fl_debug fl; fl_color := true; fl_context := fl_context fl; fl_indent := fl_indent fl |}
  end.

(* initOption clears the word first (if the source does so in every entry point); otherwise the call starts from what was left *)
Definition final_flags (sf : srcfacts) (c : ecall) (left : flags) : flags :=
  fold_left opt_flags (ec_opts c) (entry_flags c (if sf_init_flag sf && sf_all_init sf then flags0 else left)).

(* ---- the other fields: the last assignment made during the call, if any ---- *)
Fixpoint last_opt (pick : eopt -> option N) (opts : list eopt) (acc : option N) : option N :=
  match opts with
  | [] => acc
  | o :: r => last_opt pick r (match pick o with Some v => Some v | None => acc end)
  end.

Definition assigned (sf : srcfacts) (c : ecall) (f : fld) : option N :=
  match f with
  | FFlagBits => None
  | FContext => ec_context c
  | FDebugOut => last_opt (fun o => match o with ODebugWith w => Some w | _ => None end) (ec_opts c)
                   (if sf_init_debugout sf && sf_all_init sf then Some stdout_writer else None)
  | FDebugDOT => last_opt (fun o => match o with ODebugDOT w => Some w | _ => None end) (ec_opts c)
                   (if sf_init_debugdot sf && sf_all_init sf then Some 0%N else None)
  | FColorScheme => if sf_color_scheme sf
                    then last_opt (fun o => match o with OColorize sc => Some sc | _ => None end) (ec_opts c) None
                    else None
  | FPrefix => if sf_prefix sf then option_map fst (ec_indent c) else None
  | FIndentStr => if sf_indentstr sf then option_map snd (ec_indent c) else None
  | FBaseIndent => if sf_baseindent sf then Some 0%N else None
  | FKeepRefs => if sf_keeprefs sf then Some 0%N else None
  | FSeenPtr => if sf_seenptr sf then Some 0%N else None
  end.

(* the state in which the interpreter starts, from whatever the pooled context held *)
Definition prepare (sf : srcfacts) (c : ecall) (left : cstate) : cstate :=
  {| st_flags := final_flags sf c (st_flags left);
     st_val := fun f => match assigned sf c f with Some v => v | None => st_val left f end |}.

(* everything the interpreters can observe: the flag word, and each field under the flag that guards its readers *)
Definition observe (s : cstate) : flags * list (option N) :=
  let fl := st_flags s in
  (fl,
   [ (if fl_context fl then Some (st_val s FContext) else None);
     (if fl_color fl then Some (st_val s FColorScheme) else None);
     (if fl_debug fl then Some (st_val s FDebugOut) else None);
     (if fl_debug fl then Some (st_val s FDebugDOT) else None);
     (if fl_indent fl then Some (st_val s FPrefix) else None);
     (if fl_indent fl then Some (st_val s FIndentStr) else None);
     Some (st_val s FBaseIndent); Some (st_val s FKeepRefs); Some (st_val s FSeenPtr) ]).

(* the result of a call is a function of its arguments and of what the interpreter observes *)
Definition result_inputs (sf : srcfacts) (c : ecall) (left : cstate) := (ec_arg c, observe (prepare sf c left)).
