(* Model of internal/encoder/string.go: the four append*String variants.
   Parameterised by the escape table and SWAR mask expression of the variant
   (both come from Gen, i.e. from the source), and the html/normalize flags. *)
From Coq Require Import NArith ZArith List Bool.
From GJ Require Import Base.Bytes Base.Word64 Gen.Tables Gen.Swar.
Import ListNotations.
Open Scope N_scope.

Definition msb_const : N := Z.to_N enc_msb.

(* bits.TrailingZeros64, computed bytewise: trailing zeros of the low byte, or
   8 + trailing zeros of the rest *)
Fixpoint tz8 (fuel : nat) (i : N) (b : N) : N :=
  match fuel with O => i | S f => if N.odd b then i else tz8 f (i + 1) (b / 2) end.
Fixpoint tz_bytes (k : nat) (x : N) : N :=
  match k with
  | O => 0
  | S k' => let b := x mod 256 in
            if b =? 0 then 8 + tz_bytes k' (x / 256) else tz8 8 0 b
  end.
Definition tz64 (x : N) : N := if x =? 0 then 64 else tz_bytes 8 x.

(* ---------- decodeRuneInString (decode_rune.go) ---------- *)
Inductive rune_state := RValid | RError | RLineSep | RParaSep.

Definition in_rng (lo hi c : N) : bool := (lo <=? c) && (c <=? hi).

(* s is the suffix s[j:], non-empty *)
Definition decode_rune (s : list N) : rune_state * N :=
  match s with
  | [] => (RError, 1)     (* never called on an empty suffix *)
  | s0 :: r =>
      let x := tbl0 enc_first s0 in
      if Z.to_N enc_as <=? x then
        (if x =? Z.to_N enc_xx then (RError, 1) else (RValid, 1))
      else
        let sz := N.land x 7 in
        if N.of_nat (length s) <? sz then (RError, 1)
        else match r with
        | [] => (RError, 1)
        | s1 :: r1 =>
            let acc := N.shiftr x 4 in
            let ok1 :=
              if acc =? 0 then in_rng (Z.to_N enc_locb) (Z.to_N enc_hicb) s1
              else if acc =? 1 then in_rng 160 (Z.to_N enc_hicb) s1
              else if acc =? 2 then in_rng (Z.to_N enc_locb) 159 s1
              else if acc =? 3 then in_rng 144 (Z.to_N enc_hicb) s1
              else if acc =? 4 then in_rng (Z.to_N enc_locb) 143 s1
              else true in
            if negb ok1 then (RError, 1)
            else if sz <=? 2 then (RValid, 2)
            else match r1 with
            | [] => (RError, 1)
            | s2 :: r2 =>
                if negb (in_rng (Z.to_N enc_locb) (Z.to_N enc_hicb) s2) then (RError, 1)
                else if sz <=? 3 then
                  (if (s0 =? 226) && (s1 =? 128) then
                     (if s2 =? 168 then (RLineSep, 3)
                      else if s2 =? 169 then (RParaSep, 3) else (RValid, 3))
                   else (RValid, 3))
                else match r2 with
                | [] => (RError, 1)
                | s3 :: _ =>
                    if negb (in_rng (Z.to_N enc_locb) (Z.to_N enc_hicb) s3) then (RError, 1)
                    else (RValid, 4)
                end
            end
        end
  end.

Section Variant.
  Variable need : list N.      (* needEscape* table of the variant *)
  Variable html : bool.        (* the '<','>','&' case is present *)
  Variable normalize : bool.   (* decodeRuneInString is consulted *)
  Variable mask : wexpr.       (* the SWAR expression *)

  Definition hexdig (n : N) : N := tbl0 enc_hex n.
  Definition u00 (c : N) : list N := [92; 117; 48; 48; hexdig (N.shiftr c 4); hexdig (N.land c 15)].

  (* what the switch in the slow loop emits for a flagged byte c, if it has a case *)
  Definition escape_of (c : N) : option (list N) :=
    if (c =? 92) || (c =? 34) then Some [92; c]
    else if c =? 10 then Some [92; 110]
    else if c =? 13 then Some [92; 114]
    else if c =? 9 then Some [92; 116]
    else if html && ((c =? 60) || (c =? 62) || (c =? 38)) then Some (u00 c)
    else if (c <? 32) then Some (u00 c)
    else None.

  (* case 0xE2 of appendHTMLString: s[j:] starts with U+2028 or U+2029 (j+2 < len, s[j+1] == 0x80, s[j+2]&^1 == 0xA8) *)
  Definition sep3 (s : list N) : option N :=
    match s with
    | 226 :: 128 :: y :: _ => if N.land y 254 =? 168 then Some y else None
    | _ => None
    end.

  (* the slow loop from position j, as a function of the suffix s[j:];
     fuel = length of the suffix (each step consumes at least one byte) *)
  Fixpoint slow (fuel : nat) (s : list N) : list N :=
    match fuel with
    | O => []
    | S f =>
        match s with
        | [] => []
        | c :: r =>
            if negb (tblb need c) then c :: slow f r
            else match escape_of c with
                 | Some e => e ++ slow f r
                 | None =>
                     if normalize then
                       match decode_rune s with
                       | (RError, _) => [92; 117; 102; 102; 102; 100] ++ slow f r
                       | (RLineSep, _) => [92; 117; 50; 48; 50; 56] ++ slow f (skipn 3 s)
                       | (RParaSep, _) => [92; 117; 50; 48; 50; 57] ++ slow f (skipn 3 s)
                       | (RValid, size) => firstn (N.to_nat size) s ++ slow f (skipn (N.to_nat size) s)
                       end
                     else if html then
                       (* the HTML variant without normalisation: only the two separators have a case *)
                       match sep3 s with
                       | Some y => [92; 117; 50; 48; 50; hexdig (N.land y 15)] ++ slow f (skipn 3 s)
                       | None => c :: slow f r
                       end
                     else c :: slow f r
                 end
        end
    end.

  (* the chunk loop: 8 bytes at a time, little-endian words *)
  Fixpoint chunks (n : nat) (s : list N) : list (list N) :=
    match n with
    | O => []
    | S k => firstn 8 s :: chunks k (skipn 8 s)
    end.

  Fixpoint first_hit (cs : list (list N)) : option N :=
    match cs with
    | [] => None
    | c :: r =>
        let m := N.land (weval mask (to_word c)) msb_const in
        if m =? 0 then first_hit r else Some (tz64 m / 8)
    end.

  Fixpoint tail_hit (i : N) (s : list N) : option N :=
    match s with
    | [] => None
    | c :: r => if tblb need c then Some i else tail_hit (i + 1) r
    end.

  (* append*String: buf is left implicit (the function appends) *)
  Definition append_string (s : list N) : list N :=
    let len := length s in
    match s with
    | [] => [34; 34]
    | _ =>
      if Nat.ltb len 8 then 34 :: slow len s ++ [34]
      else
        let nchunks := Nat.div len 8 in
        match first_hit (chunks nchunks s) with
        | Some j => 34 :: firstn (N.to_nat j) s ++ slow len (skipn (N.to_nat j) s) ++ [34]
        | None =>
            match tail_hit (N.of_nat (nchunks * 8)) (skipn (nchunks * 8) s) with
            | Some j => 34 :: firstn (N.to_nat j) s ++ slow len (skipn (N.to_nat j) s) ++ [34]
            | None => 34 :: s ++ [34]
            end
        end
    end.
End Variant.

Definition append_string_v (html normalize : bool) : list N -> list N :=
  match html, normalize with
  | true, true => append_string enc_needEscapeHTMLNormalizeUTF8 true true swar_appendNormalizedHTMLString
  | true, false => append_string enc_needEscapeHTML true false swar_appendHTMLString
  | false, true => append_string enc_needEscapeNormalizeUTF8 false true swar_appendNormalizedString
  | false, false => append_string enc_needEscape false false swar_appendString
  end.

Definition slow_v (html normalize : bool) (s : list N) : list N :=
  match html, normalize with
  | true, true => slow enc_needEscapeHTMLNormalizeUTF8 true true (length s) s
  | true, false => slow enc_needEscapeHTML true false (length s) s
  | false, true => slow enc_needEscapeNormalizeUTF8 false true (length s) s
  | false, false => slow enc_needEscape false false (length s) s
  end.
