(* The interpreter's frames: the slots a code uses in ctx.Ptrs, the extra slots
   of its end opcode, how many slots the pusher reserves, and where a nested
   recursive call or interface value puts its frame.  The constants are read
   from the source (Gen/Frames.v). *)
From Coq Require Import List Bool Arith.
From GJ Require Import Gen.Frames.
Import ListNotations.

Record fconst := {
  c_rec_end : nat;               (* highest slot of OpRecursiveEnd, relative to the code length *)
  c_cur : nat;                   (* CurLen = code length + c_cur *)
  c_next : nat;                  (* NextLen = code length + c_next *)
  c_rec_iface : option nat;      (* Length of an interface opcode inside a recursive code = code length + this *)
  c_if_end : nat;                (* highest slot of OpInterfaceEnd, relative to the plain end opcode *)
  c_if_total : nat;              (* the interface frame starts Length + this behind *)
  c_if_next : nat                (* and has CodeLength + this slots *)
}.

Definition the_consts : fconst :=
  {| c_rec_end := rec_end_len; c_cur := rec_cur_extra; c_next := rec_next_extra; c_rec_iface := rec_iface_len_extra;
     c_if_end := iface_end_len; c_if_total := vm_iface_total_extra; c_if_next := vm_iface_next_extra |}.

Inductive kind := KTop | KRec | KIface.

(* a frame: where it starts, the TotalLength L of its code, the slot E of the code's plain end opcode (E < L) *)
Record frame := { f_kind : kind; f_base : nat; f_len : nat; f_end : nat }.

(* the highest slot (relative to the base) the frame's code stores to *)
Definition top_slot (c : fconst) (f : frame) : nat :=
  match f_kind f with
  | KTop => f_len f - 1
  | KRec => f_len f + c_rec_end c
  | KIface => Nat.max (f_len f - 1) (f_end f + c_if_end c)
  end.

(* the number of slots reserved for the frame by whoever pushed it *)
Definition alloc (c : fconst) (f : frame) : nat :=
  match f_kind f with
  | KTop => f_len f
  | KRec => f_len f + c_next c
  | KIface => f_len f + c_if_next c
  end.

(* the Length an interface opcode of this frame's code carries *)
Definition iface_length (c : fconst) (f : frame) : nat :=
  match f_kind f with
  | KRec => match c_rec_iface c with Some k => f_len f + k | None => 0 end
  | _ => f_len f
  end.

(* pushing a nested frame from f *)
Definition push_rec (c : fconst) (f : frame) (len' end' : nat) : frame :=
  {| f_kind := KRec; f_base := f_base f + (f_len f + c_cur c); f_len := len'; f_end := end' |}.
Definition push_iface (c : fconst) (f : frame) (len' end' : nat) : frame :=
  {| f_kind := KIface; f_base := f_base f + (iface_length c f + c_if_total c); f_len := len'; f_end := end' |}.

Inductive pushop := PRec (len1 end1 : nat) | PIface (len1 end1 : nat).
Definition do_push (c : fconst) (f : frame) (p : pushop) : frame :=
  match p with PRec l e => push_rec c f l e | PIface l e => push_iface c f l e end.

(* the stack of frames after a sequence of nested pushes from the top-level code *)
Fixpoint stack (c : fconst) (f : frame) (ps : list pushop) : list frame :=
  match ps with
  | [] => [f]
  | p :: r => f :: stack c (do_push c f p) r
  end.

Definition wf_push (p : pushop) : Prop :=
  match p with PRec l e | PIface l e => 0 < l /\ e < l end.
