(* Model of internal/encoder/compact.go and indent.go (Compact, Indent, and the
   validation of MarshalJSON results), on src = data ++ [0] with cursors as
   suffixes.  Reading at the empty suffix is a read past the array: CStuck.
   Fuel exhaustion is CFuel, kept apart from a syntax error. *)
From Coq Require Import NArith ZArith List Bool.
From GJ Require Import Base.Bytes Gen.Tables Model.Int.
Import ListNotations.
Open Scope N_scope.

Inductive cres (A : Type) :=
| COk (x : A)
| CErr
| CFuel
| CStuck.
Arguments COk {A} x. Arguments CErr {A}. Arguments CFuel {A}. Arguments CStuck {A}.

(* skipWhiteSpace: table driven; the sentinel is not white space *)
Fixpoint c_skip_ws (l : list N) : list N :=
  match l with
  | c :: r => if tblb enc_isWhiteSpace c then c_skip_ws r else l
  | [] => []
  end.

(* ---------- validNumber (compact.go), index loops as suffix walks ---------- *)
Definition isdig (c : N) : bool := (48 <=? c) && (c <=? 57).
Fixpoint drop_digits (l : list N) : list N :=
  match l with c :: r => if isdig c then drop_digits r else l | [] => [] end.

Definition valid_number (s : list N) : bool :=
  let s := match s with c :: r => if c =? 45 then r else s | [] => s end in
  match s with
  | [] => false
  | c :: r =>
      let after_int :=
        if c =? 48 then Some r
        else if (49 <=? c) && (c <=? 57) then Some (drop_digits s)
        else None in
      match after_int with
      | None => false
      | Some s1 =>
          let after_frac :=
            match s1 with
            | d :: r1 =>
                if d =? 46 then
                  match r1 with
                  | x :: _ => if isdig x then Some (drop_digits r1) else None
                  | [] => None
                  end
                else Some s1
            | [] => Some s1
            end in
          match after_frac with
          | None => false
          | Some s2 =>
              let after_exp :=
                match s2 with
                | e :: r2 =>
                    if (e =? 101) || (e =? 69) then
                      let r3 := match r2 with sg :: r' => if (sg =? 43) || (sg =? 45) then r' else r2 | [] => r2 end in
                      match r3 with
                      | x :: _ => if isdig x then Some (drop_digits r3) else None
                      | [] => None
                      end
                    else Some s2
                | [] => Some s2
                end in
              match after_exp with
              | Some [] => true
              | _ => false
              end
          end
      end
  end.

(* compactNumber: first char already known to be '-' or a digit *)
Fixpoint span_float (l : list N) : option (list N * list N) :=
  match l with
  | [] => None                                   (* ran past the sentinel *)
  | c :: r => if tblb enc_floatTable c
              then match span_float r with Some (a, b) => Some (c :: a, b) | None => None end
              else Some ([], l)
  end.

Definition c_number (l : list N) : cres (list N * list N) :=
  match l with
  | [] => CStuck
  | c :: r =>
      match span_float r with
      | None => CStuck
      | Some (a, rest) => if valid_number (c :: a) then COk (c :: a, rest) else CErr
      end
  end.

(* compactTrue/False/Null: cursor+k >= len(src) is an error, then bytes.Equal *)
Definition c_literal (word : list N) (l : list N) : cres (list N * list N) :=
  if Nat.leb (length l) (length word - 1) then CErr
  else if list_eqb (firstn (length word) l) word then COk (word, skipn (length word) l)
  else CErr.

(* ---------- compactString ---------- *)
Definition hexd (n : N) : N := tbl0 enc_hex n.
Definition is_hexc_c (c : N) : bool :=
  ((48 <=? c) && (c <=? 57)) || ((97 <=? c) && (c <=? 102)) || ((65 <=? c) && (c <=? 70)).
Definition is_esc_c (e : N) : bool :=
  (e =? 34) || (e =? 92) || (e =? 47) || (e =? 98) || (e =? 102) || (e =? 110) || (e =? 114) || (e =? 116).

(* l = suffix after the opening quote; returns the bytes appended after the
   opening quote (including the closing quote) and the rest *)
Fixpoint c_string_body (escape : bool) (l : list N) : cres (list N * list N) :=
  match l with
  | [] => CStuck
  | c :: r =>
      if escape && tblb enc_isHTMLEscapeChar c then
        (* \u00XX, then the switch finds no case for c *)
        match c_string_body escape r with
        | COk (b, rest) => COk ([92; 117; 48; 48; hexd (N.shiftr c 4); hexd (N.land c 15)] ++ b, rest)
        | e => e
        end
      else if escape && (c =? 226) && Nat.ltb 2 (length l) &&
              (match r with x :: y :: _ => (x =? 128) && ((y =? 168) || (y =? 169)) | _ => false end) then
        match r with
        | _ :: y :: r2 =>
            match c_string_body escape r2 with
            | COk (b, rest) => COk ([92; 117; 50; 48; 50; hexd (N.land y 15)] ++ b, rest)
            | e => e
            end
        | _ => CStuck
        end
      else if c =? 92 then
        match r with
        | [] => CStuck
        | e :: r1 =>
            if is_esc_c e then
              match c_string_body escape r1 with
              | COk (b, rest) => COk (c :: e :: b, rest)
              | x => x
              end
            else if e =? 117 then
              match r1 with
              | h1 :: r2 => if negb (is_hexc_c h1) then CErr else
                match r2 with
                | h2 :: r3 => if negb (is_hexc_c h2) then CErr else
                  match r3 with
                  | h3 :: r4 => if negb (is_hexc_c h3) then CErr else
                    match r4 with
                    | h4 :: r5 => if negb (is_hexc_c h4) then CErr else
                        match c_string_body escape r5 with
                        | COk (b, rest) => COk (c :: e :: h1 :: h2 :: h3 :: h4 :: b, rest)
                        | x => x
                        end
                    | [] => CStuck
                    end
                  | [] => CStuck
                  end
                | [] => CStuck
                end
              | [] => CStuck
              end
            else CErr        (* includes the sentinel: unexpected end *)
        end
      else if c =? 34 then COk ([34], r)
      else if c =? 0 then CErr
      else if c <? 32 then CErr
      else match c_string_body escape r with
           | COk (b, rest) => COk (c :: b, rest)
           | x => x
           end
  end.

(* compactString proper: the first byte must be the quote *)
Definition c_string (escape : bool) (l : list N) : cres (list N * list N) :=
  match l with
  | [] => CStuck
  | c :: r => if c =? 34 then
                match c_string_body escape r with
                | COk (b, rest) => COk (34 :: b, rest)
                | x => x
                end
              else CErr
  end.

(* the `case ' ', '\t', '\n', '\r': cursor++` loop of compactValue / indentValue *)
Fixpoint c_value_ws (l : list N) : list N :=
  match l with
  | c :: r => if is_ws c then c_value_ws r else l
  | [] => []
  end.

(* ---------- values; one model for Compact and Indent ---------- *)
(* mode None = compact; Some (prefix, indent) = indent *)
Definition mode := option (list N * list N).

Fixpoint rep_bytes (n : nat) (s : list N) : list N :=
  match n with O => [] | S k => s ++ rep_bytes k s end.
Definition nl (m : mode) (depth : nat) : list N :=
  match m with
  | None => []
  | Some (prefix, ind) => 10 :: prefix ++ rep_bytes depth ind
  end.
Definition colon (m : mode) : list N := match m with None => [58] | Some _ => [58; 32] end.

Definition c_max_depth : nat := Z.to_nat enc_maxNestingDepth.

(* output is the list of bytes appended to dst *)
Fixpoint c_value (m : mode) (escape : bool) (fuel : nat) (depth : nat) (l : list N) : cres (list N * list N) :=
  match fuel with
  | O => CFuel
  | S f =>
      match c_value_ws l with
      | [] => CStuck
      | c :: r =>
          if c =? 123 then
            (* compactObject / indentObject: the nesting limit comes first *)
            if Nat.ltb c_max_depth (S depth) then CErr else
            match c_skip_ws r with
            | [] => CStuck
            | c1 :: r1 =>
                if c1 =? 125 then COk ([123; 125], r1)
                else match c_members m escape f (S depth) (c1 :: r1) with
                     | COk (b, rest) => COk (123 :: b, rest)
                     | x => x
                     end
            end
          else if c =? 125 then CErr
          else if c =? 91 then
            if Nat.ltb c_max_depth (S depth) then CErr else
            match c_skip_ws r with
            | [] => CStuck
            | c1 :: r1 =>
                if c1 =? 93 then COk ([91; 93], r1)
                else match c_elements m escape f (S depth) (c1 :: r1) with
                     | COk (b, rest) => COk (91 :: b, rest)
                     | x => x
                     end
            end
          else if c =? 93 then CErr
          else if c =? 34 then c_string escape (c :: r)
          else if (c =? 45) || isdig c then c_number (c :: r)
          else if c =? 116 then c_literal [116; 114; 117; 101] (c :: r)
          else if c =? 102 then c_literal [102; 97; 108; 115; 101] (c :: r)
          else if c =? 110 then c_literal [110; 117; 108; 108] (c :: r)
          else CErr
      end
  end
(* the member loop of compactObject: depth is already that of the members *)
with c_members (m : mode) (escape : bool) (fuel : nat) (depth : nat) (l : list N) : cres (list N * list N) :=
  match fuel with
  | O => CFuel
  | S f =>
      match c_string escape (c_skip_ws l) with
      | COk (k, r1) =>
          match c_skip_ws r1 with
          | [] => CStuck
          | c :: r2 =>
              if negb (c =? 58) then CErr
              else match c_value m escape f depth r2 with
                   | COk (v, r3) =>
                       match c_skip_ws r3 with
                       | [] => CStuck
                       | c3 :: r4 =>
                           if c3 =? 125 then COk (nl m depth ++ k ++ colon m ++ v ++ nl m (pred depth) ++ [125], r4)
                           else if c3 =? 44 then
                             match c_members m escape f depth r4 with
                             | COk (b, rest) => COk (nl m depth ++ k ++ colon m ++ v ++ [44] ++ b, rest)
                             | x => x
                             end
                           else CErr
                       end
                   | x => x
                   end
          end
      | x => x
      end
  end
with c_elements (m : mode) (escape : bool) (fuel : nat) (depth : nat) (l : list N) : cres (list N * list N) :=
  match fuel with
  | O => CFuel
  | S f =>
      match c_value m escape f depth l with
      | COk (v, r1) =>
          match c_skip_ws r1 with
          | [] => CStuck
          | c :: r2 =>
              if c =? 93 then COk (nl m depth ++ v ++ nl m (pred depth) ++ [93], r2)
              else if c =? 44 then
                match c_elements m escape f depth r2 with
                | COk (b, rest) => COk (nl m depth ++ v ++ [44] ++ b, rest)
                | x => x
                end
              else CErr
          end
      | x => x
      end
  end.

(* ---------- entry points ---------- *)
Definition top_fuel (data : list N) : nat := 2 * length data + 4.

Definition run_value (m : mode) (escape : bool) (data : list N) : cres (list N) :=
  match data with
  | [] => CErr                               (* len(src) == 0 *)
  | _ =>
      match c_value m escape (top_fuel data) 0 (data ++ [0]) with
      | COk (out, rest) =>
          match validate_end rest with
          | None => CStuck
          | Some true => COk out
          | Some false => CErr
          end
      | CErr => CErr | CFuel => CFuel | CStuck => CStuck
      end
  end.

(* json.Compact(dst, src) with escape=false; the bytes appended to dst, or an
   error with dst untouched (write only after success) *)
Definition compact_run (escape : bool) (data : list N) : cres (list N) := run_value None escape data.

(* trailing white space of the input, kept by Indent *)
Fixpoint trailing_ws_rev (l : list N) : list N :=
  match l with
  | c :: r => if tblb enc_isWhiteSpace c then c :: trailing_ws_rev r else []
  | [] => []
  end.
Definition trailing_ws (data : list N) : list N := rev (trailing_ws_rev (rev data)).

Definition indent_run (prefix ind : list N) (data : list N) : cres (list N) :=
  match run_value (Some (prefix, ind)) false data with
  | COk out => COk (out ++ trailing_ws data)
  | x => x
  end.
