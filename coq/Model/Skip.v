(* Model of the buffer-mode skip functions of internal/decoder/context.go: skipValue, skipObject / skipObjectRest /
   skipMember, skipArray, skipString (what the typed decoders call for members and elements the destination has no
   place for, behind RawMessage and Unmarshaler, and for the part of a document a path does not select).

   Since the repair d699780 they check what they step over: white space, then by the first byte an object (members
   of string key, colon, value, separated by commas), an array, a string (escapes, no raw control bytes), a number
   (the characters of the number class, then the number grammar), or one of the three literals; one more level of
   nesting than the limit is an error.  That is, statement for statement, the walk of Compact (Model/Compact.v,
   c_value in compact mode) without its output -- which is how it is written here, so that the relation between that
   walk and the RFC 8259 parser proved in Proofs/CompactP.v carries over.  Cursors are suffixes of src = data ++ [0];
   reading at the empty suffix is a read past the array (SStuck).  The nesting limits of the two packages are the same
   number (checked in Properties/C05.v). *)
From Coq Require Import NArith ZArith List Bool.
From GJ Require Import Base.Bytes Gen.Tables Model.Int Model.Compact Model.Iface.
Import ListNotations.
Open Scope N_scope.

Inductive sres :=
| SOk (rest : list N)
| SErr
| SFuel
| SStuck.

Definition of_cres {A} (r : cres (A * list N)) : sres :=
  match r with COk (_, rest) => SOk rest | CErr => SErr | CFuel => SFuel | CStuck => SStuck end.

(* skipValue(buf, cursor, depth) *)
Definition sk_value (depth : nat) (l : list N) : sres := of_cres (c_value None false (2 * length l + 2) depth l).

(* an element the destination has no place for, as the array decoder meets it *)
Definition skip_run (data : list N) : sres := sk_value 1 (data ++ [0]).
