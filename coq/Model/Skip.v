(* Model of the buffer-mode skip functions of internal/decoder/context.go:
   skipValue, skipObject, skipArray (what the typed decoders call for members
   and elements the destination has no place for, and behind RawMessage and
   Unmarshaler).  They do not validate: they count brackets and step over
   strings.  Cursors are suffixes of src = data ++ [0]; reading at the empty
   suffix is a read past the array (SStuck).
   The two nested loops of skipObject / skipArray (the switch over the bytes and
   the string loop inside it) are one machine with the state "inside a string"
   and "after a backslash", so that every step consumes one byte. *)
From Coq Require Import NArith ZArith List Bool.
From GJ Require Import Base.Bytes Gen.Tables Model.Int Model.Compact Model.Iface.
Import ListNotations.
Open Scope N_scope.

Inductive sres :=
| SOk (rest : list N)
| SErr
| SStuck.

Definition dmax : Z := dec_maxDecodeNestingDepth.

(* obj = true: skipObject (count is braceCount); obj = false: skipArray (count is bracketCount) *)
Fixpoint sk_scan (obj : bool) (count : nat) (depth : Z) (instr esc : bool) (l : list N) : sres :=
  match l with
  | [] => SStuck
  | c :: r =>
      if instr then
        if esc then (if c =? 0 then SErr else sk_scan obj count depth true false r)
        else if c =? 92 then sk_scan obj count depth true true r
        else if c =? 34 then sk_scan obj count depth false false r
        else if c =? 0 then SErr
        else sk_scan obj count depth true false r
      else if c =? 123 then
        let depth' := (depth + 1)%Z in
        if (dmax <? depth')%Z then SErr else sk_scan obj (if obj then S count else count) depth' false false r
      else if c =? 125 then
        if obj then
          match count with
          | 1%nat => SOk r
          | _ => sk_scan obj (pred count) (depth - 1)%Z false false r
          end
        else sk_scan obj count (depth - 1)%Z false false r
      else if c =? 91 then
        let depth' := (depth + 1)%Z in
        if (dmax <? depth')%Z then SErr else sk_scan obj (if obj then count else S count) depth' false false r
      else if c =? 93 then
        if obj then sk_scan obj count (depth - 1)%Z false false r
        else
          match count with
          | 1%nat => SOk r
          | _ => sk_scan obj (pred count) (depth - 1)%Z false false r
          end
      else if c =? 34 then sk_scan obj count depth true false r
      else if c =? 0 then SErr
      else sk_scan obj count depth false false r
  end.

(* the string loop of skipValue, after the opening quote *)
Fixpoint sk_string (esc : bool) (l : list N) : sres :=
  match l with
  | [] => SStuck
  | c :: r =>
      if esc then (if c =? 0 then SErr else sk_string false r)
      else if c =? 92 then sk_string true r
      else if c =? 34 then SOk r
      else if c =? 0 then SErr
      else sk_string false r
  end.

Definition of_cres (r : cres (list N)) : sres :=
  match r with COk rest => SOk rest | CErr => SErr | _ => SStuck end.

(* skipValue(buf, cursor, depth) *)
Definition sk_value (depth : Z) (l : list N) : sres :=
  match c_value_ws l with
  | [] => SStuck
  | c :: r =>
      if c =? 123 then sk_scan true 1 (depth + 1)%Z false false r
      else if c =? 91 then sk_scan false 1 (depth + 1)%Z false false r
      else if c =? 34 then sk_string false r
      else if (c =? 45) || isdig c then
        match d_span_float r with
        | None => SStuck
        | Some (_, rest) => SOk rest
        end
      else if c =? 116 then of_cres (d_literal [116; 114; 117; 101] (c :: r))
      else if c =? 102 then of_cres (d_literal [102; 97; 108; 115; 101] (c :: r))
      else if c =? 110 then of_cres (d_literal [110; 117; 108; 108] (c :: r))
      else SErr
  end.

(* an element the destination has no place for, as the array decoder meets it: [1, <value>] into [1]int
   accepts iff the value is skipped and only white space and the closing bracket follow *)
Definition skip_run (data : list N) : sres := sk_value 1 (data ++ [0]).
