(* Reading a value tree back from a token sequence: the structural part of a
   decoder (what every destination type's decoder does with brackets, commas,
   keys and colons), independent of how leaves are converted. *)
From Coq Require Import NArith List Bool.
From GJ Require Import Spec.Json Model.Enc.
Import ListNotations.

Fixpoint rd (fuel : nat) (ts : list tok) : option (jv * list tok) :=
  match fuel with
  | O => None
  | S f =>
      match ts with
      | TLBrack :: TRBrack :: r => Some (JArr [], r)
      | TLBrack :: r => match rd_elems f r with Some (l, r') => Some (JArr l, r') | None => None end
      | TLBrace :: TRBrace :: r => Some (JObj [], r)
      | TLBrace :: r => match rd_members f r with Some (l, r') => Some (JObj l, r') | None => None end
      | TStr b :: r => Some (JLeaf (TStr b), r)
      | TNum n :: r => Some (JLeaf (TNum n), r)
      | TTrue :: r => Some (JLeaf TTrue, r)
      | TFalse :: r => Some (JLeaf TFalse, r)
      | TNull :: r => Some (JLeaf TNull, r)
      | _ => None
      end
  end
with rd_elems (fuel : nat) (ts : list tok) : option (list jv * list tok) :=
  match fuel with
  | O => None
  | S f =>
      match rd f ts with
      | Some (x, TRBrack :: r) => Some ([x], r)
      | Some (x, TComma :: r) => match rd_elems f r with Some (l, r') => Some (x :: l, r') | None => None end
      | _ => None
      end
  end
with rd_members (fuel : nat) (ts : list tok) : option (list (list N * bool * jv) * list tok) :=
  match fuel with
  | O => None
  | S f =>
      match ts with
      | TStr k :: TColon :: r =>
          match rd f r with
          | Some (x, TRBrace :: r') => Some ([(k, false, x)], r')
          | Some (x, TComma :: r') => match rd_members f r' with Some (l, r'') => Some ((k, false, x) :: l, r'') | None => None end
          | _ => None
          end
      | _ => None
      end
  end.

Definition read_tree (ts : list tok) : option jv :=
  match rd (S (length ts)) ts with Some (v, []) => Some v | _ => None end.
