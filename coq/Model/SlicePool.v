(* The slice decoder's pooled working array (internal/decoder/slice.go: newSlice,
   the element loop of Decode / DecodeStream, releaseSlice).

   Every slice decoder owns a sync.Pool of working arrays.  A call takes one
   (whatever an earlier call, successful or failed, left in it), copies the
   elements the destination already has into it, decodes element idx into slot
   idx -- after clearing the slot when it lies beyond the destination's
   elements -- grows the array by doubling, and at the closing bracket copies
   the first n slots to the destination and puts the array back.

   The array is a function from slot index to content plus a capacity; what
   the pool hands out is arbitrary.  The element decoder is a parameter: it
   sees the JSON element and the slot's content and returns the new content
   (null leaves a scalar as it is, an object fills only the members it names)
   or fails.  Whether the slot is cleared first is read from the source by the
   translator (Gen/SliceShape.v). *)
From Coq Require Import List Arith Bool Lia.
Import ListNotations.

Section SlicePool.
  Variables (A E : Type) (zero : A) (decE : E -> A -> option A).

  Record arr := { contents : nat -> A; capacity : nat }.

  (* newSlice: the pooled array, or a new one when the destination's capacity is larger, with the
     destination's elements copied over the first slots *)
  Definition take (pool : arr) (dst : list A) (dcap : nat) : arr :=
    match dst with
    | [] => pool
    | _ =>
        let base := if capacity pool <? dcap then {| contents := fun _ => zero; capacity := dcap |} else pool in
        {| contents := fun j => if j <? length dst then nth j dst zero else contents base j;
           capacity := capacity base |}
    end.

  Definition grow (s : arr) (idx : nat) : arr :=
    if capacity s <=? idx
    then {| contents := fun j => if j <? idx then contents s j else zero; capacity := 2 * capacity s |}
    else s.

  Definition put (s : arr) (idx : nat) (a : A) : arr :=
    {| contents := fun j => if j =? idx then a else contents s j; capacity := capacity s |}.

  (* the element loop; clears = the slot beyond the destination's elements is cleared before the element decoder runs *)
  Fixpoint loop (clears : nat -> bool) (srcLen : nat) (s : arr) (idx : nat) (es : list E) : option arr :=
    match es with
    | [] => Some s
    | e :: r =>
        let s := grow s idx in
        let slot := if (srcLen <=? idx) && clears idx then zero else contents s idx in
        match decE e slot with
        | None => None
        | Some a => loop clears srcLen (put s idx a) (S idx) r
        end
    end.

  (* a non-empty JSON array decoded into dst (capacity dcap) with the pool holding `pool`:
     the destination's new elements, and the array that goes back to the pool *)
  Definition decode (clears : nat -> bool) (pool : arr) (dst : list A) (dcap : nat) (es : list E) : option (list A * arr) :=
    match loop clears (length dst) (take pool dst dcap) 0 es with
    | Some s => Some (map (contents s) (seq 0 (length es)), s)
    | None => None
    end.

  (* what the caller is entitled to: element i is decoded into the destination's own element i, or into a zero value *)
  Fixpoint spec (dst : list A) (es : list E) : option (list A) :=
    match es with
    | [] => Some []
    | e :: r =>
        match decE e (hd zero dst) with
        | None => None
        | Some a => match spec (tl dst) r with Some l => Some (a :: l) | None => None end
        end
    end.
End SlicePool.

(* ---- the instance the harness runs: elements are integers or null; null leaves the slot as it is ---- *)
Definition int_or_null := option nat.
Definition dec_int (e : int_or_null) (slot : nat) : option nat :=
  match e with Some n => Some n | None => Some slot end.

(* a sequence of calls through one decoder, every destination fresh (empty, capacity 0); the working array of one
   call is what the next call finds in the pool.  A document is its elements and how it ends: with the closing
   bracket (the call succeeds), or with a wrong character / the end of input after the last element listed (the
   call fails and puts the array back as it is). *)
Fixpoint calls (clears : nat -> bool) (pool : arr nat) (docs : list (list int_or_null * bool)) : list (option (list nat)) :=
  match docs with
  | [] => []
  | ([], _) :: r => Some [] :: calls clears pool r
  | (d, closed) :: r =>
      match decode nat int_or_null 0 dec_int clears pool [] 0 d with
      | Some (out, pool') => (if closed then Some out else None) :: calls clears pool' r
      | None => None :: calls clears {| contents := fun _ => 0; capacity := 2 |} r
      end
  end.
