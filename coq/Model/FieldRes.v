(* Which field of a struct a JSON name selects when structs are embedded in
   structs (internal/decoder/compile.go: compileStruct, filterDuplicatedFields,
   filterFieldSets; internal/encoder/compiler.go: structCode, collectFieldMap,
   getDuplicatedFieldMap, filteredDuplicatedFields).

   A struct is a list of fields: a plain field under its JSON name (tagged or
   not), an ignored field (unexported, or tagged "-"), or an embedded struct
   (by value or by pointer, without a tag).  Every plain field of the struct
   and of the structs embedded in it, at any depth, is a candidate, with the
   depth of embedding at which it sits and the path of field indices that
   leads to it.  For a name: the candidates of that name at the smallest depth
   are looked at; a single one is selected; of several, the single tagged one;
   otherwise none (and nothing deeper either).

   `hier_*` is what the code did before the repair: every embedded struct
   settled its own names first and handed only the survivors up. *)
From Coq Require Import NArith List Bool Arith.
From GJ Require Import Base.Bytes.
Import ListNotations.
Local Open Scope nat_scope.

Inductive fld :=
| FPlain (name : list N) (tagged : bool)
| FIgnored
| FEmbed (fs : list fld).

Record cand := { c_name : list N; c_depth : nat; c_tagged : bool; c_path : list nat }.

Fixpoint cands_of (f : fld) (depth : nat) (path : list nat) : list cand :=
  match f with
  | FPlain n t => [{| c_name := n; c_depth := depth; c_tagged := t; c_path := path |}]
  | FIgnored => []
  | FEmbed fs =>
      (fix go (fs : list fld) (i : nat) : list cand :=
         match fs with
         | [] => []
         | f :: r => cands_of f (S depth) (path ++ [i]) ++ go r (S i)
         end) fs 0
  end.
(* the candidates of a struct type: its own fields sit at depth 1 *)
Definition cands (fs : list fld) : list cand := cands_of (FEmbed fs) 0 [].

Definition named (n : list N) (cs : list cand) : list cand := filter (fun c => list_eqb (c_name c) n) cs.
Definition min_depth (cs : list cand) (d0 : nat) : nat := fold_left Nat.min (map c_depth cs) d0.
Definition at_depth (d : nat) (cs : list cand) : list cand := filter (fun c => c_depth c =? d) cs.

(* filterDuplicatedFields + filterFieldSets / getDuplicatedFieldMap + isTaggedKeyOnly *)
Definition resolve (cs : list cand) (n : list N) : option cand :=
  match named n cs with
  | [] => None
  | (c0 :: _) as m =>
      match at_depth (min_depth m (c_depth c0)) m with
      | [c] => Some c
      | sh => match filter c_tagged sh with [c] => Some c | _ => None end
      end
  end.

Definition path_eqb (a b : list nat) : bool := if list_eq_dec Nat.eq_dec a b then true else false.
(* the fields that are visible (what Marshal writes, in this order) *)
Definition visible (cs : list cand) : list cand :=
  filter (fun c => match resolve cs (c_name c) with Some w => path_eqb (c_path w) (c_path c) | None => false end) cs.

Definition select (fs : list fld) (n : list N) : option (list nat) := option_map c_path (resolve (cands fs) n).
Definition members (fs : list fld) : list (list N * list nat) := map (fun c => (c_name c, c_path c)) (visible (cands fs)).

(* ---- before the repair: settled level by level ---- *)
Fixpoint hier_of (f : fld) (path : list nat) : list cand :=
  match f with
  | FPlain n t => [{| c_name := n; c_depth := 0; c_tagged := t; c_path := path |}]
  | FIgnored => []
  | FEmbed fs =>
      let all := (fix go (fs : list fld) (i : nat) : list cand :=
                    match fs with
                    | [] => []
                    | f :: r => map (fun c => {| c_name := c_name c; c_depth := S (c_depth c); c_tagged := c_tagged c; c_path := c_path c |})
                                    (hier_of f (path ++ [i])) ++ go r (S i)
                    end) fs 0 in
      visible all
  end.
Definition hier_select (fs : list fld) (n : list N) : option (list nat) :=
  option_map c_path (resolve (hier_of (FEmbed fs) []) n).

(* ---- wire format: ( field* )  with field = P<0|1><name>;  |  I;  |  E( ... ) ---- *)
Fixpoint take_name (l acc : list N) : list N * list N :=
  match l with
  | [] => (rev acc, [])
  | c :: r => if N.eqb c 59%N then (rev acc, r) else take_name r (c :: acc)
  end.
Fixpoint parse_fields (fuel : nat) (l : list N) (acc : list fld) : option (list fld * list N) :=
  match fuel with
  | O => None
  | S f =>
      match l with
      | 41%N :: r => Some (rev acc, r)                                        (* ) *)
      | 73%N :: 59%N :: r => parse_fields f r (FIgnored :: acc)               (* I; *)
      | 80%N :: t :: r => let '(n, r') := take_name r [] in parse_fields f r' (FPlain n (N.eqb t 49%N) :: acc)
      | 69%N :: 40%N :: r =>                                                  (* E( *)
          match parse_fields f r [] with
          | Some (fs, r') => parse_fields f r' (FEmbed fs :: acc)
          | None => None
          end
      | _ => None
      end
  end.
Definition parse_struct (l : list N) : option (list fld) :=
  match l with
  | 40%N :: r => match parse_fields (S (length l)) r [] with Some (fs, []) => Some fs | _ => None end
  | _ => None
  end.
