(* Model of Unmarshal(data, &v) for v interface{} in buffer mode:
   interfaceDecoder.decodeEmptyInterface, mapDecoder.Decode, sliceDecoder.Decode,
   floatDecoder.Decode, stringDecoder.decodeByte, validateTrue/False/Null and
   validateEndBuf, as an acceptor (the decoded value is not modelled here).
   Cursors are suffixes of src = data ++ [0]. *)
From Coq Require Import NArith ZArith List Bool.
From GJ Require Import Base.Bytes Gen.Tables Model.Int Model.StrDec Model.Compact.
Import ListNotations.
Open Scope N_scope.

(* float_in_range: strconv.ParseFloat(s, 64) succeeds on a grammatical number
   (range check) - an oracle parameter of every function below *)

  Definition max_depth : nat := Z.to_nat dec_maxDecodeNestingDepth.

  (* skipWhiteSpace of the decoder package: table filled in init() *)
  Fixpoint d_skip_ws (l : list N) : list N :=
    match l with
    | c :: r => if tblb dec_isWhiteSpace c then d_skip_ws r else l
    | [] => []
    end.

  (* validNumber of internal/decoder/number.go is the same text as the
     encoder's; both are modelled by valid_number *)

  (* floatDecoder.decodeByte + Decode: span, end-character check, grammar, range *)
  Fixpoint d_span_float (l : list N) : option (list N * list N) :=
    match l with
    | [] => None
    | c :: r => if tblb dec_floatTable c
                then match d_span_float r with Some (a, b) => Some (c :: a, b) | None => None end
                else Some ([], l)
    end.

  Definition d_number (float_in_range : list N -> bool) (l : list N) : cres (list N) :=
    match l with
    | [] => CStuck
    | c :: r =>
        match d_span_float r with
        | None => CStuck
        | Some (a, rest) =>
            match rest with
            | [] => CStuck
            | e :: _ =>
                if negb (tblb dec_validEndNumberChar e) then CErr
                else if negb (valid_number (c :: a)) then CErr
                else if negb (float_in_range (c :: a)) then CErr
                else COk rest
            end
        end
    end.

  (* validateTrue/False/Null: length check, then byte comparisons *)
  Definition d_literal (word : list N) (l : list N) : cres (list N) :=
    if Nat.leb (length l) (length word - 1) then CErr
    else if list_eqb (firstn (length word) l) word then COk (skipn (length word) l)
    else CErr.

  (* stringDecoder.decodeByte at the opening quote: scan, then unescape when escaped *)
  Definition d_string (l : list N) : cres (list N) :=
    match l with
    | [] => CStuck
    | _ :: r =>
        match scan_string (S (length r)) r [] false with
        | SSStuck => CStuck
        | SSErr => CErr
        | SSOk content escaped rest =>
            match unquote content escaped with
            | Some _ => COk rest
            | None => CStuck
            end
        end
    end.

  Fixpoint d_value (float_in_range : list N -> bool) (fuel : nat) (depth : nat) (l : list N) : cres (list N) :=
    match fuel with
    | O => CFuel
    | S f =>
        match d_skip_ws l with
        | [] => CStuck
        | c :: r =>
            if c =? 123 then
              (* mapDecoder.Decode: depth++, limit, '{', members *)
              if Nat.ltb max_depth (S depth) then CErr
              else match d_skip_ws r with
                   | [] => CStuck
                   | c1 :: r1 => if c1 =? 125 then COk r1 else d_members float_in_range f (S depth) (c1 :: r1)
                   end
            else if c =? 91 then
              if Nat.ltb max_depth (S depth) then CErr
              else match d_skip_ws r with
                   | [] => CStuck
                   | c1 :: r1 => if c1 =? 93 then COk r1 else d_elements float_in_range f (S depth) (c1 :: r1)
                   end
            else if (c =? 45) || isdig c then d_number float_in_range (c :: r)
            else if c =? 34 then d_string (c :: r)
            else if c =? 116 then d_literal [116; 114; 117; 101] (c :: r)
            else if c =? 102 then d_literal [102; 97; 108; 115; 101] (c :: r)
            else if c =? 110 then d_literal [110; 117; 108; 108] (c :: r)
            else CErr
        end
    end
  with d_members (float_in_range : list N -> bool) (fuel : nat) (depth : nat) (l : list N) : cres (list N) :=
    match fuel with
    | O => CFuel
    | S f =>
        match d_skip_ws l with
        | [] => CStuck
        | q :: r =>
            if negb (q =? 34) then CErr      (* an object key is a string *)
            else match d_string (q :: r) with
                 | COk r1 =>
                     match d_skip_ws r1 with
                     | [] => CStuck
                     | c :: r2 =>
                         if negb (c =? 58) then CErr
                         else match d_value float_in_range f depth r2 with
                              | COk r3 =>
                                  match d_skip_ws r3 with
                                  | [] => CStuck
                                  | c3 :: r4 =>
                                      if c3 =? 125 then COk r4
                                      else if c3 =? 44 then d_members float_in_range f depth r4
                                      else CErr
                                  end
                              | x => x
                              end
                     end
                 | x => x
                 end
        end
    end
  with d_elements (float_in_range : list N -> bool) (fuel : nat) (depth : nat) (l : list N) : cres (list N) :=
    match fuel with
    | O => CFuel
    | S f =>
        match d_value float_in_range f depth l with
        | COk r1 =>
            match d_skip_ws r1 with
            | [] => CStuck
            | c :: r2 =>
                if c =? 93 then COk r2
                else if c =? 44 then d_elements float_in_range f depth r2
                else CErr
            end
        | x => x
        end
    end.

  (* Unmarshal(data, &v): decode, then validateEndBuf *)
  Definition iface_unmarshal (float_in_range : list N -> bool) (data : list N) : cres unit :=
    match d_value float_in_range (top_fuel data) 0 (data ++ [0]) with
    | COk rest =>
        match validate_end rest with
        | None => CStuck
        | Some true => COk tt
        | Some false => CErr
        end
    | CErr => CErr | CFuel => CFuel | CStuck => CStuck
    end.
