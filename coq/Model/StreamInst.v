(* An instance of the lifted scanner: what Decoder.Decode does for a *bool
   destination (white space, then true / false / null), used to run the stream
   model against the implementation on the same chunkings. *)
From Coq Require Import NArith List Bool Arith.
From GJ Require Import Model.Stream.
Import ListNotations.
Open Scope N_scope.

Inductive bres := BAccept (v : option bool) | BReject.   (* null leaves the destination alone: None *)
Inductive bst := BSkip (sep_allowed : bool) | BLit (rest : list N) (v : option bool) | BDone (v : option bool).

Definition is_ws (c : N) : bool := (c =? 32) || (c =? 10) || (c =? 9) || (c =? 13).

Definition bstep (st : bst) (c : N) : bst + bres :=
  match st with
  | BSkip sep =>
      if is_ws c then inl (BSkip sep)
      (* Stream.PrepareForDecode steps over one ',' or ':' before a value (recorded finding StreamLeadingSeparator) *)
      else if sep && ((c =? 44) || (c =? 58)) then inl (BSkip false)
      else if c =? 116 then inl (BLit [114; 117; 101] (Some true))           (* t rue *)
      else if c =? 102 then inl (BLit [97; 108; 115; 101] (Some false))       (* f alse *)
      else if c =? 110 then inl (BLit [117; 108; 108] None)                   (* n ull *)
      else inr BReject
  | BLit [] v => inr (BAccept v)
  | BLit (x :: r) v => if c =? x then inl (match r with [] => BDone v | _ => BLit r v end) else inr BReject
  | BDone v => inr (BAccept v)
  end.

Definition batend (st : bst) : bres :=
  match st with BDone v => BAccept v | BLit [] v => BAccept v | _ => BReject end.

(* cut positions -> pieces *)
Fixpoint cut_at (l : list N) (cuts : list nat) (pos : nat) : list (list N) :=
  match cuts with
  | [] => [l]
  | c :: r => let k := (c - pos)%nat in firstn k l :: cut_at (skipn k l) r c
  end.

Definition bool_decode (doc : list N) (cuts : list nat) : outcome bres :=
  let chunks := cut_at doc cuts 0 in
  decode bst bres bstep batend (S (length doc + length chunks + 1)) (map (Piece) chunks) (BSkip true).
