(* Write sets of the decoders that store through unsafe.Pointer arithmetic.
   Offsets are byte offsets inside the destination object. *)
From Coq Require Import NArith List Bool.
From GJ Require Import Base.Bytes Gen.Resets.
Import ListNotations.
Open Scope N_scope.

(* the store that clears an element a short JSON array does not supply:
   typedmemmove of the element type writes sz bytes; a raw pointer store
   writes one machine word (8 bytes) whatever the element is.  Which of the
   two the source contains is read by the translator. *)
Definition fill_width (typed : bool) (sz : N) : N := if typed then sz else 8.

Fixpoint seqN (start : N) (len : nat) : list N :=
  match len with O => [] | S k => start :: seqN (start + 1) k end.

(* arrayDecoder.Decode on an array of n elements of size sz at offset base,
   when the JSON array supplies m elements: (offset, width) of every store.
   Elements 0..min(m,n)-1 are written by the element decoder (inside their own
   sz bytes), the rest by the fill loop; surplus JSON elements are skipped. *)
Definition array_writes (typed : bool) (base sz : N) (n m : nat) : list (N * N) :=
  let k := Nat.min m n in
  map (fun i => (base + i * sz, sz)) (seqN 0 k) ++
  map (fun i => (base + i * sz, fill_width typed sz)) (seqN (N.of_nat k) (n - k)).

Definition inside (base len : N) (w : N * N) : Prop :=
  base <= fst w /\ fst w + snd w <= base + len.
