(* Model of internal/decoder/path.go: PathBuilder (the JSON Path parser) with
   its offset arithmetic as written, every buf[k] as a checked read (PStuck =
   index out of range = a Go panic), and Path.String(). *)
From Coq Require Import NArith ZArith List Bool.
From GJ Require Import Base.Bytes Base.Show.
Import ListNotations.
Open Scope N_scope.

Inductive pnode :=
| NSel (name : list N)
| NIdx (i : Z)
| NAll
| NRec (name : list N).

Inductive pres :=
| PStuck
| PFuel
| PErr
| POk (off : nat) (nodes : list pnode) (sq dq : bool).

Definition is_in (c : N) (l : list N) : bool := existsb (N.eqb c) l.

(* offset + k, nodes prepended *)
Definition shift (k : nat) (pre : list pnode) (sq0 dq0 : bool) (r : pres) : pres :=
  match r with
  | POk off nodes sq dq => POk (k + off) (pre ++ nodes) (sq0 || sq) (dq0 || dq)
  | x => x
  end.

(* strconv.ParseInt(s, 10, 64): optional sign, one or more digits, int64 range *)
Definition parse_int64 (s : list N) : option Z :=
  let '(neg, d) := match s with
                   | c :: r => if c =? 45 then (true, r) else if c =? 43 then (false, r) else (false, s)
                   | [] => (false, s)
                   end in
  match d with
  | [] => None
  | _ =>
      if forallb (fun c => (48 <=? c) && (c <=? 57)) d then
        let v := Z.of_N (dec_N d) in
        let z := if neg then (- v)%Z else v in
        if ((- 9223372036854775808 <=? z) && (z <=? 9223372036854775807))%Z then Some z else None
      else None
  end.

Inductive qsel := QSingle | QDouble.

(* the `for cursor := 0; cursor < len(buf); cursor++` loops, with the recursive
   calls of the builder passed in (k... are the builder functions at the
   remaining fuel); pre = buf[:cursor], rest = buf[cursor:] *)
Fixpoint sel_loop (ksel kidx kquote : list N -> pres) (whole pre rest : list N) : pres :=
  match rest with
  | [] => POk (length whole) [NSel whole] false false
  | x :: t =>
      if is_in x [36; 42; 93] then PErr
      else if x =? 46 then
        (match t with [] => PErr | _ => shift (length pre + 1) [NSel pre] false false (ksel t) end)
      else if x =? 91 then
        (match t with [] => PErr | _ => shift (length pre + 1) [NSel pre] false false (kidx t) end)
      else if x =? 34 then
        (match t with [] => PErr | _ => shift (length pre + 1) [] false false (kquote t) end)
      else sel_loop ksel kidx kquote whole (pre ++ [x]) t
  end.

Fixpoint quote_loop (knext : list N -> pres) (sel : qsel) (pre rest : list N) : pres :=
  match rest with
  | [] => PErr
  | x :: t =>
      if x =? 39 then
        match sel with
        | QDouble => PErr
        | QSingle =>
            match t with
            | [] => PErr                          (* len(buf) <= cursor+1 *)
            | y :: t2 =>
                if negb (y =? 93) then PErr
                else
                  (* buildNextCharIfExists(buf, cursor+2) *)
                  match t2 with
                  | [] => POk (length pre + 2) [NSel pre] true false
                  | _ => shift (length pre + 2 + 1) [NSel pre] true false (knext t2)
                  end
            end
        end
      else if x =? 34 then
        match sel with
        | QSingle => PErr
        | QDouble =>
            match t with
            | [] => POk (length pre + 1) [NSel pre] false true
            | _ => shift (length pre + 1 + 1) [NSel pre] false true (knext t)
            end
        end
      else quote_loop knext sel (pre ++ [x]) t
  end.

Fixpoint rec_loop (ksel kidx : list N -> pres) (whole pre rest : list N) : pres :=
  match rest with
  | [] => POk (length whole) [NRec whole] false false
  | x :: t =>
      if is_in x [36; 42; 93] then PErr
      else if x =? 46 then
        (match t with [] => PErr | _ => shift (length pre + 1) [NRec pre] false false (ksel t) end)
      else if x =? 91 then
        (match t with [] => PErr | _ => shift (length pre + 1) [NRec pre] false false (kidx t) end)
      else rec_loop ksel kidx whole (pre ++ [x]) t
  end.

Fixpoint idx_loop (knext : list N -> pres) (pre rest : list N) : pres :=
  match rest with
  | [] => PErr
  | x :: t =>
      if x =? 93 then
        match parse_int64 pre with
        | None => PErr
        | Some i =>
            match t with
            | [] => POk (length pre + 1) [NIdx i] false false
            | _ => shift (length pre + 1 + 1) [NIdx i] false false (knext t)
            end
        end
      else idx_loop knext (pre ++ [x]) t
  end.

Fixpoint build_next (fuel : nat) (buf : list N) : pres :=
  match fuel with
  | O => PFuel
  | S f =>
      match buf with
      | [] => PStuck
      | c :: r =>
          if c =? 46 then (match r with [] => PErr | _ => shift 1 [] false false (build_selector f r) end)
          else if c =? 91 then (match r with [] => PErr | _ => shift 1 [] false false (build_index f r) end)
          else PErr
      end
  end
with build_selector (fuel : nat) (buf : list N) : pres :=
  match fuel with
  | O => PFuel
  | S f =>
      match buf with
      | [] => PStuck
      | c :: r =>
          if c =? 46 then (match r with [] => PErr | _ => shift 1 [] false false (build_rec f r) end)
          else if is_in c [91; 93; 36; 42] then PErr
          else sel_loop (build_selector f) (build_index f) (fun t => build_quote f t QDouble) buf [] buf
      end
  end
with build_quote (fuel : nat) (buf : list N) (sel : qsel) : pres :=
  match fuel with
  | O => PFuel
  | S f =>
      match buf with
      | [] => PStuck
      | c :: _ =>
          if is_in c [91; 93; 36; 46; 42; 39; 34] then PErr
          else quote_loop (build_next f) sel [] buf
      end
  end
with build_rec (fuel : nat) (buf : list N) : pres :=
  match fuel with
  | O => PFuel
  | S f =>
      match buf with
      | [] => PStuck
      | c :: _ =>
          if is_in c [46; 91; 93; 36; 42] then PErr
          else rec_loop (build_selector f) (build_index f) buf [] buf
      end
  end
with build_index (fuel : nat) (buf : list N) : pres :=
  match fuel with
  | O => PFuel
  | S f =>
      match buf with
      | [] => PStuck
      | c :: r =>
          if is_in c [46; 91; 93; 36] then PErr
          else if c =? 39 then
            (match r with [] => PErr | _ => shift 1 [] false false (build_quote f r QSingle) end)
          else if c =? 42 then
            match r with
            | [] => PErr
            | y :: t =>
                if negb (y =? 93) then PErr
                else match t with
                     | [] => POk 2 [NAll] false false
                     | _ => shift 2 [NAll] false false (build_next f t)
                     end
            end
          else idx_loop (build_next f) [] buf
      end
  end.

Inductive bres :=
| BStuck | BFuel | BErr
| BOk (nodes : list pnode) (sq dq : bool).

(* PathBuilder.build + Build: "$" alone is the root selector *)
Definition build (buf : list N) : bres :=
  match buf with
  | [] => BErr
  | c :: r =>
      if negb (c =? 36) then BErr
      else match r with
           | [] => BOk [] false false
           | _ =>
               match build_next (S (length r)) r with
               | PStuck => BStuck
               | PFuel => BFuel
               | PErr => BErr
               | POk off nodes sq dq =>
                   if Nat.ltb off (length r) then BErr else BOk nodes sq dq
               end
           end
  end.

(* Path.String() *)
Fixpoint print_nodes (ns : list pnode) : list N :=
  match ns with
  | [] => []
  | NSel n :: r => 46 :: n ++ print_nodes r
  | NIdx i :: r => 91 :: show_Z i ++ 93 :: print_nodes r
  | NAll :: r => [91; 42; 93] ++ print_nodes r
  | NRec n :: r => 46 :: 46 :: n ++ print_nodes r
  end.
Definition print_path (ns : list pnode) : list N :=
  match ns with [] => [36] | _ => print_nodes ns end.
