(* Field queries (query.go, internal/encoder/query.go, the Filter methods of
   internal/encoder/code.go, getFilteredCodeSet in compiler.go).

   A query is a tree of names.  The stored Code tree of a type is filtered by a
   query before it is turned into a program: scalars are untouched; pointers,
   slices, arrays and maps are looked through; a struct keeps the fields named
   by the query, each filtered by its own sub query when that has fields;
   interfaces and context-aware marshalers keep the query for run time and
   apply it to the program of the dynamic value.  Filtered programs are cached
   under the query's JSON text. *)
From Coq Require Import NArith List Bool.
From GJ Require Import Base.Bytes Spec.Json Model.Enc.
Import ListNotations.
Open Scope N_scope.

Inductive fq := FQ (name : list N) (subs : list fq).
Definition fq_name (q : fq) := match q with FQ n _ => n end.
Definition fq_subs (q : fq) := match q with FQ _ s => s end.

Inductive code :=
| CScalar
| CPtr (e : code)
| CList (e : code)                      (* slice / array *)
| CMapOf (e : code)
| CStruct (fs : list (list N * code))   (* key, code of the field *)
| CIface (q : option fq).               (* interface, context-aware marshaler: the query it was reached with *)

Inductive val :=
| VLeaf (raw : list N)                  (* a scalar, or a value that writes itself: its text *)
| VNull
| VPtr (v : val)
| VList (l : list val)
| VMap (l : list (list N * val))        (* in emission order *)
| VRec (l : list (list N * bool * val)) (* struct: key, omitted at run time (omitempty), value; in field order *)
| VDyn (c : code) (v : val).            (* inside an interface: the code of the dynamic type and the value *)

(* StructCode.Filter: fieldMap[field.Name] = field -- the last query of a name wins *)
Fixpoint lookup_q (k : list N) (qs : list fq) : option fq :=
  match qs with
  | [] => None
  | q :: r => match lookup_q k r with
              | Some x => Some x
              | None => if list_eqb k (fq_name q) then Some q else None
              end
  end.

Definition has_subs (q : fq) : bool := match fq_subs q with [] => false | _ => true end.

Fixpoint assoc {A} (k : list N) (l : list (list N * A)) : option A :=
  match l with
  | [] => None
  | (k', a) :: r => if list_eqb k k' then Some a else assoc k r
  end.

Fixpoint filt (c : code) (q : fq) : code :=
  match c with
  | CScalar => CScalar
  | CPtr e => CPtr (filt e q)
  | CList e => CList (filt e q)
  | CMapOf e => CMapOf (filt e q)
  | CStruct fs =>
      CStruct (flat_map (fun kc => match kc with
                                   | (k, c') => match lookup_q k (fq_subs q) with
                                                | None => []
                                                | Some s => [(k, if has_subs s then filt c' s else c')]
                                                end
                                   end) fs)
  | CIface _ => CIface (Some q)
  end.

Definition BAD : jv := JLeaf (TNum [63]).  (* value and code do not fit: never produced by the harness *)

(* running the program of a code on a value *)
Fixpoint encode (c : code) (v : val) : jv :=
  match v with
  | VLeaf raw => JLeaf (TNum raw)
  | VNull => JLeaf TNull
  | VPtr x => match c with CPtr e => encode e x | _ => BAD end
  | VList l => match c with CList e => JArr (map (encode e) l) | _ => BAD end
  | VMap l => match c with
              | CMapOf e => JObj (map (fun kv => match kv with (k, x) => (k, false, encode e x) end) l)
              | _ => BAD end
  | VRec l => match c with
              | CStruct fs =>
                  JObj (flat_map (fun m => match m with
                                           | (k, om, x) => match assoc k fs with
                                                           | Some c' => [(k, om, encode c' x)]
                                                           | None => []
                                                           end
                                           end) l)
              | _ => BAD end
  | VDyn c' x => match c with
                 | CIface None => encode c' x
                 | CIface (Some q) => encode (filt c' q) x
                 | _ => BAD end
  end.

(* the reference: the document of the value restricted to the selected fields.  None selects everything. *)
Definition narrow (s : fq) : option fq := if has_subs s then Some s else None.

Fixpoint sel (oq : option fq) (c : code) (v : val) : jv :=
  match v with
  | VLeaf raw => JLeaf (TNum raw)
  | VNull => JLeaf TNull
  | VPtr x => match c with CPtr e => sel oq e x | _ => BAD end
  | VList l => match c with CList e => JArr (map (sel oq e) l) | _ => BAD end
  | VMap l => match c with
              | CMapOf e => JObj (map (fun kv => match kv with (k, x) => (k, false, sel oq e x) end) l)
              | _ => BAD end
  | VRec l => match c with
              | CStruct fs =>
                  JObj (flat_map (fun m => match m with
                                           | (k, om, x) =>
                                               match assoc k fs with
                                               | None => []
                                               | Some c' =>
                                                   match oq with
                                                   | None => [(k, om, sel None c' x)]
                                                   | Some q => match lookup_q k (fq_subs q) with
                                                               | None => []
                                                               | Some s => [(k, om, sel (narrow s) c' x)]
                                                               end
                                                   end
                                               end
                                           end) l)
              | _ => BAD end
  | VDyn c' x => match c with CIface _ => sel oq c' x | _ => BAD end
  end.

(* code as the compiler stores it: no query inside *)
Fixpoint fresh (c : code) : bool :=
  match c with
  | CScalar => true
  | CPtr e | CList e | CMapOf e => fresh e
  | CStruct fs => forallb (fun kc => fresh (snd kc)) fs
  | CIface None => true
  | CIface (Some _) => false
  end.

Fixpoint vfresh (v : val) : bool :=
  match v with
  | VLeaf _ | VNull => true
  | VPtr x => vfresh x
  | VList l => forallb vfresh l
  | VMap l => forallb (fun kv => vfresh (snd kv)) l
  | VRec l => forallb (fun m => vfresh (snd m)) l
  | VDyn c x => fresh c && vfresh x
  end.

Fixpoint vsize (v : val) : nat :=
  match v with
  | VLeaf _ | VNull => 1
  | VPtr x => S (vsize x)
  | VList l => S (fold_right (fun x a => (vsize x + a)%nat) O l)
  | VMap l => S (fold_right (fun kv a => (vsize (snd kv) + a)%nat) O l)
  | VRec l => S (fold_right (fun m a => (vsize (snd m) + a)%nat) O l)
  | VDyn _ x => S (vsize x)
  end.

(* ---- the query's JSON text (FieldQuery.MarshalJSON) and FieldQueryString.Build, as trees ---- *)
Inductive qj := QStr (s : list N) | QArr (l : list qj) | QObj1 (k : list N) (v : qj) | QNull.

Definition is_nil {A} (l : list A) : bool := match l with [] => true | _ => false end.

(* thr: a named query with more than thr sub fields is written as an object (translated from the source) *)
Fixpoint qjson (thr : nat) (q : fq) : qj :=
  match q with
  | FQ n s =>
      if is_nil n then QArr (map (qjson thr) s)
      else if Nat.ltb thr (length s) then QObj1 n (QArr (map (qjson thr) s))
      else QStr n
  end.

(* build: strings that start with '[' or '{' are texts of sub queries and parsed again; that second parse is not
   modelled -- the result is None *)
Definition opens (s : list N) : bool := match s with c :: _ => (c =? 91) || (c =? 123) | [] => false end.

Fixpoint build (j : qj) : option fq :=
  match j with
  | QStr s => if opens s || is_nil s then None else Some (FQ s [])
  | QArr l =>
      (fix all (l : list qj) (acc : list fq) : option fq :=
         match l with
         | [] => Some (FQ [] (rev acc))
         | x :: r => match build x with Some q => all r (q :: acc) | None => None end
         end) l []
  | QObj1 k v => match build v with Some d => Some (FQ k (fq_subs d)) | None => None end
  | QNull => Some (FQ [] [])
  end.

(* rendering of the tree as the compact text Marshal writes for it (names are plain: no escapes needed) *)
Fixpoint qj_jv (j : qj) : jv :=
  match j with
  | QStr s => JLeaf (TStr s)
  | QArr l => JArr (map qj_jv l)
  | QObj1 k v => JObj [(k, false, qj_jv v)]
  | QNull => JLeaf TNull
  end.

(* a query as BuildFieldQuery makes it: the root has no name, every other node has a name that is not the text of
   a sub query *)
Fixpoint wf_sub (q : fq) : bool :=
  match q with FQ n s => negb (is_nil n) && negb (opens n) && forallb wf_sub s end.
Definition wf_root (q : fq) : bool := is_nil (fq_name q) && forallb wf_sub (fq_subs q).

Fixpoint qsize (q : fq) : nat :=
  match q with FQ _ s => S (fold_right (fun x a => (qsize x + a)%nat) O s) end.

(* ---- the cache of filtered programs (OpcodeSet.QueryCache): keyed by the query's text ---- *)
Definition qcache := list (qj * code).

Fixpoint qj_eqb (a b : qj) : bool :=
  match a, b with
  | QStr s, QStr t => list_eqb s t
  | QArr l, QArr m =>
      (fix all (l m : list qj) : bool :=
         match l, m with
         | [], [] => true
         | x :: r, y :: r' => qj_eqb x y && all r r'
         | _, _ => false
         end) l m
  | QObj1 k v, QObj1 k' v' => list_eqb k k' && qj_eqb v v'
  | QNull, QNull => true
  | _, _ => false
  end.

Fixpoint cache_find (k : qj) (c : qcache) : option code :=
  match c with
  | [] => None
  | (k', p) :: r => if qj_eqb k k' then Some p else cache_find k r
  end.

(* getFilteredCodeSet: the cached program of the key if there is one, else filter and store *)
Definition get_filtered (thr : nat) (c : code) (st : qcache) (q : fq) : code * qcache :=
  let k := qjson thr q in
  match cache_find k st with
  | Some p => (p, st)
  | None => (filt c q, (k, filt c q) :: st)
  end.

(* a history of encodings of one type: each with a query or with none *)
Fixpoint run_history (thr : nat) (c : code) (st : qcache) (h : list (option fq)) : list code :=
  match h with
  | [] => []
  | None :: r => c :: run_history thr c st r
  | Some q :: r => let (p, st') := get_filtered thr c st q in p :: run_history thr c st' r
  end.

(* ---- wire format of the harness ----
   code:  s | p<code> | l<code> | m<code> | i | r<count>:(<len>:<key><code>)*
   value: N<len>:<raw> | Z | P<value> | A<count>:<value>* | M<count>:(<len>:<key><value>)* |
          R<count>:(<0|1><len>:<key><value>)* | D<code><value>
   query: Q<len>:<name><count>:<query>*                                                     *)
Fixpoint parse_code (fuel : nat) (l : list N) : option (code * list N) :=
  match fuel with
  | O => None
  | S f =>
      match l with
      | [] => None
      | c :: r =>
          if c =? 115 then Some (CScalar, r)
          else if c =? 105 then Some (CIface None, r)
          else if c =? 112 then match parse_code f r with Some (e, r') => Some (CPtr e, r') | None => None end
          else if c =? 108 then match parse_code f r with Some (e, r') => Some (CList e, r') | None => None end
          else if c =? 109 then match parse_code f r with Some (e, r') => Some (CMapOf e, r') | None => None end
          else if c =? 114 then
            match take_num r 0 20 with
            | Some (n, r1) =>
                (fix fields (k : nat) (l : list N) (acc : list (list N * code)) : option (code * list N) :=
                   match k with
                   | O => Some (CStruct (rev acc), l)
                   | S k' =>
                       match take_num l 0 20 with
                       | Some (kn, l2) =>
                           match parse_code f (skipn kn l2) with
                           | Some (e, l3) => fields k' l3 ((firstn kn l2, e) :: acc)
                           | None => None
                           end
                       | None => None
                       end
                   end) n r1 []
            | None => None
            end
          else None
      end
  end.

Fixpoint parse_val (fuel : nat) (l : list N) : option (val * list N) :=
  match fuel with
  | O => None
  | S f =>
      match l with
      | [] => None
      | c :: r =>
          if c =? 90 then Some (VNull, r)
          else if c =? 78 then
            match take_num r 0 20 with
            | Some (n, r1) => Some (VLeaf (firstn n r1), skipn n r1)
            | None => None
            end
          else if c =? 80 then match parse_val f r with Some (x, r') => Some (VPtr x, r') | None => None end
          else if c =? 68 then
            match parse_code (S (length r)) r with
            | Some (cd, r1) => match parse_val f r1 with Some (x, r2) => Some (VDyn cd x, r2) | None => None end
            | None => None
            end
          else if c =? 65 then
            match take_num r 0 20 with
            | Some (n, r1) =>
                (fix items (k : nat) (l : list N) (acc : list val) : option (val * list N) :=
                   match k with
                   | O => Some (VList (rev acc), l)
                   | S k' => match parse_val f l with Some (x, l') => items k' l' (x :: acc) | None => None end
                   end) n r1 []
            | None => None
            end
          else if c =? 77 then
            match take_num r 0 20 with
            | Some (n, r1) =>
                (fix members (k : nat) (l : list N) (acc : list (list N * val)) : option (val * list N) :=
                   match k with
                   | O => Some (VMap (rev acc), l)
                   | S k' =>
                       match take_num l 0 20 with
                       | Some (kn, l2) =>
                           match parse_val f (skipn kn l2) with
                           | Some (x, l3) => members k' l3 ((firstn kn l2, x) :: acc)
                           | None => None
                           end
                       | None => None
                       end
                   end) n r1 []
            | None => None
            end
          else if c =? 82 then
            match take_num r 0 20 with
            | Some (n, r1) =>
                (fix members (k : nat) (l : list N) (acc : list (list N * bool * val)) : option (val * list N) :=
                   match k with
                   | O => Some (VRec (rev acc), l)
                   | S k' =>
                       match l with
                       | o :: l1 =>
                           match take_num l1 0 20 with
                           | Some (kn, l2) =>
                               match parse_val f (skipn kn l2) with
                               | Some (x, l3) => members k' l3 ((firstn kn l2, o =? 49, x) :: acc)
                               | None => None
                               end
                           | None => None
                           end
                       | [] => None
                       end
                   end) n r1 []
            | None => None
            end
          else None
      end
  end.

Fixpoint parse_fq (fuel : nat) (l : list N) : option (fq * list N) :=
  match fuel with
  | O => None
  | S f =>
      match l with
      | c :: r =>
          if c =? 81 then
            match take_num r 0 20 with
            | Some (n, r1) =>
                let name := firstn n r1 in
                match take_num (skipn n r1) 0 20 with
                | Some (cnt, r2) =>
                    (fix subs (k : nat) (l : list N) (acc : list fq) : option (fq * list N) :=
                       match k with
                       | O => Some (FQ name (rev acc), l)
                       | S k' => match parse_fq f l with Some (q, l') => subs k' l' (q :: acc) | None => None end
                       end) cnt r2 []
                | None => None
                end
            | None => None
            end
          else None
      | [] => None
      end
  end.
